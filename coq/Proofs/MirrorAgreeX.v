(** C03 for mirrors, factored through the INVARIANTS.

    Proofs/MirrorAgree.v proves agreement of two mirror states that are each [reachable_b]
    (kernel operations only).  Reading the proof, [reachable_b] is used in exactly three ways:
      (1) [reachable_cinv] + [heights_contiguous_and_linked]: a non-empty committed-header store is
          a contiguous linked chain [hchain] from the initial height;
      (2) [commit_needs_certificate]: every committed-header store entry carries its certificate
          ([cert]) under the validator set the chain prescribes for its height ([chain_vals]);
      (3) [committed_headers_good]: a committed header has a non-nil hash and its hash flag set.
    [AgreeInv ih ivs s] is the bundle of exactly these three facts about the committed-header
    store of [s].  The agreement theorems are proved here from [AgreeInv] of the two states alone
    (no reachability, not even [1 <= ih] or [vs_ok ivs]); the theorems of Proofs/MirrorAgree.v
    are re-derived ([reachable_b -> AgreeInv]).  Proofs/MirrorHdrGoodX.v establishes [AgreeInv]
    over the crash / restart / local-action closures. *)
From Coq Require Import List NArith ZArith Arith Bool Lia ZifyBool ZifyN String.
From GV Require Import Base.Ints Gen.Math Gen.Kernel Model.Network Model.Mirror
  Proofs.Thresholds Proofs.Network Proofs.MirrorAuth Proofs.MirrorNoop Proofs.MirrorChain
  Proofs.MirrorCert Proofs.MirrorVals Proofs.MirrorPower Proofs.MirrorHdrGood Proofs.MirrorAgree.
Import ListNotations.
Local Open Scope N_scope.

(** * The bundle *)
Definition AgreeInv (ih : N) (ivs : valset) (s : kstate) : Prop :=
  (* the committed headers are empty or a contiguous, hash-linked chain from the initial height *)
  (st_hdrs s = [] \/ exists top, hchain ih top (st_hdrs s)) /\
  (* every committed header carries a certificate: >2/3 (ByzantineMajority) of the power of the set
     the chain prescribes, genuine precommits for exactly (height, certificate round, header hash) *)
  (forall h x cp, In (h, (x, cp)) (st_hdrs s) -> cert (chain_vals ih ivs (st_hdrs s) h) h x cp) /\
  (* a committed header's hash is not the nil hash and its hash flag is set *)
  (forall h x cp, In (h, (x, cp)) (st_hdrs s) -> hd_hash x <> [] /\ hd_ok x = true).

(** from the named invariants: chain invariant, certified headers, good headers *)
Lemma AgreeInv_intro ih ivs s : cinv ih ivs s -> hinv ih ivs s -> ginv s -> AgreeInv ih ivs s.
Proof.
  intros Hc Hh Hg. split; [|split].
  - pose proof (heights_contiguous_and_linked ih ivs s Hc) as H.
    destruct (k_chdr s) as [ch|]; [right; eexists; exact H|left; exact H].
  - exact Hh.
  - intros h x cp Hin. destruct (Hg h x cp Hin) as (A & B & _). split; assumption.
Qed.

Lemma AgreeInv_INV ih ivs s : INV ih ivs s -> ginv s -> AgreeInv ih ivs s.
Proof. intros (Hc & _ & _ & Hh) Hg. apply AgreeInv_intro; assumption. Qed.

(** sanity: the kernel-only closure satisfies the bundle *)
Lemma reachable_b_AgreeInv ih ivs s :
  1 <= ih -> vs_ok ivs = true -> reachable_b ih ivs s -> AgreeInv ih ivs s.
Proof.
  intros Hi Hok Hr. apply AgreeInv_INV; [apply reachable_INV; assumption|].
  intros h x cp Hin. exact (committed_headers_good ih ivs s Hi Hok Hr h x cp Hin).
Qed.

Lemma AgreeInv_hchain ih ivs s e : AgreeInv ih ivs s -> In e (st_hdrs s) -> exists top, hchain ih top (st_hdrs s).
Proof. intros ([E|H] & _) Hin; [rewrite E in Hin; destruct Hin|exact H]. Qed.

(** * Agreement from the bundle *)

(** one height, given that the two chains prescribe the same validators and powers for it *)
Lemma agree_core_inv ih ivs s1 s2 V Bh h x1 cp1 x2 cp2 :
  AgreeInv ih ivs s1 -> AgreeInv ih ivs s2 ->
  cert_sigs_in V s1 -> cert_sigs_in V s2 -> hash_binds_next s1 s2 ->
  In (h, (x1, cp1)) (st_hdrs s1) -> In (h, (x2, cp2)) (st_hdrs s2) ->
  vs_keys (chain_vals ih ivs (st_hdrs s1) h) = vs_keys (chain_vals ih ivs (st_hdrs s2) h) ->
  vs_pows (chain_vals ih ivs (st_hdrs s1) h) = vs_pows (chain_vals ih ivs (st_hdrs s2) h) ->
  hyps_at (chain_vals ih ivs (st_hdrs s1) h) Bh V h cp1 cp2 ->
  agree_concl ih ivs s1 s2 h x1 x2.
Proof.
  intros R1 R2 C1 C2 Hbind I1 I2 Hk Hp (Hbound & HA1 & Hrest).
  pose proof (proj1 (proj2 R1) _ _ _ I1) as Ce1.
  pose proof (proj1 (proj2 R2) _ _ _ I2) as Ce2.
  destruct (proj2 (proj2 R1) _ _ _ I1) as (N1 & O1).
  destruct (proj2 (proj2 R2) _ _ _ I2) as (N2 & O2).
  assert (Eh : hd_hash x1 = hd_hash x2).
  { eapply (agree_at_height _ _ Bh V h x1 cp1 x2 cp2 Hk Hp Ce1 Ce2); try eassumption.
    - eapply C1; exact I1.
    - eapply C2; exact I2. }
  split; [exact Eh|]. split; [|split; assumption].
  eapply Hbind; eassumption.
Qed.

(** THE GENERAL FORM: agreement at height [h] from the hypotheses at the common heights up to [h] *)
Theorem mirrors_agree_upto_inv ih ivs s1 s2 V (B : N -> list N) :
  AgreeInv ih ivs s1 -> AgreeInv ih ivs s2 ->
  cert_sigs_in V s1 -> cert_sigs_in V s2 -> hash_binds_next s1 s2 ->
  forall h,
  (forall h' x1 cp1 x2 cp2, h' <= h ->
     In (h', (x1, cp1)) (st_hdrs s1) -> In (h', (x2, cp2)) (st_hdrs s2) ->
     hyps_at (chain_vals ih ivs (st_hdrs s1) h') (B h') V h' cp1 cp2) ->
  forall x1 cp1 x2 cp2, In (h, (x1, cp1)) (st_hdrs s1) -> In (h, (x2, cp2)) (st_hdrs s2) ->
    agree_concl ih ivs s1 s2 h x1 x2.
Proof.
  intros R1 R2 C1 C2 Hbind h.
  remember (N.to_nat (h - ih)) as n eqn:En. revert h En.
  induction n as [|n IH]; intros h En Hyp x1 cp1 x2 cp2 I1 I2.
  all: destruct (AgreeInv_hchain ih ivs s1 _ R1 I1) as (top1 & H1).
  all: destruct (AgreeInv_hchain ih ivs s2 _ R2 I2) as (top2 & H2).
  all: destruct (proj2 (hchain_bounds _ _ _ H1) _ _ I1) as [Hge _].
  - assert (h = ih) by lia. subst h.
    eapply agree_core_inv; try eassumption.
    + rewrite !chain_vals_init. reflexivity.
    + rewrite !chain_vals_init. reflexivity.
    + eapply Hyp; [lia|exact I1|exact I2].
  - assert (Hlt : ih < h) by lia.
    destruct (hchain_pred _ _ _ H1 _ _ I1 Hlt) as ([px1 pcp1] & P1).
    destruct (hchain_pred _ _ _ H2 _ _ I2 Hlt) as ([px2 pcp2] & P2).
    assert (Hprev : agree_concl ih ivs s1 s2 (h - 1) px1 px2).
    { apply (IH (h - 1)) with (cp1 := pcp1) (cp2 := pcp2); [lia| |assumption|assumption].
      intros h' y1 c1 y2 c2 Hle J1 J2. eapply Hyp; [lia|exact J1|exact J2]. }
    destruct Hprev as (_ & Hve & _ & _). destruct (valset_equal_keys _ _ Hve) as [Ek Ep].
    eapply agree_core_inv; try eassumption.
    + rewrite (chain_vals_succ ih ivs _ _ _ _ _ H1 Hlt P1), (chain_vals_succ ih ivs _ _ _ _ _ H2 Hlt P2). exact Ek.
    + rewrite (chain_vals_succ ih ivs _ _ _ _ _ H1 Hlt P1), (chain_vals_succ ih ivs _ _ _ _ _ H2 Hlt P2). exact Ep.
    + eapply Hyp; [lia|exact I1|exact I2].
Qed.

(** all rounds: A1, A2, A3 and the Byzantine bound at every height both nodes committed *)
Theorem mirrors_agree_inv ih ivs s1 s2 V (B : N -> list N) :
  AgreeInv ih ivs s1 -> AgreeInv ih ivs s2 ->
  cert_sigs_in V s1 -> cert_sigs_in V s2 -> hash_binds_next s1 s2 ->
  (forall h x1 cp1 x2 cp2, In (h, (x1, cp1)) (st_hdrs s1) -> In (h, (x2, cp2)) (st_hdrs s2) ->
     byz_bound (chain_vals ih ivs (st_hdrs s1) h) (B h) /\
     A1m (chain_vals ih ivs (st_hdrs s1) h) (B h) V h /\
     A2m (chain_vals ih ivs (st_hdrs s1) h) (B h) V h /\
     A3m (chain_vals ih ivs (st_hdrs s1) h) (B h) V h) ->
  forall h x1 cp1 x2 cp2, In (h, (x1, cp1)) (st_hdrs s1) -> In (h, (x2, cp2)) (st_hdrs s2) ->
    hd_hash x1 = hd_hash x2 /\
    valset_equal (hd_next x1) (hd_next x2) = true /\
    vs_keys (chain_vals ih ivs (st_hdrs s1) h) = vs_keys (chain_vals ih ivs (st_hdrs s2) h) /\
    vs_pows (chain_vals ih ivs (st_hdrs s1) h) = vs_pows (chain_vals ih ivs (st_hdrs s2) h).
Proof.
  intros R1 R2 C1 C2 Hbind Hyp h x1 cp1 x2 cp2 I1 I2.
  apply (mirrors_agree_upto_inv ih ivs s1 s2 V B R1 R2 C1 C2 Hbind h) with (cp1 := cp1) (cp2 := cp2);
    [|assumption|assumption].
  intros h' y1 c1 y2 c2 _ J1 J2. destruct (Hyp _ _ _ _ _ J1 J2) as (A & B1 & C & D).
  split; [exact A|]. split; [exact B1|]. right. split; assumption.
Qed.

(** same round, one height *)
Theorem mirrors_agree_same_round_at_inv ih ivs s1 s2 V Bh h x1 cp1 x2 cp2 :
  AgreeInv ih ivs s1 -> AgreeInv ih ivs s2 ->
  cert_sigs_in V s1 -> cert_sigs_in V s2 ->
  In (h, (x1, cp1)) (st_hdrs s1) -> In (h, (x2, cp2)) (st_hdrs s2) ->
  vs_keys (chain_vals ih ivs (st_hdrs s1) h) = vs_keys (chain_vals ih ivs (st_hdrs s2) h) ->
  vs_pows (chain_vals ih ivs (st_hdrs s1) h) = vs_pows (chain_vals ih ivs (st_hdrs s2) h) ->
  cp_round cp1 = cp_round cp2 ->
  byz_bound (chain_vals ih ivs (st_hdrs s1) h) Bh -> A1m (chain_vals ih ivs (st_hdrs s1) h) Bh V h ->
  hd_hash x1 = hd_hash x2.
Proof.
  intros R1 R2 C1 C2 I1 I2 Hk Hp Er Hbound HA1.
  pose proof (proj1 (proj2 R1) _ _ _ I1) as Ce1.
  pose proof (proj1 (proj2 R2) _ _ _ I2) as Ce2.
  destruct (proj2 (proj2 R1) _ _ _ I1) as (N1 & _).
  destruct (proj2 (proj2 R2) _ _ _ I2) as (N2 & _).
  eapply (agree_at_height _ _ Bh V h x1 cp1 x2 cp2 Hk Hp Ce1 Ce2); try eassumption.
  - eapply C1; exact I1.
  - eapply C2; exact I2.
  - left. exact Er.
Qed.

Corollary mirrors_agree_same_round_genesis_inv ih ivs s1 s2 V Bh x1 cp1 x2 cp2 :
  AgreeInv ih ivs s1 -> AgreeInv ih ivs s2 ->
  cert_sigs_in V s1 -> cert_sigs_in V s2 ->
  In (ih, (x1, cp1)) (st_hdrs s1) -> In (ih, (x2, cp2)) (st_hdrs s2) ->
  cp_round cp1 = cp_round cp2 ->
  byz_bound ivs Bh -> A1m ivs Bh V ih ->
  hd_hash x1 = hd_hash x2.
Proof.
  intros R1 R2 C1 C2 I1 I2 Er Hbound HA1.
  eapply (mirrors_agree_same_round_at_inv ih ivs s1 s2 V Bh ih x1 cp1 x2 cp2); try eassumption;
    rewrite ?chain_vals_init; try reflexivity; assumption.
Qed.

(** same round along the chain *)
Theorem mirrors_agree_same_round_inv ih ivs s1 s2 V (B : N -> list N) :
  AgreeInv ih ivs s1 -> AgreeInv ih ivs s2 ->
  cert_sigs_in V s1 -> cert_sigs_in V s2 -> hash_binds_next s1 s2 ->
  forall h,
  (forall h' x1 cp1 x2 cp2, h' <= h ->
     In (h', (x1, cp1)) (st_hdrs s1) -> In (h', (x2, cp2)) (st_hdrs s2) ->
     cp_round cp1 = cp_round cp2 /\
     byz_bound (chain_vals ih ivs (st_hdrs s1) h') (B h') /\
     A1m (chain_vals ih ivs (st_hdrs s1) h') (B h') V h') ->
  forall x1 cp1 x2 cp2, In (h, (x1, cp1)) (st_hdrs s1) -> In (h, (x2, cp2)) (st_hdrs s2) ->
    hd_hash x1 = hd_hash x2 /\ valset_equal (hd_next x1) (hd_next x2) = true.
Proof.
  intros R1 R2 C1 C2 Hbind h Hyp x1 cp1 x2 cp2 I1 I2.
  destruct (mirrors_agree_upto_inv ih ivs s1 s2 V B R1 R2 C1 C2 Hbind h) with (x1 := x1) (cp1 := cp1) (x2 := x2) (cp2 := cp2)
    as (A & B1 & _); [|assumption|assumption|split; assumption].
  intros h' y1 c1 y2 c2 Hle J1 J2. destruct (Hyp _ _ _ _ _ Hle J1 J2) as (A & B1 & C).
  split; [exact B1|]. split; [exact C|]. left. exact A.
Qed.

(** the bridge to Model/Network.v from the bundle *)
Theorem committed_is_network_quorum_inv ih ivs s V Bh h x cp :
  AgreeInv ih ivs s ->
  In (h, (x, cp)) (st_hdrs s) -> covers_cert V x cp ->
  total (vs_pows (chain_vals ih ivs (st_hdrs s) h)) < two64 ->
  hd_hash x <> [] /\
  decided (fun _ => vs_pows (chain_vals ih ivs (st_hdrs s) h))
          (fun _ => byz_mask (chain_vals ih ivs (st_hdrs s) h) Bh)
          (tr_votes (vs_keys (chain_vals ih ivs (st_hdrs s) h)) h V) h (enc (hd_hash x)).
Proof.
  intros R Hin Hcov Hw.
  destruct (proj2 (proj2 R) _ _ _ Hin) as (Hne & _).
  split; [exact Hne|]. split.
  - intros E. apply enc_nil_iff in E. contradiction.
  - exists (cp_round cp). apply cert_bquorum; [|exact Hcov|exact Hw].
    exact (proj1 (proj2 R) _ _ _ Hin).
Qed.

(** * Sanity check: the theorems of Proofs/MirrorAgree.v follow *)
Theorem mirrors_agree_rederived ih ivs s1 s2 V (B : N -> list N) :
  1 <= ih -> vs_ok ivs = true -> reachable_b ih ivs s1 -> reachable_b ih ivs s2 ->
  cert_sigs_in V s1 -> cert_sigs_in V s2 -> hash_binds_next s1 s2 ->
  (forall h x1 cp1 x2 cp2, In (h, (x1, cp1)) (st_hdrs s1) -> In (h, (x2, cp2)) (st_hdrs s2) ->
     byz_bound (chain_vals ih ivs (st_hdrs s1) h) (B h) /\
     A1m (chain_vals ih ivs (st_hdrs s1) h) (B h) V h /\
     A2m (chain_vals ih ivs (st_hdrs s1) h) (B h) V h /\
     A3m (chain_vals ih ivs (st_hdrs s1) h) (B h) V h) ->
  forall h x1 cp1 x2 cp2, In (h, (x1, cp1)) (st_hdrs s1) -> In (h, (x2, cp2)) (st_hdrs s2) ->
    hd_hash x1 = hd_hash x2 /\
    valset_equal (hd_next x1) (hd_next x2) = true /\
    vs_keys (chain_vals ih ivs (st_hdrs s1) h) = vs_keys (chain_vals ih ivs (st_hdrs s2) h) /\
    vs_pows (chain_vals ih ivs (st_hdrs s1) h) = vs_pows (chain_vals ih ivs (st_hdrs s2) h).
Proof.
  intros Hi Hok R1 R2. apply mirrors_agree_inv; apply reachable_b_AgreeInv; assumption.
Qed.

(** [AgreeInv] is satisfiable on a non-trivial state: node 1 of Proofs/MirrorAgreeWitness.v
    (two committed headers, a validator-set change) - see Proofs/MirrorAgreeXWit.v for the
    examples with crashes. *)
