(** Proofs about the DaisyChain test-network model (C20, part iii). *)
From Coq Require Import List NArith ZArith String Bool Lia.
From GV Require Import Base.Ints Model.P2PRelayVocab Gen.Feedback Gen.RelaySwap Model.P2PRelay Monitors.C20m.
Import ListNotations.
Local Open Scope N_scope.

(** A node lets message (k,i) travel on: it has no handler (pass-through) or its handler accepted. *)
Definition passes (k : kind) (i : N) (n : nat * option handler) : Prop :=
  match snd n with None => True | Some h => h k i = FeedbackAccepted end.

(** Exact characterisation of [dc_travel] (the fromLeft/fromRight + handleMessage logic) along one direction:
    the handler of a node sees the message iff every node before it on the way passes it on. *)
Lemma dc_travel_only_if l k i j : In j (dc_travel l k i) ->
  exists l1 h l2, l = l1 ++ (j, Some h) :: l2 /\ Forall (passes k i) l1.
Proof.
  induction l as [|[ix [h|]] r IH]; cbn [dc_travel]; intros H.
  - contradiction.
  - destruct H as [->|H].
    + exists [], h, r. split; [reflexivity|constructor].
    + destruct (N.eqb_spec (h k i) FeedbackAccepted) as [E|]; [|contradiction].
      destruct (IH H) as (l1 & h' & l2 & -> & F).
      exists ((ix, Some h) :: l1), h', l2. split; [reflexivity|]. constructor; [exact E|exact F].
  - destruct (IH H) as (l1 & h' & l2 & -> & F).
    exists ((ix, None) :: l1), h', l2. split; [reflexivity|]. constructor; [exact I|exact F].
Qed.

Lemma dc_travel_if l1 : forall k i j h l2, Forall (passes k i) l1 -> In j (dc_travel (l1 ++ (j, Some h) :: l2) k i).
Proof.
  induction l1 as [|[ix [hx|]] r IH]; intros k i j h l2 F; cbn [app dc_travel].
  - left; reflexivity.
  - inversion F as [|? ? P F']; subst. unfold passes in P; cbn [snd] in P. rewrite P, N.eqb_refl.
    right. apply IH; exact F'.
  - inversion F as [|? ? _ F']; subst. apply IH; exact F'.
Qed.

Theorem daisy_travel_spec l k i j : NoDup (map fst l) ->
  (In j (dc_travel l k i) <-> exists l1 h l2, l = l1 ++ (j, Some h) :: l2 /\ Forall (passes k i) l1).
Proof.
  intros _. split; [apply dc_travel_only_if|].
  intros (l1 & h & l2 & -> & F). apply dc_travel_if; exact F.
Qed.

(** The property restricted to what the test network implements: if every node on the way has a handler,
    a message reaches a handler only if all nodes before it accepted it. *)
Theorem daisy_relay_only_if_accepted_partial l k i j :
  Forall (fun n => snd n <> None) l -> In j (dc_travel l k i) ->
  exists l1 h l2, l = l1 ++ (j, Some h) :: l2 /\
    Forall (fun n => exists hx, snd n = Some hx /\ hx k i = FeedbackAccepted) l1.
Proof.
  intros Hh Hin. destruct (dc_travel_only_if _ _ _ _ Hin) as (l1 & h & l2 & -> & F).
  exists l1, h, l2. split; [reflexivity|].
  apply Forall_app in Hh as [Hh1 _]. rewrite Forall_forall in *. intros [ix [hx|]] Hx.
  - exists hx. split; [reflexivity|]. exact (F _ Hx).
  - exfalso. exact (Hh1 _ Hx eq_refl).
Qed.

(** Full statement (what C20 asks of every network): a message reaches a handler only if every node
    before it has a handler that accepted it.  It is FALSE of the DaisyChain model: *)
Definition daisy_no_handler_no_relay_statement : Prop :=
  forall l k i j, In j (dc_travel l k i) ->
  exists l1 h l2, l = l1 ++ (j, Some h) :: l2 /\
    Forall (fun n => exists hx, snd n = Some hx /\ hx k i = FeedbackAccepted) l1.

Definition acc_all : handler := fun _ _ => FeedbackAccepted.

Theorem daisy_no_handler_no_relay_refuted : ~ daisy_no_handler_no_relay_statement.
Proof.
  intros H.
  destruct (H [(1%nat, None); (2%nat, Some acc_all)] KPH 0 2%nat) as (l1 & h & l2 & E & F).
  - vm_compute. left; reflexivity.
  - destruct l1 as [|a l1]; [discriminate E|].
    inversion E; subst a. inversion F as [|? ? (hx & Hx & _) _]; subst. discriminate Hx.
Qed.

(** The same witness on a whole line A-B-C with B's handler nil: C's handler sees A's message
    (this is the case replayed on the real network on every run, known finding daisychain-nil-handler-passthrough). *)
Example daisy_nil_passthrough_line :
  dc_send [Some acc_all; None; Some acc_all] 0 KPH 0 = [2%nat] /\
  dc_send [Some acc_all; Some (fun _ _ => FeedbackIgnored); Some acc_all] 0 KPH 0 = [1%nat] /\
  dc_send [Some acc_all; Some acc_all; Some acc_all] 1 KPV 0 = [0%nat; 2%nat].
Proof. vm_compute. repeat split. Qed.

(** Model outputs satisfy the weak DaisyChain monitor on a line A-B-C, for every handler assignment of B and
    every origin (the three-node lines are the ones C20 quantifies over). *)
Theorem model_satisfies_daisy_mon_abc : forall (hb : option handler) (origin : nat) k i, (origin < 3)%nat ->
  c20_daisy_mon false
    [Some 1; match hb with Some h => Some (h k i) | None => None end; Some 1] origin
    (dc_send [Some acc_all; hb; Some acc_all] origin k i) = true.
Proof.
  intros hb origin k i Ho.
  destruct origin as [|[|[|?]]]; [| | |lia]; destruct hb as [h|]; unfold dc_send; cbn;
    try reflexivity; unfold FeedbackAccepted; destruct (N.eqb_spec (h k i) 1) as [E|E]; cbn; try reflexivity;
    unfold node_ok; try rewrite E; reflexivity.
Qed.
