(** A compositional logic for the state/output monad of the round state machine model.

    [hr h0 r0 P m]: started in any state whose round is (h0, r0), the computation [m] emits only
    outputs satisfying [P], and if it falls through ([Go]) the round is still (h0, r0).
    (Every path of the model that changes the round ends suspended in a round entrance.)
    Proof terms are lemma applications only; no large symbolic evaluation is left to the kernel. *)
From Coq Require Import List NArith String Bool Lia.
From GV Require Import Base.Ints Gen.Math Gen.StepSM Model.StateMachine.
Import ListNotations.
Local Open Scope N_scope.

Definition at_round (h0 r0 : N) (s : sm) : Prop := rH (rl s) = h0 /\ rR (rl s) = r0.

Definition hr (h0 r0 : N) (P : out -> Prop) (m : M) : Prop :=
  forall s, at_round h0 r0 s ->
    Forall P (snd (fst (m s))) /\ (snd (m s) = Go -> at_round h0 r0 (fst (fst (m s)))).

Lemma hr_ret h0 r0 P : hr h0 r0 P ret.
Proof. intros s H. split; [constructor|intros _; exact H]. Qed.

Lemma hr_stop h0 r0 P f : f <> Go -> hr h0 r0 P (stop f).
Proof. intros Hf s H. split; [constructor|simpl; intros E; congruence]. Qed.

Lemma hr_say h0 r0 (P : out -> Prop) o : P o -> hr h0 r0 P (say o).
Proof. intros Ho s H. split; [repeat constructor; exact Ho|intros _; exact H]. Qed.

Lemma hr_upd h0 r0 P f : (forall s, rH (rl (f s)) = rH (rl s) /\ rR (rl (f s)) = rR (rl s)) -> hr h0 r0 P (upd f).
Proof.
  intros Hf s [H1 H2]. split; [constructor|]. intros _. unfold at_round; simpl.
  destruct (Hf s) as [A B]. rewrite A, B. auto.
Qed.

Lemma hr_updr h0 r0 P f : (forall l, rH (f l) = rH l /\ rR (f l) = rR l) -> hr h0 r0 P (updr f).
Proof.
  intros Hf s [H1 H2]. split; [constructor|]. intros _. unfold at_round; simpl.
  destruct (Hf (rl s)) as [A B]. rewrite A, B. auto.
Qed.

Lemma hr_updr_at h0 r0 P f : (forall l, rH (f l) = h0 /\ rR (f l) = r0) -> hr h0 r0 P (updr f).
Proof.
  intros Hf s [H1 H2]. split; [constructor|]. intros _. unfold at_round; simpl. apply Hf.
Qed.

Lemma hr_bind h0 r0 P a b : hr h0 r0 P a -> hr h0 r0 P b -> hr h0 r0 P (a ;; b).
Proof.
  intros Ha Hb s H. unfold bindM.
  destruct (Ha s H) as [Fa Ga].
  destruct (a s) as [[s1 o1] f1] eqn:Ea. simpl in *.
  destruct f1; simpl; try (split; [exact Fa|intros E; discriminate E]).
  specialize (Ga eq_refl).
  destruct (Hb s1 Ga) as [Fb Gb].
  destruct (b s1) as [[s2 o2] f2] eqn:Eb. simpl in *.
  split; [apply Forall_app; split; assumption|exact Gb].
Qed.

Lemma hr_withS h0 r0 P (k : sm -> M) : (forall s0, at_round h0 r0 s0 -> hr h0 r0 P (k s0)) -> hr h0 r0 P (withS k).
Proof. intros Hk s H. unfold withS. exact (Hk s H s H). Qed.

Lemma hr_when h0 r0 P b m : hr h0 r0 P m -> hr h0 r0 P (when b m).
Proof. intros Hm. destruct b; simpl; [exact Hm|apply hr_ret]. Qed.

Lemma hr_weaken h0 r0 (P Q : out -> Prop) m : (forall o, P o -> Q o) -> hr h0 r0 P m -> hr h0 r0 Q m.
Proof.
  intros PQ Hm s H. destruct (Hm s H) as [F G]. split; [|exact G].
  eapply Forall_impl; [exact PQ|exact F].
Qed.

(** a computation that always ends suspended / stopped may change the round *)
Definition ends (P : out -> Prop) (m : M) : Prop :=
  forall s, Forall P (snd (fst (m s))) /\ snd (m s) <> Go.

Lemma hr_of_ends h0 r0 P m : (forall s, at_round h0 r0 s -> Forall P (snd (fst (m s))) /\ snd (m s) <> Go) -> hr h0 r0 P m.
Proof. intros Hm s H. destruct (Hm s H) as [F G]. split; [exact F|intros E; congruence]. Qed.

Ltac hr_setters := intros ?; split; reflexivity.

Ltac hr_step :=
  lazymatch goal with
  | |- hr _ _ _ ret => apply hr_ret
  | |- hr _ _ _ (stop _) => apply hr_stop; discriminate
  | |- hr _ _ _ (upd _) => apply hr_upd; hr_setters
  | |- hr _ _ _ (updr _) => apply hr_updr; hr_setters
  | |- hr _ _ _ (bindM _ _) => apply hr_bind
  | |- hr _ _ _ (when _ _) => apply hr_when
  | |- hr _ _ _ (withS _) => apply hr_withS; let s0 := fresh "s0" in let A := fresh "A" in intros s0 A
  end.
