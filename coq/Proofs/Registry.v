(** C09 (iii): Registry.Unmarshal is total on every byte string (with the extracted length guard). *)
From Coq Require Import List NArith ZArith String Bool Lia.
From GV Require Import Base.Ints Model.Registry Gen.RegistryC09.
Import ListNotations.
Local Open Scope Z_scope.

Lemma slice_ok : forall b lo hi s, 0 <= lo -> lo <= hi -> hi <= blen b -> exists r, slice_bytes b lo hi s = Ok r.
Proof.
  intros b lo hi s H1 H2 H3. unfold slice_bytes, blen in *.
  destruct (lo <? 0) eqn:A; [apply Z.ltb_lt in A; lia |].
  destruct (hi <? lo) eqn:B; [apply Z.ltb_lt in B; lia |].
  destruct (Z.of_nat (Datatypes.length b) <? hi) eqn:C; [apply Z.ltb_lt in C; lia |].
  cbn. eexists; reflexivity.
Qed.

Lemma unmarshal_total_general : forall g psize known b, 0 <= psize -> psize <= g ->
  exists o, unmarshal (Some g) psize known b = Ok o.
Proof.
  intros g psize known b Hp Hg. unfold unmarshal.
  destruct (blen b <? g) eqn:L; [eexists; reflexivity |].
  apply Z.ltb_ge in L.
  destruct (slice_ok b 0 psize "Registry.Unmarshal:b[:prefixSize]") as [p Hs]; try lia.
  rewrite Hs. cbn [bind].
  destruct (existsb (bytes_eqb (trim_right_zeros p)) known); [| eexists; reflexivity].
  destruct (slice_ok b psize (blen b) "Registry.Unmarshal:b[prefixSize:]") as [r Hr]; try lia.
  rewrite Hr. cbn [bind]. eexists; reflexivity.
Qed.

Lemma registry_unmarshal_total : forall known b,
  exists o, unmarshal unmarshal_len_guard registry_prefix_size known b = Ok o.
Proof.
  intros known b. apply unmarshal_total_general; vm_compute; discriminate.
Qed.

(** the guard is what makes it total: without it a short input reaches the slice expression *)
Lemma unguarded_short_input_panics :
  exists s, unmarshal None registry_prefix_size [] [1%N] = Panic s.
Proof. vm_compute. eexists; reflexivity. Qed.

Lemma short_input_is_an_error : forall known b, blen b < registry_prefix_size ->
  unmarshal unmarshal_len_guard registry_prefix_size known b = Ok UErrShort.
Proof.
  intros known b H. change registry_prefix_size with 8 in H. apply Z.ltb_lt in H.
  unfold unmarshal. change unmarshal_len_guard with (Some 8). cbv beta iota. rewrite H. reflexivity.
Qed.
