(** C13 (BLS finalized proofs) - proofs about Model/BlsFinal.v: Finalize followed by
    ValidateFinalizedProof returns the signer sets it was built from; ValidateFinalizedProof is total;
    Finalize does not depend on the order of the rest proofs; what happens outside the guards. *)
From Coq Require Import List NArith ZArith String Bool Lia ZifyBool ZifyN ZifyNat Permutation Sorted.
From GV Require Import Base.Ints Base.GoBytes Model.SimpleProofBase Model.CombIndex Model.BlsFinal
  Proofs.CombIndex Proofs.BlsFinalBase Proofs.BlsFinalSort.
Import ListNotations.
Local Open Scope N_scope.
Local Notation length := List.length.

(* ------------------------------------------------------------------ specification vocabulary *)
(** A block: sign content and its signer set as the strictly ascending list of key indices. *)
Definition block : Type := (list N * list Z)%type.

(** The proof object Finalize receives for a block: SigBits is the mask of the signer set. *)
Definition fp_of (b : block) : fproof := mk_fproof (fst b) (mask_of (snd b)).

Definition nonempty (b : block) : bool := match snd b with [] => false | _ => true end.

(** The Rest entry Finalize writes for block [b] when [used] are the keys used so far. *)
Definition entry_of (n : Z) (used : N) (b : block) : rest_entry :=
  let proj := proj_of n used in
  let rl := map (idx_in proj) (snd b) in
  (fst b, [(key_id (lenZ rl) (rank (lenZ proj) 0 rl), FAgg (fst b) (snd b))]).

Fixpoint fin_entries (n : Z) (used : N) (bs : list block) : list rest_entry :=
  match bs with
  | [] => []
  | b :: t =>
      if nonempty b then entry_of n used b :: fin_entries n (N.lor used (mask_of (snd b))) t
      else fin_entries n used t
  end.

Definition disj_used (used : N) (l : list Z) : Prop :=
  forall x, In x l -> N.testbit used (Z.to_N x) = false.

(** Every block is a set of keys below [n] and shares no key with [used] or an earlier block. *)
Fixpoint blocks_ok (n : Z) (used : N) (bs : list block) : Prop :=
  match bs with
  | [] => True
  | b :: t => asc_in n (snd b) /\ disj_used used (snd b) /\ blocks_ok n (N.lor used (mask_of (snd b))) t
  end.

(* ------------------------------------------------------------------ small helpers *)
Lemma listZ_eqb_refl l : listZ_eqb l l = true.
Proof. induction l as [|x l IH]; cbn [listZ_eqb]; [reflexivity|]. rewrite Z.eqb_refl. exact IH. Qed.

Lemma alist_set_absent {V} (m : list (list N * V)) k v : alist_find k m = None -> alist_set m k v = m ++ [(k, v)].
Proof.
  induction m as [|[k' v'] m IH]; intros H; cbn [alist_set app]; [reflexivity|].
  cbn [alist_find] in H. destruct (bytes_eqb k' k); [discriminate|]. rewrite IH by exact H. reflexivity.
Qed.

Lemma alist_find_app_none {V} (m : list (list N * V)) k k' v :
  alist_find k m = None -> k' <> k -> alist_find k (m ++ [(k', v)]) = None.
Proof.
  induction m as [|[k2 v2] m IH]; intros H Hne; cbn [alist_find app].
  - destruct (bytes_eqb k' k) eqn:E; [apply bytes_eqb_eq in E; contradiction|reflexivity].
  - cbn [alist_find] in H. destruct (bytes_eqb k2 k); [discriminate|]. apply IH; assumption.
Qed.

Lemma asc_in_len n l : asc_in n l -> (0 <= n)%Z -> (lenZ l <= n)%Z.
Proof.
  intros H Hn. destruct l as [|x l]; [unfold lenZ; cbn [length]; lia|].
  pose proof (asc_from_length 0 n (x :: l) H ltac:(discriminate)). unfold lenZ. lia.
Qed.

Lemma block_in_proj n used l : asc_in n l -> disj_used used l -> forall x, In x l -> In x (proj_of n used).
Proof.
  intros Ha Hd x Hx. apply proj_of_In. split; [exact (asc_from_In _ _ _ _ Ha Hx)|apply Hd; exact Hx].
Qed.

Lemma block_rl_asc n used l : (0 <= n)%Z -> asc_in n l -> disj_used used l ->
  asc_in (lenZ (proj_of n used)) (map (idx_in (proj_of n used)) l).
Proof.
  intros Hn Ha Hd. unfold asc_in.
  apply (map_idx_asc (proj_of n used) 0 n (proj_of_asc n used Hn) l 0 n 0 Ha).
  - apply block_in_proj; assumption.
  - intros x _. apply idx_in_nonneg.
Qed.

Lemma mask_of_below_list n l : (forall x, In x l -> (0 <= x < n)%Z) -> below n (mask_of l).
Proof.
  intros H i Hi. rewrite mask_of_testbit in Hi. apply existsb_exists in Hi as (x & Hx & E).
  specialize (H x Hx). lia.
Qed.

Lemma encode_mask_rank n l : asc_in n l -> encode_mask n (mask_of l) = Ok (rank n 0 l).
Proof. intros H. rewrite encode_mask_of by exact H. apply encode_rank. exact H. Qed.

Lemma rank_lt0 n l : asc_in n l -> rank n 0 l < B n (lenZ l).
Proof. intros H. pose proof (rank_lt n 0 l H) as R. rewrite Z.sub_0_r in R. exact R. Qed.

(* ------------------------------------------------------------------ one step of Finalize's loop *)
Lemma finalize_rest_step_empty n b t used out : snd b = [] ->
  finalize_rest n (fp_of b :: t) used out = finalize_rest n t used out.
Proof. intros E. cbn [finalize_rest fp_of fp_bits]. rewrite E. reflexivity. Qed.

Lemma finalize_rest_step n b t used out : (0 <= n)%Z -> below n used ->
  asc_in n (snd b) -> disj_used used (snd b) -> nonempty b = true ->
  finalize_rest n (fp_of b :: t) used out =
  finalize_rest n t (N.lor used (mask_of (snd b)))
    (rest_set out (fst b) (snd (entry_of n used b))).
Proof.
  intros Hn Hb Ha Hd Hne. destruct b as [m l]. cbn [fst snd] in *.
  cbn [finalize_rest fp_of fp_bits fp_msg fst snd].
  rewrite (popcountZ_mask_of_len n l Ha).
  destruct l as [|x l']; [discriminate|]. set (l := x :: l') in *.
  assert (Hlen : (lenZ l =? 0)%Z = false) by (unfold l; rewrite lenZ_cons; pose proof (lenZ_nonneg l'); lia).
  rewrite Hlen. rewrite create_projection_ok by assumption. cbn [bind].
  rewrite (bits_all_mask_of n l Ha).
  rewrite project_bits_ok by (apply block_in_proj; assumption). cbn [bind].
  rewrite N.lor_0_l.
  pose proof (block_rl_asc n used l Hn Ha Hd) as Hrl.
  rewrite (encode_mask_rank _ _ Hrl). cbn [bind].
  rewrite (popcountZ_mask_of_len _ _ Hrl).
  reflexivity.
Qed.

Lemma finalize_rest_spec n : (0 <= n)%Z -> forall bs used out,
  below n used -> blocks_ok n used bs -> NoDup (map fst bs) ->
  (forall b, In b bs -> alist_find (fst b) out = None) ->
  finalize_rest n (map fp_of bs) used out = Ok (out ++ fin_entries n used bs).
Proof.
  intros Hn. induction bs as [|b t IH]; intros used out Hb Hok Hnd Hout.
  - cbn [map finalize_rest fin_entries]. rewrite app_nil_r. reflexivity.
  - destruct Hok as (Ha & Hd & Hok). cbn [map fin_entries]. inversion Hnd as [|? ? Hni Hnd']; subst.
    destruct (nonempty b) eqn:Hne.
    + rewrite finalize_rest_step by assumption.
      unfold rest_set. rewrite alist_set_absent by (apply Hout; left; reflexivity).
      rewrite IH.
      * rewrite <- app_assoc. cbn [app entry_of fst snd]. reflexivity.
      * apply lor_below; [exact Hb|]. apply (mask_of_below 0 n); [lia|exact Ha].
      * exact Hok.
      * exact Hnd'.
      * intros b' Hb'. apply alist_find_app_none; [apply Hout; right; exact Hb'|].
        intros E. apply Hni. rewrite E. apply in_map. exact Hb'.
    + assert (E : snd b = []) by (unfold nonempty in Hne; destruct (snd b); [reflexivity|discriminate]).
      rewrite finalize_rest_step_empty by exact E.
      rewrite E in Hok. cbn [mask_of] in Hok. rewrite N.lor_0_r in Hok.
      apply IH; try assumption. intros b' Hb'. apply Hout. right. exact Hb'.
Qed.

(* ------------------------------------------------------------------ ValidateFinalizedProof on Finalize's entries *)
Lemma validate_rest_step n hashes b t used out h : (0 <= n)%Z -> below n used ->
  asc_in n (snd b) -> disj_used used (snd b) -> nonempty b = true -> (lenZ (snd b) < 65536)%Z ->
  alist_find (fst b) hashes = Some h ->
  validate_rest n hashes (entry_of n used b :: t) used out =
  validate_rest n hashes t (N.lor used (mask_of (snd b))) (alist_set out h (mask_of (snd b))).
Proof.
  intros Hn Hb Ha Hd Hne Hlt Hh. destruct b as [m l]. cbn [fst snd] in *.
  destruct l as [|x l']; [discriminate|]. set (l := x :: l') in *.
  assert (Hl1 : (1 <= lenZ l)%Z) by (unfold l; rewrite lenZ_cons; pose proof (lenZ_nonneg l'); lia).
  pose proof (block_rl_asc n used l Hn Ha Hd) as Hrl.
  set (proj := proj_of n used) in *. set (rl := map (idx_in proj) l) in *.
  assert (Hrll : lenZ rl = lenZ l) by (unfold rl; apply lenZ_map).
  assert (Hrne : rl <> []) by (unfold rl, l; cbn [map]; discriminate).
  pose proof (asc_in_len _ _ Hrl (lenZ_nonneg proj)) as Hle.
  unfold entry_of. cbn [fst snd]. fold proj. fold rl.
  destruct (key_id_parse (lenZ rl) (rank (lenZ proj) 0 rl) ltac:(lia)) as (a & b & Ek & Ev).
  rewrite Ek. cbn [validate_rest]. rewrite Ev.
  rewrite create_projection_ok by assumption. fold proj. cbn [bind].
  destruct (Z.gtb_spec (lenZ rl) (lenZ proj)) as [G|_]; [lia|].
  rewrite of_be_bytes_be_bytes.
  unfold index_in_range.
  assert (C1 : ((lenZ rl <? 1) || (lenZ rl >? lenZ proj))%Z = false) by lia. rewrite C1.
  rewrite binom_chk_ok by lia. cbn [bind].
  pose proof (rank_lt0 _ _ Hrl) as Hr.
  assert (C2 : (rank (lenZ proj) 0 rl <? B (lenZ proj) (lenZ rl)) = true) by lia. rewrite C2.
  cbn [negb].
  assert (Hdec : decode (lenZ proj) (lenZ rl) (rank (lenZ proj) 0 rl) = Ok (mask_of rl)).
  { unfold lenZ at 2. apply decode_encode; [exact Hrl|exact Hrne|]. apply encode_rank. exact Hrl. }
  rewrite Hdec. cbn [bind].
  rewrite (bits_all_mask_of _ _ Hrl).
  rewrite (unproject_ok proj 0 n ltac:(lia) (proj_of_asc n used Hn) rl 0 used 0 ltac:(lia) Hrl).
  2:{ intros j Hj. pose proof (nthZ_In proj j Hj) as Hin. apply proj_of_In in Hin. apply Hin. }
  cbn [bind]. unfold rl. rewrite map_nthZ_idx by (apply block_in_proj; assumption).
  rewrite N.lor_0_l. rewrite (bits_all_mask_of n l Ha).
  assert (Hv : fverify l m (FAgg m l) = true).
  { unfold l. cbn [fverify]. rewrite bytes_eqb_refl, listZ_eqb_refl. reflexivity. }
  rewrite Hv. cbn [negb]. rewrite Hh. reflexivity.
Qed.

Lemma validate_rest_spec n hashes (hf : list N -> list N) : (0 <= n < 65536)%Z -> forall bs used out,
  below n used -> blocks_ok n used bs ->
  (forall b, In b bs -> alist_find (fst b) hashes = Some (hf (fst b))) ->
  NoDup (map (fun b => hf (fst b)) bs) ->
  (forall b, In b bs -> alist_find (hf (fst b)) out = None) ->
  validate_rest n hashes (fin_entries n used bs) used out =
  Ok (Some (out ++ map (fun b => (hf (fst b), mask_of (snd b))) (filter nonempty bs)), true).
Proof.
  intros Hn. induction bs as [|b t IH]; intros used out Hb Hok Hh Hnd Hout.
  - cbn [fin_entries validate_rest filter map]. rewrite app_nil_r. reflexivity.
  - destruct Hok as (Ha & Hd & Hok). cbn [fin_entries filter]. inversion Hnd as [|? ? Hni Hnd']; subst.
    destruct (nonempty b) eqn:Hne.
    + rewrite (validate_rest_step n hashes b _ used out (hf (fst b))); try assumption; try lia.
      2:{ pose proof (asc_in_len _ _ Ha ltac:(lia)). lia. }
      2:{ apply Hh. left. reflexivity. }
      rewrite alist_set_absent by (apply Hout; left; reflexivity).
      rewrite IH.
      * rewrite <- app_assoc. cbn [app map]. reflexivity.
      * apply lor_below; [exact Hb|]. apply (mask_of_below 0 n); [lia|exact Ha].
      * exact Hok.
      * intros b' Hb'. apply Hh. right. exact Hb'.
      * exact Hnd'.
      * intros b' Hb'. apply alist_find_app_none; [apply Hout; right; exact Hb'|].
        intros E. apply Hni. rewrite E. apply (in_map (fun b0 => hf (fst b0))). exact Hb'.
    + assert (E : snd b = []) by (unfold nonempty in Hne; destruct (snd b); [reflexivity|discriminate]).
      rewrite E in Hok. cbn [mask_of] in Hok. rewrite N.lor_0_r in Hok.
      apply IH; try assumption.
      * intros b' Hb'. apply Hh. right. exact Hb'.
      * intros b' Hb'. apply Hout. right. exact Hb'.
Qed.

(* ------------------------------------------------------------------ the entries are already in Validate's order *)
Lemma order_key_entry n used b : (lenZ (snd b) < 65536)%Z ->
  order_key (entry_of n used b) = (be16 (Z.to_N (lenZ (snd b))), fst b).
Proof.
  intros H. unfold order_key, entry_of. cbn [fst snd]. rewrite lenZ_map.
  rewrite key2_key_id by (pose proof (lenZ_nonneg (snd b)); lia). reflexivity.
Qed.

Lemma fin_entries_In n : forall bs used e, In e (fin_entries n used bs) ->
  exists b u, In b bs /\ nonempty b = true /\ e = entry_of n u b.
Proof.
  induction bs as [|b t IH]; intros used e H; [contradiction|]. cbn [fin_entries] in H.
  destruct (nonempty b) eqn:Hne.
  - destruct H as [<-|H].
    + exists b, used. split; [left; reflexivity|split; [exact Hne|reflexivity]].
    + destruct (IH _ _ H) as (b' & u & H1 & H2 & H3). exists b', u. split; [right; exact H1|split; assumption].
  - destruct (IH _ _ H) as (b' & u & H1 & H2 & H3). exists b', u. split; [right; exact H1|split; assumption].
Qed.

Lemma blt_elt n (b1 b2 : block) u1 u2 :
  asc_in n (snd b1) -> asc_in n (snd b2) -> (0 <= n < 65536)%Z ->
  blt (fp_of b1) (fp_of b2) -> elt (entry_of n u1 b1) (entry_of n u2 b2).
Proof.
  intros H1 H2 Hn Hlt. unfold elt.
  pose proof (asc_in_len _ _ H1 ltac:(lia)). pose proof (asc_in_len _ _ H2 ltac:(lia)).
  rewrite !order_key_entry by lia. unfold blt in Hlt. cbn [fp_of fp_bits fp_msg] in Hlt.
  rewrite (popcountZ_mask_of_len n _ H1), (popcountZ_mask_of_len n _ H2) in Hlt.
  pose proof (lenZ_nonneg (snd b1)). pose proof (lenZ_nonneg (snd b2)).
  unfold order_lt. cbn [fst snd]. destruct Hlt as [Hgt|[Heq Hm]].
  - rewrite be16_lt by lia. reflexivity.
  - rewrite Heq, be16_inj_lt_irrefl. exact Hm.
Qed.

Lemma fin_entries_sorted n : (0 <= n < 65536)%Z -> forall bs used,
  Forall (fun b => asc_in n (snd b)) bs -> StronglySorted blt (map fp_of bs) ->
  StronglySorted elt (fin_entries n used bs).
Proof.
  intros Hn. induction bs as [|b t IH]; intros used Hall Hs; cbn [fin_entries]; [constructor|].
  inversion Hall as [|? ? Ha Hall']; subst. cbn [map] in Hs. inversion Hs as [|? ? Hs' Hf]; subst.
  destruct (nonempty b).
  - constructor; [apply IH; assumption|].
    apply Forall_forall. intros e He. destruct (fin_entries_In _ _ _ _ He) as (b' & u & Hb' & _ & ->).
    apply (blt_elt n); try assumption.
    + rewrite Forall_forall in Hall'. apply Hall'. exact Hb'.
    + rewrite Forall_forall in Hf. apply Hf. apply in_map. exact Hb'.
  - apply IH; assumption.
Qed.

Lemma fin_entries_ordered n : (0 <= n < 65536)%Z -> forall bs used,
  Forall (fun b => asc_in n (snd b)) bs -> StronglySorted blt (map fp_of bs) ->
  ordered_rest (fin_entries n used bs) = fin_entries n used bs.
Proof.
  intros Hn bs used Hall Hs. apply ordered_rest_sorted_id.
  - apply StronglySorted_Sorted. apply fin_entries_sorted; assumption.
  - apply Forall_forall. intros e He. destruct (fin_entries_In _ _ _ _ He) as (b' & u & _ & _ & ->).
    unfold entry_of. cbn [snd]. discriminate.
Qed.

(* ------------------------------------------------------------------ pairwise disjoint blocks *)
Lemma Permutation_concat_map {A B} (f : A -> list B) l l' :
  Permutation l l' -> Permutation (List.concat (map f l)) (List.concat (map f l')).
Proof.
  induction 1 as [|x l l' _ IH|x y l|l l' l'' _ IH1 _ IH2]; cbn [map List.concat].
  - constructor.
  - apply Permutation_app_head. exact IH.
  - rewrite !app_assoc. apply Permutation_app_tail. apply Permutation_app_comm.
  - eapply Permutation_trans; eassumption.
Qed.

(** [U] lists the keys in [used]. *)
Definition lists_used (used : N) (U : list Z) : Prop :=
  forall x, (0 <= x)%Z -> (N.testbit used (Z.to_N x) = true <-> In x U).

Lemma blocks_ok_of_nodup n : forall bs used U, lists_used used U ->
  Forall (fun b => asc_in n (snd b)) bs -> NoDup (U ++ List.concat (map snd bs)) -> blocks_ok n used bs.
Proof.
  induction bs as [|b t IH]; intros used U HU Hall Hnd; [exact I|].
  inversion Hall as [|? ? Ha Hall']; subst. cbn [map List.concat] in Hnd. cbn [blocks_ok].
  split; [exact Ha|]. split.
  - intros x Hx. destruct (N.testbit used (Z.to_N x)) eqn:E; [|reflexivity]. exfalso.
    pose proof (asc_from_In _ _ _ _ Ha Hx) as Bx. apply (HU x ltac:(lia)) in E.
    apply in_split in E as (u1 & u2 & ->).
    rewrite <- app_assoc in Hnd. cbn [app] in Hnd.
    apply NoDup_remove_2 in Hnd. apply Hnd. rewrite !in_app_iff. right. right. left. exact Hx.
  - apply (IH _ (U ++ snd b)).
    + intros x Hx. rewrite N.lor_spec, orb_true_iff, in_app_iff, (HU x Hx).
      rewrite (mask_of_testbit_In (snd b) x); [tauto| |exact Hx].
      intros y Hy. pose proof (asc_from_In _ _ _ _ Ha Hy). lia.
    + exact Hall'.
    + rewrite <- app_assoc. exact Hnd.
Qed.

(* ------------------------------------------------------------------ the main signature *)
Lemma validate_main n mm lm rest_entries hashes h : (0 <= n < 65536)%Z -> asc_in n lm -> lm <> [] ->
  alist_find mm hashes = Some h ->
  validate (mk_ffin n mm [(key_id (lenZ lm) (rank n 0 lm), FAgg mm lm)] rest_entries) hashes =
  validate_rest n hashes (ordered_rest rest_entries) (mask_of lm) [(h, mask_of lm)].
Proof.
  intros Hn Ha Hne Hh.
  pose proof (asc_in_len _ _ Ha ltac:(lia)) as Hle.
  assert (Hl1 : (1 <= lenZ lm)%Z).
  { destruct lm as [|x l']; [congruence|]. rewrite lenZ_cons. pose proof (lenZ_nonneg l'). lia. }
  unfold validate. cbn [ff_n ff_main_sigs ff_main_msg ff_rest].
  destruct (key_id_parse (lenZ lm) (rank n 0 lm) ltac:(lia)) as (a & b & Ek & Ev).
  rewrite Ek, Ev.
  destruct (Z.gtb_spec (lenZ lm) n) as [G|_]; [lia|].
  rewrite of_be_bytes_be_bytes. unfold index_in_range.
  assert (C1 : ((lenZ lm <? 1) || (lenZ lm >? n))%Z = false) by lia. rewrite C1.
  rewrite binom_chk_ok by lia. cbn [bind].
  pose proof (rank_lt0 _ _ Ha) as Hr.
  assert (C2 : (rank n 0 lm <? B n (lenZ lm)) = true) by lia. rewrite C2. cbn [negb].
  assert (Hdec : decode n (lenZ lm) (rank n 0 lm) = Ok (mask_of lm)).
  { unfold lenZ. apply decode_encode; [exact Ha|exact Hne|]. apply encode_rank. exact Ha. }
  rewrite Hdec. cbn [bind]. rewrite (positions_mask_of n lm Ha).
  assert (Hv : fverify lm mm (FAgg mm lm) = true).
  { destruct lm as [|x l']; [congruence|]. cbn [fverify]. rewrite bytes_eqb_refl, listZ_eqb_refl. reflexivity. }
  rewrite Hv. cbn [negb]. rewrite Hh. reflexivity.
Qed.

Definition hash_entry (hf : list N -> list N) (b : block) : list N * N := (hf (fst b), mask_of (snd b)).

Lemma map_fp_msg bs : map fp_msg (map fp_of bs) = map fst bs.
Proof. rewrite map_map. apply map_ext. intros b. reflexivity. Qed.

Lemma lists_used_mask n l : asc_in n l -> lists_used (mask_of l) l.
Proof.
  intros Ha x Hx. apply mask_of_testbit_In; [|exact Hx].
  intros y Hy. pose proof (asc_from_In _ _ _ _ Ha Hy). lia.
Qed.

(** Finalize then ValidateFinalizedProof: exactly the blocks' signer sets, all-unique flag true. *)
Theorem finalize_validate_roundtrip : forall n main rest hashes hf,
  (0 <= n < 65536)%Z ->
  Forall (fun b => asc_in n (snd b)) (main :: rest) ->
  snd main <> [] ->
  NoDup (List.concat (map snd (main :: rest))) ->
  NoDup (map fst (main :: rest)) ->
  (forall b, In b (main :: rest) -> alist_find (fst b) hashes = Some (hf (fst b))) ->
  NoDup (map (fun b => hf (fst b)) (main :: rest)) ->
  exists sorted, Permutation sorted rest /\ StronglySorted blt (map fp_of sorted) /\
    finalize_validate n (fp_of main) (map fp_of rest) hashes =
    Ok (Some (map (hash_entry hf) (main :: filter nonempty sorted)), true).
Proof.
  intros n [mm lm] rest hashes hf Hn Hall Hne Hdisj Hmsgs Hh Hhinj.
  inversion Hall as [|? ? Ham Hall']; subst. cbn [fst snd] in *.
  inversion Hmsgs as [|? ? Hmni Hmsgs']; subst. inversion Hhinj as [|? ? Hhni Hhinj']; subst.
  cbn [map List.concat] in Hdisj.
  assert (Hhm : alist_find mm hashes = Some (hf mm)) by (apply (Hh (mm, lm)); left; reflexivity).
  unfold finalize_validate, finalize. cbn [fp_of fp_bits fp_msg fst snd].
  rewrite (encode_mask_rank n lm Ham). cbn [bind].
  rewrite (popcountZ_mask_of_len n lm Ham), (bits_all_mask_of n lm Ham).
  destruct rest as [|r0 rest'].
  - cbn [map bind]. exists []. split; [constructor|]. split; [constructor|].
    rewrite (validate_main n mm lm [] hashes (hf mm)) by assumption.
    reflexivity.
  - set (rest := r0 :: rest') in *.
    assert (Hnd : NoDup (map fp_msg (map fp_of rest))) by (rewrite map_fp_msg; exact Hmsgs').
    destruct (sort_rest_spec _ Hnd) as (s & Es & Hperm & Hss).
    apply Permutation_map_inv in Hperm as (sb & -> & Hperm).
    change (map fp_of rest) with (fp_of r0 :: map fp_of rest') at 1.
    cbv iota. fold rest. rewrite Es. cbn [bind].
    assert (Hall_sb : Forall (fun b => asc_in n (snd b)) sb) by (eapply Permutation_Forall; eassumption).
    assert (Hok : blocks_ok n (mask_of lm) sb).
    { apply (blocks_ok_of_nodup n sb (mask_of lm) lm); [apply (lists_used_mask n); exact Ham|exact Hall_sb|].
      eapply Permutation_NoDup; [|exact Hdisj]. apply Permutation_app_head.
      apply Permutation_concat_map. exact Hperm. }
    assert (Hb0 : below n (mask_of lm)) by (apply (mask_of_below 0 n); [lia|exact Ham]).
    rewrite (finalize_rest_spec n ltac:(lia) sb (mask_of lm) [] Hb0 Hok).
    2:{ eapply Permutation_NoDup; [|exact Hmsgs']. apply Permutation_map. exact Hperm. }
    2:{ intros; reflexivity. }
    cbn [bind app].
    rewrite (validate_main n mm lm _ hashes (hf mm)) by assumption.
    rewrite (fin_entries_ordered n Hn sb (mask_of lm) Hall_sb Hss).
    rewrite (validate_rest_spec n hashes hf Hn sb (mask_of lm) [(hf mm, mask_of lm)] Hb0 Hok).
    + exists sb. split; [apply Permutation_sym; exact Hperm|]. split; [exact Hss|]. reflexivity.
    + intros b Hb. apply Hh. right. eapply Permutation_in; [apply Permutation_sym; exact Hperm|exact Hb].
    + eapply Permutation_NoDup; [|exact Hhinj']. apply Permutation_map. exact Hperm.
    + intros b Hb. cbn [alist_find]. destruct (bytes_eqb (hf mm) (hf (fst b))) eqn:E; [|reflexivity].
      exfalso. apply bytes_eqb_eq in E. apply Hhni. rewrite E.
      apply (in_map (fun b0 => hf (fst b0))). eapply Permutation_in; [apply Permutation_sym; exact Hperm|exact Hb].
Qed.

(* ------------------------------------------------------------------ order independence *)
(** The finalized proof does not depend on the order in which the rest proofs are handed to Finalize. *)
Theorem finalize_order_irrelevant : forall n main rest rest',
  Permutation rest rest' -> NoDup (map fp_msg rest) -> finalize n main rest = finalize n main rest'.
Proof.
  intros n main rest rest' Hp Hnd. unfold finalize.
  destruct (encode_mask n (fp_bits main)) as [idx|s]; [|reflexivity]. cbn [bind].
  destruct rest as [|a t], rest' as [|a' t'].
  - reflexivity.
  - apply Permutation_nil in Hp. discriminate.
  - apply Permutation_sym, Permutation_nil in Hp. discriminate.
  - rewrite (sort_rest_perm _ _ Hp Hnd). reflexivity.
Qed.

(** ValidateFinalizedProof does not depend on the iteration order of the Rest map. *)
Theorem validate_map_order_irrelevant : forall n mm ms r r' hashes,
  Permutation r r' -> NoDup (map fst r) ->
  validate (mk_ffin n mm ms r) hashes = validate (mk_ffin n mm ms r') hashes.
Proof.
  intros n mm ms r r' hashes Hp Hnd. unfold validate. cbn [ff_n ff_main_sigs ff_main_msg ff_rest].
  rewrite (ordered_rest_perm _ _ Hp Hnd). reflexivity.
Qed.

(* ------------------------------------------------------------------ totality of ValidateFinalizedProof *)
Lemma validate_rest_total n hashes : (0 <= n)%Z -> forall rest used out, below n used ->
  (forall e, In e rest -> alist_find (fst e) hashes <> None) ->
  exists r, validate_rest n hashes rest used out = Ok r.
Proof.
  intros Hn. induction rest as [|[msg sigs] t IH]; intros used out Hb Hh; [eexists; reflexivity|].
  cbn [validate_rest].
  destruct sigs as [|[kid sg] [|? ?]]; try (eexists; reflexivity).
  destruct kid as [|a [|b idxb]]; try (eexists; reflexivity).
  rewrite create_projection_ok by assumption. cbn [bind].
  set (proj := proj_of n used). set (k := Z.of_N (a * 256 + b)). set (idx := of_be_bytes idxb).
  destruct (Z.gtb_spec k (lenZ proj)) as [G|G]; [eexists; reflexivity|].
  unfold index_in_range.
  destruct ((k <? 1) || (k >? lenZ proj))%Z eqn:C1; [cbn [bind negb]; eexists; reflexivity|].
  rewrite binom_chk_ok by lia. cbn [bind].
  destruct (N.ltb_spec idx (B (lenZ proj) k)) as [L|L]; cbn [negb]; [|eexists; reflexivity].
  destruct (decode_ok_of_range (lenZ proj) k idx ltac:(lia) L) as (m & Em). rewrite Em. cbn [bind].
  destruct (decode_sound (lenZ proj) k idx m ltac:(lia) Em) as (l & Hl & _ & -> & _).
  rewrite (bits_all_mask_of _ _ Hl).
  rewrite (unproject_ok proj 0 n ltac:(lia) (proj_of_asc n used Hn) l 0 used 0 ltac:(lia) Hl).
  2:{ intros j Hj. pose proof (nthZ_In proj j Hj) as Hin. apply proj_of_In in Hin. apply Hin. }
  cbn [bind].
  destruct (fverify _ msg sg); cbn [negb]; [|eexists; reflexivity].
  destruct (alist_find msg hashes) as [h|] eqn:Eh.
  - apply IH.
    + apply lor_below; [exact Hb|]. apply mask_of_below_list. intros x Hx.
      apply in_map_iff in Hx as (j & <- & Hj). pose proof (asc_from_In _ _ _ _ Hl Hj) as Bj.
      pose proof (nthZ_In proj j Bj) as Hin. apply proj_of_In in Hin. lia.
    + intros e He. apply Hh. right. exact He.
  - exfalso. apply (Hh (msg, [(a :: b :: idxb, sg)]) (or_introl eq_refl)). exact Eh.
Qed.

(** hashesBySignContent names every sign content of the proof (the caller builds both from the same map). *)
Definition hashes_cover (hashes : list (list N * list N)) (f : ffin) : Prop :=
  alist_find (ff_main_msg f) hashes <> None /\ forall e, In e (ff_rest f) -> alist_find (fst e) hashes <> None.

(** No panic for ANY finalized input - any key id bytes, signatures, number of rest entries, any number
    of keys including none. *)
Theorem validate_finalized_total : forall f hashes, (0 <= ff_n f)%Z -> hashes_cover hashes f ->
  exists r, validate f hashes = Ok r.
Proof.
  intros f hashes Hn [Hm Hr]. unfold validate.
  destruct (ff_main_sigs f) as [|[kid sg] [|? ?]]; try (eexists; reflexivity).
  destruct kid as [|a [|b idxb]]; try (eexists; reflexivity).
  set (n := ff_n f) in *. set (k := Z.of_N (a * 256 + b)). set (idx := of_be_bytes idxb).
  destruct (Z.gtb_spec k n) as [G|G]; [eexists; reflexivity|].
  unfold index_in_range.
  destruct ((k <? 1) || (k >? n))%Z eqn:C1; [cbn [bind negb]; eexists; reflexivity|].
  rewrite binom_chk_ok by lia. cbn [bind].
  destruct (N.ltb_spec idx (B n k)) as [L|L]; cbn [negb]; [|eexists; reflexivity].
  destruct (decode_ok_of_range n k idx ltac:(lia) L) as (m & Em). rewrite Em. cbn [bind].
  destruct (decode_sound n k idx m ltac:(lia) Em) as (l & Hl & _ & -> & _).
  destruct (fverify _ (ff_main_msg f) sg); cbn [negb]; [|eexists; reflexivity].
  destruct (alist_find (ff_main_msg f) hashes) as [h|] eqn:Eh; [|congruence].
  apply validate_rest_total; [exact Hn| |].
  - apply (mask_of_below 0 n); [lia|exact Hl].
  - intros e He. apply Hr. apply ordered_rest_In. exact He.
Qed.

(** The guard is needed: a sign content without a hash is the one panic left ("BUG: missing hash"). *)
Example validate_missing_hash_panics :
  validate (mk_ffin 4 [1] [([0; 3], FAgg [1] [0; 1; 2]%Z)] []) [] =
  Panic "ValidateFinalizedProof:468(missing main hash)".
Proof. vm_compute. reflexivity. Qed.

(* ------------------------------------------------------------------ a double signer: Finalize panics *)
Lemma disj_used_dec used l : disj_used used l \/ exists x, In x l /\ N.testbit used (Z.to_N x) = true.
Proof.
  induction l as [|a l IH]; [left; intros x []|].
  destruct (N.testbit used (Z.to_N a)) eqn:E.
  - right. exists a. split; [left; reflexivity|exact E].
  - destruct IH as [H|(x & Hx & Ex)].
    + left. intros x [<-|Hx]; [exact E|apply H; exact Hx].
    + right. exists x. split; [right; exact Hx|exact Ex].
Qed.

Lemma finalize_rest_overlap n : (0 <= n)%Z -> forall bs used out, below n used ->
  Forall (fun b => asc_in n (snd b)) bs -> ~ blocks_ok n used bs ->
  exists s, finalize_rest n (map fp_of bs) used out = Panic s.
Proof.
  intros Hn. induction bs as [|b t IH]; intros used out Hb Hall Hno; [exfalso; apply Hno; exact I|].
  inversion Hall as [|? ? Ha Hall']; subst. cbn [map].
  destruct (disj_used_dec used (snd b)) as [Hd|(x & Hx & Ex)].
  - assert (Hno' : ~ blocks_ok n (N.lor used (mask_of (snd b))) t).
    { intros H. apply Hno. cbn [blocks_ok]. auto. }
    destruct (nonempty b) eqn:Hne.
    + rewrite finalize_rest_step by assumption. apply IH; try assumption.
      apply lor_below; [exact Hb|]. apply (mask_of_below 0 n); [lia|exact Ha].
    + assert (E : snd b = []) by (unfold nonempty in Hne; destruct (snd b); [reflexivity|discriminate]).
      rewrite finalize_rest_step_empty by exact E.
      rewrite E in Hno'. cbn [mask_of] in Hno'. rewrite N.lor_0_r in Hno'. apply IH; assumption.
  - destruct b as [m l]. cbn [fst snd] in *. cbn [finalize_rest fp_of fp_bits fp_msg fst snd].
    rewrite (popcountZ_mask_of_len n l Ha).
    destruct l as [|y l']; [contradiction|]. set (l := y :: l') in *.
    assert (Hlen : (lenZ l =? 0)%Z = false) by (unfold l; rewrite lenZ_cons; pose proof (lenZ_nonneg l'); lia).
    rewrite Hlen. rewrite create_projection_ok by assumption. cbn [bind].
    rewrite (bits_all_mask_of n l Ha).
    destruct (project_bits_panic (proj_of n used) l 0 used) as (s & Es).
    { exists x. split; [exact Hx|]. intros Hin. apply proj_of_In in Hin. destruct Hin as [_ Hf]. congruence. }
    rewrite Es. cbn [bind]. eexists; reflexivity.
Qed.

Lemma asc_from_NoDup : forall l lo n, asc_from lo n l -> NoDup l.
Proof.
  induction l as [|i l IH]; intros lo n H; [constructor|]. destruct H as [Hi Hl]. constructor.
  - intros Hin. pose proof (asc_from_In _ _ _ _ Hl Hin). lia.
  - eapply IH. exact Hl.
Qed.

Lemma NoDup_app' {A} (a b : list A) : NoDup a -> NoDup b -> (forall x, In x a -> ~ In x b) -> NoDup (a ++ b).
Proof.
  induction a as [|x a IH]; intros Ha Hb Hd; [exact Hb|]. inversion Ha as [|? ? Hni Ha']; subst.
  cbn [app]. constructor.
  - rewrite in_app_iff. intros [H|H]; [contradiction|]. exact (Hd x (or_introl eq_refl) H).
  - apply IH; [exact Ha'|exact Hb|]. intros y Hy. apply Hd. right. exact Hy.
Qed.

Lemma nodup_of_blocks_ok n : forall bs used U, lists_used used U -> NoDup U ->
  (forall x, In x U -> (0 <= x)%Z) -> blocks_ok n used bs -> NoDup (U ++ List.concat (map snd bs)).
Proof.
  induction bs as [|b t IH]; intros used U HU Hnd Hnn Hok.
  - cbn [map List.concat]. rewrite app_nil_r. exact Hnd.
  - destruct Hok as (Ha & Hd & Hok). cbn [map List.concat]. rewrite app_assoc.
    apply (IH (N.lor used (mask_of (snd b)))).
    + intros x Hx. rewrite N.lor_spec, orb_true_iff, in_app_iff, (HU x Hx).
      rewrite (mask_of_testbit_In (snd b) x); [tauto| |exact Hx].
      intros y Hy. pose proof (asc_from_In _ _ _ _ Ha Hy). lia.
    + apply NoDup_app'; [exact Hnd|eapply asc_from_NoDup; exact Ha|].
      intros x Hx Hxb. pose proof (Hd x Hxb) as F. apply (HU x (Hnn x Hx)) in Hx. congruence.
    + intros x Hx. apply in_app_iff in Hx as [Hx|Hx]; [apply Hnn; exact Hx|].
      pose proof (asc_from_In _ _ _ _ Ha Hx). lia.
    + exact Hok.
Qed.

(** What the code does when the blocks are NOT pairwise disjoint (some validator signed two of them):
    Finalize panics, for every key-set size, every such partition and every order of the rest proofs.
    So ValidateFinalizedProof never gets to report a double signer. *)
Theorem finalize_double_signer_panics : forall n main rest,
  (0 <= n)%Z -> Forall (fun b => asc_in n (snd b)) (main :: rest) -> NoDup (map fst rest) ->
  ~ NoDup (List.concat (map snd (main :: rest))) ->
  exists s, finalize n (fp_of main) (map fp_of rest) = Panic s.
Proof.
  intros n [mm lm] rest Hn Hall Hmsgs Hno.
  inversion Hall as [|? ? Ham Hall']; subst. cbn [fst snd] in *. cbn [map List.concat] in Hno.
  unfold finalize. cbn [fp_of fp_bits fp_msg fst snd].
  rewrite (encode_mask_rank n lm Ham). cbn [bind].
  destruct rest as [|r0 rest'].
  - exfalso. apply Hno. cbn [map List.concat]. rewrite app_nil_r. eapply asc_from_NoDup. exact Ham.
  - set (rest := r0 :: rest') in *.
    assert (Hnd : NoDup (map fp_msg (map fp_of rest))) by (rewrite map_fp_msg; exact Hmsgs).
    destruct (sort_rest_spec _ Hnd) as (s & Es & Hperm & Hss).
    apply Permutation_map_inv in Hperm as (sb & -> & Hperm).
    change (map fp_of rest) with (fp_of r0 :: map fp_of rest') at 1.
    cbv iota. fold rest. rewrite Es. cbn [bind].
    assert (Hall_sb : Forall (fun b => asc_in n (snd b)) sb) by (eapply Permutation_Forall; eassumption).
    destruct (finalize_rest_overlap n Hn sb (mask_of lm) []) as (p & Ep).
    + apply (mask_of_below 0 n); [lia|exact Ham].
    + exact Hall_sb.
    + intros Hok. apply Hno.
      eapply Permutation_NoDup; [apply Permutation_app_head; apply Permutation_concat_map; apply Permutation_sym; exact Hperm|].
      apply (nodup_of_blocks_ok n sb (mask_of lm) lm); [apply (lists_used_mask n); exact Ham| | |exact Hok].
      * eapply asc_from_NoDup. exact Ham.
      * intros x Hx. pose proof (asc_from_In _ _ _ _ Ham Hx). lia.
    + rewrite Ep. cbn [bind]. eexists; reflexivity.
Qed.

(** The property's sentence "... with double signers reported, never panics" is false of the faithful model:
    4 keys, validators 0,1,2 sign block [1], validator 2 also signs [2]. *)
Theorem finalize_validate_double_signer_refuted :
  exists n main rest hashes,
    (0 <= n < 65536)%Z /\ Forall (fun b => asc_in n (snd b)) (main :: rest) /\ snd main <> [] /\
    NoDup (map fst (main :: rest)) /\
    (forall b, In b (main :: rest) -> alist_find (fst b) hashes <> None) /\
    finalize_validate n (fp_of main) (map fp_of rest) hashes =
    Panic "Finalize:253(index not part of the projection)".
Proof.
  exists 4%Z, ([1], [0; 1; 2]%Z), [([2], [2%Z])], [([1], [201]); ([2], [202])].
  split; [lia|]. split; [repeat constructor; unfold asc_in; cbn [asc_from snd]; lia|].
  split; [discriminate|]. split; [repeat constructor; cbn; intuition discriminate|].
  split; [intros b [<-|[<-|[]]]; discriminate|].
  vm_compute. reflexivity.
Qed.

(** Guard of the round trip: a main proof nobody signed gives key id [0;0], which
    ValidateFinalizedProof rejects (nil, false). *)
Example finalize_validate_empty_main_rejected :
  finalize_validate 4 (fp_of ([1], [])) [fp_of ([2], [2%Z])] [([1], [201]); ([2], [202])] = Ok (None, false).
Proof. vm_compute. reflexivity. Qed.

(* ------------------------------------------------------------------ non-vacuity *)
Definition ex_main : block := ([1], [0; 1; 2; 3; 4; 5]%Z).
Definition ex_rest : list block := [([3], [8%Z]); ([2], [6; 7]%Z); ([4], []); ([5], [9%Z])].
Definition ex_hashes : list (list N * list N) := [([1], [201]); ([2], [202]); ([3], [203]); ([4], [204]); ([5], [205])].
Definition ex_hf (m : list N) : list N := [200 + hd 0 m].

(** Three non-empty rest blocks of sizes 1, 2, 1 handed over in an order that is not Finalize's, and one
    empty block: reduced key spaces C(4,2), C(2,1), C(1,1). *)
Example ex_roundtrip_computed :
  finalize_validate 10 (fp_of ex_main) (map fp_of ex_rest) ex_hashes =
  Ok (Some [([201], 63); ([202], 192); ([203], 256); ([205], 512)], true).
Proof. vm_compute. reflexivity. Qed.

Example ex_finalized :
  finalize 10 (fp_of ex_main) (map fp_of ex_rest) =
  Ok (mk_ffin 10 [1] [([0; 6], FAgg [1] [0; 1; 2; 3; 4; 5]%Z)]
        [([2], [([0; 2], FAgg [2] [6; 7]%Z)]); ([3], [([0; 1], FAgg [3] [8%Z])]); ([5], [([0; 1], FAgg [5] [9%Z])])]).
Proof. vm_compute. reflexivity. Qed.

(** The hypotheses of [finalize_validate_roundtrip] are satisfiable (by that example). *)
Example ex_roundtrip_hypotheses :
  (0 <= 10 < 65536)%Z /\ Forall (fun b => asc_in 10 (snd b)) (ex_main :: ex_rest) /\ snd ex_main <> [] /\
  NoDup (List.concat (map snd (ex_main :: ex_rest))) /\ NoDup (map fst (ex_main :: ex_rest)) /\
  (forall b, In b (ex_main :: ex_rest) -> alist_find (fst b) ex_hashes = Some (ex_hf (fst b))) /\
  NoDup (map (fun b => ex_hf (fst b)) (ex_main :: ex_rest)).
Proof.
  split; [lia|]. split; [repeat constructor; unfold asc_in; cbn [asc_from snd ex_main]; lia|].
  split; [discriminate|].
  split; [cbn; repeat (constructor; [cbn; intuition lia|]); constructor|].
  split; [cbn; repeat (constructor; [cbn; intuition discriminate|]); constructor|].
  split; [intros b [<-|[<-|[<-|[<-|[<-|[]]]]]]; reflexivity|].
  cbn; repeat (constructor; [cbn; intuition discriminate|]); constructor.
Qed.

(** A non-empty rest block that is smaller than a later one: the sorted order differs from the input order,
    and a proof in ascending-size order would not validate (the seeded change the round trip must catch). *)
Example ex_order_matters :
  finalize 10 (fp_of ex_main) (map fp_of ex_rest) = finalize 10 (fp_of ex_main) (map fp_of (rev ex_rest)).
Proof. vm_compute. reflexivity. Qed.
