(** "Committed headers are good" ([ginv] of Proofs/MirrorHdrGood.v: non-nil hash, hash flag set,
    well-formed next validator set) over the crash / restart / local-action closures, and with it
    the bundle [AgreeInv] of Proofs/MirrorAgreeX.v.

    Proofs/MirrorHdrGood.v proves [ginv] over [reachable_b] (kernel operations only).  The store
    invariant [SI] of Proofs/MirrorResumeInv.v says of the committed headers only [hdr_fine]
    (powers, keys) and [cert]; it does NOT say that their hash is non-nil or their hash flag set, so
    [ginv] is not a consequence of what C10Resume / C09KernelX prove and is carried along here:
      - one kernel operation: [ginv_step] (existing);
      - start-up ([restart]) on stores satisfying [SI] whose committed headers are good: the
        state built from the stores has exactly those committed headers; the start-up
        re-evaluation [recheck_view_shifts] commits at most a proposed header of the voting view,
        good by the chain invariant ([ginv_recheck]);
      - a crash after k store writes of an operation: the stores start-up sees have the same
        start-up result as stores [stc] between the stores before and after the uninterrupted
        operation ([crash_point]); the committed headers of [stc] are among those of the state
        after the operation ([sadv]), which are good by [ginv_step];
      - a local vote: [apply_votes] (existing [ginv_apply_votes]); the local validator's own
        proposed header: [add_ph] under [accept_facts] ([lph_okb]), or dropped. *)
From Coq Require Import List NArith Arith Bool Lia String.
From GV Require Import Base.Ints Gen.Math Gen.Kernel Model.Mirror Model.MirrorMgr
  Proofs.Thresholds Proofs.MirrorAuth Proofs.MirrorNoop Proofs.MirrorChain Proofs.MirrorCert
  Proofs.MirrorHdrGood Proofs.MirrorTotal Proofs.MirrorAct Proofs.MirrorActInv Proofs.MirrorActTotal
  Proofs.MirrorResumeWit Proofs.MirrorResumeInv Proofs.MirrorResumeOps Proofs.MirrorResume
  Proofs.MirrorTotalK Proofs.MirrorTotalM Proofs.MirrorAgree Proofs.MirrorAgreeX.
Import ListNotations.
Local Open Scope N_scope.

(** * Start-up *)
Lemma ginv_update_observers s : ginv s -> ginv (update_observers s).
Proof. intros H; exact H. Qed.

Lemma ginv_recheck ih ivs s s' :
  cinv ih ivs s -> ginv s -> recheck_view_shifts s = Ok s' -> ginv s'.
Proof.
  intros Hc H. unfold recheck_view_shifts, bind.
  destruct (check_voting_precommit_shift s) as [s1|] eqn:E1; [|discriminate].
  pose proof (ginv_check_voting ih ivs s s1 Hc H E1) as H1.
  destruct (cinv_check_voting ih ivs s s1 Hc E1) as [Hc1 _].
  destruct (negb _); [intros E; inversion E; subst; exact H1|].
  destruct (check_next_round_precommit_shift s1) as [s2|] eqn:E2; [|discriminate].
  pose proof (ginv_check_next_round ih ivs s1 s2 Hc1 H1 E2) as H2.
  destruct (negb _); [intros E; inversion E; subst; exact H2|].
  intros E3. eapply ginv_check_prevote; eassumption.
Qed.

(** the committed headers of a store are good *)
Definition store_good (st : stores) : Prop :=
  forall h x cp, In (h, (x, cp)) (sr_hdrs st) -> hdr_good x.

Lemma store_good_of s : ginv s -> store_good (stores_of s).
Proof. intros H; exact H. Qed.

Lemma store_good_sadv a b : sadv a b -> store_good b -> store_good a.
Proof. intros (Hin & _) Hb h x cp I. exact (Hb h x cp (Hin h (x, cp) I)). Qed.

Lemma ginv_restart ih ivs st vals log s' :
  1 <= ih -> vwf ivs -> SI ih ivs st -> store_good st ->
  restart ih ivs st vals log = Ok s' -> ginv s'.
Proof.
  intros Hih Hivs HSI Hg Hr.
  destruct (restart_K ih ivs st vals log Hih Hivs HSI) as (s0&s1&Er&Ec&Es&_&_&K0&_).
  rewrite Er in Hr. inversion Hr; subst s'. apply ginv_update_observers.
  assert (G0 : ginv s0).
  { unfold ginv. replace (st_hdrs s0) with (sr_hdrs (stores_of s0)) by reflexivity. rewrite Es. exact Hg. }
  exact (ginv_recheck ih ivs s0 s1 (proj1 (proj1 K0)) G0 Ec).
Qed.

(** * Every step of [xstep]: operations, crashes at every write prefix, clean restarts *)
Lemma ginv_xstep ih ivs s x s' res :
  1 <= ih -> vwf ivs -> K ih ivs s -> tinv s -> ginv s -> xwf s x res ->
  xstep s x = Ok (s', res) -> ginv s'.
Proof.
  intros Hih Hivs HK HT HG Hw Hx.
  pose proof (proj1 (proj1 HK)) as Hc. pose proof Hc as (Hi1&Hi2&_).
  destruct x as [o|k o|]; cbn [xstep xwf] in *.
  - eapply ginv_step; [exact Hc|exact HG|exact (proj1 Hw)|exact Hx].
  - destruct (step s o) as [[s1 r1]|] eqn:Hs; cbn [bind fst snd] in Hx; [|discriminate].
    assert (Er : r1 = res).
    { destruct (restart _ _ _ _ _); cbn [bind] in Hx; [inversion Hx; reflexivity|discriminate]. }
    subst r1.
    assert (G1 : ginv s1) by (eapply ginv_step; [exact Hc|exact HG|exact (proj1 Hw)|exact Hs]).
    destruct (crash_point ih ivs s o s1 res k Hih Hivs HK HT Hw Hs) as (stc&Q1&_&Q3&_&Er).
    fold (crash_stores s s1 k) in Hx. rewrite Hi1, Hi2, Er in Hx.
    destruct (restart ih ivs stc (st_vals s) _) as [s2|] eqn:E2; cbn [bind] in Hx; [|discriminate].
    inversion Hx; subst s'.
    eapply ginv_restart; [exact Hih|exact Hivs|exact Q1| |exact E2].
    eapply store_good_sadv; [exact Q3|apply store_good_of; exact G1].
  - rewrite Hi1, Hi2 in Hx.
    destruct (restart ih ivs (stores_of s) (st_vals s) (st_log s)) as [s2|] eqn:E2; cbn [bind] in Hx; [|discriminate].
    inversion Hx; subst s'.
    eapply ginv_restart; [exact Hih|exact Hivs|exact (proj2 (proj2 (proj2 (proj2 (proj2 (proj2 HK))))))| |exact E2].
    apply store_good_of; exact HG.
Qed.

(** * Local actions *)
Lemma ginv_act_vote ih ivs kind s h r key target sg s' :
  cinv ih ivs s -> ginv s -> act_vote kind s h r key target sg = Ok s' -> ginv s'.
Proof.
  intros Hc H. unfold act_vote, bind.
  destruct (find_view _ _ _) as [[vid st]|]; [|discriminate].
  destruct (negb _); [intros E; inversion E; subst; exact H|].
  destruct (match pm_get _ target with Some p => Ok p | None => _ end) as [base|]; [|discriminate].
  destruct key as [k|]; [|discriminate].
  destruct (key_index _ k) as [i|]; [|intros E; inversion E; subst; exact H].
  destruct (verify_vote _ _ _ _ _ _); [|intros E; inversion E; subst; exact H].
  apply (ginv_apply_votes ih ivs); assumption.
Qed.

(** the state machine's own proposed header, under the facts HandleProposedHeader would have checked *)
Lemma ginv_act_ph ih ivs s p s' :
  cinv ih ivs s -> ginv s -> accept_facts s p -> act_ph s p = Ok s' -> ginv s'.
Proof.
  intros Hc H Hf. unfold act_ph. destruct (hd_hash (ph_hdr p)); [discriminate|].
  apply (ginv_add_ph ih ivs); assumption.
Qed.

Lemma ginv_act_step_ok ih ivs s h r key a s' :
  cinv ih ivs s -> ginv s -> lact_ok s a -> act_step s h r key a = Ok s' -> ginv s'.
Proof.
  destruct a as [t sg|t sg|p]; cbn [act_step lact_ok]; intros Hc H Hok.
  - apply (ginv_act_vote ih ivs); assumption.
  - apply (ginv_act_vote ih ivs); assumption.
  - apply (ginv_act_ph ih ivs); assumption.
Qed.

Lemma ginv_act_step ih ivs s h r key a s' :
  cinv ih ivs s -> ginv s -> lact_okb s a = true -> act_step s h r key a = Ok s' -> ginv s'.
Proof.
  destruct a as [t sg|t sg|p]; cbn [act_step lact_okb]; intros Hc H Hok.
  - apply (ginv_act_vote ih ivs); assumption.
  - apply (ginv_act_vote ih ivs); assumption.
  - apply orb_true_iff in Hok as [Hno|Hok].
    + intros Ha. pose proof (local_ph_effect s p s' Ha) as E.
      destruct (act_ph_applies s p); [discriminate|]. subst s'. exact H.
    + apply (ginv_act_ph ih ivs); try assumption. exact (proj1 (lph_okb_facts s p Hok)).
Qed.

(** * The closures *)

(** operations, crashes after every store write, clean restarts ([reachable_g] of C10Resume) *)
Theorem reachable_g_ginv ih ivs s :
  1 <= ih -> vwf ivs -> reachable_g ih ivs s -> ginv s.
Proof.
  intros Hih Hivs. induction 1 as [|s x s' res Hr IH Hw Hx]; [apply ginv_init|].
  destruct (reachable_g_K ih ivs s Hih Hivs Hr) as [HK HT].
  eapply ginv_xstep; eassumption.
Qed.

(** ... plus round entrances, reads, the local validator's own votes and proposed headers
    ([mreachable_a] of C09KernelX) *)
Theorem mreachable_a_ginv ih ivs s :
  1 <= ih -> vwf ivs -> mreachable_a ih ivs s -> ginv (ms_k s).
Proof.
  intros Hih Hivs. induction 1 as [|s o s' r io Hr IH Hadm Hs]; [apply ginv_init|].
  destruct (mreachable_a_K ih ivs s Hih Hivs Hr) as [HK HT].
  pose proof (mstep_kernel_exact _ _ _ _ _ Hs) as H.
  destruct o as [x|h0 r0| | |h0 r0 key0|a]; cbn [mop_adm] in Hadm; try (rewrite H; exact IH).
  - eapply ginv_xstep; eassumption.
  - eapply ginv_act_step; [exact (proj1 (proj1 HK))|exact IH|exact Hadm|exact H].
Qed.

(** ... the closure of C05Act (kernel operations, entrances, reads, local actions; no crashes) *)
Theorem lreachable_ginv ih ivs s :
  1 <= ih -> vs_ok ivs = true -> lreachable ih ivs s -> ginv (ms_k s).
Proof.
  intros Hi Hok. induction 1 as [|s o s' r io Hr IH Hop Hs]; [apply ginv_init|].
  pose proof (lreachable_cinv ih ivs s Hi Hok Hr) as Hc.
  destruct (mstep_kernel _ _ _ _ _ Hs) as [E|[(x&Eo&Hx)|(a&Eo&Ha)]].
  - rewrite E. exact IH.
  - subst o. destruct x as [o|k o|]; cbn [mop_ok] in Hop; try contradiction.
    cbn [xstep] in Hx. eapply ginv_step; eassumption.
  - subst o. cbn [mop_ok] in Hop. eapply ginv_act_step_ok; eassumption.
Qed.

(** * The bundle of Proofs/MirrorAgreeX.v over the closures *)
Theorem reachable_g_AgreeInv ih ivs s :
  1 <= ih -> vwf ivs -> reachable_g ih ivs s -> AgreeInv ih ivs s.
Proof.
  intros Hih Hivs Hr. apply AgreeInv_INV.
  - exact (proj1 (reachable_g_INV ih ivs s Hih Hivs Hr)).
  - apply (reachable_g_ginv ih ivs); assumption.
Qed.

Theorem mreachable_a_AgreeInv ih ivs s :
  1 <= ih -> vwf ivs -> mreachable_a ih ivs s -> AgreeInv ih ivs (ms_k s).
Proof.
  intros Hih Hivs Hr. apply AgreeInv_INV.
  - exact (proj1 (mreachable_a_INV ih ivs s Hih Hivs Hr)).
  - apply (mreachable_a_ginv ih ivs); assumption.
Qed.

Theorem lreachable_AgreeInv ih ivs s :
  1 <= ih -> vs_ok ivs = true -> lreachable ih ivs s -> AgreeInv ih ivs (ms_k s).
Proof.
  intros Hi Hok Hr. apply AgreeInv_INV.
  - apply lreachable_INV; assumption.
  - apply (lreachable_ginv ih ivs); assumption.
Qed.

(** the committed headers are good in every state of the closures (C03_mirror_committed_headers_good
    over the closures) *)
Theorem committed_headers_good_x ih ivs s :
  1 <= ih -> vwf ivs -> reachable_g ih ivs s ->
  forall h x cp, In (h, (x, cp)) (st_hdrs s) ->
    hd_hash x <> [] /\ hd_ok x = true /\ vs_ok (hd_next x) = true.
Proof. intros Hih Hivs Hr. exact (reachable_g_ginv ih ivs s Hih Hivs Hr). Qed.

Theorem committed_headers_good_m ih ivs s :
  1 <= ih -> vwf ivs -> mreachable_a ih ivs s ->
  forall h x cp, In (h, (x, cp)) (st_hdrs (ms_k s)) ->
    hd_hash x <> [] /\ hd_ok x = true /\ vs_ok (hd_next x) = true.
Proof. intros Hih Hivs Hr. exact (mreachable_a_ginv ih ivs s Hih Hivs Hr). Qed.
