(** The timer / outgoing-channel invariant through every handler of the round state machine model:
    one lemma per handler, in the logic of Proofs/SMInv.v. *)
From Coq Require Import List NArith String Bool Lia.
From GV Require Import Base.Ints Gen.Math Gen.StepSM Model.StateMachine Proofs.SMInv.
Import ListNotations.
Local Open Scope N_scope.

Ltac leaf := intros; subst; unf; fields; intuition (try congruence).

Lemma tstep_cases k : 1 <= k <= 4 -> k = 1 \/ k = 2 \/ k = 3 \/ k = 4.
Proof. lia. Qed.

Lemma tstep_vals k : 1 <= k <= 4 -> tstep k = 1 \/ tstep k = 3 \/ tstep k = 5 \/ tstep k = 6.
Proof. intros H. destruct (tstep_cases k H) as [-> | [-> | [-> | ->]]]; vm_compute; auto. Qed.

(** in an untimed step nothing is running *)
Lemma GI_untimed s : GI s -> (rS (rl s) <> 1 /\ rS (rl s) <> 3 /\ rS (rl s) <> 5 /\ rS (rl s) <> 6) -> GN s.
Proof.
  intros ((T & E & O & R) & _) N.
  assert (Z : rTimer (rl s) = None).
  { destruct (rTimer (rl s)) as [[[k h] r]|] eqn:Et; [|reflexivity]. exfalso.
    destruct (T k h r Et) as (_ & _ & Hk & Hs).
    destruct (tstep_vals k Hk) as [X|[X|[X|X]]]; rewrite X in Hs; tauto. }
  split; [split; congruence|split; assumption].
Qed.

(** starting the timer of the step just entered *)
Lemma start_core k s : 1 <= k <= 4 -> GN s -> rS (rl s) = tstep k ->
  fl (start_timer k s) = Go /\ GI0 (st (start_timer k s)) /\ Forall Po (ou (start_timer k s)) /\
  (V s -> V (st (start_timer k s))).
Proof.
  intros Hk ((T1 & T2) & O & R) HS.
  unfold start_timer, withS, bindM, say, upd, updr, st, fl, ou. simpl.
  split; [reflexivity|]. split; [|split].
  - unfold GI0, tm_ok, out_ok, out_ok2. fields. split; [|split; [reflexivity|split; assumption]].
    intros k' h r E. inversion E; subst. auto.
  - repeat constructor. simpl. rewrite T2. reflexivity.
  - intros H; exact H.
Qed.

Lemma tr_start_timer k : 1 <= k <= 4 ->
  tr (fun s => GNV s /\ rS (rl s) = tstep k) (start_timer k) GIV.
Proof.
  intros Hk s [[G HV] HS]. destruct (start_core k s Hk G HS) as (A & B & C & D).
  rewrite A. split; [|exact C]. simpl. apply GI0_V; auto.
Qed.

Lemma tr_start_timer_k k m G : 1 <= k <= 4 -> tr GIV m G ->
  tr (fun s => GNV s /\ rS (rl s) = tstep k) (start_timer k ;; m) G.
Proof. intros Hk Hm. eapply tr_bind; [apply tr_start_timer; exact Hk|exact Hm]. Qed.

(** the round entrance *)
Lemma tr_send_entrance (G : sm -> Prop) : tr (fun s => nt s /\ propOut s <> 1 /\ run s = Idle) send_entrance G.
Proof.
  intros s (T & PO & R). unfold send_entrance, withS, bindM, say, upd, stop, st, fl, ou. simpl.
  split; [|repeat constructor].
  unfold SQ, SQ0, nt, pend_ok in *. fields. split; [split; [exact T|split; [|exact PO]]|left; exact R].
  destruct (participating s); auto.
Qed.

Lemma reset_core h r s : hsub s /\ run s = Idle ->
  let x := reset h r s in
  fl x = Go /\ nt (st x) /\ propOut (st x) <> 1 /\ run (st x) = Idle /\ rH (rl (st x)) = h /\ rR (rl (st x)) = r /\
  pendAct (st x) = pendAct s /\ rOut (rl (st x)) = rOut (rl s) /\ rS (rl (st x)) = rS (rl s) /\
  Forall Po (ou x).
Proof.
  intros (Hs & R). unfold reset, cancel_timer, withS.
  assert (PO : forall p, (if p =? 1 then 2 else p) <> 1).
  { intros p. destruct (p =? 1) eqn:E; [discriminate|]. apply N.eqb_neq. exact E. }
  unfold bindM, say, upd, updr, ret, st, fl, ou, nt.
  destruct (rTimer (rl s)) as [[[k h'] r']|] eqn:E; simpl.
  - repeat split; auto; try (repeat constructor).
    destruct Hs as [Hs|Hs]; rewrite Hs; [reflexivity|].
    rewrite E. unfold eq3. rewrite !N.eqb_refl. reflexivity.
  - repeat split; auto; try (repeat constructor). destruct Hs as [Hs|Hs]; congruence.
Qed.

Definition RQ (s : sm) : Prop := nt s /\ propOut s <> 1 /\ run s = Idle.

Lemma tr_reset_eq s0 h r : hsub s0 /\ run s0 = Idle ->
  tr (eq s0) (reset h r) (fun s => RQ s /\ rH (rl s) = h /\ rR (rl s) = r /\
     pendAct s = pendAct s0 /\ rOut (rl s) = rOut (rl s0) /\ rS (rl s) = rS (rl s0)).
Proof.
  intros H s <-. pose proof (reset_core h r s0 H) as RC. cbv zeta in RC.
  destruct RC as (F & T & PO & R & A1 & A2 & A3 & A4 & A5 & Fo).
  rewrite F. split; [|exact Fo]. simpl. unfold RQ. tauto.
Qed.

Lemma tr_reset h r : tr GM (reset h r) RQ.
Proof.
  intros s (H1 & H2 & H3). destruct (tr_reset_eq s h r (conj H1 H3) s eq_refl) as [Q F]. split; [|exact F].
  destruct (fl (reset h r s)); simpl in *; tauto.
Qed.

Lemma tr_set_hr h r : tr RQ (set_hr h r) RQ.
Proof.
  unfold set_hr. apply (tr_bind RQ).
  - apply tr_say; [exact I|auto].
  - apply tr_upd. unfold RQ. leaf.
Qed.

Lemma tr_advance_round (G : sm -> Prop) : tr GM advance_round G.
Proof.
  unfold advance_round. apply tr_withS. intros s0 H0.
  apply (tr_pre _ GM); [intros s <-; exact H0|].
  apply (tr_bind RQ); [apply tr_reset|].
  apply (tr_bind RQ); [apply tr_set_hr|].
  apply tr_send_entrance.
Qed.

Lemma tr_advance_height (G : sm -> Prop) : tr GM advance_height G.
Proof.
  unfold advance_height. apply tr_withS. intros s0 H0.
  apply (tr_pre _ GM); [intros s <-; exact H0|].
  apply (tr_bind GM); [apply tr_updr; leaf|].
  apply (tr_bind RQ); [apply tr_reset|].
  apply (tr_bind RQ); [apply tr_set_hr|].
  apply tr_send_entrance.
Qed.

Ltac leaf2 := intros; subst; unf; fields; intuition (try reflexivity; try congruence).
Ltac from_eq P H0 := apply (tr_pre _ P); [intros ? <-; exact H0|].

Lemma tr_begin_commit0 v : tr GN (begin_commit v) GI0.
Proof.
  unfold begin_commit.
  apply (tr_bind (fun s => GN s /\ rS (rl s) = tstep 4)); [apply tr_updr; leaf2|].
  apply (tr_bind GI0).
  - intros s [G HS]. destruct (start_core 4 s ltac:(lia) G HS) as (A & B & C & _).
    rewrite A. split; [exact B|exact C].
  - destruct (find_ph (v_phs v) (pcm v)); [apply tr_finalize_req, frame_GI0|apply tr_ret; auto].
Qed.

Lemma tr_begin_commitV v : tr GNV (begin_commit v) GIV.
Proof.
  unfold begin_commit.
  apply (tr_bind (fun s => GNV s /\ rS (rl s) = tstep 4)); [apply tr_updr; leaf2|].
  apply tr_start_timer_k; [lia|].
  destruct (find_ph (v_phs v) (pcm v)); [apply tr_finalize_req, frame_GIV|apply tr_ret; auto].
Qed.

Lemma tr_enter_round h r f : f <> Go -> f <> Susp -> tr GN2 (enter_round h r f) GN2.
Proof.
  intros F1 F2. unfold enter_round. apply tr_withS. intros s0 H0.
  destruct (cm s0); [apply tr_stop; discriminate|]. from_eq GN2 H0.
  apply (tr_bind GN2); [apply tr_say; [exact I|auto]|].
  apply (tr_bind GN2); [apply tr_upd; leaf|].
  destruct (enterErr s0); [|apply tr_ret; auto].
  apply (tr_bind GN2); [apply tr_upd; leaf|apply tr_stop; assumption].
Qed.

Lemma tr_emit P (o : N -> N -> out) : frame P -> (forall h r, Po (o h r)) -> tr P (emit o) P.
Proof.
  intros (_ & _ & _ & F4 & _) Ho. unfold emit. apply tr_withS. intros s0 H0.
  destruct (rOut (rl s0)) as [[h r]|]; [|apply tr_stop; discriminate]. from_eq P H0.
  apply (tr_bind P); [apply tr_say; [apply Ho|auto]|]. apply tr_upd. intros s H. apply F4. exact H.
Qed.

Lemma tr_thresholds P G v k : (forall mn mj, tr P (k mn mj) G) -> tr P (thresholds v k) G.
Proof.
  intros H. unfold thresholds.
  destruct (byz_minority (avail v)); [|apply tr_stop; discriminate].
  destruct (byz_majority (avail v)); [|apply tr_stop; discriminate]. apply H.
Qed.

(** beginRoundLive: entered with no timer, leaves with the timer of the step it chose *)
Lemma tr_begin_round_live v : tr GN (begin_round_live v) GIV.
Proof.
  unfold begin_round_live.
  destruct (get_step_from_vote_summary (v_vs v)) as [st|]; [|apply tr_stop; discriminate].
  destruct (st =? StepAwaitingProposal) eqn:E1.
  { apply N.eqb_eq in E1. subst st.
    apply (tr_bind GN).
    { apply tr_withS. intros s0 H0. from_eq GN H0.
      apply tr_when; [intros _; apply tr_req_consider, frame_GN|auto]. }
    apply (tr_bind (fun s => GNV s /\ rS (rl s) = tstep 1)); [apply tr_updr; leaf2|].
    apply tr_start_timer. lia. }
  destruct (st =? StepAwaitingPrevotes); [apply tr_stop; discriminate|].
  destruct (st =? StepAwaitingPrecommits).
  { apply (tr_bind GN); [apply tr_req_decide, frame_GN|]. apply tr_updr. leaf2. }
  destruct (st =? StepCommitWait); [|apply tr_stop; discriminate].
  destruct (pcm v).
  - apply (tr_pre _ GM); [exact GN_GM|apply tr_advance_round].
  - apply (tr_bind GI0); [apply tr_begin_commit0|]. apply tr_updr. leaf2.
Qed.

Ltac cancelV := apply (tr_bind GNV); [apply (tr_pre _ GMV); [exact GIV_GMV|apply tr_cancelV]|].
Ltac adv_round := apply (tr_pre _ GM); [first [exact GNV_GM|exact GN_GM|exact GI_GM|intros ? ?; apply GI_GM, GIV_GI; assumption]|apply tr_advance_round].
Ltac delay k := apply (tr_bind (fun s => GNV s /\ rS (rl s) = tstep k)); [apply tr_updr; leaf2|]; apply tr_start_timer_k; [lia|].

Ltac delay0 k := apply (tr_bind (fun s => GNV s /\ rS (rl s) = tstep k)); [apply tr_updr; leaf2|apply tr_start_timer; lia].

Lemma tr_commit_or_advance v : tr GNV (match pcm v with [] => advance_round | _ => begin_commit v end) GIV.
Proof. destruct (pcm v); [adv_round|apply tr_begin_commitV]. Qed.

Lemma tr_precommit_delay vs : tr GNV (updr (set_rS StepPrecommitDelay) ;; start_timer 3 ;; req_decide vs) GIV.
Proof. delay 3. apply tr_req_decide, frame_GIV. Qed.

Lemma tr_handle_proposal_view v : tr GIV (handle_proposal_view v) GIV.
Proof.
  unfold handle_proposal_view. apply tr_thresholds. intros mn mj.
  destruct (mj <=? tpc v).
  { cancelV. destruct (mj <=? pc_pow v); [apply tr_commit_or_advance|apply tr_precommit_delay]. }
  destruct (mn <=? tpc v).
  { cancelV. apply (tr_bind GNV); [apply tr_updr; leaf2|].
    apply (tr_post _ GNV); [exact GNV_GIV|]. apply tr_req_decide, frame_GNV. }
  destruct (mj <=? tpv v).
  { cancelV. apply tr_withS. intros s0 H0. from_eq GNV H0. cbv zeta.
    destruct (mj <=? pv_pow v).
    - apply (tr_bind GNV); [apply tr_updr; leaf2|].
      apply (tr_bind GNV); [apply tr_req_choose, frame_GNV|]. apply tr_updr. leaf2.
    - delay 2. apply tr_when; [intros _; apply tr_req_consider, frame_GIV|auto]. }
  apply tr_withS. intros s0 H0. from_eq GIV H0.
  destruct (rVRV (rl s0)) as [old|]; [|apply tr_stop; discriminate].
  destruct (N.of_nat _ <? N.of_nat _); [|apply tr_ret; auto]. cbv zeta.
  destruct (N.of_nat _ <=? N.of_nat _); [apply tr_ret; auto|apply tr_req_consider, frame_GIV].
Qed.

(** in the prevote steps: the delay step has the timer, the awaiting step has none *)
Lemma when_delay_cancel s0 (d : N) : GIV s0 -> (rS (rl s0) = d \/ (rS (rl s0) <> 1 /\ rS (rl s0) <> 3 /\ rS (rl s0) <> 5 /\ rS (rl s0) <> 6)) ->
  tr (eq s0) (when (rS (rl s0) =? d) (cancel_timer true)) GNV.
Proof.
  intros H0 HS. apply tr_when; intros E.
  - from_eq GMV (GIV_GMV _ H0). apply tr_cancelV.
  - intros s <-. apply N.eqb_neq in E. destruct HS as [HS|HS]; [congruence|].
    destruct H0 as [A B]. split; [|exact B]. apply GI_untimed; assumption.
Qed.

Lemma tr_handle_prevote_view v :
  tr (fun s => GIV s /\ (rS (rl s) = StepAwaitingPrevotes \/ rS (rl s) = StepPrevoteDelay)) (handle_prevote_view v) GIV.
Proof.
  unfold handle_prevote_view. apply tr_thresholds. intros mn mj.
  apply tr_withS. intros s0 [H0 HS]. cbv zeta.
  assert (HS' : rS (rl s0) = StepPrevoteDelay \/ (rS (rl s0) <> 1 /\ rS (rl s0) <> 3 /\ rS (rl s0) <> 5 /\ rS (rl s0) <> 6)).
  { destruct HS as [HS|HS]; [right; rewrite HS; vm_compute; repeat split; discriminate|left; exact HS]. }
  destruct (mj <=? tpc v).
  { apply (tr_bind GNV); [apply when_delay_cancel; assumption|].
    destruct (mj <=? pc_pow v); [apply tr_commit_or_advance|apply tr_precommit_delay]. }
  destruct (mj <=? tpv v); [|apply tr_ret; intros s <-; exact H0].
  destruct (mj <=? pv_pow v).
  - apply (tr_bind GNV); [apply when_delay_cancel; assumption|].
    apply (tr_bind GNV); [apply tr_updr; leaf2|].
    apply (tr_post _ GNV); [exact GNV_GIV|]. apply tr_req_decide, frame_GNV.
  - apply tr_when; intros E; [|intros s <-; exact H0].
    apply N.eqb_eq in E.
    apply (tr_pre _ GNV).
    { intros s <-. destruct H0 as [A B]. split; [|exact B]. apply GI_untimed; [exact A|].
      rewrite E. vm_compute. repeat split; discriminate. }
    delay0 2.
Qed.

Lemma tr_handle_precommit_view v :
  tr (fun s => GIV s /\ (rS (rl s) = StepAwaitingPrecommits \/ rS (rl s) = StepPrecommitDelay)) (handle_precommit_view v) GIV.
Proof.
  unfold handle_precommit_view. apply tr_thresholds. intros mn mj.
  apply tr_withS. intros s0 [H0 HS].
  assert (HS' : rS (rl s0) = StepPrecommitDelay \/ (rS (rl s0) <> 1 /\ rS (rl s0) <> 3 /\ rS (rl s0) <> 5 /\ rS (rl s0) <> 6)).
  { destruct HS as [HS|HS]; [right; rewrite HS; vm_compute; repeat split; discriminate|left; exact HS]. }
  destruct (mj <=? tpc v); [|apply tr_ret; intros s <-; exact H0].
  destruct (mj <=? pc_pow v).
  - destruct (pcm v).
    + from_eq GIV H0. adv_round.
    + apply (tr_bind GNV); [apply when_delay_cancel; assumption|apply tr_begin_commitV].
  - destruct (tpc v =? avail v).
    + from_eq GIV H0. adv_round.
    + apply tr_when; intros E; [|intros s <-; exact H0].
      apply N.eqb_eq in E.
      apply (tr_pre _ GNV).
      { intros s <-. destruct H0 as [A B]. split; [|exact B]. apply GI_untimed; [exact A|].
        rewrite E. vm_compute. repeat split; discriminate. }
      delay0 3.
Qed.

Lemma tr_handle_commit_wait_view v : tr GIV (handle_commit_wait_view v) GIV.
Proof.
  unfold handle_commit_wait_view. apply tr_withS. intros s0 H0. from_eq GIV H0.
  destruct (negb (rFinCh (rl s0))); [apply tr_ret; auto|].
  destruct (rVRV (rl s0)) as [old|]; [|apply tr_stop; discriminate].
  destruct (find_ph (v_phs old) (pcm old)); [apply tr_ret; auto|].
  destruct (find_ph (v_phs v) (pcm v)); [apply tr_finalize_req, frame_GIV|apply tr_ret; auto].
Qed.

Lemma tr_handle_jump_ahead j (G : sm -> Prop) : tr GM (handle_jump_ahead j) G.
Proof.
  unfold handle_jump_ahead. apply tr_withS. intros s0 H0. from_eq GM H0. destruct j as [jh jr].
  destruct (negb (jh =? rH (rl s0))); [apply tr_stop; discriminate|].
  destruct (jr <=? rR (rl s0)); [apply tr_stop; discriminate|]. apply tr_advance_round.
Qed.

Lemma tr_view_tail v ja : tr GI (view_tail v ja) GI.
Proof.
  unfold view_tail. apply (tr_bind GI).
  - apply tr_withS. intros s0 H0. from_eq GI H0.
    destruct (rVRV (rl s0)); [|apply tr_stop; discriminate].
    apply tr_when; [intros _; apply tr_updr; leaf2|auto].
  - destruct ja as [j|]; [|apply tr_ret; auto].
    apply (tr_pre _ GM); [exact GI_GM|apply tr_handle_jump_ahead].
Qed.

Lemma SQ_set_run s t : SQ s -> SQ (set_run (AwaitAdv t) s).
Proof. intros [A B]. split; [exact A|right; eexists; reflexivity]. Qed.

Lemma tr_suspend P m v ja : tr P m GI -> tr P (suspend_with_tail m v ja) GI.
Proof.
  intros Hm s Hs. unfold suspend_with_tail, st, fl, ou.
  destruct (Hm s Hs) as [Q F]. unfold st, fl, ou in *.
  destruct (m s) as [[s1 o1] f1]. simpl in *.
  destruct f1; simpl; try (split; [exact I|exact F]).
  - destruct (tr_view_tail v ja s1 Q) as [Q2 F2]. unfold st, fl, ou in *.
    destruct (view_tail v ja s1) as [[s2 o2] f2]. simpl in *.
    split; [exact Q2|apply Forall_app; split; assumption].
  - split; [apply SQ_set_run; exact Q|exact F].
Qed.

Lemma tr_handle_view_update v ja : tr GI (handle_view_update v ja) GI.
Proof.
  unfold handle_view_update. apply tr_withS. intros s0 H0.
  destruct (v_h v =? 0).
  { destruct ja as [j|]; [|apply tr_stop; discriminate].
    from_eq GM (GI_GM _ H0). apply tr_handle_jump_ahead. }
  destruct (negb _); [apply tr_ret; intros s <-; exact H0|].
  destruct (rVRV (rl s0)) as [cur|] eqn:EV; [|apply tr_stop; discriminate].
  destruct (v_ver v <=? v_ver cur); [apply tr_stop; discriminate|]. cbv zeta.
  assert (HV : GIV s0) by (split; [exact H0|unfold V; congruence]).
  apply tr_suspend. apply (tr_post _ GIV); [exact GIV_GI|].
  destruct (rS (rl s0) =? StepAwaitingProposal).
  { from_eq GIV HV. apply tr_handle_proposal_view. }
  destruct ((rS (rl s0) =? StepAwaitingPrevotes) || (rS (rl s0) =? StepPrevoteDelay)) eqn:E2.
  { apply (tr_pre _ (fun s => GIV s /\ (rS (rl s) = StepAwaitingPrevotes \/ rS (rl s) = StepPrevoteDelay))).
    - intros s <-. split; [exact HV|]. apply orb_true_iff in E2. destruct E2 as [E|E]; apply N.eqb_eq in E; auto.
    - apply tr_handle_prevote_view. }
  destruct ((rS (rl s0) =? StepAwaitingPrecommits) || (rS (rl s0) =? StepPrecommitDelay)) eqn:E3.
  { apply (tr_pre _ (fun s => GIV s /\ (rS (rl s) = StepAwaitingPrecommits \/ rS (rl s) = StepPrecommitDelay))).
    - intros s <-. split; [exact HV|]. apply orb_true_iff in E3. destruct E3 as [E|E]; apply N.eqb_eq in E; auto.
    - apply tr_handle_precommit_view. }
  destruct ((rS (rl s0) =? StepCommitWait) || _); [|apply tr_stop; discriminate].
  from_eq GIV HV. apply tr_handle_commit_wait_view.
Qed.

(** ** Recording actions *)
Lemma tr_leave_proposal b :
  tr GI (when b (updr (set_rS StepAwaitingPrevotes) ;; cancel_timer true)) GI.
Proof.
  apply tr_when; intros E; [|auto].
  apply (tr_pre _ GM); [exact GI_GM|]. apply (tr_bind GM); [apply tr_updr; leaf2|].
  apply (tr_post _ GN); [exact GN_GI|apply tr_cancel].
Qed.

Lemma tr_record_prevote t : tr GI (record_prevote t) GI.
Proof.
  unfold record_prevote. apply tr_withS. intros s0 H0. cbv zeta. from_eq GI H0.
  apply (tr_bind GI); [|apply tr_leave_proposal].
  apply tr_when; [intros _|auto].
  apply (tr_bind GI); [apply tr_say; [exact I|auto]|].
  destruct (ra_pv (cur_ra s0)).
  - apply (tr_bind GI); [apply tr_say; [exact I|auto]|apply tr_stop; discriminate].
  - apply (tr_bind GI); [apply tr_upd; intros s H; apply frame_GI; exact H|].
    apply (tr_bind GI); [apply tr_say; [exact I|auto]|].
    apply tr_emit; [apply frame_GI|intros; exact I].
Qed.

Lemma tr_record_precommit t : tr GI (record_precommit t) GI.
Proof.
  unfold record_precommit. apply tr_withS. intros s0 H0. cbv zeta. from_eq GI H0.
  apply tr_when; [intros _|auto].
  apply (tr_bind GI); [apply tr_say; [exact I|auto]|].
  destruct (ra_pc (cur_ra s0)).
  - apply (tr_bind GI); [apply tr_say; [exact I|auto]|apply tr_stop; discriminate].
  - apply (tr_bind GI); [apply tr_upd; intros s H; apply frame_GI; exact H|].
    apply (tr_bind GI); [apply tr_say; [exact I|auto]|].
    apply tr_emit; [apply frame_GI|intros; exact I].
Qed.

Lemma tr_record_proposed_header d : tr GI (record_proposed_header d) GI.
Proof.
  unfold record_proposed_header. apply tr_withS. intros s0 H0. cbv zeta. from_eq GI H0.
  apply (tr_bind GI).
  { destruct (initial_height <? rH (rl s0)); [|apply tr_ret; auto].
    destruct (rVRV (rl s0)); [|apply tr_stop; discriminate].
    destruct (rPrevVS (rl s0) =? 0); [apply tr_stop; discriminate|].
    destruct (pcp_finalizes (rl s0) v); [apply tr_ret; auto|apply tr_stop; discriminate]. }
  apply (tr_bind GI); [destruct (signer s0); [apply tr_ret; auto|apply tr_stop; discriminate]|].
  apply (tr_bind GI); [apply tr_say; [exact I|auto]|].
  destruct (ra_ph (cur_ra s0)).
  - apply (tr_bind GI); [apply tr_say; [exact I|auto]|apply tr_stop; discriminate].
  - apply (tr_bind GI); [apply tr_upd; intros s H; apply frame_GI; exact H|].
    apply (tr_bind GI); [apply tr_say; [exact I|auto]|].
    apply tr_emit; [apply frame_GI|intros; exact I].
Qed.

(** ** Remaining handlers *)
Lemma tr_handle_finalization h r bh vs ash : tr GI (handle_finalization h r bh vs ash) GI.
Proof.
  unfold handle_finalization. destruct (vs =? 0); [apply tr_stop; discriminate|].
  apply (tr_bind GI); [apply tr_updr; leaf2|].
  apply tr_withS. intros s0 H0. cbv zeta. from_eq GI H0.
  destruct (negb _); [apply tr_stop; discriminate|].
  destruct (fstore_get (fStore s0) (rH (rl s0))).
  - apply (tr_bind GI); [apply tr_say; [exact I|auto]|apply tr_stop; discriminate].
  - apply (tr_bind GI); [apply tr_upd; leaf2|].
    apply (tr_bind GI); [apply tr_say; [exact I|auto]|].
    apply tr_when; [intros _|auto]. apply (tr_pre _ GM); [exact GI_GM|apply tr_advance_height].
Qed.

Lemma tr_vrv_or_panic P G k : (forall v, tr P (k v) G) -> tr P (vrv_or_panic k) G.
Proof.
  intros H. unfold vrv_or_panic. apply tr_withS. intros s0 H0.
  destruct (rVRV (rl s0)); [|apply tr_stop; discriminate]. from_eq P H0. apply H.
Qed.

(** the timer has fired: every continuing path cancels what the machine believed to be running *)
Lemma tr_handle_timer_elapsed : tr GM handle_timer_elapsed GN.
Proof.
  unfold handle_timer_elapsed. apply tr_withS. intros s0 H0. cbv zeta. from_eq GM H0.
  destruct (rS (rl s0) =? StepAwaitingProposal).
  { apply (tr_bind GM); [apply tr_vrv_or_panic; intros v; apply tr_req_choose, frame_GM|].
    apply (tr_bind GM); [apply tr_updr; leaf2|apply tr_cancel]. }
  destruct (rS (rl s0) =? StepPrevoteDelay).
  { apply (tr_bind GM); [apply tr_vrv_or_panic; intros v; apply tr_req_decide, frame_GM|].
    apply (tr_bind GM); [apply tr_updr; leaf2|apply tr_cancel]. }
  destruct (rS (rl s0) =? StepPrecommitDelay).
  { apply (tr_bind GN); [apply tr_cancel|]. apply (tr_pre _ GM); [exact GN_GM|apply tr_advance_round]. }
  destruct (rS (rl s0) =? StepCommitWait); [|apply tr_stop; discriminate].
  apply (tr_bind GN); [apply tr_cancel|].
  destruct (rFinVS (rl s0) =? 0); [apply tr_updr; leaf2|].
  apply (tr_pre _ GM); [exact GN_GM|apply tr_advance_height].
Qed.

Lemma tr_handle_height_committed : tr GI handle_height_committed GN.
Proof.
  unfold handle_height_committed.
  apply (tr_bind GM); [apply tr_updr; intros s H; apply GI_GM in H; revert H; leaf2|].
  apply (tr_bind GN); [apply tr_cancel|].
  apply tr_withS. intros s0 H0. cbv zeta. from_eq GN H0.
  destruct (rS (rl s0) =? StepAwaitingFinalization); [apply tr_ret; auto|].
  destruct (negb _); [apply tr_stop; discriminate|].
  destruct (rFinVS (rl s0) =? 0); [apply tr_updr; leaf2|].
  apply (tr_pre _ GM); [exact GN_GM|apply tr_advance_height].
Qed.

Lemma tr_handle_block_data h r d : tr GI (handle_block_data h r d) GI.
Proof.
  unfold handle_block_data. apply tr_withS. intros s0 H0. from_eq GI H0.
  destruct (negb (rPvCh (rl s0))); [apply tr_ret; auto|].
  destruct (negb _); [apply tr_ret; auto|].
  apply tr_vrv_or_panic. intros v. cbv zeta.
  destruct (reject_mismatched (rl s0) (v_phs v)); [apply tr_ret; auto|].
  destruct (map ph_data _); [apply tr_ret; auto|]. apply tr_req_consider, frame_GI.
Qed.
