(** C13 (BLS tree) - the sparse form is canonical: in a closed tree the maximal set nodes are the maximal
    FULL nodes (all real leaves signed), a function of the bit set alone.  Hence AsSparse after the sparse
    round trip lists the same ids. *)
From Coq Require Import List NArith ZArith String Bool Lia Arith Permutation.
From GV Require Import Base.Ints Model.SimpleProofBase Model.BlsTree Proofs.BlsTreeBase Proofs.BlsTreeAdd
  Proofs.BlsTreeProof Proofs.BlsTreeMachine Proofs.BlsTreeSparse Proofs.BlsTreeMerge Proofs.BlsTreeRoundtrip
  Proofs.BlsTreeClosed.
Import ListNotations.
Local Open Scope N_scope.

(** node (d, off) has a real leaf and all its real leaves have their bit *)
Definition full (h : nat) (n bits : N) (d : nat) (off : N) : Prop :=
  keyed h n d off = true /\ forall i, i < n -> in_node h d off i -> N.testbit bits i = true.

Lemma set_full : forall msg h t d off, inv msg h t -> (d <= h)%nat -> off < p2 d ->
  set_at (t_sigs t) (nidx h d off) = true -> full h (t_n t) (t_bits t) d off.
Proof.
  intros msg h t d off Hinv Hd Ho Hs. pose proof Hinv as (Hwf & Hgen & _). split.
  - pose proof Hs as Hs'. apply set_at_is_set in Hs'. destruct Hs' as [sg Hsg].
    destruct (Hgen _ _ Hsg) as (ks & Hk & _). unfold nidx in Hk. rewrite (wf_keys _ _ Hwf d off Hd Ho) in Hk.
    unfold rkey in Hk. unfold keyed. destruct (off * p2 (h - d) <? t_n t); [reflexivity|discriminate].
  - intros i Hi Hn. pose proof Hs as Hs'. apply set_at_is_set in Hs'. destruct Hs' as [sg Hsg].
    destruct (Hgen _ _ Hsg) as (ks & Hk & _).
    apply (set_node_bits msg h t _ ks sg Hinv Hsg Hk).
    assert (A : In i (leaves_of (t_keys t) (nidx h d off))) by (apply (max_leaves msg h t d off Hinv Hd Ho Hs); auto).
    unfold leaves_of in A. now rewrite Hk in A.
Qed.

(** fullness descends to keyed descendants *)
Lemma full_down : forall h n bits m d x, (m + d <= h)%nat ->
  full h n bits d (upn m x) -> keyed h n (m + d) x = true -> full h n bits (m + d) x.
Proof.
  intros h n bits m d x Hd [_ F] K. split; [assumption|]. intros i Hi Hn. apply F; [assumption|].
  apply in_node_up; assumption.
Qed.

Lemma keyed_half : forall h n d off, (S d <= h)%nat -> keyed h n (S d) off = true -> keyed h n d (off / 2) = true.
Proof.
  intros h n d off Hd K. unfold keyed in *. apply N.ltb_lt in K. apply N.ltb_lt. rewrite (p2_h_sub h d Hd).
  pose proof (N.div_mod off 2 ltac:(lia)) as A. pose proof (N.mod_upper_bound off 2 ltac:(lia)) as B.
  remember (off / 2) as q. remember (off mod 2) as r. remember (p2 (h - S d)) as nl. subst off.
  assert (2 * q * nl <= (2 * q + r) * nl) by (apply N.mul_le_mono_r; lia). lia.
Qed.

Lemma anc_setb_inv : forall h sigs d off, anc_setb h sigs 0 d off = true ->
  exists m d', d = (m + d')%nat /\ (1 <= m)%nat /\ set_at sigs (nidx h d' (upn m off)) = true.
Proof.
  induction d; intros off H; [discriminate|]. cbn [anc_setb] in H. cbn in H. apply orb_true_iff in H.
  destruct H as [H|H].
  - exists 1%nat, d. cbn [upn plus]. auto.
  - destruct (IHd _ H) as (m & d' & A & B & C). exists (S m), d'. cbn [upn]. split; [lia|]. split; [lia|assumption].
Qed.

(** in a closed tree every full node is set or has a set ancestor *)
Lemma full_has_set : forall msg h t, inv msg h t -> closed h t ->
  forall m d off, (h = d + m)%nat -> off < p2 d -> full h (t_n t) (t_bits t) d off ->
  set_at (t_sigs t) (nidx h d off) = true \/ anc_setb h (t_sigs t) 0 d off = true.
Proof.
  intros msg h t Hinv Hc. pose proof Hinv as (Hwf & Hgen & Hex).
  induction m; intros d off Hh Ho [K F].
  - assert (d = h) by lia. subst d.
    assert (Hon : off < t_n t).
    { unfold keyed in K. rewrite Nat.sub_diag in K. cbn [p2] in K. apply N.ltb_lt in K. lia. }
    assert (Hself : in_node h h off off) by (unfold in_node; rewrite Nat.sub_diag; cbn [p2]; lia).
    pose proof (F off Hon Hself) as Hb. apply Hex in Hb. destruct Hb as [_ (d1 & o1 & Hd1 & Ho1 & Hs & Hn)].
    apply set_at_is_set in Hs.
    assert (Hup : in_node h d1 (upn (h - d1) off) off).
    { apply in_node_up; [lia|]. replace (h - d1 + d1)%nat with h by lia. exact Hself. }
    pose proof (in_node_same_level h d1 _ _ off Hn Hup) as ->.
    destruct (Nat.eq_dec d1 h) as [->|Hne].
    + left. rewrite Nat.sub_diag in Hs. exact Hs.
    + right. replace h with ((h - d1) + d1)%nat at 2 by lia. apply anc_of_up; [lia|exact Hs].
  - assert (Hd : (S d <= h)%nat) by lia.
    assert (Hnl : p2 (h - d) = 2 * p2 (h - S d)) by (apply p2_h_sub; assumption).
    assert (Hc1 : 2 * off < p2 (S d)) by (cbn [p2]; lia).
    assert (Hc2 : 2 * off + 1 < p2 (S d)) by (cbn [p2]; lia).
    assert (K1 : keyed h (t_n t) (S d) (2 * off) = true).
    { unfold keyed in *. rewrite Hnl in K. apply N.ltb_lt in K. apply N.ltb_lt. lia. }
    assert (Fc : forall c, c / 2 = off -> keyed h (t_n t) (S d) c = true -> full h (t_n t) (t_bits t) (S d) c).
    { intros c Hc0 Kc. apply (full_down h _ _ 1 d c); [lia| |exact Kc]. cbn [upn]. rewrite Hc0. split; assumption. }
    assert (Hanc : forall c, c / 2 = off -> anc_setb h (t_sigs t) 0 (S d) c = true ->
                   set_at (t_sigs t) (nidx h d off) = true \/ anc_setb h (t_sigs t) 0 d off = true).
    { intros c Hc0 Ha. cbn [anc_setb] in Ha. cbn in Ha. rewrite Hc0 in Ha. now apply orb_true_iff in Ha. }
    destruct (IHm (S d) (2 * off) ltac:(lia) Hc1 (Fc _ (half_2q off) K1)) as [S1|A1];
      [|exact (Hanc _ (half_2q off) A1)].
    pose proof (Hc d (2 * off) Hd Hc1 I S1) as Hok. rewrite half_2q in Hok.
    destruct Hok as [Hp|[K2 S2]]; [left; exact Hp|].
    assert (Hsib : sib (2 * off) = 2 * off + 1).
    { unfold sib. replace (N.even (2 * off)) with true by (symmetry; rewrite N.even_mul; reflexivity). reflexivity. }
    rewrite Hsib in K2, S2.
    destruct (IHm (S d) (2 * off + 1) ltac:(lia) Hc2 (Fc _ (half_2q1 off) K2)) as [S3|A3]; [congruence|].
    exact (Hanc _ (half_2q1 off) A3).
Qed.

(** canonical = full, and the parent (if any) is not full *)
Definition canon (h : nat) (n bits : N) (d : nat) (off : N) : Prop :=
  full h n bits d off /\ match d with O => True | S d0 => ~ full h n bits d0 (off / 2) end.

Theorem max_canon : forall msg h t d off, inv msg h t -> closed h t -> (d <= h)%nat -> off < p2 d ->
  (maxb h (t_sigs t) d off = true <-> canon h (t_n t) (t_bits t) d off).
Proof.
  intros msg h t d off Hinv Hc Hd Ho. unfold maxb. rewrite andb_true_iff, negb_true_iff. split.
  - intros [Hs Ha]. split; [eapply set_full; eauto|]. destruct d as [|d0]; [exact I|].
    intro Hf. pose proof (half_lt d0 off Ho) as Hq.
    destruct (full_has_set msg h t Hinv Hc (h - d0) d0 (off / 2) ltac:(lia) Hq Hf) as [A|A];
      cbn [anc_setb] in Ha; cbn in Ha; rewrite A in Ha; [discriminate|]. rewrite orb_true_r in Ha. discriminate.
  - intros [Hf Hp].
    assert (Ha : anc_setb h (t_sigs t) 0 d off = false).
    { destruct (anc_setb h (t_sigs t) 0 d off) eqn:E; [|reflexivity]. exfalso.
      destruct (anc_setb_inv _ _ _ _ E) as (m & d' & -> & Hm & Hs).
      destruct m as [|m']; [lia|]. cbn [plus] in Hp. apply Hp.
      assert (Hu : upn m' (off / 2) < p2 d').
      { apply upn_lt. apply half_lt. exact Ho. }
      cbn [upn] in Hs.
      apply (full_down h _ _ m' d' (off / 2)); [lia| |].
      - apply (set_full msg h t d' _ Hinv ltac:(lia) Hu Hs).
      - apply keyed_half; [lia|]. destruct Hf as [K _]. exact K. }
    split; [|exact Ha].
    destruct (full_has_set msg h t Hinv Hc (h - d) d off ltac:(lia) Ho Hf) as [A|A]; [exact A|congruence].
Qed.

(** two closed trees over the same number of keys with the same bits list the same ids *)
Theorem sparse_canonical : forall p q ids ids', pinv p -> pcl p -> pinv q -> pcl q ->
  t_n (p_tree p) = t_n (p_tree q) -> p_bits p = p_bits q ->
  sparse_indices (p_tree p) = Ok ids -> sparse_indices (p_tree q) = Ok ids' -> Permutation ids ids'.
Proof.
  intros p q ids ids' [h Hp] Cp [h' Hq] Cq Hn Hb E E'.
  pose proof Hp as (Wp & _). pose proof Hq as (Wq & _).
  assert (h' = h).
  { apply p2_inj. rewrite <- (wf_lw _ _ Wp), <- (wf_lw _ _ Wq), Hn. reflexivity. }
  subst h'.
  destruct (sparse_indices_spec _ h _ Hp) as (i1 & E1 & N1 & M1). rewrite E in E1. inversion E1; subst i1.
  destruct (sparse_indices_spec _ h _ Hq) as (i2 & E2 & N2 & M2). rewrite E' in E2. inversion E2; subst i2.
  apply NoDup_Permutation; [assumption|assumption|]. intro x. rewrite M1, M2. unfold is_max.
  unfold p_bits in Hb.
  split; intros (d & off & Hd & Ho & -> & Hm); exists d, off; (split; [assumption|]); (split; [assumption|]);
    (split; [reflexivity|]).
  - apply (max_canon _ h _ d off Hq (Cq h Wq) Hd Ho). rewrite <- Hn, <- Hb.
    apply (max_canon _ h _ d off Hp (Cp h Wp) Hd Ho). exact Hm.
  - apply (max_canon _ h _ d off Hp (Cp h Wp) Hd Ho). rewrite Hn, Hb.
    apply (max_canon _ h _ d off Hq (Cq h Wq) Hd Ho). exact Hm.
Qed.

(** (3), second half: after the sparse round trip AsSparse lists the same ids *)
Theorem sparse_roundtrip_ids : forall p, pinv p -> pcl p -> t_n (p_tree p) <= 32768 ->
  exists ids q ids',
    sparse_indices (p_tree p) = Ok ids /\
    merge_sparse (derive p) (p_hash p) (map (sparse_entry_of p) ids) =
      Ok (q, mk_flags true (0 <? popcount (p_bits p)) false) /\
    p_bits q = p_bits p /\ sparse_indices (p_tree q) = Ok ids' /\ Permutation ids' ids.
Proof.
  intros p Hp Cp Hn. destruct (sparse_roundtrip p Hp Hn) as (ids & q & E1 & _ & E3 & Hq & Hb).
  destruct (derive_pinv p Hp) as [Hd _].
  pose proof (merge_sparse_pcl _ _ _ _ _ Hd (derive_pcl p) E3) as Cq.
  destruct (merge_sparse_spec (derive p) (p_hash p) (map (sparse_entry_of p) ids) Hd)
    as (q' & R1 & _ & _ & _ & _ & Rn & _).
  rewrite E3 in R1. inversion R1; subst q'. clear R1.
  destruct (derive_keys p) as (_ & _ & _ & Dn). rewrite Dn in Rn.
  destruct Hq as [hq Hinvq]. destruct (sparse_indices_spec _ hq _ Hinvq) as (ids' & E' & _ & _).
  exists ids, q, ids'. split; [exact E1|]. split; [exact E3|]. split; [exact Hb|]. split; [exact E'|].
  apply (sparse_canonical q p ids' ids (ex_intro _ hq Hinvq) Cq Hp Cp Rn Hb E' E1).
Qed.

(** every proof reachable through the API satisfies the hypotheses *)
Theorem reachable_pinv_pcl : forall ops r p, reg_get (regs_after [] ops) r = Some p -> pinv p /\ pcl p.
Proof. intros ops r p E. exact (run_closed ops [] regs_cl_nil r p E). Qed.
