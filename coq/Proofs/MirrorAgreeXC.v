(** C03 for mirrors over the crash / restart / local-action closures: the theorems of
    Proofs/MirrorAgreeX.v (agreement from the bundle [AgreeInv]) instantiated with
    Proofs/MirrorHdrGoodX.v ([AgreeInv] holds in every state of [reachable_g], [mreachable_a],
    [lreachable]).

    Closures:
      [reachable_g ih ivs]   (Proofs/MirrorResume.v, C10Resume) kernel operations, a crash after ANY
                             number of store writes of an operation followed by start-up, clean
                             restarts; admissibility [xwf] = [wf_op] of the operation
                             ([op_bounded], [step_adm], and the MODEL-ONLY "the next validator set
                             of an accepted / applied replayed header lists a key");
      [mreachable_a ih ivs]  (Proofs/MirrorTotalM.v, C09KernelX) additionally round entrances,
                             reads, the local validator's own prevote / precommit (no hypothesis)
                             and own proposed header under [lph_okb] when the kernel files it;
      [lreachable ih ivs]    (Proofs/MirrorActInv.v, C05Act) kernel operations, entrances, reads,
                             local actions, the own proposed header under [accept_facts]; no
                             crashes; only [vs_ok ivs] of the genesis set.
    [vwf ivs]: the genesis set passed [vs_ok], has total power in [1, 2^64) and (model only) lists
    a key. *)
From Coq Require Import List NArith Bool.
From GV Require Import Base.Ints Gen.Math Gen.Kernel Model.Network Model.Mirror Model.MirrorMgr
  Proofs.Thresholds Proofs.Network Proofs.MirrorAuth Proofs.MirrorChain Proofs.MirrorCert
  Proofs.MirrorHdrGood Proofs.MirrorActInv Proofs.MirrorResumeInv Proofs.MirrorResume
  Proofs.MirrorTotalM Proofs.MirrorAgree Proofs.MirrorAgreeX Proofs.MirrorHdrGoodX.
Import ListNotations.
Local Open Scope N_scope.

(** * Any of the closures: a kernel state reached in one of the four ways *)
Definition kreach (ih : N) (ivs : valset) (k : kstate) : Prop :=
  reachable_b ih ivs k \/ reachable_g ih ivs k \/
  (exists s, mreachable_a ih ivs s /\ ms_k s = k) \/
  (exists s, lreachable ih ivs s /\ ms_k s = k).

Lemma kreach_AgreeInv ih ivs k : 1 <= ih -> vwf ivs -> kreach ih ivs k -> AgreeInv ih ivs k.
Proof.
  intros Hih Hivs [H|[H|[(s&H&E)|(s&H&E)]]].
  - apply reachable_b_AgreeInv; [exact Hih|exact (proj1 Hivs)|exact H].
  - apply reachable_g_AgreeInv; assumption.
  - subst k. apply mreachable_a_AgreeInv; assumption.
  - subst k. apply lreachable_AgreeInv; [exact Hih|exact (proj1 Hivs)|exact H].
Qed.

(** * (2) operations, crashes, restarts *)
Theorem mirrors_agree_x ih ivs s1 s2 V (B : N -> list N) :
  1 <= ih -> vwf ivs -> reachable_g ih ivs s1 -> reachable_g ih ivs s2 ->
  cert_sigs_in V s1 -> cert_sigs_in V s2 -> hash_binds_next s1 s2 ->
  (forall h x1 cp1 x2 cp2, In (h, (x1, cp1)) (st_hdrs s1) -> In (h, (x2, cp2)) (st_hdrs s2) ->
     byz_bound (chain_vals ih ivs (st_hdrs s1) h) (B h) /\
     A1m (chain_vals ih ivs (st_hdrs s1) h) (B h) V h /\
     A2m (chain_vals ih ivs (st_hdrs s1) h) (B h) V h /\
     A3m (chain_vals ih ivs (st_hdrs s1) h) (B h) V h) ->
  forall h x1 cp1 x2 cp2, In (h, (x1, cp1)) (st_hdrs s1) -> In (h, (x2, cp2)) (st_hdrs s2) ->
    hd_hash x1 = hd_hash x2 /\
    valset_equal (hd_next x1) (hd_next x2) = true /\
    vs_keys (chain_vals ih ivs (st_hdrs s1) h) = vs_keys (chain_vals ih ivs (st_hdrs s2) h) /\
    vs_pows (chain_vals ih ivs (st_hdrs s1) h) = vs_pows (chain_vals ih ivs (st_hdrs s2) h).
Proof.
  intros Hih Hivs R1 R2. apply mirrors_agree_inv; apply reachable_g_AgreeInv; assumption.
Qed.

Theorem mirrors_agree_upto_x ih ivs s1 s2 V (B : N -> list N) :
  1 <= ih -> vwf ivs -> reachable_g ih ivs s1 -> reachable_g ih ivs s2 ->
  cert_sigs_in V s1 -> cert_sigs_in V s2 -> hash_binds_next s1 s2 ->
  forall h,
  (forall h' x1 cp1 x2 cp2, h' <= h ->
     In (h', (x1, cp1)) (st_hdrs s1) -> In (h', (x2, cp2)) (st_hdrs s2) ->
     byz_bound (chain_vals ih ivs (st_hdrs s1) h') (B h') /\
     A1m (chain_vals ih ivs (st_hdrs s1) h') (B h') V h' /\
     (cp_round cp1 = cp_round cp2 \/
      (A2m (chain_vals ih ivs (st_hdrs s1) h') (B h') V h' /\ A3m (chain_vals ih ivs (st_hdrs s1) h') (B h') V h'))) ->
  forall x1 cp1 x2 cp2, In (h, (x1, cp1)) (st_hdrs s1) -> In (h, (x2, cp2)) (st_hdrs s2) ->
    hd_hash x1 = hd_hash x2 /\
    valset_equal (hd_next x1) (hd_next x2) = true /\
    vs_keys (chain_vals ih ivs (st_hdrs s1) h) = vs_keys (chain_vals ih ivs (st_hdrs s2) h) /\
    vs_pows (chain_vals ih ivs (st_hdrs s1) h) = vs_pows (chain_vals ih ivs (st_hdrs s2) h).
Proof.
  intros Hih Hivs R1 R2. apply mirrors_agree_upto_inv; apply reachable_g_AgreeInv; assumption.
Qed.

Theorem mirrors_agree_same_round_at_x ih ivs s1 s2 V Bh h x1 cp1 x2 cp2 :
  1 <= ih -> vwf ivs -> reachable_g ih ivs s1 -> reachable_g ih ivs s2 ->
  cert_sigs_in V s1 -> cert_sigs_in V s2 ->
  In (h, (x1, cp1)) (st_hdrs s1) -> In (h, (x2, cp2)) (st_hdrs s2) ->
  vs_keys (chain_vals ih ivs (st_hdrs s1) h) = vs_keys (chain_vals ih ivs (st_hdrs s2) h) ->
  vs_pows (chain_vals ih ivs (st_hdrs s1) h) = vs_pows (chain_vals ih ivs (st_hdrs s2) h) ->
  cp_round cp1 = cp_round cp2 ->
  byz_bound (chain_vals ih ivs (st_hdrs s1) h) Bh -> A1m (chain_vals ih ivs (st_hdrs s1) h) Bh V h ->
  hd_hash x1 = hd_hash x2.
Proof.
  intros Hih Hivs R1 R2. apply mirrors_agree_same_round_at_inv; apply reachable_g_AgreeInv; assumption.
Qed.

Theorem mirrors_agree_same_round_genesis_x ih ivs s1 s2 V Bh x1 cp1 x2 cp2 :
  1 <= ih -> vwf ivs -> reachable_g ih ivs s1 -> reachable_g ih ivs s2 ->
  cert_sigs_in V s1 -> cert_sigs_in V s2 ->
  In (ih, (x1, cp1)) (st_hdrs s1) -> In (ih, (x2, cp2)) (st_hdrs s2) ->
  cp_round cp1 = cp_round cp2 ->
  byz_bound ivs Bh -> A1m ivs Bh V ih ->
  hd_hash x1 = hd_hash x2.
Proof.
  intros Hih Hivs R1 R2. apply mirrors_agree_same_round_genesis_inv; apply reachable_g_AgreeInv; assumption.
Qed.

Theorem mirrors_agree_same_round_x ih ivs s1 s2 V (B : N -> list N) :
  1 <= ih -> vwf ivs -> reachable_g ih ivs s1 -> reachable_g ih ivs s2 ->
  cert_sigs_in V s1 -> cert_sigs_in V s2 -> hash_binds_next s1 s2 ->
  forall h,
  (forall h' x1 cp1 x2 cp2, h' <= h ->
     In (h', (x1, cp1)) (st_hdrs s1) -> In (h', (x2, cp2)) (st_hdrs s2) ->
     cp_round cp1 = cp_round cp2 /\
     byz_bound (chain_vals ih ivs (st_hdrs s1) h') (B h') /\
     A1m (chain_vals ih ivs (st_hdrs s1) h') (B h') V h') ->
  forall x1 cp1 x2 cp2, In (h, (x1, cp1)) (st_hdrs s1) -> In (h, (x2, cp2)) (st_hdrs s2) ->
    hd_hash x1 = hd_hash x2 /\ valset_equal (hd_next x1) (hd_next x2) = true.
Proof.
  intros Hih Hivs R1 R2. apply mirrors_agree_same_round_inv; apply reachable_g_AgreeInv; assumption.
Qed.

Theorem committed_is_network_quorum_x ih ivs s V Bh h x cp :
  1 <= ih -> vwf ivs -> reachable_g ih ivs s ->
  In (h, (x, cp)) (st_hdrs s) -> covers_cert V x cp ->
  total (vs_pows (chain_vals ih ivs (st_hdrs s) h)) < two64 ->
  hd_hash x <> [] /\
  decided (fun _ => vs_pows (chain_vals ih ivs (st_hdrs s) h))
          (fun _ => byz_mask (chain_vals ih ivs (st_hdrs s) h) Bh)
          (tr_votes (vs_keys (chain_vals ih ivs (st_hdrs s) h)) h V) h (enc (hd_hash x)).
Proof.
  intros Hih Hivs R. apply committed_is_network_quorum_inv. apply reachable_g_AgreeInv; assumption.
Qed.

(** * (3) ... plus entrances, reads and the local validator's own actions *)
Theorem mirrors_agree_m ih ivs s1 s2 V (B : N -> list N) :
  1 <= ih -> vwf ivs -> mreachable_a ih ivs s1 -> mreachable_a ih ivs s2 ->
  cert_sigs_in V (ms_k s1) -> cert_sigs_in V (ms_k s2) -> hash_binds_next (ms_k s1) (ms_k s2) ->
  (forall h x1 cp1 x2 cp2, In (h, (x1, cp1)) (st_hdrs (ms_k s1)) -> In (h, (x2, cp2)) (st_hdrs (ms_k s2)) ->
     byz_bound (chain_vals ih ivs (st_hdrs (ms_k s1)) h) (B h) /\
     A1m (chain_vals ih ivs (st_hdrs (ms_k s1)) h) (B h) V h /\
     A2m (chain_vals ih ivs (st_hdrs (ms_k s1)) h) (B h) V h /\
     A3m (chain_vals ih ivs (st_hdrs (ms_k s1)) h) (B h) V h) ->
  forall h x1 cp1 x2 cp2, In (h, (x1, cp1)) (st_hdrs (ms_k s1)) -> In (h, (x2, cp2)) (st_hdrs (ms_k s2)) ->
    hd_hash x1 = hd_hash x2 /\
    valset_equal (hd_next x1) (hd_next x2) = true /\
    vs_keys (chain_vals ih ivs (st_hdrs (ms_k s1)) h) = vs_keys (chain_vals ih ivs (st_hdrs (ms_k s2)) h) /\
    vs_pows (chain_vals ih ivs (st_hdrs (ms_k s1)) h) = vs_pows (chain_vals ih ivs (st_hdrs (ms_k s2)) h).
Proof.
  intros Hih Hivs R1 R2. apply mirrors_agree_inv; apply mreachable_a_AgreeInv; assumption.
Qed.

Theorem mirrors_agree_upto_m ih ivs s1 s2 V (B : N -> list N) :
  1 <= ih -> vwf ivs -> mreachable_a ih ivs s1 -> mreachable_a ih ivs s2 ->
  cert_sigs_in V (ms_k s1) -> cert_sigs_in V (ms_k s2) -> hash_binds_next (ms_k s1) (ms_k s2) ->
  forall h,
  (forall h' x1 cp1 x2 cp2, h' <= h ->
     In (h', (x1, cp1)) (st_hdrs (ms_k s1)) -> In (h', (x2, cp2)) (st_hdrs (ms_k s2)) ->
     byz_bound (chain_vals ih ivs (st_hdrs (ms_k s1)) h') (B h') /\
     A1m (chain_vals ih ivs (st_hdrs (ms_k s1)) h') (B h') V h' /\
     (cp_round cp1 = cp_round cp2 \/
      (A2m (chain_vals ih ivs (st_hdrs (ms_k s1)) h') (B h') V h' /\
       A3m (chain_vals ih ivs (st_hdrs (ms_k s1)) h') (B h') V h'))) ->
  forall x1 cp1 x2 cp2, In (h, (x1, cp1)) (st_hdrs (ms_k s1)) -> In (h, (x2, cp2)) (st_hdrs (ms_k s2)) ->
    hd_hash x1 = hd_hash x2 /\
    valset_equal (hd_next x1) (hd_next x2) = true /\
    vs_keys (chain_vals ih ivs (st_hdrs (ms_k s1)) h) = vs_keys (chain_vals ih ivs (st_hdrs (ms_k s2)) h) /\
    vs_pows (chain_vals ih ivs (st_hdrs (ms_k s1)) h) = vs_pows (chain_vals ih ivs (st_hdrs (ms_k s2)) h).
Proof.
  intros Hih Hivs R1 R2. apply mirrors_agree_upto_inv; apply mreachable_a_AgreeInv; assumption.
Qed.

Theorem mirrors_agree_same_round_m ih ivs s1 s2 V (B : N -> list N) :
  1 <= ih -> vwf ivs -> mreachable_a ih ivs s1 -> mreachable_a ih ivs s2 ->
  cert_sigs_in V (ms_k s1) -> cert_sigs_in V (ms_k s2) -> hash_binds_next (ms_k s1) (ms_k s2) ->
  forall h,
  (forall h' x1 cp1 x2 cp2, h' <= h ->
     In (h', (x1, cp1)) (st_hdrs (ms_k s1)) -> In (h', (x2, cp2)) (st_hdrs (ms_k s2)) ->
     cp_round cp1 = cp_round cp2 /\
     byz_bound (chain_vals ih ivs (st_hdrs (ms_k s1)) h') (B h') /\
     A1m (chain_vals ih ivs (st_hdrs (ms_k s1)) h') (B h') V h') ->
  forall x1 cp1 x2 cp2, In (h, (x1, cp1)) (st_hdrs (ms_k s1)) -> In (h, (x2, cp2)) (st_hdrs (ms_k s2)) ->
    hd_hash x1 = hd_hash x2 /\ valset_equal (hd_next x1) (hd_next x2) = true.
Proof.
  intros Hih Hivs R1 R2. apply mirrors_agree_same_round_inv; apply mreachable_a_AgreeInv; assumption.
Qed.

(** the closure of C05Act: [mreachable] plus [accept_facts] of the own proposed headers, no crashes *)
Theorem mirrors_agree_l ih ivs s1 s2 V (B : N -> list N) :
  1 <= ih -> vs_ok ivs = true -> lreachable ih ivs s1 -> lreachable ih ivs s2 ->
  cert_sigs_in V (ms_k s1) -> cert_sigs_in V (ms_k s2) -> hash_binds_next (ms_k s1) (ms_k s2) ->
  (forall h x1 cp1 x2 cp2, In (h, (x1, cp1)) (st_hdrs (ms_k s1)) -> In (h, (x2, cp2)) (st_hdrs (ms_k s2)) ->
     byz_bound (chain_vals ih ivs (st_hdrs (ms_k s1)) h) (B h) /\
     A1m (chain_vals ih ivs (st_hdrs (ms_k s1)) h) (B h) V h /\
     A2m (chain_vals ih ivs (st_hdrs (ms_k s1)) h) (B h) V h /\
     A3m (chain_vals ih ivs (st_hdrs (ms_k s1)) h) (B h) V h) ->
  forall h x1 cp1 x2 cp2, In (h, (x1, cp1)) (st_hdrs (ms_k s1)) -> In (h, (x2, cp2)) (st_hdrs (ms_k s2)) ->
    hd_hash x1 = hd_hash x2 /\
    valset_equal (hd_next x1) (hd_next x2) = true /\
    vs_keys (chain_vals ih ivs (st_hdrs (ms_k s1)) h) = vs_keys (chain_vals ih ivs (st_hdrs (ms_k s2)) h) /\
    vs_pows (chain_vals ih ivs (st_hdrs (ms_k s1)) h) = vs_pows (chain_vals ih ivs (st_hdrs (ms_k s2)) h).
Proof.
  intros Hih Hivs R1 R2. apply mirrors_agree_inv; apply lreachable_AgreeInv; assumption.
Qed.

(** * The two nodes need not be described by the same closure *)
Theorem mirrors_agree_upto_mixed ih ivs k1 k2 V (B : N -> list N) :
  1 <= ih -> vwf ivs -> kreach ih ivs k1 -> kreach ih ivs k2 ->
  cert_sigs_in V k1 -> cert_sigs_in V k2 -> hash_binds_next k1 k2 ->
  forall h,
  (forall h' x1 cp1 x2 cp2, h' <= h ->
     In (h', (x1, cp1)) (st_hdrs k1) -> In (h', (x2, cp2)) (st_hdrs k2) ->
     byz_bound (chain_vals ih ivs (st_hdrs k1) h') (B h') /\
     A1m (chain_vals ih ivs (st_hdrs k1) h') (B h') V h' /\
     (cp_round cp1 = cp_round cp2 \/
      (A2m (chain_vals ih ivs (st_hdrs k1) h') (B h') V h' /\ A3m (chain_vals ih ivs (st_hdrs k1) h') (B h') V h'))) ->
  forall x1 cp1 x2 cp2, In (h, (x1, cp1)) (st_hdrs k1) -> In (h, (x2, cp2)) (st_hdrs k2) ->
    hd_hash x1 = hd_hash x2 /\
    valset_equal (hd_next x1) (hd_next x2) = true /\
    vs_keys (chain_vals ih ivs (st_hdrs k1) h) = vs_keys (chain_vals ih ivs (st_hdrs k2) h) /\
    vs_pows (chain_vals ih ivs (st_hdrs k1) h) = vs_pows (chain_vals ih ivs (st_hdrs k2) h).
Proof.
  intros Hih Hivs R1 R2. apply mirrors_agree_upto_inv; apply kreach_AgreeInv; assumption.
Qed.
