(** C09 over the full closure: examples and necessity witnesses for Proofs/MirrorTotalM.v.

    - every named Panic site is reachable: a state of [mreachable_a] built by running [mstep] from
      [ms_init], and an operation that panics there at that site;
    - the hypotheses of [mstep_total] are satisfiable on a history that contains a crash, a restart, an
      entrance with a key, local votes (the local precommit COMMITS the block) and a local proposed header;
    - the side condition [lph_okb] on the state machine's own proposed header is needed: three witnesses
      in which a component is dropped and a later operation panics at a site that is none of the named ones
      (next validator set of power 0; own validator set of power 0 - the kernel never compares a LOCAL
      header's validator set with the view's; model only: next validator set without a key). *)
From Coq Require Import List NArith Arith Bool Lia String.
From GV Require Import Base.Ints Gen.Math Gen.Kernel Model.Mirror Model.MirrorMgr
  Proofs.Thresholds Proofs.MirrorAuth Proofs.MirrorNoop Proofs.MirrorChain Proofs.MirrorCert
  Proofs.MirrorTotal Proofs.MirrorAct Proofs.MirrorActInv Proofs.MirrorActTotal
  Proofs.MirrorResumeWit Proofs.MirrorResumeInv Proofs.MirrorResumeOps Proofs.MirrorResumeOps4 Proofs.MirrorResume
  Proofs.MirrorResumeEx Proofs.MirrorTotalX Proofs.MirrorTotalM.
Import ListNotations.
Local Open Scope N_scope.

(** * Boolean admissibility, to build states of the closure by computation *)
Definition has_keys (vs : valset) : bool := match vs_keys vs with [] => false | _ :: _ => true end.

Definition wf_op_b (o : op) : bool :=
  op_bounded_b o && op_wf_b o &&
  match o with
  | OpPH p => has_keys (hd_next (ph_hdr p))
  | OpReplay x _ => has_keys (hd_next x)
  | _ => true
  end.

Lemma has_keys_ok vs : has_keys vs = true -> vs_keys vs <> [].
Proof. unfold has_keys. destruct (vs_keys vs); [discriminate|discriminate]. Qed.

Lemma wf_op_b_ok o res : wf_op_b o = true -> wf_op o res.
Proof.
  unfold wf_op_b. intros H. apply andb_true_iff in H as [H H3]. apply andb_true_iff in H as [H1 H2].
  apply op_bounded_b_ok in H1. apply op_wf_b_ok in H2.
  split; [exact H1|]. split; [apply op_wf_step_adm; exact H2|].
  destruct o as [p|m|m|x cp]; try exact I.
  - intros _. split; [exact H2|apply has_keys_ok; exact H3].
  - apply has_keys_ok. exact H3.
Qed.

Definition mop_adm_b (s : mstate) (o : mop) : bool :=
  match o with
  | MK (XOp o') => wf_op_b o'
  | MK (XCrash _ o') => wf_op_b o'
  | MK XRestart => true
  | MAct a => lact_okb (ms_k s) a
  | _ => true
  end.

Lemma mop_adm_b_ok s o res : mop_adm_b s o = true -> mop_adm s o res.
Proof.
  destruct o as [x|h0 r0| | |h0 r0 key0|a]; cbn [mop_adm_b mop_adm]; try (intros _; exact I).
  - destruct x as [o|k o|]; cbn [xwf]; [apply wf_op_b_ok|apply wf_op_b_ok|intros _; exact I].
  - intros H; exact H.
Qed.

Fixpoint run_ma (s : mstate) (ops : list mop) : option mstate :=
  match ops with
  | [] => Some s
  | o :: rest =>
      if mop_adm_b s o then
        match mstep s o with Ok (s', _, _) => run_ma s' rest | Panic _ => None end
      else None
  end.

Lemma run_ma_reachable ih ivs ops : forall s s',
  mreachable_a ih ivs s -> run_ma s ops = Some s' -> mreachable_a ih ivs s'.
Proof.
  induction ops as [|o rest IH]; intros s s' Hr; cbn [run_ma]; [intros E; inversion E; subst; exact Hr|].
  destruct (mop_adm_b s o) eqn:Ha; [|discriminate].
  destruct (mstep s o) as [[[s1 r] io]|] eqn:Hs; [|discriminate].
  apply IH. eapply mra_step; [exact Hr|apply mop_adm_b_ok; exact Ha|exact Hs].
Qed.

Definition mstate_after (ih : N) (ivs : valset) (ops : list mop) : mstate :=
  match run_ma (ms_init ih ivs) ops with Some s => s | None => ms_init ih ivs end.

Definition is_some {A} (o : option A) : bool := match o with Some _ => true | None => false end.

Lemma mstate_after_reachable ih ivs ops :
  is_some (run_ma (ms_init ih ivs) ops) = true -> mreachable_a ih ivs (mstate_after ih ivs ops).
Proof.
  unfold mstate_after. destruct (run_ma _ ops) as [s|] eqn:E; [|discriminate]. intros _.
  eapply run_ma_reachable; [apply mra_init|exact E].
Qed.

(** * A history with a proposed header, an entrance with a key, the local prevote and the local precommit
    (which commits the block: one validator), a crash in the middle of a nil precommit of height 2, a restart,
    a second entrance with the key, a local proposed header that is dropped, the local validator's own proposed
    header of height 2 (round 1: the start-up re-evaluation of the stored nil precommit moved the mirror on), two reads *)
Definition x_ph2_hdr : hdr := mk_hdr [8] true 2 [9] (mk_cproof 0 [1] [([9], [sg7 KPrecommit 1 0 [9]])]) ex_vs ex_vs.
Definition x_ph2 : ph := mk_ph x_ph2_hdr 1 (Some 7) (SProposal 7 [6] 1) [6].

(** a local proposed header for a height the mirror is not at: dropped, so nothing is asked of it (wrong hash,
    next validator set of power 0) *)
Definition x_ph_dropped : ph := mk_ph (mk_hdr [4] false 9 [] empty_cproof ex_zero ex_zero) 0 (Some 7) (SJunk 3) [].

Definition x_ops : list mop :=
  [MK (XOp e_ph);
   MEnterK 1 0 (Some 7);
   MActPrevote [9] (SVote 7 KPrevote 1 0 [9]);
   MActPrecommit [9] (SVote 7 KPrecommit 1 0 [9]);
   MK (XCrash 1 (OpPrecommit (ex_precommit 2 0 [1] [])));
   MK XRestart;
   MEnterK 2 1 (Some 7);
   MActPH x_ph_dropped;
   MActPH x_ph2;
   MSMRead;
   MGRead].

Definition x_state : mstate := mstate_after 1 ex_vs x_ops.

Example x_state_reachable :
  vwf ex_vs /\ mreachable_a 1 ex_vs x_state /\
  st_nhr (ms_k x_state) = (2, 1, 1, 0) /\ List.length (st_hdrs (ms_k x_state)) = 1%nat /\
  v_phs (k_vot (ms_k x_state)) = [x_ph2] /\
  smm_key (m_sm (ms_m x_state)) = Some 7.
Proof.
  split; [exact ex_vs_vwf|]. split; [apply mstate_after_reachable; vm_compute; reflexivity|].
  vm_compute. repeat split; reflexivity.
Qed.

(** the Ok branch of [mstep_total] at that state: the local precommit for the local header commits height 2 *)
Example x_state_continues :
  mstep_panic_site x_state (MActPrecommit [8] (SVote 7 KPrecommit 2 1 [8])) = None /\
  exists s', mstep x_state (MActPrecommit [8] (SVote 7 KPrecommit 2 1 [8])) = Ok (s', 0, IONone) /\
             st_nhr (ms_k s') = (3, 0, 2, 1).
Proof. split; [vm_compute; reflexivity|]. eexists. vm_compute. split; reflexivity. Qed.

(** * Every named site is reachable *)

(** replay for an earlier round: a nil precommit of the whole power moves the mirror to round 1 *)
Definition p_round1 : mstate := mstate_after 1 ex_vs [MK (XOp (OpPrecommit (ex_precommit 1 0 [1] [])))].

Example site_replay_earlier_reachable :
  mreachable_a 1 ex_vs p_round1 /\
  mstep_panic_site p_round1 (MK (XOp (OpReplay (ex_hdr ex_vs ex_vs) (mk_cproof 0 [1] [])))) = Some site_replay_earlier /\
  mstep p_round1 (MK (XOp (OpReplay (ex_hdr ex_vs ex_vs) (mk_cproof 0 [1] [])))) = Panic site_replay_earlier /\
  mstep p_round1 (MK (XCrash 1 (OpReplay (ex_hdr ex_vs ex_vs) (mk_cproof 0 [1] [])))) = Panic site_replay_earlier.
Proof.
  split; [apply mstate_after_reachable; vm_compute; reflexivity|]. repeat split; vm_compute; reflexivity.
Qed.

(** the model's fuel site (a replayed round that is not a uint32; MODEL ONLY) *)
Example site_replay_fuel_reachable :
  mstep (ms_init 1 ex_vs) (MK (XOp (OpReplay (ex_hdr ex_vs ex_vs) (mk_cproof two32 [1] [])))) = Panic site_replay_fuel.
Proof.
  apply mstep_of_xstep_panic. change (ms_k (ms_init 1 ex_vs)) with (init_state 1 ex_vs). cbn [xstep].
  exact replay_fuel_site_needs_round_bound.
Qed.

(** round entrance: a round the mirror has left (orphaned), a later round (future), a later height *)
Example site_enter_not_found_reachable :
  mreachable_a 1 ex_vs p_round1 /\
  mstep_panic_site p_round1 (MEnter 1 0) = Some site_enter_not_found /\
  mstep p_round1 (MEnter 1 0) = Panic site_enter_not_found /\
  mstep p_round1 (MEnterK 1 3 (Some 7)) = Panic site_enter_not_found /\
  mstep (ms_init 1 ex_vs) (MEnter 2 0) = Panic site_enter_not_found /\
  enter_not_found_guard (ms_k p_round1) 1 0 = true.
Proof.
  split; [apply mstate_after_reachable; vm_compute; reflexivity|]. repeat split; vm_compute; reflexivity.
Qed.

(** round entrance below the initial height: nothing was ever stored for it *)
Example site_enter_no_header_reachable :
  mreachable_a 2 ex_vs (ms_init 2 ex_vs) /\
  mstep_panic_site (ms_init 2 ex_vs) (MEnter 1 0) = Some site_enter_no_header /\
  mstep (ms_init 2 ex_vs) (MEnter 1 0) = Panic site_enter_no_header /\
  enter_no_header_guard (ms_k (ms_init 2 ex_vs)) 1 0 = true.
Proof. split; [apply mra_init|]. repeat split; vm_compute; reflexivity. Qed.

(** a local vote without a key *)
Definition p_entered_nokey : mstate := mstate_after 1 ex_vs [MEnter 1 0].

Example site_nil_key_reachable :
  mreachable_a 1 ex_vs p_entered_nokey /\
  mstep_panic_site p_entered_nokey (MActPrevote [9] (SVote 7 KPrevote 1 0 [9])) = Some site_nil_key /\
  mstep p_entered_nokey (MActPrevote [9] (SVote 7 KPrevote 1 0 [9])) = Panic site_nil_key.
Proof.
  split; [apply mstate_after_reachable; vm_compute; reflexivity|]. split; vm_compute; reflexivity.
Qed.

(** a local vote filed in the empty committing view before the first commit (a state machine that entered
    height 0): no candidate keys.  The managers start at entrance (0, 0), so the vote needs no entrance at all. *)
Example site_no_keys_reachable :
  mreachable_a 1 ex_vs (ms_init 1 ex_vs) /\
  mstep_panic_site (ms_init 1 ex_vs) (MActPrevote [9] (SVote 7 KPrevote 0 0 [9])) = Some site_no_keys /\
  mstep (ms_init 1 ex_vs) (MActPrevote [9] (SVote 7 KPrevote 0 0 [9])) = Panic site_no_keys.
Proof. split; [apply mra_init|]. split; vm_compute; reflexivity. Qed.

(** an action that carries nothing (a proposed header with an empty hash) *)
Example site_no_action_reachable :
  mstep_panic_site (ms_init 1 ex_vs) (MActPH (mk_ph (mk_hdr [] true 1 [] empty_cproof ex_vs ex_vs) 0 (Some 7) (SJunk 0) [])) = Some site_no_action /\
  mstep (ms_init 1 ex_vs) (MActPH (mk_ph (mk_hdr [] true 1 [] empty_cproof ex_vs ex_vs) 0 (Some 7) (SJunk 0) [])) = Panic site_no_action.
Proof. split; vm_compute; reflexivity. Qed.

(** * The side condition on the local proposed header is needed *)

(** the closure WITHOUT the side condition on local proposed headers *)
Definition mop_adm0 (s : mstate) (o : mop) (res : N) : Prop :=
  match o with MK x => xwf (ms_k s) x res | _ => True end.

Inductive mreachable_0 (ih : N) (ivs : valset) : mstate -> Prop :=
| mr0_init : mreachable_0 ih ivs (ms_init ih ivs)
| mr0_step s o s' r io : mreachable_0 ih ivs s -> mop_adm0 s o r ->
    mstep s o = Ok (s', r, io) -> mreachable_0 ih ivs s'.

Definition mop_adm0_b (o : mop) : bool :=
  match o with
  | MK (XOp o') => wf_op_b o'
  | MK (XCrash _ o') => wf_op_b o'
  | _ => true
  end.

Fixpoint run_m0 (s : mstate) (ops : list mop) : option mstate :=
  match ops with
  | [] => Some s
  | o :: rest =>
      if mop_adm0_b o then
        match mstep s o with Ok (s', _, _) => run_m0 s' rest | Panic _ => None end
      else None
  end.

Lemma run_m0_reachable ih ivs ops : forall s s',
  mreachable_0 ih ivs s -> run_m0 s ops = Some s' -> mreachable_0 ih ivs s'.
Proof.
  induction ops as [|o rest IH]; intros s s' Hr; cbn [run_m0]; [intros E; inversion E; subst; exact Hr|].
  destruct (mop_adm0_b o) eqn:Ha; [|discriminate].
  destruct (mstep s o) as [[[s1 r] io]|] eqn:Hs; [|discriminate].
  apply IH. eapply mr0_step; [exact Hr| |exact Hs].
  destruct o as [x|h0 r0| | |h0 r0 key0|a]; cbn [mop_adm0]; try exact I.
  destruct x as [o|k o|]; cbn [xwf mop_adm0_b] in *; [apply wf_op_b_ok; exact Ha|apply wf_op_b_ok; exact Ha|exact I].
Qed.

Definition mstate_after0 (ops : list mop) : mstate :=
  match run_m0 (ms_init 1 ex_vs) ops with Some s => s | None => ms_init 1 ex_vs end.

Lemma mstate_after0_reachable ops :
  is_some (run_m0 (ms_init 1 ex_vs) ops) = true -> mreachable_0 1 ex_vs (mstate_after0 ops).
Proof.
  unfold mstate_after0. destruct (run_m0 _ ops) as [s|] eqn:E; [|discriminate]. intros _.
  eapply run_m0_reachable; [apply mr0_init|exact E].
Qed.

(** (a) the local header announces a next validator set of total power 0: after the commit (by the local
    precommit) a nil precommit for height 2 reaches ByzantineMajority(0) *)
Definition n_ops_zero_next : list mop :=
  [MEnterK 1 0 (Some 7);
   MActPH (ex_ph ex_vs ex_zero);
   MActPrecommit [9] (SVote 7 KPrecommit 1 0 [9])].

(** (b) the local header carries an OWN validator set of total power 0 (the kernel does not compare a local
    header's set with the view's set); it is committed; a peer's proposed header for height 2 with a correct
    previous commit proof then reaches ByzantineMajority(0) in the previous-commit-proof check *)
Definition n_ops_zero_own : list mop :=
  [MEnterK 1 0 (Some 7);
   MActPH (ex_ph ex_zero ex_vs);
   MActPrecommit [9] (SVote 7 KPrecommit 1 0 [9])].
Definition n_ph2_hdr : hdr := mk_hdr [8] true 2 [9] (mk_cproof 0 [3] [([9], [sg7 KPrecommit 1 0 [9]])]) ex_vs ex_vs.
Definition n_ph2 : ph := mk_ph n_ph2_hdr 0 (Some 7) (SProposal 7 [6] 0) [6].

(** (c) MODEL ONLY: the local header announces a next validator set with power but without a key; after the
    commit NewKernel fails *)
Definition n_ops_nokeys : list mop :=
  [MEnterK 1 0 (Some 7);
   MActPH (ex_ph ex_vs ex_nokeys);
   MActPrecommit [9] (SVote 7 KPrecommit 1 0 [9])].

Theorem local_ph_side_condition_needed :
  (exists s o site, mreachable_0 1 ex_vs s /\ (exists m, o = MK (XOp (OpPrecommit m))) /\
     mstep_panic_site s o = None /\ mstep s o = Panic site /\ ~ In site named_sites) /\
  (exists s o site, mreachable_0 1 ex_vs s /\ (exists p, o = MK (XOp (OpPH p)) /\ wf_op_b (OpPH p) = true) /\
     mstep_panic_site s o = None /\ mstep s o = Panic site /\ ~ In site named_sites) /\
  (exists s site, mreachable_0 1 ex_vs s /\
     mstep_panic_site s (MK XRestart) = None /\ mstep s (MK XRestart) = Panic site /\ ~ In site named_sites).
Proof.
  assert (Hn : forall site, (if existsb (String.eqb site) named_sites then False else True) -> ~ In site named_sites).
  { intros site H Hin. destruct (existsb (String.eqb site) named_sites) eqn:E; [exact H|].
    assert (existsb (String.eqb site) named_sites = true); [|congruence].
    apply existsb_exists. exists site. split; [exact Hin|apply String.eqb_refl]. }
  split; [|split].
  - exists (mstate_after0 n_ops_zero_next), (MK (XOp (OpPrecommit (ex_precommit 2 0 [3] [])))), "ByzantineMajority:13"%string.
    split; [apply mstate_after0_reachable; vm_compute; reflexivity|].
    split; [eexists; reflexivity|]. split; [reflexivity|]. split; [vm_compute; reflexivity|].
    apply Hn. vm_compute. exact I.
  - exists (mstate_after0 n_ops_zero_own), (MK (XOp (OpPH n_ph2))), "ByzantineMajority:13"%string.
    split; [apply mstate_after0_reachable; vm_compute; reflexivity|].
    split; [exists n_ph2; split; [reflexivity|vm_compute; reflexivity]|].
    split; [reflexivity|]. split; [vm_compute; reflexivity|].
    apply Hn. vm_compute. exact I.
  - exists (mstate_after0 n_ops_nokeys), site_no_validators.
    split; [apply mstate_after0_reachable; vm_compute; reflexivity|].
    split; [reflexivity|]. split; [vm_compute; reflexivity|].
    apply Hn. vm_compute. exact I.
Qed.

(** the remaining components of [lph_okb] are what the chain invariant [cinv] (part of INV, on which every
    totality proof rests) says of each proposal held by the voting view: dropping one of them lets a local
    header into the voting view that falsifies [cinv] (for "block hash correct" this is
    [cinv_local_ph_refuted] of Proofs/MirrorActInv.v).  Whether such a header can also make a later operation
    panic is not decided here. *)
Definition n_vs_bad : valset := mk_valset [7] [1] [1] [2] false.
Definition n_ops_bad_hash : list mop :=
  [MEnterK 1 0 (Some 7); MActPH (mk_ph (mk_hdr [9] false 1 [] empty_cproof ex_vs ex_vs) 0 (Some 7) (SProposal 7 [5] 0) [5])].
Definition n_ops_bad_next : list mop :=
  [MEnterK 1 0 (Some 7); MActPH (ex_ph ex_vs n_vs_bad)].
Definition n_ops_bad_prev : list mop :=
  [MEnterK 1 0 (Some 7); MActPH (ex_ph ex_vs ex_vs); MActPrecommit [9] (SVote 7 KPrecommit 1 0 [9]);
   MEnterK 2 0 (Some 7);
   MActPH (mk_ph (mk_hdr [8] true 2 [6; 6] (mk_cproof 0 [1] [([9], [sg7 KPrecommit 1 0 [9]])]) ex_vs ex_vs) 0 (Some 7) (SProposal 7 [6] 0) [6])].

Theorem local_ph_components_needed_for_cinv :
  (exists s p, mreachable_0 1 ex_vs s /\ In p (v_phs (k_vot (ms_k s))) /\
     hd_ok (ph_hdr p) = false /\ ~ cinv 1 ex_vs (ms_k s)) /\
  (exists s p, mreachable_0 1 ex_vs s /\ In p (v_phs (k_vot (ms_k s))) /\
     vs_ok (hd_next (ph_hdr p)) = false /\ ~ cinv 1 ex_vs (ms_k s)) /\
  (exists s p ch, mreachable_0 1 ex_vs s /\ In p (v_phs (k_vot (ms_k s))) /\
     k_chdr (ms_k s) = Some ch /\ hd_height (ph_hdr p) = 2 /\ hd_prev (ph_hdr p) <> hd_hash ch /\
     ~ cinv 1 ex_vs (ms_k s)).
Proof.
  split; [|split].
  - eexists (mstate_after0 n_ops_bad_hash), _.
    assert (Hin : In (mk_ph (mk_hdr [9] false 1 [] empty_cproof ex_vs ex_vs) 0 (Some 7) (SProposal 7 [5] 0) [5])
                     (v_phs (k_vot (ms_k (mstate_after0 n_ops_bad_hash))))) by (vm_compute; left; reflexivity).
    split; [apply mstate_after0_reachable; vm_compute; reflexivity|]. split; [exact Hin|]. split; [reflexivity|].
    intros (_&_&_&_&_&_&_&_&_&Hphs&_). destruct (Hphs _ (or_introl Hin)) as (_&Hok&_). discriminate Hok.
  - eexists (mstate_after0 n_ops_bad_next), _.
    assert (Hin : In (ex_ph ex_vs n_vs_bad) (v_phs (k_vot (ms_k (mstate_after0 n_ops_bad_next)))))
      by (vm_compute; left; reflexivity).
    split; [apply mstate_after0_reachable; vm_compute; reflexivity|]. split; [exact Hin|]. split; [reflexivity|].
    intros (_&_&_&_&_&_&_&_&_&Hphs&_). destruct (Hphs _ (or_introl Hin)) as (_&_&Hok&_). discriminate Hok.
  - eexists (mstate_after0 n_ops_bad_prev), _, (ex_hdr ex_vs ex_vs).
    assert (Hin : In (mk_ph (mk_hdr [8] true 2 [6; 6] (mk_cproof 0 [1] [([9], [sg7 KPrecommit 1 0 [9]])]) ex_vs ex_vs) 0 (Some 7) (SProposal 7 [6] 0) [6])
                     (v_phs (k_vot (ms_k (mstate_after0 n_ops_bad_prev))))) by (vm_compute; left; reflexivity).
    assert (Hch : k_chdr (ms_k (mstate_after0 n_ops_bad_prev)) = Some (ex_hdr ex_vs ex_vs)) by (vm_compute; reflexivity).
    split; [apply mstate_after0_reachable; vm_compute; reflexivity|]. split; [exact Hin|].
    split; [exact Hch|]. split; [reflexivity|]. split; [vm_compute; discriminate|].
    intros (Hi1&_&_&_&_&_&_&_&_&Hphs&_). destruct (Hphs _ (or_introl Hin)) as (_&_&_&_&Hprev).
    destruct Hprev as (ch&E1&E2); [rewrite Hi1; vm_compute; discriminate|].
    rewrite Hch in E1. inversion E1; subst ch. vm_compute in E2. discriminate E2.
Qed.
