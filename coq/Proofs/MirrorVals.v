(** C07 (mirror part): the validator set a header NAMES AS ITS OWN is the one the chain prescribes.

    For every reachable state of the mirror model:
      - every proposed header held by the committing, voting or next-round view names the view's
        own validator set ([phs_named]), and
      - every header in the committed-header store names the set the chain prescribes for its
        height ([hdrs_named]; [chain_vals] of Proofs/MirrorCert.v: the genesis set at the initial
        height, otherwise the next set of the header stored one height below).
    "Names" is [valset_equal] (both hashes, keys and powers: tmconsensus.ValidatorSet.Equal), which
    is what the kernel checks; Leibniz equality of the model records would also compare the
    model-only flag [vs_ok], which [valset_equal] does not look at. *)
From Coq Require Import List NArith Arith Bool Lia String.
From GV Require Import Base.Ints Gen.Math Gen.Kernel Model.Mirror
  Proofs.MirrorAuth Proofs.MirrorNoop Proofs.MirrorChain Proofs.MirrorCert.
Import ListNotations.
Local Open Scope N_scope.

Definition phs_named (v : view) : Prop :=
  forall p, In p (v_phs v) -> valset_equal (hd_vals (ph_hdr p)) (v_vals v) = true.

Definition hdrs_named (ih : N) (ivs : valset) (s : kstate) : Prop :=
  forall h x cp, In (h, (x, cp)) (st_hdrs s) ->
    valset_equal (hd_vals x) (chain_vals ih ivs (st_hdrs s) h) = true.

Definition vinv (ih : N) (ivs : valset) (s : kstate) : Prop :=
  phs_named (k_com s) /\ phs_named (k_vot s) /\ phs_named (k_nxt s) /\ hdrs_named ih ivs s.

Lemma phs_named_pos_eq a b : pos_eq a b -> phs_named a -> phs_named b.
Proof. intros (_&_&Ev&Ep). unfold phs_named. rewrite <- Ev, <- Ep. intros H; exact H. Qed.

Lemma vinv_frame ih ivs s s' : frame_eq s s' -> vinv ih ivs s -> vinv ih ivs s'.
Proof.
  intros (Fc&Fv&Fn&_&_&Fh&_) (A&B&C&D).
  split; [eapply phs_named_pos_eq; eassumption|]. split; [eapply phs_named_pos_eq; eassumption|].
  split; [eapply phs_named_pos_eq; eassumption|]. unfold hdrs_named. rewrite <- Fh. exact D.
Qed.

(** ** Round increments *)
Lemma vinv_increment ih ivs s : vinv ih ivs s -> vinv ih ivs (update_observers (increment_voting_round s)).
Proof.
  intros (A&B&C&D). unfold vinv, update_observers, increment_voting_round. cbn.
  split; [exact A|]. split; [exact C|]. split; [intros p []|exact D].
Qed.

Lemma vinv_advance ih ivs s : vinv ih ivs s -> vinv ih ivs (advance_voting_round s).
Proof. intros H. exact (vinv_increment ih ivs (ev_w s (EvNil (k_vot s))) H). Qed.
Lemma vinv_jump ih ivs s : vinv ih ivs s -> vinv ih ivs (jump_voting_round s).
Proof. intros H. exact (vinv_increment ih ivs s H). Qed.

(** ** The commit shift *)
Lemma vinv_shift ih ivs s p :
  cinv ih ivs s -> vinv ih ivs s -> In p (v_phs (k_vot s)) ->
  vinv ih ivs (shift_voting_to_committing s (ph_hdr p)).
Proof.
  intros Hc (A&B&C&D) Hin.
  pose proof Hc as (Hi1&Hi2&Hi3&Hnh&Hnr&Hnhr&Hvv&Hvn&Hok&Hphs&Hch).
  destruct (Hphs p (or_introl Hin)) as (Ph&Pok&Pnext&Pb&Pprev).
  assert (Hold : forall h' y, In (h', y) (st_hdrs s) -> h' < hd_height (ph_hdr p) /\ ih <= h').
  { intros h' y Hy. unfold chain_ok in Hch. destruct (k_chdr s) as [ch|].
    - destruct Hch as (C1&C2&C3&_&Hchain). destruct (hchain_bounds _ _ _ Hchain) as [_ Hb].
      destruct (Hb _ _ Hy). lia.
    - destruct Hch as (_&_&C3&_). rewrite C3 in Hy. destruct Hy. }
  assert (Hfilter : filter (fun e : N * (hdr * cproof) => negb (fst e =? hd_height (ph_hdr p))) (st_hdrs s) = st_hdrs s).
  { clear -Hold. induction (st_hdrs s) as [|[h' y] l IH]; cbn; [reflexivity|].
    assert (h' < hd_height (ph_hdr p)) by (apply (Hold h' y); left; reflexivity).
    destruct (N.eqb_spec h' (hd_height (ph_hdr p))); [lia|]. cbn. f_equal. apply IH.
    intros h'' y' Hy'. apply (Hold h'' y'). right; exact Hy'. }
  unfold vinv. split; [exact B|]. split; [intros q []|]. split; [intros q []|].
  unfold hdrs_named, shift_voting_to_committing, update_observers. cbn. unfold hstore_set. rewrite Hfilter.
  intros h x cp [E|Hx].
  - inversion E; subst h x cp. clear E.
    assert (Hvals : chain_vals ih ivs
                      ((hd_height (ph_hdr p), (ph_hdr p,
                         {| cp_round := v_r (k_vot s); cp_pkh := vs_pkh (v_vals (k_vot s));
                            cp_proofs := map (fun e => (fst e, as_sparse (snd e))) (v_pc (k_vot s)) |})) :: st_hdrs s)
                      (hd_height (ph_hdr p)) = v_vals (k_vot s)).
    { rewrite Hvv. unfold chain_vals, expected_vals. cbn [find fst].
      unfold chain_ok in Hch. destruct (k_chdr s) as [ch|] eqn:Hck.
      - destruct Hch as (C1&C2&C3&(cp0&rest&Hst)&Hchain).
        destruct (hchain_bounds _ _ _ Hchain) as [Hb0 _].
        destruct (N.eqb_spec (hd_height (ph_hdr p)) ih); [lia|].
        destruct (N.eqb_spec (hd_height (ph_hdr p)) (hd_height (ph_hdr p) - 1)); [lia|].
        rewrite Hst. cbn [find fst]. replace (hd_height (ph_hdr p) - 1) with (hd_height ch) by lia.
        rewrite N.eqb_refl. reflexivity.
      - destruct Hch as (_&_&_&C4). rewrite Ph, C4, N.eqb_refl. congruence. }
    rewrite Hvals. apply B. exact Hin.
  - destruct (Hold _ _ Hx) as [Hlt Hge].
    rewrite chain_vals_ext; [exact (D _ _ _ Hx)| |lia|exact Hge|exact Hi3].
    intros h' y Hy. apply (Hold h' y Hy).
Qed.

(** ** The three shift checks *)
Lemma vinv_check_voting ih ivs s s' :
  cinv ih ivs s -> vinv ih ivs s -> check_voting_precommit_shift s = Ok s' -> vinv ih ivs s'.
Proof.
  intros Hc H. unfold check_voting_precommit_shift, bind.
  destruct (byz_majority _) as [maj|]; [|discriminate].
  destruct (_ <? maj).
  - destruct (_ =? _); intros E; inversion E; subst; [apply vinv_advance|]; exact H.
  - destruct (sm_mpc _).
    + intros E; inversion E; subst. apply vinv_advance; exact H.
    + destruct (find _ _) as [p|] eqn:Hf; intros E; inversion E; subst; [|exact H].
      apply vinv_shift; [exact Hc|exact H|eapply find_in; exact Hf].
Qed.

Lemma vinv_check_next_round ih ivs s s' :
  cinv ih ivs s -> vinv ih ivs s -> check_next_round_precommit_shift s = Ok s' -> vinv ih ivs s'.
Proof.
  intros Hc H. unfold check_next_round_precommit_shift, bind.
  destruct (byz_minority _) as [mn|]; [|discriminate].
  destruct (_ <? mn); [intros E; inversion E; subst; exact H|].
  destruct (byz_majority _) as [maj|]; [|discriminate].
  destruct (maj <=? _).
  - apply vinv_check_voting; [apply cinv_jump; exact Hc|apply vinv_jump; exact H].
  - intros E; inversion E; subst. apply vinv_jump; exact H.
Qed.

Lemma vinv_check_prevote ih ivs s s' :
  vinv ih ivs s -> check_prevote_shift s = Ok s' -> vinv ih ivs s'.
Proof.
  intros H. unfold check_prevote_shift, bind.
  destruct (byz_minority _) as [mn|]; [|discriminate].
  destruct (_ <? mn); intros E; inversion E; subst; [exact H|apply vinv_jump; exact H].
Qed.

(** ** Votes *)
Lemma vinv_apply_votes ih ivs kind s vid h r ups s' :
  cinv ih ivs s -> vinv ih ivs s -> apply_votes kind s vid h r ups = Ok s' -> vinv ih ivs s'.
Proof.
  intros Hc H. unfold apply_votes.
  set (v := get_view s vid).
  set (votes' := fold_left (fun m e => pm_set m (fst e) (snd e)) ups (view_votes kind v)).
  set (v1 := if kind =? KPrevote then with_pv v votes' else with_pc v votes').
  set (sm' := if kind =? KPrevote then sum_set_prevotes _ _ _ else _).
  set (v2 := bump (with_sum v1 sm')).
  assert (Hp : pos_eq v v2).
  { unfold v2, v1. destruct (kind =? KPrevote); repeat split. }
  set (s1 := put_view s vid v2).
  set (s2 := ev_w (log_w (set_rounds s1 _) _) _).
  assert (F : frame_eq s s2).
  { eapply frame_eq_trans; [apply frame_put_view; exact Hp|apply frame_set_rounds]. }
  pose proof (cinv_frame _ _ _ _ F Hc) as Hc2. pose proof (vinv_frame _ _ _ _ F H) as H2.
  destruct (kind =? KPrevote).
  - destruct (vid =? ViewIDNextRound).
    + apply vinv_check_prevote; exact H2.
    + intros E; inversion E; subst. exact H2.
  - destruct (vid =? ViewIDVoting).
    + apply vinv_check_voting; assumption.
    + destruct (vid =? ViewIDNextRound).
      * apply vinv_check_next_round; assumption.
      * intros E; inversion E; subst. exact H2.
Qed.

Lemma vinv_handle_votes ih ivs kind s m s' res :
  cinv ih ivs s -> vinv ih ivs s -> handle_votes kind s m = Ok (s', res) -> vinv ih ivs s'.
Proof.
  intros Hc H. unfold handle_votes, bind.
  destruct (vm_proofs m) as [|vp0 vpl] eqn:Hp; [intros E; inversion E; subst; exact H|].
  rewrite <- Hp. clear Hp vp0 vpl.
  destruct (find_view _ _ _) as [[vid st]|]; [|discriminate].
  destruct (st =? ViewFuture).
  { intros E. eapply vinv_frame; [eapply frame_handle_future; exact E|exact H]. }
  destruct (negb (st =? ViewFound)); [intros E; inversion E; subst; exact H|].
  destruct (negb (bytes_eqb _ _)); [intros E; inversion E; subst; exact H|].
  destruct (sigs_to_add _ _ _) as [|x0 l0]; [intros E; inversion E; subst; exact H|].
  destruct (build_updates _ _ _) as [ups allv].
  destruct ups as [|u ups'] eqn:Hu; [intros E; inversion E; subst; exact H|]. rewrite <- Hu. clear Hu.
  destruct (apply_votes _ _ _ _ _ _) as [s2|] eqn:Ha; [|discriminate].
  intros E; inversion E; subst. eapply vinv_apply_votes; eassumption.
Qed.

(** ** Proposed headers *)

(** the set an acceptable header is compared with is the set of the view [add_ph] files it in *)
Lemma ph_check_view_named ih ivs s p status proposer prev_hash prev_vs view_vs vid st :
  cinv ih ivs s -> ph_check s p = PHC status proposer prev_hash prev_vs view_vs ->
  status = PHCheckAcceptable ->
  find_view (kpos_of s) (hd_height (ph_hdr p)) (ph_round p) = Ok (vid, st) -> st = ViewFound ->
  view_vs = v_vals (get_view s vid).
Proof.
  intros Hc Hp Hs Hfv Hst.
  assert (Hcom : v_h (k_com s) < v_h (k_vot s)).
  { destruct Hc as (_&_&Hi3&_&_&_&_&_&_&_&Hch). unfold chain_ok in Hch.
    destruct (k_chdr s); [destruct Hch as (X&Y&_)|destruct Hch as (X&_&_&Y)]; lia. }
  assert (Hsame : v_vals (k_nxt s) = v_vals (k_vot s)).
  { destruct Hc as (_&_&_&_&_&_&Hvv&Hvn&_). congruence. }
  assert (G : forall v vid, set_ph_check_status s p v vid = PHC status proposer prev_hash prev_vs view_vs ->
              view_vs = v_vals v).
  { intros v vid0. unfold set_ph_check_status.
    destruct (existsb _ _); [intros E; inversion E; subst; discriminate|].
    destruct (ph_key p); [|intros E; inversion E; subst; discriminate].
    destruct (negb _); [intros E; inversion E; subst; discriminate|].
    destruct (_ =? k_init_h s); [intros E; inversion E; reflexivity|].
    destruct (k_chdr s) as [ch|]; [destruct (vid0 =? ViewIDCommitting)|]; intros E; inversion E; reflexivity. }
  unfold ph_check in Hp. cbv zeta in Hp.
  destruct (find_view_found _ _ _ _ _ Hfv Hst) as [(A&B&C)|[(A&B&C)|(A&B&C&D)]]; cbn in B, C; subst vid.
  - rewrite B, C in Hp.
    destruct (N.ltb_spec (v_h (k_vot s)) (v_h (k_com s))); [lia|].
    destruct (N.eqb_spec (v_h (k_vot s)) (v_h (k_com s))); [lia|].
    rewrite N.eqb_refl, N.ltb_irrefl, N.eqb_refl in Hp. exact (G _ _ Hp).
  - rewrite B in Hp.
    destruct (N.ltb_spec (v_h (k_vot s)) (v_h (k_com s))); [lia|].
    destruct (N.eqb_spec (v_h (k_vot s)) (v_h (k_com s))); [lia|].
    rewrite N.eqb_refl in Hp.
    destruct (_ <? _); [inversion Hp; subst; discriminate|].
    destruct (_ =? _); [rewrite (G _ _ Hp); symmetry; exact Hsame|].
    rewrite C, N.eqb_refl in Hp. exact (G _ _ Hp).
  - cbn in D. rewrite B, C in Hp. rewrite N.ltb_irrefl, N.eqb_refl, N.ltb_irrefl, N.eqb_refl in Hp.
    exact (G _ _ Hp).
Qed.

Lemma vinv_put_phs ih ivs s vid p :
  vinv ih ivs s -> valset_equal (hd_vals (ph_hdr p)) (v_vals (get_view s vid)) = true ->
  vinv ih ivs (put_view s vid (bump (with_phs (get_view s vid) (v_phs (get_view s vid) ++ [p])))).
Proof.
  intros (A&B&C&D) Hn.
  assert (G : forall v, phs_named v -> valset_equal (hd_vals (ph_hdr p)) (v_vals v) = true ->
                        phs_named (bump (with_phs v (v_phs v ++ [p])))).
  { intros v Hv Hp q Hq. cbn in Hq. apply in_app_or in Hq as [Hq|[Hq|[]]]; [apply Hv; exact Hq|subst q; exact Hp]. }
  revert Hn. unfold get_view, put_view.
  destruct (vid =? ViewIDVoting); [|destruct (vid =? ViewIDCommitting)]; intros Hn; unfold vinv; cbn.
  - split; [exact A|]. split; [apply G; assumption|]. split; assumption.
  - split; [apply G; assumption|]. split; [exact B|]. split; assumption.
  - split; [exact A|]. split; [exact B|]. split; [apply G; assumption|exact D].
Qed.

Lemma vinv_add_ph ih ivs s p s' :
  cinv ih ivs s -> vinv ih ivs s -> accept_facts s p ->
  (forall vid st, find_view (kpos_of s) (hd_height (ph_hdr p)) (ph_round p) = Ok (vid, st) -> st = ViewFound ->
     valset_equal (hd_vals (ph_hdr p)) (v_vals (get_view s vid)) = true) ->
  add_ph s p = Ok s' -> vinv ih ivs s'.
Proof.
  intros Hc H (Aok&Anext&Ab&Aprev) Hnamed. unfold add_ph, bind.
  destruct (find_view _ _ _) as [[vid st]|] eqn:Hfv; [|discriminate].
  destruct (st =? ViewFound) eqn:Hst; cbn [negb]; [|intros E; inversion E; subst; exact H].
  apply N.eqb_eq in Hst.
  destruct (existsb _ _); [intros E; inversion E; subst; exact H|].
  pose proof (find_view_found _ _ _ _ _ Hfv Hst) as Hcase. cbn in Hcase.
  assert (Hvid : vid = ViewIDVoting \/ vid = ViewIDNextRound \/ vid = ViewIDCommitting).
  { destruct Hcase as [(A&_)|[(A&_)|(A&_)]]; auto. }
  assert (Hgood : vid = ViewIDVoting \/ vid = ViewIDNextRound -> ph_good s p).
  { intros Hv. assert (Hh : hd_height (ph_hdr p) = v_h (k_vot s)).
    { destruct Hcase as [(A&B&C)|[(A&B&C)|(A&B&C&D)]]; try exact B.
      subst vid. destruct Hv as [Hv|Hv]; discriminate. }
    unfold ph_good. splits; try assumption. intros Hne. apply Aprev; assumption. }
  destruct (cinv_put_phs ih ivs s vid p Hc Hvid Hgood) as (Hc1&_).
  pose proof (vinv_put_phs ih ivs s vid p H (Hnamed vid st eq_refl Hst)) as H1.
  set (s1 := put_view s vid _) in *.
  set (s2 := ev_w (log_w (set_rounds s1 _) _) _).
  assert (Hc2 : cinv ih ivs s2) by (eapply cinv_frame; [apply frame_set_rounds|exact Hc1]).
  assert (H2 : vinv ih ivs s2) by (eapply vinv_frame; [apply frame_set_rounds|exact H1]).
  destruct (negb _); [intros E; inversion E; subst; exact H2|].
  pose proof (frame_backfill s2 p) as F3.
  pose proof (cinv_frame _ _ _ _ F3 Hc2) as Hc3. pose proof (vinv_frame _ _ _ _ F3 H2) as H3.
  destruct (vid =? ViewIDVoting).
  - destruct (pm_get _ _).
    + apply vinv_check_voting; assumption.
    + intros E; inversion E; subst; exact H3.
  - intros E; inversion E; subst; exact H3.
Qed.

Lemma vinv_handle_ph_loop ih ivs fuel : forall backfilled s p s' res,
  cinv ih ivs s -> vinv ih ivs s -> ph_bounded p ->
  handle_ph_loop fuel backfilled s p = Ok (s', res) -> vinv ih ivs s'.
Proof.
  assert (Hbody : forall s p status proposer prev_hash prev_vs view_vs s' res,
    cinv ih ivs s -> vinv ih ivs s -> ph_bounded p ->
    ph_check s p = PHC status proposer prev_hash prev_vs view_vs -> status = PHCheckAcceptable ->
    (let hd := ph_hdr p in
      if negb (hd_ok hd) then Ok (s, HandleProposedHeaderBadBlockHash)
      else if negb (vs_ok (hd_vals hd) && vs_ok (hd_next hd)) then Ok (s, HandleProposedHeaderBadBlockHash)
      else if negb (valset_equal (hd_vals hd) view_vs) then Ok (s, HandleProposedHeaderBadBlockHash)
      else
        match proposer with
        | None => Ok (s, HandleProposedHeaderBadSignature)
        | Some key =>
          if negb (verify_prop key (ph_content p) (ph_round p) (ph_sig p)) then Ok (s, HandleProposedHeaderBadSignature)
          else if negb (hd_height hd =? k_init_h s) && negb (bytes_eqb (hd_prev hd) prev_hash)
          then Ok (s, HandleProposedHeaderBadBlockHash)
          else if negb (bytes_eqb (vs_pkh prev_vs) (cp_pkh (hd_pcp hd)))
          then Ok (s, HandleProposedHeaderBadPrevCommitProofPubKeyHash)
          else
            let accept := bind (add_ph s p) (fun s' => Ok (s', HandleProposedHeaderAccepted)) in
            if k_init_h s <? hd_height hd then
              match vs_keys prev_vs with
              | [] => Ok (s, HandleProposedHeaderBadPrevCommitProofPubKeyHash)
              | _ =>
                match validate_finalized (sub64 (hd_height hd) 1) (cp_round (hd_pcp hd)) (vs_keys prev_vs)
                        (hd_prev hd) (cp_proofs (hd_pcp hd)) with
                | (_, false) => Ok (s, HandleProposedHeaderBadPrevCommitProofDoubleSigned)
                | (None, true) => Ok (s, HandleProposedHeaderBadPrevCommitProofSignature)
                | (Some bits, true) =>
                    let avail := sum_pows (vs_pows prev_vs) in
                    bind (byz_majority avail) (fun maj =>
                    if idx_power (vs_pows prev_vs) bits <? maj
                    then Ok (s, HandleProposedHeaderBadPrevCommitVoteCount)
                    else accept)
                end
              end
            else accept
        end) = Ok (s', res) ->
    vinv ih ivs s').
  { intros s p status proposer prev_hash prev_vs view_vs s' res Hc H Hb Hck Hs. cbv zeta.
    assert (Hsame : forall r0, Ok (s, r0) = Ok (s', res) -> vinv ih ivs s')
      by (intros r0 E; inversion E; subst; exact H).
    destruct (hd_ok (ph_hdr p)) eqn:Hok; cbn [negb]; [|apply Hsame].
    destruct (vs_ok (hd_vals (ph_hdr p)) && vs_ok (hd_next (ph_hdr p))) eqn:Hvs; cbn [negb]; [|apply Hsame].
    apply andb_true_iff in Hvs as [_ Hnext].
    destruct (valset_equal (hd_vals (ph_hdr p)) view_vs) eqn:Hveq; cbn [negb]; [|apply Hsame].
    destruct proposer as [key|]; [|apply Hsame].
    destruct (negb (verify_prop _ _ _ _)); [apply Hsame|].
    destruct (negb (hd_height (ph_hdr p) =? k_init_h s) && negb (bytes_eqb (hd_prev (ph_hdr p)) prev_hash)) eqn:Hprev; [apply Hsame|].
    destruct (negb (bytes_eqb (vs_pkh prev_vs) _)); [apply Hsame|].
    assert (Hfacts : accept_facts s p).
    { unfold accept_facts. repeat split; try assumption.
      intros Hh Hne. destruct (ph_check_prev _ _ _ _ _ _ _ _ _ Hc Hck Hs Hh Hne) as (ch&Hch&Hph).
      exists ch. split; [exact Hch|].
      apply andb_false_iff in Hprev as [Hp|Hp].
      - apply negb_false_iff in Hp. apply N.eqb_eq in Hp. contradiction.
      - apply negb_false_iff in Hp. apply bytes_eqb_eq in Hp. congruence. }
    assert (Hnamed : forall vid st, find_view (kpos_of s) (hd_height (ph_hdr p)) (ph_round p) = Ok (vid, st) -> st = ViewFound ->
                       valset_equal (hd_vals (ph_hdr p)) (v_vals (get_view s vid)) = true).
    { intros vid st Hfv Hst. rewrite <- (ph_check_view_named _ _ _ _ _ _ _ _ _ _ _ Hc Hck Hs Hfv Hst). exact Hveq. }
    assert (Hacc : bind (add_ph s p) (fun s' => Ok (s', HandleProposedHeaderAccepted)) = Ok (s', res) -> vinv ih ivs s').
    { unfold bind. destruct (add_ph s p) eqn:Hadd; [|discriminate].
      intros E; inversion E; subst. eapply vinv_add_ph; eassumption. }
    destruct (k_init_h s <? _); [|exact Hacc].
    destruct (vs_keys prev_vs); [apply Hsame|].
    destruct (validate_finalized _ _ _ _ _) as [[bits|] [|]]; try apply Hsame.
    unfold bind at 1. destruct (byz_majority _); [|discriminate].
    destruct (_ <? _); [apply Hsame|exact Hacc]. }
  induction fuel as [|f IH]; intros backfilled s p s' res Hc H Hb; cbn [handle_ph_loop];
    destruct (ph_check s p) as [status proposer prev_hash prev_vs view_vs] eqn:Hck.
  all: assert (Hsame : forall r0, Ok (s, r0) = Ok (s', res) -> vinv ih ivs s')
         by (intros r0 E; inversion E; subst; exact H).
  all: destruct (status =? PHCheckAlreadyHaveSignature) eqn:S1; [apply Hsame|].
  all: destruct (status =? PHCheckSignerUnrecognized) eqn:S2; [apply Hsame|].
  all: destruct (status =? PHCheckRoundTooOld) eqn:S3; [apply Hsame|].
  all: destruct (status =? PHCheckRoundTooFarInFuture) eqn:S4; [apply Hsame|].
  all: destruct (status =? PHCheckNextHeight) eqn:S5.
  - destruct backfilled; apply Hsame.
  - eapply Hbody; try eassumption. eapply status_acceptable; eassumption.
  - destruct backfilled; [apply Hsame|].
    unfold bind at 1. destruct (handle_votes KPrecommit s (vote_msg_of_pcp p)) as [[s1 r1]|] eqn:Hv; [|discriminate].
    cbn [fst]. apply IH; [|eapply vinv_handle_votes; eassumption|exact Hb].
    exact (proj1 (cinv_handle_votes _ _ _ _ _ _ _ Hc Hv)).
  - eapply Hbody; try eassumption. eapply status_acceptable; eassumption.
Qed.

(** ** Replayed headers *)
Lemma vinv_jump_until ih ivs fuel : forall s r, vinv ih ivs s -> vinv ih ivs (jump_until fuel s r).
Proof.
  induction fuel as [|f IH]; intros s r H; cbn [jump_until]; [exact H|].
  destruct (_ <? _); [apply IH, vinv_jump, H|exact H].
Qed.

Lemma vinv_replay_insert ih ivs s hd r s1 :
  vinv ih ivs s -> valset_equal (hd_vals hd) (v_vals (k_vot s)) = true ->
  replay_insert s hd r = Ok s1 -> vinv ih ivs s1.
Proof.
  intros (A&B&C&D) Hn. unfold replay_insert.
  destruct (existsb _ (v_phs _)); [intros E; inversion E; subst; repeat split; assumption|].
  assert (G : phs_named (with_phs (k_vot s) (v_phs (k_vot s) ++ [fake_ph hd r]))).
  { intros q Hq. cbn in Hq. apply in_app_or in Hq as [Hq|[Hq|[]]]; [apply B; exact Hq|subst q; exact Hn]. }
  destruct (existsb _ (st_rounds s)); intros E; inversion E; subst; unfold vinv; cbn;
    (split; [exact A|]; split; [exact G|]; split; [exact C|exact D]).
Qed.

Lemma vinv_handle_replay ih ivs s0 hd cp s' res :
  cinv ih ivs s0 -> vinv ih ivs s0 -> hd_height hd + 1 < two64 ->
  handle_replay s0 hd cp = Ok (s', res) -> vinv ih ivs s'.
Proof.
  intros Hc0 H0 Hb. unfold handle_replay.
  destruct (negb (hd_height hd =? _)); [intros E; inversion E; subst; exact H0|].
  destruct (cp_round cp <? _); [discriminate|].
  destruct (cinv_adv_jump_until ih ivs (N.to_nat (cp_round cp - v_r (k_vot s0))) s0 (cp_round cp) Hc0) as [Hc _].
  pose proof (vinv_jump_until ih ivs (N.to_nat (cp_round cp - v_r (k_vot s0))) s0 (cp_round cp) H0) as H.
  set (s := jump_until _ s0 _) in *.
  destruct ((v_r (k_vot s) =? cp_round cp) && (v_h (k_vot s) =? hd_height hd)) eqn:Hpos; cbn [negb]; [|discriminate].
  apply andb_true_iff in Hpos as [Hr Hh]. apply N.eqb_eq in Hr, Hh.
  assert (Hsame : forall r0, Ok (s0, r0) = Ok (s', res) -> vinv ih ivs s') by (intros r0 E; inversion E; subst; exact H0).
  destruct (hd_ok hd) eqn:Hok; cbn [negb]; [|apply Hsame].
  destruct (negb (hd_height hd =? k_init_h s) && negb (bytes_eqb (hd_prev hd) (chdr_hash s))) eqn:Hprev; [apply Hsame|].
  destruct (valset_equal (hd_vals hd) (v_vals (k_vot s)) && vs_ok (hd_vals hd)) eqn:Hveq; cbn [negb]; [|apply Hsame].
  apply andb_true_iff in Hveq as [Hveq _].
  destruct (vs_ok (hd_next hd)) eqn:Hnext; cbn [negb]; [|apply Hsame].
  destruct (fold_left _ (signed_entries (cp_proofs cp)) ([], true)) as [temp allv].
  destruct (negb allv); [apply Hsame|].
  destruct (pm_get temp (hd_hash hd)); [|apply Hsame].
  unfold bind at 1. destruct (byz_majority _); [|discriminate].
  destruct (_ <? _); [apply Hsame|].
  fold (replay_insert s hd (cp_round cp)).
  unfold bind at 1. destruct (replay_insert s hd (cp_round cp)) as [s1|] eqn:Hins; [|discriminate].
  pose proof (replay_checks_good _ _ _ _ (cp_round cp) Hc Hh Hok Hnext Hb Hprev) as Hgood.
  destruct (cinv_replay_insert _ _ _ _ _ _ Hc Hgood Hins) as [Hc1 _].
  pose proof (vinv_replay_insert _ _ _ _ _ _ H Hveq Hins) as H1.
  unfold bind. destruct (check_voting_precommit_shift _) as [s3|] eqn:Hcv; [|discriminate].
  intros E; inversion E; subst.
  match type of Hcv with check_voting_precommit_shift ?X = _ => set (s2 := X) in * end.
  assert (F2 : frame_eq s1 s2) by (unfold s2, frame_eq, pos_eq; cbn; repeat split).
  eapply vinv_check_voting; [eapply cinv_frame; [exact F2|exact Hc1]|eapply vinv_frame; [exact F2|exact H1]|exact Hcv].
Qed.

(** ** Every reachable state *)
Lemma vinv_step ih ivs s o s' res :
  cinv ih ivs s -> vinv ih ivs s -> op_bounded o -> step s o = Ok (s', res) -> vinv ih ivs s'.
Proof.
  intros Hc H Hb. destruct o as [p|m|m|x cp]; cbn [step]; [| | |apply vinv_handle_replay; assumption].
  - unfold handle_ph. destruct (ph_key p).
    + apply vinv_handle_ph_loop; assumption.
    + intros E; inversion E; subst. exact H.
  - apply vinv_handle_votes; assumption.
  - apply vinv_handle_votes; assumption.
Qed.

Lemma vinv_init ih ivs : vinv ih ivs (init_state ih ivs).
Proof. unfold vinv, phs_named, hdrs_named, init_state. cbn. repeat split; intros; contradiction. Qed.

Theorem reachable_vinv ih ivs s : 1 <= ih -> vs_ok ivs = true -> reachable_b ih ivs s -> vinv ih ivs s.
Proof.
  intros Hi Hok. induction 1 as [|s o s' res Hr IH Hb Hs]; [apply vinv_init|].
  eapply vinv_step; [eapply reachable_cinv; eassumption|exact IH|exact Hb|exact Hs].
Qed.

(** *** C07: the statements *)
Theorem committed_headers_name_chain_vals ih ivs s :
  1 <= ih -> vs_ok ivs = true -> reachable_b ih ivs s ->
  forall h x cp, In (h, (x, cp)) (st_hdrs s) ->
    valset_equal (hd_vals x) (chain_vals ih ivs (st_hdrs s) h) = true.
Proof. intros Hi Hok Hr. exact (proj2 (proj2 (proj2 (reachable_vinv ih ivs s Hi Hok Hr)))). Qed.

Theorem held_proposals_name_view_vals ih ivs s :
  1 <= ih -> vs_ok ivs = true -> reachable_b ih ivs s ->
  (forall p, In p (v_phs (k_vot s)) -> valset_equal (hd_vals (ph_hdr p)) (v_vals (k_vot s)) = true) /\
  (forall p, In p (v_phs (k_nxt s)) -> valset_equal (hd_vals (ph_hdr p)) (v_vals (k_nxt s)) = true) /\
  (forall p, In p (v_phs (k_com s)) -> valset_equal (hd_vals (ph_hdr p)) (v_vals (k_com s)) = true).
Proof.
  intros Hi Hok Hr. destruct (reachable_vinv ih ivs s Hi Hok Hr) as (A&B&C&_).
  split; [exact B|]. split; [exact C|exact A].
Qed.

(** the committing header names the set the voting view had when it was committed: with
    [voting_valset_is_committed_next] this chains the sets height by height *)
Theorem committing_header_names_chain_vals ih ivs s ch :
  1 <= ih -> vs_ok ivs = true -> reachable_b ih ivs s -> k_chdr s = Some ch ->
  valset_equal (hd_vals ch) (chain_vals ih ivs (st_hdrs s) (hd_height ch)) = true.
Proof.
  intros Hi Hok Hr Hch.
  pose proof (reachable_cinv ih ivs s Hi Hok Hr) as (_&_&_&_&_&_&_&_&_&_&Hchain).
  unfold chain_ok in Hchain. rewrite Hch in Hchain. destruct Hchain as (_&_&_&(cp&rest&Hst)&_).
  eapply committed_headers_name_chain_vals; try eassumption. rewrite Hst. left. reflexivity.
Qed.
