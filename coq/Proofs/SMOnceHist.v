(** C08 over ALL event histories of the round state machine model: the step never decreases within a
    round, and the strategy is asked for its precommit decision / its final prevote choice at most once
    between two round entrances.
    The "at most once" statements are instances of one scan argument ([Section Scan]): a flag "asked since
    the last round entrance" implies a state predicate [Good] that the asking event requires to be false. *)
From Coq Require Import List NArith String Bool Lia.
From GV Require Import Base.Ints Gen.Math Gen.StepSM Model.StateMachine Model.SMWire Model.SMWalk Proofs.SMStep Proofs.SMOutputs
  Proofs.SMInv Proofs.SMInvH Proofs.SMInvStep Proofs.SMRel Proofs.SMTheorems Proofs.SMInvActs Proofs.SMWitness
  Proofs.SMOnce Proofs.SMOnceRel Proofs.SMOnceStep.
Import ListNotations.
Local Open Scope N_scope.

Lemma run_cases s : run s = NotStarted \/ awaiting s \/ run s = Idle \/ dead s.
Proof. unfold awaiting, dead. destruct (run s); auto. Qed.
Lemma dead_not_idle s : dead s -> run s <> Idle.
Proof. unfold dead. destruct (run s); try contradiction; discriminate. Qed.
Lemma dead_not_awaiting s : dead s -> ~ awaiting s.
Proof. unfold dead, awaiting. destruct (run s); tauto. Qed.
Lemma dead_not_nst s : dead s -> run s <> NotStarted.
Proof. unfold dead. destruct (run s); try contradiction; discriminate. Qed.
Lemma idle_not_awaiting s : run s = Idle -> ~ awaiting s.
Proof. unfold awaiting. intros ->. tauto. Qed.
Lemma idle_not_dead s : run s = Idle -> ~ dead s.
Proof. unfold dead. intros ->. tauto. Qed.
Lemma nst_not_awaiting s : run s = NotStarted -> ~ awaiting s.
Proof. unfold awaiting. intros ->. tauto. Qed.
Lemma nst_not_dead s : run s = NotStarted -> ~ dead s.
Proof. unfold dead. intros ->. tauto. Qed.
Lemma awaiting_not_dead s : awaiting s -> ~ dead s.
Proof. unfold dead, awaiting. destruct (run s); tauto. Qed.

Lemma le7_final es : forall s, rS (rl s) <= 7 -> rS (rl (final_state s es)) <= 7.
Proof. induction es as [|e es IH]; intros s H; simpl; [exact H|]. apply IH, step_le7, H. Qed.
Lemma le7_reachable sg es : rS (rl (final_state (sm0 sg) es)) <= 7.
Proof. apply le7_final. vm_compute. discriminate. Qed.

(** ** The step within a round *)
(** per event: an idle machine that is idle again after the event (it announced no round entrance, it
    did not stop) is in the same round with the same channels, and its step has not decreased *)
Theorem step_monotone s e : rS (rl s) <= 7 -> run s = Idle -> run (fst (step s e)) = Idle ->
  rS (rl s) <= rS (rl (fst (step s e))) /\ cur (fst (step s e)) = cur s /\ gen (fst (step s e)) = gen s.
Proof.
  intros L7 Rn Rn'. destruct (event_eq_stop e) as [->|NS].
  - destruct (stop_step s) as [[E _]|(E & _)]; cbv zeta in *; [rewrite E; split; [lia|auto]|congruence].
  - destruct (idle_step s e Rn L7 NS) as (A & _). destruct (A Rn') as [(K1 & K2 & K3 & K4) M].
    destruct K1 as (_ & _ & _ & H1 & H2 & _). split; [exact M|split; [unfold cur; congruence|exact K4]].
Qed.

(** along a lifetime (no Stop): the channel generation never decreases, and between two idle states
    of the same generation (no Reset in between = the same round of the same lifetime) the step
    does not decrease *)
Lemma lifetime_facts es : forall s, ~ In EvStop es -> rS (rl s) <= 7 ->
  (dead s -> dead (final_state s es)) /\
  (run (final_state s es) = Idle -> gen s <= gen (final_state s es)) /\
  (run s = Idle -> run (final_state s es) = Idle -> gen (final_state s es) = gen s ->
     rS (rl s) <= rS (rl (final_state s es)) /\ cur (final_state s es) = cur s).
Proof.
  induction es as [|e es IH]; intros s NS L7; simpl.
  { split; [auto|]. split; [intros _; lia|intros _ _ _; split; [lia|reflexivity]]. }
  assert (NS1 : e <> EvStop) by (intros ->; apply NS; left; reflexivity).
  assert (NS2 : ~ In EvStop es) by (intros X; apply NS; right; exact X).
  pose proof (step_le7 s e L7) as L71.
  destruct (IH (fst (step s e)) NS2 L71) as (a1 & b1 & c1).
  set (s1 := fst (step s e)) in *. set (s2 := final_state s1 es) in *.
  destruct (run_cases s) as [Rn|[Aw|[Rn|Dd]]].
  - destruct (nst_step s e Rn NS1) as (_ & _ & G & _). cbv zeta in G. fold s1 in G.
    split; [intros X; destruct (nst_not_dead _ Rn X)|]. split; [intros X; rewrite <- G; exact (b1 X)|congruence].
  - pose proof (await_step s e Aw L7 NS1) as (F1 & F2 & _ & F4 & _). fold s1 in F1, F2, F4.
    split; [intros X; destruct (awaiting_not_dead _ Aw X)|].
    split; [|intros X; destruct (awaiting_not_idle _ Aw X)].
    intros X. specialize (b1 X).
    destruct (run_cases s1) as [R1|[A1|[R1|D1]]].
    + contradiction.
    + destruct (F2 A1) as [(_ & E & _)|(E & _)]; lia.
    + destruct (F1 R1) as [_ E]. lia.
    + destruct (dead_not_idle _ (a1 D1) X).
  - pose proof (idle_step s e Rn L7 NS1) as (F1 & F2 & _ & F4 & _). fold s1 in F1, F2, F4.
    split; [intros X; destruct (idle_not_dead _ Rn X)|].
    split.
    + intros X. specialize (b1 X).
      destruct (run_cases s1) as [R1|[A1|[R1|D1]]].
      * contradiction.
      * destruct (F2 A1) as (E & _). lia.
      * destruct (F1 R1) as [(_ & _ & _ & E) _]. lia.
      * destruct (dead_not_idle _ (a1 D1) X).
    + intros _ X E2. pose proof (b1 X) as B.
      destruct (run_cases s1) as [R1|[A1|[R1|D1]]].
      * contradiction.
      * destruct (F2 A1) as (E & _). lia.
      * destruct (F1 R1) as [((_ & _ & _ & H1 & H2 & _) & _ & _ & E) M].
        destruct (c1 R1 X ltac:(congruence)) as [M2 C2]. split; [lia|]. rewrite C2. unfold cur. congruence.
      * destruct (dead_not_idle _ (a1 D1) X).
  - destruct (dead_step s e Dd NS1) as (D1 & _). cbv zeta in D1. fold s1 in D1.
    split; [intros _; exact (a1 D1)|]. split; [intros X; destruct (dead_not_idle _ (a1 D1) X)|].
    intros X. destruct (dead_not_idle _ Dd X).
Qed.

Theorem step_monotone_within_round sg es1 es2 :
  let s1 := final_state (sm0 sg) es1 in let s2 := final_state s1 es2 in
  ~ In EvStop es2 -> run s1 = Idle -> run s2 = Idle -> gen s2 = gen s1 ->
  rS (rl s1) <= rS (rl s2) /\ rH (rl s2) = rH (rl s1) /\ rR (rl s2) = rR (rl s1).
Proof.
  intros s1 s2 NS R1 R2 G.
  destruct (lifetime_facts es2 s1 NS (le7_reachable sg es1)) as (_ & _ & C).
  destruct (C R1 R2 G) as [M E]. unfold cur in E. inversion E. auto.
Qed.

(** the hypotheses are satisfiable; the step really moves: AwaitingProposal -> PrevoteDelay *)
Definition ex_mono_1 : list event := [ EvStart; EvRERespVRV (mkv 1 0 1 (vs_of 0 0 [] []) []) ].
Definition ex_mono_2 : list event := [ EvView (mkv 1 0 2 (vs_of 30 0 [([7], 20); ([], 10)] []) [gph 7]) None ].
Example ex_step_monotone :
  let s1 := final_state (sm0 true) ex_mono_1 in let s2 := final_state s1 ex_mono_2 in
  run s1 = Idle /\ run s2 = Idle /\ gen s2 = gen s1 /\ rS (rl s1) = StepAwaitingProposal /\ rS (rl s2) = StepPrevoteDelay.
Proof. vm_compute. repeat split; reflexivity. Qed.

(** Reset does not reset the step: between a round entrance and its response the machine still carries
    the step of the round it left (here PrecommitDelay), and the response lowers it (AwaitingProposal)
    within the same channel generation - "within a round" therefore has to mean "between idle states" *)
Definition ex_stale : list event :=
  [ EvStart; EvRERespVRV (mkv 1 0 1 (vs_of 0 0 [] []) []);
    EvView (mkv 1 0 2 (vs_of 0 30 [] [([7], 20); ([], 10)]) []) None; EvTimer; EvAnswer 0 [7] ].
Example ex_step_stale_while_awaiting :
  let s1 := final_state (sm0 true) ex_stale in
  let s2 := fst (step s1 (EvRERespVRV (mkv 1 1 1 (vs_of 0 0 [] []) []))) in
  awaiting s1 /\ run s2 = Idle /\ gen s2 = gen s1 /\
  rS (rl s1) = StepPrecommitDelay /\ rS (rl s2) = StepAwaitingProposal /\ cur s1 = (1, 1) /\ cur s2 = (1, 1).
Proof. vm_compute. repeat split; reflexivity. Qed.

(** ** Scanning an output history: at most one [isa] output between two round entrances *)
Fixpoint scan (isa : out -> bool) (d : bool) (os : list out) : bool * bool :=
  match os with
  | [] => (true, d)
  | o :: os' => if is_ent o then scan isa false os'
                else if isa o then (if d then (false, true) else scan isa true os')
                else scan isa d os'
  end.

Definition Once (isa : out -> bool) (os : list out) : Prop :=
  forall a x b y c, os = a ++ x :: b ++ y :: c -> isa x = true -> isa y = true ->
    exists z, In z b /\ is_ent z = true.

Section ScanLemmas.
Variable isa : out -> bool.
Hypothesis isa_not_ent : forall o, isa o = true -> is_ent o = false.

Lemma scan_app a : forall d b, fst (scan isa d a) = true -> scan isa d (a ++ b) = scan isa (snd (scan isa d a)) b.
Proof.
  induction a as [|x a IH]; intros d b; simpl; [reflexivity|].
  destruct (is_ent x); [apply IH|]. destruct (isa x); [|apply IH].
  destruct d; [discriminate|apply IH].
Qed.

Lemma scan_fail_app a : forall d b, fst (scan isa d a) = false -> fst (scan isa d (a ++ b)) = false.
Proof.
  induction a as [|x a IH]; intros d b; simpl; [discriminate|].
  destruct (is_ent x); [apply IH|]. destruct (isa x); [|apply IH].
  destruct d; [reflexivity|apply IH].
Qed.

Lemma scan_none o : forall d, (forall x, In x o -> isa x = false) ->
  fst (scan isa d o) = true /\ (snd (scan isa d o) = true -> d = true).
Proof.
  induction o as [|x o IH]; intros d H; simpl; [auto|].
  assert (Hx : isa x = false) by (apply H; left; reflexivity).
  assert (Ho : forall y, In y o -> isa y = false) by (intros y Hy; apply H; right; exact Hy).
  rewrite Hx. destruct (is_ent x).
  - destruct (IH false Ho) as [A B]. split; [exact A|]. intros X. discriminate (B X).
  - apply IH. exact Ho.
Qed.

Lemma scan_one o : forall d, (List.length (filter isa o) <= 1)%nat -> (d = true -> filter isa o = []) ->
  fst (scan isa d o) = true.
Proof.
  induction o as [|x o IH]; intros d H1 H2; simpl; [reflexivity|].
  simpl in H1, H2. destruct (is_ent x) eqn:E.
  - apply IH; [destruct (isa x); simpl in H1; lia|discriminate].
  - destruct (isa x) eqn:I.
    + destruct d; [discriminate (H2 eq_refl)|]. apply IH; [simpl in H1; lia|].
      intros _. simpl in H1. destruct (filter isa o); [reflexivity|simpl in H1; lia].
    + apply IH; assumption.
Qed.

Lemma scan_ent_last o' E d : is_ent E = true -> fst (scan isa d (o' ++ [E])) = true ->
  snd (scan isa d (o' ++ [E])) = false.
Proof.
  intros HE H. destruct (fst (scan isa d o')) eqn:F.
  - rewrite scan_app by exact F. simpl. rewrite HE. reflexivity.
  - rewrite (scan_fail_app o' d [E] F) in H. discriminate H.
Qed.

Lemma scan_Once os : forall d, fst (scan isa d os) = true ->
  Once isa os /\ (d = true -> forall a y c, os = a ++ y :: c -> isa y = true -> exists z, In z a /\ is_ent z = true).
Proof.
  induction os as [|o os IH]; intros d H.
  { split; [intros a x b y c E; destruct a; discriminate E|intros _ a y c E; destruct a; discriminate E]. }
  simpl in H. destruct (is_ent o) eqn:EO.
  - destruct (IH false H) as [A _]. split.
    + intros a x b y c E Hx Hy. destruct a as [|a0 a]; simpl in E; inversion E; subst.
      * rewrite (isa_not_ent _ Hx) in EO. discriminate.
      * eapply A; eauto.
    + intros _ a y c E Hy. destruct a as [|a0 a]; simpl in E; inversion E; subst.
      * rewrite (isa_not_ent _ Hy) in EO. discriminate.
      * exists a0. split; [left; reflexivity|exact EO].
  - destruct (isa o) eqn:IO.
    + destruct d; [discriminate H|]. destruct (IH true H) as [A B]. split; [|discriminate].
      intros a x b y c E Hx Hy. destruct a as [|a0 a]; simpl in E; inversion E; subst.
      * exact (B eq_refl b y c eq_refl Hy).
      * eapply A; eauto.
    + destruct (IH d H) as [A B]. split.
      * intros a x b y c E Hx Hy. destruct a as [|a0 a]; simpl in E; inversion E; subst; [congruence|eapply A; eauto].
      * intros -> a y c E Hy. destruct a as [|a0 a]; simpl in E; inversion E; subst; [congruence|].
        destruct (B eq_refl a y c eq_refl Hy) as (z & Z1 & Z2). exists z. split; [right; exact Z1|exact Z2].
Qed.
End ScanLemmas.

(** where an awaiting / idle state comes from *)
Lemma step_await_cases s e : rS (rl s) <= 7 -> awaiting (fst (step s e)) ->
  ent_last (snd (step s e)) (fst (step s e)) \/ (awaiting s /\ (snd (step s e) = [] \/ snd (step s e) = [OUndeliverable])).
Proof.
  intros L7 A. destruct (event_eq_stop e) as [->|NS].
  - destruct (stop_step s) as [[E1 E2]|(E1 & _)]; cbv zeta in *.
    + right. rewrite E1 in A. auto.
    + destruct (nst_not_awaiting _ E1 A).
  - destruct (run_cases s) as [Rn|[Aw|[Rn|Dd]]].
    + destruct (nst_step s e Rn NS) as (_ & _ & _ & _ & [(X & _)|[(_ & X & _)|(X & _)]]); cbv zeta in *.
      * destruct (nst_not_awaiting _ X A). * left; exact X. * destruct (dead_not_awaiting _ X A).
    + destruct (await_step s e Aw L7 NS) as (_ & F2 & _). destruct (F2 A) as [(_ & _ & X)|(_ & X & _)]; auto.
    + destruct (idle_step s e Rn L7 NS) as (_ & F2 & _). destruct (F2 A) as (_ & X & _). auto.
    + destruct (dead_step s e Dd NS) as (X & _). destruct (dead_not_awaiting _ X A).
Qed.

Lemma step_idle_from s e : run (fst (step s e)) = Idle -> run s = Idle \/ awaiting s.
Proof.
  intros R. destruct (event_eq_stop e) as [->|NS].
  - destruct (stop_step s) as [[E1 E2]|(E1 & _)]; cbv zeta in *; [rewrite E1 in R; auto|congruence].
  - destruct (run_cases s) as [Rn|[Aw|[Rn|Dd]]]; auto.
    + destruct (nst_step s e Rn NS) as (_ & _ & _ & _ & [(X & _)|[(X & _)|(X & _)]]); cbv zeta in *; try congruence.
      destruct (dead_not_idle _ X R).
    + destruct (dead_step s e Dd NS) as (X & _). destruct (dead_not_idle _ X R).
Qed.

Section Scan.
Variable isa : out -> bool.
Variable Good : sm -> Prop.
Hypothesis isa_not_ent : forall o, isa o = true -> is_ent o = false.
Hypothesis isa_und : isa OUndeliverable = false.
Hypothesis Hcount : forall s e, (List.length (filter isa (snd (step s e))) <= 1)%nat.
Hypothesis Hask : forall s e x, rS (rl s) <= 7 -> In x (snd (step s e)) -> isa x = true ->
  (run s = Idle \/ awaiting s) /\ (run s = Idle -> ~ Good s) /\
  (run (fst (step s e)) = Idle -> Good (fst (step s e))).
Hypothesis Hkeep : forall s e, rS (rl s) <= 7 -> run s = Idle -> run (fst (step s e)) = Idle ->
  Good s -> Good (fst (step s e)).

(** "asked since the last round entrance" implies: idle and [Good], or dead / stopped *)
Definition Iflag (d : bool) (s : sm) : Prop :=
  d = true -> match run s with Idle => Good s | AwaitInit | AwaitAdv _ => False | _ => True end.

Lemma Iflag_idle d s : Iflag d s -> d = true -> run s = Idle -> Good s.
Proof. unfold Iflag. intros H Hd R. specialize (H Hd). rewrite R in H. exact H. Qed.
Lemma Iflag_await d s : Iflag d s -> d = true -> awaiting s -> False.
Proof. unfold Iflag, awaiting. intros H Hd A. specialize (H Hd). destruct (run s); tauto. Qed.

Lemma filter_nil_none (o : list out) : filter isa o = [] -> forall x, In x o -> isa x = false.
Proof.
  induction o as [|y o IH]; simpl; [intros _ x []|]. destruct (isa y) eqn:E; [discriminate|].
  intros H x [<-|Hx]; [exact E|apply IH; assumption].
Qed.

Lemma scan_step s e d : rS (rl s) <= 7 -> Iflag d s ->
  fst (scan isa d (snd (step s e))) = true /\ Iflag (snd (scan isa d (snd (step s e)))) (fst (step s e)).
Proof.
  intros L7 HI.
  pose proof (step_await_cases s e L7) as U1. pose proof (step_idle_from s e) as U2.
  pose proof (Hcount s e) as HC. pose proof (Hask s e) as HA. pose proof (Hkeep s e L7) as HK.
  set (o := snd (step s e)) in *. set (s' := fst (step s e)) in *.
  assert (AW : awaiting s' -> fst (scan isa d o) = true -> snd (scan isa d o) = true ->
               awaiting s /\ (forall x, In x o -> isa x = false)).
  { intros A F Sd. destruct (U1 A) as [(o' & pk & act & E)|[A0 [E|E]]].
    - rewrite E in F, Sd. rewrite (scan_ent_last isa o' (ORoundEntrance (rH (rl s')) (rR (rl s')) pk act) d eq_refl F) in Sd. discriminate Sd.
    - split; [exact A0|]. rewrite E. intros x [].
    - split; [exact A0|]. rewrite E. intros x [<-|[]]. exact isa_und. }
  destruct (filter isa o) as [|x0 l] eqn:FE.
  - (* nothing asked in this event *)
    pose proof (filter_nil_none o FE) as NO.
    destruct (scan_none isa o d NO) as [F B]. split; [exact F|].
    intros Sd. pose proof (B Sd) as Hd.
    destruct (run s') eqn:R'; try exact I.
    + assert (A : awaiting s') by (unfold awaiting; rewrite R'; exact I).
      destruct (AW A F Sd) as [A0 _]. exact (Iflag_await d s HI Hd A0).
    + assert (A : awaiting s') by (unfold awaiting; rewrite R'; exact I).
      destruct (AW A F Sd) as [A0 _]. exact (Iflag_await d s HI Hd A0).
    + destruct (U2 eq_refl) as [R0|A0]; [|destruct (Iflag_await d s HI Hd A0)].
      apply HK; [exact R0|reflexivity|exact (Iflag_idle d s HI Hd R0)].
  - (* asked *)
    assert (X0 : In x0 o /\ isa x0 = true) by (apply filter_In; rewrite FE; left; reflexivity).
    destruct X0 as [X1 X2]. destruct (HA x0 L7 X1 X2) as (H1 & H2 & H3).
    assert (Hd : d = false).
    { destruct d; [|reflexivity]. exfalso. destruct H1 as [R0|A0]; [exact (H2 R0 (Iflag_idle _ s HI eq_refl R0))|exact (Iflag_await _ s HI eq_refl A0)]. }
    subst d.
    assert (F : fst (scan isa false o) = true) by (apply scan_one; [rewrite FE; exact HC|discriminate]).
    split; [exact F|]. intros Sd.
    destruct (run s') eqn:R'; try exact I.
    + assert (A : awaiting s') by (unfold awaiting; rewrite R'; exact I).
      destruct (AW A F Sd) as [_ N]. rewrite (N x0 X1) in X2. discriminate X2.
    + assert (A : awaiting s') by (unfold awaiting; rewrite R'; exact I).
      destruct (AW A F Sd) as [_ N]. rewrite (N x0 X1) in X2. discriminate X2.
    + exact (H3 eq_refl).
Qed.

Lemma scan_hist es : forall s d, rS (rl s) <= 7 -> Iflag d s ->
  fst (scan isa d (List.concat (run_events s es))) = true.
Proof.
  induction es as [|e es IH]; intros s d L7 HI; simpl; [reflexivity|].
  destruct (scan_step s e d L7 HI) as [F I1]. pose proof (step_le7 s e L7) as L71.
  destruct (step s e) as [s1 o]. simpl in *.
  rewrite (scan_app isa o d _ F). apply IH; assumption.
Qed.

Theorem once_hist sg es : Once isa (List.concat (run_events (sm0 sg) es)).
Proof.
  apply (scan_Once isa isa_not_ent _ false). apply scan_hist; [vm_compute; discriminate|].
  intros X. discriminate X.
Qed.
End Scan.

(** ** Instances: the precommit decision and the prevote choice *)
Definition is_choose (o : out) : bool := match o with OChoose _ => true | _ => false end.

Lemma filter_decide_reqs o : List.length (filter is_decide o) = List.length (filter (N.eqb K_decide) (reqs o)).
Proof.
  induction o as [|x o IH]; [reflexivity|]. unfold reqs in *. simpl.
  destruct x; simpl; try exact IH; try (rewrite IH; reflexivity).
Qed.
Lemma filter_choose_reqs o : List.length (filter is_choose o) = List.length (filter (N.eqb K_choose) (reqs o)).
Proof.
  induction o as [|x o IH]; [reflexivity|]. unfold reqs in *. simpl.
  destruct x; simpl; try exact IH; try (rewrite IH; reflexivity).
Qed.
Lemma in_decide_reqs o x : In x o -> is_decide x = true -> In K_decide (reqs o).
Proof.
  induction o as [|y o IH]; [intros []|]. intros [->|H] E.
  - destruct x; try discriminate E. left. reflexivity.
  - unfold reqs in *. simpl. apply in_or_app. right. apply IH; assumption.
Qed.
Lemma in_choose_reqs o x : In x o -> is_choose x = true -> In K_choose (reqs o).
Proof.
  induction o as [|y o IH]; [intros []|]. intros [->|H] E.
  - destruct x; try discriminate E. left. reflexivity.
  - unfold reqs in *. simpl. apply in_or_app. right. apply IH; assumption.
Qed.

Lemma count_reqs_le1 s e k : (List.length (filter (N.eqb k) (reqs (snd (step s e)))) <= 1)%nat.
Proof.
  destruct (one_request_per_event s e) as [E|(_ & k' & E)]; rewrite E; simpl; [lia|]. destruct (k =? k'); simpl; lia.
Qed.

(** what asking means for the step, by run state *)
Lemma ask_facts s e k (th : N) :
  (k = K_decide /\ th = StepAwaitingPrecommits) \/ (k = K_choose /\ th = StepAwaitingPrevotes) ->
  rS (rl s) <= 7 -> In k (reqs (snd (step s e))) ->
  (run s = Idle \/ awaiting s) /\ (run s = Idle -> ~ th <= rS (rl s)) /\
  (run (fst (step s e)) = Idle -> th <= rS (rl (fst (step s e)))).
Proof.
  intros HK L7 H. destruct (event_eq_stop e) as [->|NS].
  { destruct (stop_step s) as [[_ E]|(_ & E & _)]; cbv zeta in *; rewrite E in H; destruct H. }
  destruct (run_cases s) as [Rn|[Aw|[Rn|Dd]]].
  - destruct (nst_step s e Rn NS) as (E & _). cbv zeta in E. rewrite E in H. destruct H.
  - destruct (await_step s e Aw L7 NS) as (_ & _ & _ & _ & F5 & F6 & _).
    split; [right; exact Aw|]. split; [intros X; destruct (awaiting_not_idle _ Aw X)|].
    destruct HK as [[-> ->]|[-> ->]]; [exact (F5 H)|exact (F6 H)].
  - destruct (idle_step s e Rn L7 NS) as (_ & _ & _ & _ & F5 & F6 & _).
    split; [left; exact Rn|].
    destruct HK as [[-> ->]|[-> ->]].
    + destruct (F5 H) as [A B]. split; [intros _; lia|exact B].
    + destruct (F6 H) as [A B]. split; [intros _; rewrite A; steps; lia|exact B].
  - destruct (dead_step s e Dd NS) as (_ & E & _). cbv zeta in E. rewrite E in H. destruct H.
Qed.

Lemma good_keeps th s e : rS (rl s) <= 7 -> run s = Idle -> run (fst (step s e)) = Idle ->
  th <= rS (rl s) -> th <= rS (rl (fst (step s e))).
Proof. intros L7 R R' H. destruct (step_monotone s e L7 R R') as [M _]. lia. Qed.

(** between two requests for the precommit decision a round entrance is announced *)
Theorem decide_once sg es : Once is_decide (List.concat (run_events (sm0 sg) es)).
Proof.
  apply (once_hist is_decide (fun s => StepAwaitingPrecommits <= rS (rl s))).
  - intros o H. destruct o; try discriminate H; reflexivity.
  - reflexivity.
  - intros s e. rewrite filter_decide_reqs. apply count_reqs_le1.
  - intros s e x L7 H1 H2. apply (ask_facts s e K_decide); [left; auto|exact L7|]. exact (in_decide_reqs _ x H1 H2).
  - intros s e. apply good_keeps.
Qed.

(** between two requests for the (final) prevote choice a round entrance is announced *)
Theorem choose_once sg es : Once is_choose (List.concat (run_events (sm0 sg) es)).
Proof.
  apply (once_hist is_choose (fun s => StepAwaitingPrevotes <= rS (rl s))).
  - intros o H. destruct o; try discriminate H; reflexivity.
  - reflexivity.
  - intros s e. rewrite filter_choose_reqs. apply count_reqs_le1.
  - intros s e x L7 H1 H2. apply (ask_facts s e K_choose); [right; auto|exact L7|]. exact (in_choose_reqs _ x H1 H2).
  - intros s e. apply good_keeps.
Qed.

(** per event, in every reachable state: where the two requests can be made and what they do to the step *)
Theorem decide_step sg es e :
  let s := final_state (sm0 sg) es in
  In K_decide (reqs (snd (step s e))) ->
  cm s = None /\ (run s = Idle \/ awaiting s) /\ (run s = Idle -> rS (rl s) < StepAwaitingPrecommits) /\
  (run (fst (step s e)) = Idle -> StepAwaitingPrecommits <= rS (rl (fst (step s e)))).
Proof.
  intros s H. destruct (ask_facts s e K_decide StepAwaitingPrecommits ltac:(left; auto) (le7_reachable sg es) H) as (A & B & C).
  split; [|split; [exact A|split; [intros X; specialize (B X); lia|exact C]]].
  destruct (one_request_per_event s e) as [E|(E & _)]; [rewrite E in H; destruct H|exact E].
Qed.

Theorem choose_step sg es e :
  let s := final_state (sm0 sg) es in
  In K_choose (reqs (snd (step s e))) ->
  cm s = None /\ (run s = Idle \/ awaiting s) /\ (run s = Idle -> rS (rl s) = StepAwaitingProposal) /\
  (run (fst (step s e)) = Idle -> StepAwaitingPrevotes <= rS (rl (fst (step s e)))).
Proof.
  intros s H. pose proof (le7_reachable sg es) as L7. fold s in L7.
  assert (C : cm s = None) by (destruct (one_request_per_event s e) as [E|(E & _)]; [rewrite E in H; destruct H|exact E]).
  split; [exact C|].
  destruct (event_eq_stop e) as [->|NS].
  { destruct (stop_step s) as [[_ E]|(_ & E & _)]; cbv zeta in *; rewrite E in H; destruct H. }
  destruct (run_cases s) as [Rn|[Aw|[Rn|Dd]]].
  - destruct (nst_step s e Rn NS) as (E & _). cbv zeta in E. rewrite E in H. destruct H.
  - destruct (await_step s e Aw L7 NS) as (_ & _ & _ & _ & _ & F6 & _).
    split; [right; exact Aw|]. split; [intros X; destruct (awaiting_not_idle _ Aw X)|exact (F6 H)].
  - destruct (idle_step s e Rn L7 NS) as (_ & _ & _ & _ & _ & F6 & _). destruct (F6 H) as [A B]. auto.
  - destruct (dead_step s e Dd NS) as (_ & E & _). cbv zeta in E. rewrite E in H. destruct H.
Qed.

(** non-vacuity: in w_dec a decision is requested in round (1,0), a round entrance follows, and a second
    decision is requested at the beginning of round (1,1) *)
Definition w_dec : list event :=
  [ EvStart; EvRERespVRV (mkv 1 0 1 (vs_of 0 0 [] []) []);
    EvView (mkv 1 0 2 (vs_of 30 0 [([7], 20); ([], 10)] []) [gph 7]) None;
    EvAnswer 1 [];
    EvTimer;
    EvView (mkv 1 0 3 (vs_of 30 0 [([7], 20); ([], 10)] []) [gph 7]) (Some (1, 1));
    EvAnswer 1 [];
    EvRERespVRV (mkv 1 1 1 (vs_of 40 20 [([7], 40)] [([7], 20)]) []) ].
Example ex_decide_twice_with_entrance :
  List.length (filter is_decide (List.concat (run_events (sm0 true) w_dec))) = 2%nat /\
  List.length (filter is_ent (List.concat (run_events (sm0 true) w_dec))) = 2%nat /\
  List.length (filter is_choose (List.concat (run_events (sm0 true) ex_mono_1 ++ run_events (final_state (sm0 true) ex_mono_1) [EvTimer]))) = 1%nat.
Proof. vm_compute. repeat split; reflexivity. Qed.
