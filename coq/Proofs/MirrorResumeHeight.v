(** C10, bound on how far a restarted mirror can be AHEAD: the start-up re-evaluation
    ([recheck_view_shifts]) performs at most one commit shift, so the voting height after a
    restart is at most one above the stored voting height - hence, after a crash, at most one
    above the voting height the uninterrupted operation reaches. *)
From Coq Require Import List NArith Arith Bool Lia String.
From GV Require Import Base.Ints Gen.Math Gen.Kernel Model.Mirror
  Proofs.Thresholds Proofs.MirrorAuth Proofs.MirrorNoop Proofs.MirrorChain Proofs.MirrorCert
  Proofs.MirrorTotal Proofs.MirrorRestart Proofs.MirrorLog
  Proofs.MirrorResumeWit Proofs.MirrorResumeLoad Proofs.MirrorResumeInv Proofs.MirrorResumeStart
  Proofs.MirrorResumeAhead Proofs.MirrorResumeOps Proofs.MirrorResumeOps2 Proofs.MirrorResumeOps3 Proofs.MirrorResumeOps4
  Proofs.MirrorResumeOps5 Proofs.MirrorResumeAhead2 Proofs.MirrorResume.
Import ListNotations.
Local Open Scope N_scope.

Lemma increment_height ih ivs s : cinv ih ivs s ->
  v_h (k_vot (update_observers (increment_voting_round s))) = v_h (k_vot s).
Proof. intros (_&_&_&Hnh&_). unfold update_observers, increment_voting_round. cbn. exact Hnh. Qed.

Lemma check_voting_height ih ivs s s' : cinv ih ivs s -> check_voting_precommit_shift s = Ok s' ->
  v_h (k_vot s') <= v_h (k_vot s) + 1.
Proof.
  intros Hc. unfold check_voting_precommit_shift, bind.
  destruct (byz_majority _) as [maj|]; [|discriminate].
  assert (Hadv : v_h (k_vot (advance_voting_round s)) <= v_h (k_vot s) + 1).
  { pose proof (increment_height ih ivs (ev_w s (EvNil (k_vot s))) Hc) as E.
    change (v_h (k_vot (advance_voting_round s)) = v_h (k_vot s)) in E. lia. }
  destruct (_ <? maj).
  - destruct (_ =? _); intros E; inversion E; subst; [exact Hadv|lia].
  - destruct (sm_mpc _); [intros E; inversion E; subst; exact Hadv|].
    destruct (find _ _); intros E; inversion E; subst; [|lia].
    unfold shift_voting_to_committing, update_observers. cbn. unfold wrap64.
    apply N.mod_le. unfold two64. lia.
Qed.

Lemma jump_height ih ivs s : cinv ih ivs s -> v_h (k_vot (jump_voting_round s)) = v_h (k_vot s).
Proof. intros Hc. exact (increment_height ih ivs s Hc). Qed.

Lemma check_next_round_height ih ivs s s' : cinv ih ivs s -> check_next_round_precommit_shift s = Ok s' ->
  v_h (k_vot s') <= v_h (k_vot s) + 1.
Proof.
  intros Hc. unfold check_next_round_precommit_shift, bind.
  destruct (byz_minority _) as [mn|]; [|discriminate].
  destruct (_ <? mn); [intros E; inversion E; subst; lia|].
  destruct (byz_majority _) as [maj|]; [|discriminate].
  pose proof (jump_height ih ivs s Hc) as Ej.
  destruct (maj <=? _).
  - intros E. pose proof (check_voting_height ih ivs _ _ (cinv_jump ih ivs s Hc) E). lia.
  - intros E; inversion E; subst. lia.
Qed.

Lemma check_prevote_height ih ivs s s' : cinv ih ivs s -> check_prevote_shift s = Ok s' ->
  v_h (k_vot s') <= v_h (k_vot s) + 1.
Proof.
  intros Hc. unfold check_prevote_shift, bind.
  destruct (byz_minority _) as [mn|]; [|discriminate].
  destruct (_ <? mn); intros E; inversion E; subst; [lia|]. rewrite (jump_height ih ivs s Hc). lia.
Qed.

Lemma recheck_height ih ivs s s' : cinv ih ivs s -> recheck_view_shifts s = Ok s' ->
  v_h (k_vot s') <= v_h (k_vot s) + 1.
Proof.
  intros Hc. unfold recheck_view_shifts, bind.
  destruct (check_voting_precommit_shift s) as [s1|] eqn:E1; [|discriminate].
  pose proof (check_voting_height ih ivs s s1 Hc E1) as H1.
  destruct (cinv_check_voting ih ivs s s1 Hc E1) as [Hc1 _].
  destruct ((v_h (k_vot s1) =? v_h (k_vot s)) && (v_r (k_vot s1) =? v_r (k_vot s))) eqn:T1; cbn [negb];
    [|intros E; inversion E; subst; exact H1].
  apply andb_true_iff in T1 as [T1 _]. apply N.eqb_eq in T1.
  destruct (check_next_round_precommit_shift s1) as [s2|] eqn:E2; [|discriminate].
  pose proof (check_next_round_height ih ivs s1 s2 Hc1 E2) as H2.
  destruct (cinv_check_next_round ih ivs s1 s2 Hc1 E2) as [Hc2 _].
  destruct ((v_h (k_vot s2) =? v_h (k_vot s)) && (v_r (k_vot s2) =? v_r (k_vot s))) eqn:T2; cbn [negb];
    [|intros E; inversion E; subst; lia].
  apply andb_true_iff in T2 as [T2 _]. apply N.eqb_eq in T2.
  intros E3. pose proof (check_prevote_height ih ivs s2 s' Hc2 E3). lia.
Qed.

(** on stores satisfying [SI]: the restarted mirror votes at most one height above the stored one *)
Theorem restart_height_bound ih ivs st vals log s' :
  1 <= ih -> vwf ivs -> SI ih ivs st -> restart ih ivs st vals log = Ok s' ->
  n_vh (sr_nhr st) <= v_h (k_vot s') /\ v_h (k_vot s') <= n_vh (sr_nhr st) + 1.
Proof.
  intros Hih Hivs HSI Hr.
  destruct (restart_K ih ivs st vals log Hih Hivs HSI) as (s0&s1&Er&Ec&Es&_&_&K0&T0&A1&K2&T2&P).
  rewrite Hr in Er. inversion Er; subst s'.
  pose proof (proj1 (proj1 K0)) as Hc0.
  pose proof (recheck_height ih ivs s0 s1 Hc0 Ec) as Hup.
  pose proof (cinv_nhr _ _ _ Hc0) as Hn0.
  assert (Evh : n_vh (sr_nhr st) = v_h (k_vot s0)).
  { rewrite <- Es. unfold stores_of. cbn [sr_nhr]. rewrite Hn0. reflexivity. }
  rewrite Evh. change (v_h (k_vot (update_observers s1))) with (v_h (k_vot s1)).
  split; [exact (proj1 (proj2 A1))|exact Hup].
Qed.

(** after a crash at ANY point: at most one height above what the uninterrupted operation reaches *)
Theorem crash_height_bound ih ivs s o k s1 r s' :
  1 <= ih -> vwf ivs -> reachable_g ih ivs s ->
  step s o = Ok (s1, r) -> wf_op o r ->
  xstep s (XCrash k o) = Ok (s', r) ->
  v_h (k_vot s) <= v_h (k_vot s') /\ v_h (k_vot s') <= v_h (k_vot s1) + 1.
Proof.
  intros Hih Hivs Hr Hs Hw Hx.
  destruct (crash_stores_between ih ivs s o k s1 r Hih Hivs Hr Hs Hw) as (stc&Q1&Q2&Q3&_&Eq).
  destruct (reachable_g_K ih ivs s Hih Hivs Hr) as [HK HT].
  destruct (K_step _ _ _ _ _ _ HK HT Hw Hs) as (K1&_&_).
  pose proof (proj1 (proj1 HK)) as Hc. pose proof (proj1 (proj1 K1)) as Hc1.
  pose proof Hc as (Hi1&Hi2&_).
  cbn [xstep] in Hx. rewrite Hs in Hx. cbn [bind fst snd] in Hx. fold (crash_stores s s1 k) in Hx.
  rewrite Hi1, Hi2, Eq in Hx.
  destruct (restart ih ivs stc (st_vals s) _) as [s2|] eqn:Er; cbn [bind] in Hx; [|discriminate].
  inversion Hx; subst s2.
  destruct (restart_height_bound ih ivs _ _ _ _ Hih Hivs Q1 Er) as [B1 B2].
  destruct Q2 as (_&L1&_). destruct Q3 as (_&L2&_).
  assert (E0 : n_vh (sr_nhr (stores_of s)) = v_h (k_vot s))
    by (unfold stores_of; cbn [sr_nhr]; rewrite (cinv_nhr _ _ _ Hc); reflexivity).
  assert (E1 : n_vh (sr_nhr (stores_of s1)) = v_h (k_vot s1))
    by (unfold stores_of; cbn [sr_nhr]; rewrite (cinv_nhr _ _ _ Hc1); reflexivity).
  rewrite E0 in L1. rewrite E1 in L2. split; lia.
Qed.
