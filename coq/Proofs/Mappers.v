(** C09 (i): the four feedback-mapper tables generated from tm/tmconsensus/feedbackmapper.go are total on the
    generated result enumerations and implement the documented classes.  Finite domains: every statement is a
    [forallb ... = true] closed by [vm_compute] and lifted with [forallb_forall]. *)
From Coq Require Import List NArith Bool String Lia.
From GV Require Import Base.Ints Gen.Mappers Monitors.C09m.
Import ListNotations.
Local Open Scope N_scope.

Definition fb_name (fb : N) : string :=
  match find (fun p => N.eqb (fst p) fb) names_Feedback with Some p => snd p | None => "?"%string end.

(** observation of a model call, in the vocabulary of the monitor *)
Definition model_obs (r : res N) : option string :=
  match r with Ok fb => Some (fb_name fb) | Panic _ => None end.

Definition legal_fb : list N := [FeedbackAccepted; FeedbackRejected; FeedbackIgnored].
Definition memN (x : N) (l : list N) : bool := existsb (N.eqb x) l.

Lemma memN_In : forall x l, memN x l = true <-> In x l.
Proof.
  intros x l. unfold memN. rewrite existsb_exists. split.
  - intros [y [Hy He]]. apply N.eqb_eq in He. subst. exact Hy.
  - intros H. exists x. split; [exact H | apply N.eqb_refl].
Qed.

Definition ok_legal (r : res N) : bool :=
  match r with Ok fb => memN fb legal_fb | Panic _ => false end.

Lemma ok_legal_spec : forall r, ok_legal r = true -> exists fb, r = Ok fb /\ In fb legal_fb.
Proof.
  intros [fb|s] H; cbn in H; [| discriminate].
  exists fb. split; [reflexivity | apply memN_In; exact H].
Qed.

(** ** Totality on the generated enumerations *)
Lemma total_on (f : N -> res N) (dom : list N) :
  forallb (fun r => ok_legal (f r)) dom = true ->
  forall r, In r dom -> exists fb, f r = Ok fb /\ In fb legal_fb.
Proof.
  intros H r Hr. rewrite forallb_forall in H. apply ok_legal_spec. apply H. exact Hr.
Qed.

Lemma aav_ph_total : forall r, In r all_HandleProposedHeaderResult -> exists fb, aav_map_ph r = Ok fb /\ In fb legal_fb.
Proof. apply total_on. vm_compute. reflexivity. Qed.
Lemma dd_ph_total : forall r, In r all_HandleProposedHeaderResult -> exists fb, dd_map_ph r = Ok fb /\ In fb legal_fb.
Proof. apply total_on. vm_compute. reflexivity. Qed.
Lemma aav_vote_total : forall r, In r all_HandleVoteProofsResult -> exists fb, aav_map_vote r = Ok fb /\ In fb legal_fb.
Proof. apply total_on. vm_compute. reflexivity. Qed.
Lemma dd_vote_total : forall r, In r all_HandleVoteProofsResult -> exists fb, dd_map_vote r = Ok fb /\ In fb legal_fb.
Proof. apply total_on. vm_compute. reflexivity. Qed.

Lemma mappers_total :
  (forall r, In r all_HandleProposedHeaderResult ->
     (exists fb, aav_map_ph r = Ok fb /\ In fb legal_fb) /\ (exists fb, dd_map_ph r = Ok fb /\ In fb legal_fb)) /\
  (forall r, In r all_HandleVoteProofsResult ->
     (exists fb, aav_map_vote r = Ok fb /\ In fb legal_fb) /\ (exists fb, dd_map_vote r = Ok fb /\ In fb legal_fb)).
Proof.
  split; intros r Hr; split;
    [apply aav_ph_total | apply dd_ph_total | apply aav_vote_total | apply dd_vote_total]; exact Hr.
Qed.

(** ** The tables implement the documented classes (model outputs satisfy the monitor) *)
Definition ph_rows_ok (m : mapper) (f : N -> res N) : bool :=
  forallb (fun p => ph_mon m (snd p) (model_obs (f (fst p)))) names_HandleProposedHeaderResult.
Definition vote_rows_ok (m : mapper) (f : N -> res N) : bool :=
  forallb (fun p => vote_mon m (snd p) (model_obs (f (fst p)))) names_HandleVoteProofsResult.

Lemma model_satisfies_mapper_monitor :
  (forall r name, In (r, name) names_HandleProposedHeaderResult ->
     ph_mon AAV name (model_obs (aav_map_ph r)) = true /\ ph_mon DD name (model_obs (dd_map_ph r)) = true) /\
  (forall r name, In (r, name) names_HandleVoteProofsResult ->
     vote_mon AAV name (model_obs (aav_map_vote r)) = true /\ vote_mon DD name (model_obs (dd_map_vote r)) = true).
Proof.
  assert (A : ph_rows_ok AAV aav_map_ph = true) by (vm_compute; reflexivity).
  assert (B : ph_rows_ok DD dd_map_ph = true) by (vm_compute; reflexivity).
  assert (C : vote_rows_ok AAV aav_map_vote = true) by (vm_compute; reflexivity).
  assert (D : vote_rows_ok DD dd_map_vote = true) by (vm_compute; reflexivity).
  unfold ph_rows_ok, vote_rows_ok in *. rewrite forallb_forall in A, B, C, D.
  split; intros r name H; split.
  - exact (A _ H).
  - exact (B _ H).
  - exact (C _ H).
  - exact (D _ H).
Qed.

(** every generated result name is classified by the monitor (no [Unclassified] escape hatch is in use) *)
Lemma every_result_classified :
  (forall r name, In (r, name) names_HandleProposedHeaderResult -> ph_class name <> Unclassified) /\
  (forall r name, In (r, name) names_HandleVoteProofsResult -> vote_class name <> Unclassified).
Proof.
  assert (A : forallb (fun p => match ph_class (snd p) with Unclassified => false | _ => true end)
                names_HandleProposedHeaderResult = true) by (vm_compute; reflexivity).
  assert (B : forallb (fun p => match vote_class (snd p) with Unclassified => false | _ => true end)
                names_HandleVoteProofsResult = true) by (vm_compute; reflexivity).
  rewrite forallb_forall in A, B.
  split; intros r name H E; [specialize (A _ H) | specialize (B _ H)]; cbn [snd] in *; rewrite E in *; discriminate.
Qed.

(** the monitor implies what the property asks of a mapper call: no panic, a legal p2p feedback value *)
Lemma mapper_monitor_sound : forall m c obs, mapper_mon m c obs = true ->
  exists f, obs = Some f /\ legal_feedback f = true.
Proof.
  intros m c [f|] H; cbn in H; [| discriminate].
  apply andb_true_iff in H. destruct H as [H _]. exists f. split; [reflexivity | exact H].
Qed.

(** ** Exactness of the domain: outside the enumeration (uint8 values the engine never returns) the default arm
    still panics -- the totality theorem is about exactly the generated lists. *)
Definition bytes256 : list N := map N.of_nat (seq 0 256).
Lemma bytes256_spec : forall r, r < 256 -> In r bytes256.
Proof.
  intros r H. unfold bytes256. apply in_map_iff. exists (N.to_nat r). split; [lia |].
  apply in_seq. lia.
Qed.

Lemma outside_enumeration_panics : forall r, r < 256 ->
  (~ In r all_HandleProposedHeaderResult -> is_ok (aav_map_ph r) = false /\ is_ok (dd_map_ph r) = false) /\
  (~ In r all_HandleVoteProofsResult -> is_ok (aav_map_vote r) = false /\ is_ok (dd_map_vote r) = false).
Proof.
  intros r Hr.
  assert (A : forallb (fun r => memN r all_HandleProposedHeaderResult ||
                                (negb (is_ok (aav_map_ph r)) && negb (is_ok (dd_map_ph r)))) bytes256 = true)
    by (vm_compute; reflexivity).
  assert (B : forallb (fun r => memN r all_HandleVoteProofsResult ||
                                (negb (is_ok (aav_map_vote r)) && negb (is_ok (dd_map_vote r)))) bytes256 = true)
    by (vm_compute; reflexivity).
  rewrite forallb_forall in A, B.
  specialize (A r (bytes256_spec r Hr)). specialize (B r (bytes256_spec r Hr)).
  split; intros Hn.
  - apply orb_true_iff in A. destruct A as [A|A]; [apply memN_In in A; contradiction |].
    apply andb_true_iff in A. destruct A as [A1 A2]. apply negb_true_iff in A1, A2. split; assumption.
  - apply orb_true_iff in B. destruct B as [B|B]; [apply memN_In in B; contradiction |].
    apply andb_true_iff in B. destruct B as [B1 B2]. apply negb_true_iff in B1, B2. split; assumption.
Qed.

Example mappers_nonvacuous :
  In HandleVoteProofsFutureVerified all_HandleVoteProofsResult /\
  aav_map_vote HandleVoteProofsFutureVerified = Ok FeedbackAccepted /\
  dd_map_ph HandleProposedHeaderAlreadyStored = Ok FeedbackIgnored.
Proof. vm_compute. intuition. Qed.
