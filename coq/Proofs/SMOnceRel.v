(** Rounds and channel generations through every handler of the round state machine model.
    [rr m]: falling through, [m] stays in its round (height, round) and does not lower the channel
    generation; ending suspended, it has announced a round entrance as its LAST output, for the round the
    machine is then in, the channel generation has grown, and - unless the height / round counter wraps -
    the round entered is lexicographically greater than the round left.
    (The only computation that suspends without this is [start_up], which begins a process lifetime.) *)
From Coq Require Import List NArith String Bool Lia.
From GV Require Import Base.Ints Gen.Math Gen.StepSM Model.StateMachine Model.SMWire Proofs.SMStep Proofs.SMOutputs
  Proofs.SMInv Proofs.SMInvH Proofs.SMRel Proofs.SMTheorems Proofs.SMOnce.
Import ListNotations.
Local Open Scope N_scope.

Definition cur (s : sm) : N * N := (rH (rl s), rR (rl s)).
(** the no-wrap guard: neither counter is at its last value *)
Definition nowrap (s : sm) : Prop := rH (rl s) < two64 - 1 /\ rR (rl s) < two32 - 1.
Definition ent_last (o : list out) (s' : sm) : Prop :=
  exists o' pk act, o = o' ++ [ORoundEntrance (rH (rl s')) (rR (rl s')) pk act].

Definition RRv (s : sm) (r : sm * list out * flow) : Prop :=
  match fl r with
  | Go => cur (st r) = cur s /\ gen s <= gen (st r)
  | Susp => gen s < gen (st r) /\ ent_last (ou r) (st r) /\ (nowrap s -> hr_lt (cur s) (cur (st r)))
  | _ => True
  end.
Definition RRm (m : M) (s : sm) : Prop := RRv s (m s).
Definition rr (m : M) : Prop := forall s, RRm m s.

Lemma nowrap_cur s s' : cur s' = cur s -> nowrap s -> nowrap s'.
Proof. unfold cur, nowrap. intros E. inversion E as [[E1 E2]]. rewrite E1, E2. auto. Qed.

Lemma RRm_bind a b s : RRm a s -> (fl (a s) = Go -> RRm b (st (a s))) -> RRm (a ;; b) s.
Proof.
  unfold RRm, RRv, bindM, st, fl, ou. intros Ha Hb.
  destruct (a s) as [[s1 o1] f1]. simpl in *.
  destruct f1; simpl; try exact Ha.
  specialize (Hb eq_refl). destruct (b s1) as [[s2 o2] f2]. simpl in *.
  destruct Ha as [A1 A2].
  destruct f2; simpl; try exact I.
  - destruct Hb as [B1 B2]. split; [congruence|lia].
  - destruct Hb as (B1 & (o' & pk & act & B2) & B3). split; [lia|split].
    + exists (o1 ++ o'), pk, act. rewrite B2. rewrite app_assoc. reflexivity.
    + intros W. rewrite <- A1. apply B3. apply (nowrap_cur s); [exact A1|exact W].
Qed.

Lemma rr_bind a b : rr a -> rr b -> rr (a ;; b).
Proof. intros Ha Hb s. apply RRm_bind; [apply Ha|intros _; apply Hb]. Qed.

Lemma rr_ret : rr ret.
Proof. intros s. unfold RRm, RRv, ret, st, fl. simpl. split; [reflexivity|lia]. Qed.
Lemma rr_stop f : f <> Susp -> rr (stop f).
Proof. intros H s. unfold RRm, RRv, stop, fl, st. simpl. destruct f; try exact I; [split; [reflexivity|lia]|congruence]. Qed.
Lemma rr_say o : rr (say o).
Proof. intros s. unfold RRm, RRv, say, st, fl. simpl. split; [reflexivity|lia]. Qed.
Lemma rr_upd f : (forall s, cur (f s) = cur s /\ gen (f s) = gen s) -> rr (upd f).
Proof. intros H s. unfold RRm, RRv, upd, fl, st. simpl. destruct (H s) as [A B]. split; [exact A|lia]. Qed.
Lemma rr_updr f : (forall l, rH (f l) = rH l /\ rR (f l) = rR l) -> rr (updr f).
Proof.
  intros H s. unfold RRm, RRv, updr, fl, st, cur. simpl. destruct (H (rl s)) as [A B]. rewrite A, B. split; [reflexivity|lia].
Qed.
Lemma rr_withS (k : sm -> M) : (forall s0, rr (k s0)) -> rr (withS k).
Proof. intros H s. unfold RRm, withS. apply H. Qed.
Lemma rr_when b m : rr m -> rr (when b m).
Proof. intros H. destruct b; simpl; [exact H|apply rr_ret]. Qed.

(** the two advance functions, by evaluation *)
Lemma rr_advance_round : rr advance_round.
Proof.
  intros s. unfold RRm, RRv, advance_round, withS, reset, cancel_timer, set_hr, send_entrance, withS, bindM, say, upd, updr, stop, ret, st, fl, ou.
  destruct (rTimer (rl s)) as [[[k h] r]|]; simpl; (split; [lia|split]).
  - eexists [_; _], _, _. reflexivity.
  - intros [_ W]. right. simpl. split; [reflexivity|]. unfold wrap32, two32 in *. rewrite N.mod_small; lia.
  - eexists [_], _, _. reflexivity.
  - intros [_ W]. right. simpl. split; [reflexivity|]. unfold wrap32, two32 in *. rewrite N.mod_small; lia.
Qed.

Lemma rr_advance_height : rr advance_height.
Proof.
  intros s. unfold RRm, RRv, advance_height, withS, reset, cancel_timer, set_hr, send_entrance, withS, bindM, say, upd, updr, stop, ret, st, fl, ou.
  simpl. destruct (rTimer (rl s)) as [[[k h] r]|]; simpl; (split; [lia|split]).
  - eexists [_; _], _, _. reflexivity.
  - intros [W _]. left. simpl. unfold wrap64, two64 in *. rewrite N.mod_small; lia.
  - eexists [_], _, _. reflexivity.
  - intros [W _]. left. simpl. unfold wrap64, two64 in *. rewrite N.mod_small; lia.
Qed.

(** Reset for the round the machine is already in (start-up) *)
Lemma RRm_reset_same s : RRm (reset (rH (rl s)) (rR (rl s))) s.
Proof.
  unfold RRm, RRv, reset, cancel_timer, withS, bindM, say, upd, updr, ret, st, fl, ou, cur.
  destruct (rTimer (rl s)) as [[[k h] r]|]; simpl; (split; [reflexivity|lia]).
Qed.

Lemma rr_cm_request k ro o : rr (cm_request k ro o).
Proof.
  unfold cm_request. apply rr_withS. intros s0. destruct (cm s0); [apply rr_stop; discriminate|].
  apply rr_bind; [apply rr_upd; intros; split; reflexivity|apply rr_say].
Qed.

Ltac rr_step :=
  lazymatch goal with
  | |- rr ret => apply rr_ret
  | |- rr (stop _) => apply rr_stop; discriminate
  | |- rr (say _) => apply rr_say
  | |- rr (upd _) => apply rr_upd; intros; split; reflexivity
  | |- rr (updr _) => apply rr_updr; intros; split; reflexivity
  | |- rr (bindM _ _) => apply rr_bind
  | |- rr (when _ _) => apply rr_when
  | |- rr (withS _) => apply rr_withS; let s0 := fresh "s0" in intros s0
  | |- rr advance_round => apply rr_advance_round
  | |- rr advance_height => apply rr_advance_height
  | |- rr (cm_request _ _ _) => apply rr_cm_request
  | |- rr (if ?c then _ else _) => destruct c
  | |- rr (match ?x with _ => _ end) => destruct x
  end.
Ltac rrs := repeat (rr_step; cbv beta zeta).
Ltac unf_r := unfold handle_view_update, handle_proposal_view, handle_timer_elapsed, record_prevote, record_precommit,
  record_proposed_header, advance_after_vrv, advance_after_ch, enter_round, begin_round_live,
  view_tail, handle_precommit_view, handle_prevote_view, handle_commit_wait_view, handle_jump_ahead,
  handle_block_data, handle_finalization, handle_height_committed, vrv_or_panic, thresholds,
  begin_commit, cancel_timer, start_timer, finalize_req, req_decide, req_choose, req_consider, emit.

Lemma rr_view_tail v ja : rr (view_tail v ja).
Proof. unf_r. rrs. Qed.

Lemma rr_suspend m v ja : rr m -> rr (suspend_with_tail m v ja).
Proof.
  intros Hm s. pose proof (Hm s) as Ha. unfold RRm, RRv, suspend_with_tail, st, fl, ou in *.
  destruct (m s) as [[s1 o1] f1]. simpl in *.
  destruct f1; simpl; try exact Ha; try exact I.
  pose proof (rr_view_tail v ja s1) as Hb. unfold RRm, RRv, st, fl, ou in Hb.
  destruct (view_tail v ja s1) as [[s2 o2] f2]. simpl in *.
  destruct Ha as [A1 A2].
  destruct f2; simpl; try exact I.
  - destruct Hb as [B1 B2]. split; [congruence|lia].
  - destruct Hb as (B1 & (o' & pk & act & B2) & B3). split; [lia|split].
    + exists (o1 ++ o'), pk, act. rewrite B2. rewrite app_assoc. reflexivity.
    + intros W. rewrite <- A1. apply B3. apply (nowrap_cur s); [exact A1|exact W].
Qed.

Lemma rr_handle_view_update v ja : rr (handle_view_update v ja).
Proof.
  unfold handle_view_update. rrs; try (unf_r; rrs; fail). cbv zeta. apply rr_suspend. unf_r. rrs.
Qed.
Lemma rr_handle_timer_elapsed : rr handle_timer_elapsed.
Proof. unf_r. rrs. Qed.
Lemma rr_handle_height_committed : rr handle_height_committed.
Proof. unf_r. rrs. Qed.
Lemma rr_handle_finalization h r bh vs ash : rr (handle_finalization h r bh vs ash).
Proof. unf_r. rrs. Qed.
Lemma rr_handle_block_data h r d : rr (handle_block_data h r d).
Proof. unf_r. rrs. Qed.
Lemma rr_record_prevote t : rr (record_prevote t ;; updr (set_rPvCh false)).
Proof. unf_r. rrs. Qed.
Lemma rr_record_precommit t : rr (record_precommit t ;; updr (set_rPcCh false)).
Proof. unf_r. rrs. Qed.
Lemma rr_record_proposed_header d : rr (record_proposed_header d ;; updr (set_rPropCh false) ;; upd (set_propOut 2)).
Proof. unf_r. rrs. Qed.
Lemma rr_begin_round_live v : rr (begin_round_live v).
Proof. unf_r. rrs. Qed.
Lemma rr_advance_after_vrv v : rr (advance_after_vrv v).
Proof. unf_r. rrs. Qed.
Lemma rr_advance_after_ch bh h pr : rr (advance_after_ch bh h pr).
Proof. unf_r. rrs. Qed.

Lemma RRm_withS (k : sm -> M) s : RRm (k s) s -> RRm (withS k) s.
Proof. intros H. exact H. Qed.

Lemma rr_init_after_vrv v : rr (init_after_vrv v).
Proof.
  intros s. unfold init_after_vrv. apply RRm_withS. cbv zeta.
  apply RRm_bind; [apply RRm_reset_same|intros _].
  match goal with |- RRm ?m _ => assert (X : rr m); [|apply X] end.
  unf_r. rrs.
Qed.

Lemma rr_init_after_ch bh h pr : rr (init_after_ch bh h pr).
Proof.
  intros s. unfold init_after_ch. apply RRm_withS.
  apply RRm_bind; [apply RRm_reset_same|intros _].
  match goal with |- RRm ?m _ => assert (X : rr m); [|apply X] end.
  unf_r. rrs.
Qed.

Lemma rr_resume m tail : rr m -> forall s, RRv (set_run Idle s) (resume_adv m tail s).
Proof.
  intros Hm s. pose proof (Hm (set_run Idle s)) as Ha. unfold RRm, RRv, resume_adv, st, fl, ou in *.
  destruct (m (set_run Idle s)) as [[s1 o1] f1]. simpl in *.
  destruct f1; simpl; try exact Ha; try exact I.
  destruct tail as [[v ja]|]; [|exact Ha].
  pose proof (rr_view_tail v ja s1) as Hb. unfold RRm, RRv, st, fl, ou in Hb.
  destruct (view_tail v ja s1) as [[s2 o2] f2]. simpl in *.
  destruct Ha as [A1 A2].
  destruct f2; simpl; try exact I.
  - destruct Hb as [B1 B2]. split; [congruence|lia].
  - destruct Hb as (B1 & (o' & pk & act & B2) & B3). split; [lia|split].
    + exists (o1 ++ o'), pk, act. rewrite B2. rewrite app_assoc. reflexivity.
    + intros W. change (cur (set_run Idle s)) with (cur s) in *. rewrite <- A1. apply B3.
      apply (nowrap_cur (set_run Idle s)); [exact A1|exact W].
Qed.

(** start-up: suspended with the entrance as only output (or halted), generation and step untouched *)
Lemma start_up_shape s :
  (fl (start_up s) = Susp /\ ent_last (ou (start_up s)) (st (start_up s)) /\ List.length (ou (start_up s)) = 1%nat \/
   fl (start_up s) = FHalt /\ ou (start_up s) = []) /\
  gen (st (start_up s)) = gen s /\ rS (rl (st (start_up s))) = rS (rl s) /\ cm (st (start_up s)) = cm s.
Proof.
  unfold start_up, withS.
  destruct (sStore s) as [h0 r0].
  destruct (if h0 =? 0 then (initial_height, 0) else (h0, r0)) as [h1 r1].
  destruct (match fstore_get (fStore s) h1 with Some _ => (wrap64 (h1 + 1), 0) | None => (h1, r1) end) as [h r].
  match goal with |- context [match ?x with Some _ => _ | None => stop FHalt end] => destruct x as [[cu prev]|] end.
  - unfold bindM, updr, send_entrance, withS, bindM, say, upd, stop, st, fl, ou. simpl.
    split; [left; split; [reflexivity|split; [|reflexivity]]|auto].
    eexists [], _, _. reflexivity.
  - simpl. unfold st, fl, ou. simpl. auto.
Qed.

(** ** Round entrances per computation: exactly one if it ends suspended, none otherwise *)
Definition ents (o : list out) : nat := List.length (filter is_ent o).
Lemma ents_app a b : ents (a ++ b) = (ents a + ents b)%nat.
Proof. unfold ents. rewrite filter_app, app_length. reflexivity. Qed.

Definition ec (m : M) : Prop :=
  forall s, ents (ou (m s)) = match fl (m s) with Susp => 1%nat | _ => 0%nat end.

Lemma ec_ret : ec ret. Proof. intros s. reflexivity. Qed.
Lemma ec_stop f : f <> Susp -> ec (stop f).
Proof. intros H s. unfold stop, fl, ou. simpl. destruct f; try reflexivity. congruence. Qed.
Lemma ec_say o : is_ent o = false -> ec (say o).
Proof. intros H s. unfold say, ents, fl, ou. simpl. rewrite H. reflexivity. Qed.
Lemma ec_upd f : ec (upd f). Proof. intros s. reflexivity. Qed.
Lemma ec_updr f : ec (updr f). Proof. intros s. reflexivity. Qed.
Lemma ec_bind a b : ec a -> ec b -> ec (a ;; b).
Proof.
  intros Ha Hb s. unfold ec, bindM, fl, ou in *. specialize (Ha s). destruct (a s) as [[s1 o1] f1]. simpl in *.
  destruct f1; simpl; try exact Ha.
  specialize (Hb s1). destruct (b s1) as [[s2 o2] f2]. simpl in *. rewrite ents_app, Ha, Hb. reflexivity.
Qed.
Lemma ec_withS (k : sm -> M) : (forall s0, ec (k s0)) -> ec (withS k).
Proof. intros H s. unfold withS. apply H. Qed.
Lemma ec_when b m : ec m -> ec (when b m).
Proof. intros H. destruct b; simpl; [exact H|apply ec_ret]. Qed.
Lemma ec_send_entrance : ec send_entrance.
Proof. intros s. reflexivity. Qed.
Lemma ec_cm_request k ro o : is_ent o = false -> ec (cm_request k ro o).
Proof.
  intros H. unfold cm_request. apply ec_withS. intros s0. destruct (cm s0); [apply ec_stop; discriminate|].
  apply ec_bind; [apply ec_upd|apply ec_say; exact H].
Qed.

Ltac ec_step :=
  lazymatch goal with
  | |- ec ret => apply ec_ret
  | |- ec (stop _) => apply ec_stop; discriminate
  | |- ec (say _) => apply ec_say; reflexivity
  | |- ec (upd _) => apply ec_upd
  | |- ec (updr _) => apply ec_updr
  | |- ec (bindM _ _) => apply ec_bind
  | |- ec (when _ _) => apply ec_when
  | |- ec (withS _) => apply ec_withS; let s0 := fresh "s0" in intros s0
  | |- ec send_entrance => apply ec_send_entrance
  | |- ec (cm_request _ _ _) => apply ec_cm_request; reflexivity
  | |- ec (if ?c then _ else _) => destruct c
  | |- ec (match ?x with _ => _ end) => destruct x
  end.
Ltac ecs := repeat (ec_step; cbv beta zeta).
Ltac unf_e := unfold init_after_vrv, init_after_ch; unf_r; unfold advance_round, advance_height, reset, set_hr, cancel_timer.

Lemma ec_view_tail v ja : ec (view_tail v ja).
Proof. unf_e. ecs. Qed.
Lemma ec_suspend m v ja : ec m -> ec (suspend_with_tail m v ja).
Proof.
  intros Ha s. unfold ec, suspend_with_tail, fl, ou in *. specialize (Ha s). destruct (m s) as [[s1 o1] f1]. simpl in *.
  destruct f1; simpl; try exact Ha.
  pose proof (ec_view_tail v ja s1) as Hb. unfold fl, ou in Hb.
  destruct (view_tail v ja s1) as [[s2 o2] f2]. simpl in *. rewrite ents_app, Ha, Hb. reflexivity.
Qed.
Lemma ec_handle_view_update v ja : ec (handle_view_update v ja).
Proof.
  unfold handle_view_update. ecs; try (unf_e; ecs; fail). apply ec_suspend. unf_e. ecs.
Qed.
Lemma ec_handle_timer_elapsed : ec handle_timer_elapsed.
Proof. unf_e. ecs. Qed.
Lemma ec_handle_height_committed : ec handle_height_committed.
Proof. unf_e. ecs. Qed.
Lemma ec_handle_finalization h r bh vs ash : ec (handle_finalization h r bh vs ash).
Proof. unf_e. ecs. Qed.
Lemma ec_handle_block_data h r d : ec (handle_block_data h r d).
Proof. unf_e. ecs. Qed.
Lemma ec_record_prevote t : ec (record_prevote t ;; updr (set_rPvCh false)).
Proof. unf_e. ecs. Qed.
Lemma ec_record_precommit t : ec (record_precommit t ;; updr (set_rPcCh false)).
Proof. unf_e. ecs. Qed.
Lemma ec_record_proposed_header d : ec (record_proposed_header d ;; updr (set_rPropCh false) ;; upd (set_propOut 2)).
Proof. unf_e. ecs. Qed.
Lemma ec_init_after_vrv v : ec (init_after_vrv v).
Proof. unf_e. ecs. Qed.
Lemma ec_init_after_ch bh h pr : ec (init_after_ch bh h pr).
Proof. unf_e. ecs. Qed.
Lemma ec_advance_after_vrv v : ec (advance_after_vrv v).
Proof. unf_e. ecs. Qed.
Lemma ec_advance_after_ch bh h pr : ec (advance_after_ch bh h pr).
Proof. unf_e. ecs. Qed.
Lemma ec_resume m tail : ec m -> forall s,
  ents (ou (resume_adv m tail s)) = match fl (resume_adv m tail s) with Susp => 1%nat | _ => 0%nat end.
Proof.
  intros Hm s. pose proof (Hm (set_run Idle s)) as Ha. unfold ec, resume_adv, fl, ou in *.
  destruct (m (set_run Idle s)) as [[s1 o1] f1]. simpl in *.
  destruct f1; simpl; try exact Ha.
  destruct tail as [[v ja]|]; [|exact Ha].
  pose proof (ec_view_tail v ja s1) as Hb. unfold fl, ou in Hb.
  destruct (view_tail v ja s1) as [[s2 o2] f2]. simpl in *. rewrite ents_app, Ha, Hb. reflexivity.
Qed.
