(** Third pass of the handler logic of the round state machine model (after Proofs/SMInvH.v and
    Proofs/SMRel.v): the STEP of the round lifecycle.

    [tg P m G]: started in a state satisfying [P], IF the computation [m] falls through ([Go]) the state
    satisfies [G] (nothing is claimed of a suspended / halted / panicked / blocked run: a suspended run
    has announced a new round, the others end the process lifetime).
    Pass A ([A_...]): with the step the handler was dispatched for as precondition, the step does not
    decrease. Pass B ([B_...]): started with no call held by the consensus manager, a held precommit
    decision request leaves the step >= AwaitingPrecommits, a held prevote choice request leaves it
    >= AwaitingPrevotes (the two sites that ask first and set the step afterwards are treated as units:
    the intermediate assertion is "the request is held", the step is set by the next primitive).
    [noreq k m]: [m] never asks the strategy for [k] (on any path, whatever its end).
    [le7 m]: the step stays a valid step constant. *)
From Coq Require Import List NArith String Bool Lia.
From GV Require Import Base.Ints Gen.Math Gen.StepSM Model.StateMachine Proofs.SMInv Proofs.SMInvH Proofs.SMRel.
Import ListNotations.
Local Open Scope N_scope.

Ltac steps := unfold StepAwaitingProposal, StepAwaitingPrevotes, StepPrevoteDelay, StepAwaitingPrecommits,
  StepPrecommitDelay, StepCommitWait, StepAwaitingFinalization, K_consider, K_choose, K_decide in *.

(** ** Go-only triples *)
Definition tg (P : sm -> Prop) (m : M) (G : sm -> Prop) : Prop :=
  forall s, P s -> fl (m s) = Go -> G (st (m s)).

Lemma tg_ret (P G : sm -> Prop) : (forall s, P s -> G s) -> tg P ret G.
Proof. intros H s Hs _. exact (H s Hs). Qed.

Lemma tg_stop P G f : f <> Go -> tg P (stop f) G.
Proof. intros A s _ E. unfold stop, fl in E. simpl in E. congruence. Qed.

Lemma tg_say (P G : sm -> Prop) o : (forall s, P s -> G s) -> tg P (say o) G.
Proof. intros H s Hs _. exact (H s Hs). Qed.

Lemma tg_upd (P G : sm -> Prop) f : (forall s, P s -> G (f s)) -> tg P (upd f) G.
Proof. intros H s Hs _. exact (H s Hs). Qed.

Lemma tg_updr (P G : sm -> Prop) f : (forall s, P s -> G (set_rl (f (rl s)) s)) -> tg P (updr f) G.
Proof. intros H s Hs _. exact (H s Hs). Qed.

Lemma tg_bind (R P G : sm -> Prop) a b : tg P a R -> tg R b G -> tg P (a ;; b) G.
Proof.
  intros Ha Hb s Hs. unfold bindM, st, fl in *. specialize (Ha s Hs).
  destruct (a s) as [[s1 o1] f1]. simpl in *.
  destruct f1; simpl; try (intros E; discriminate E).
  specialize (Ha eq_refl). specialize (Hb s1 Ha).
  destruct (b s1) as [[s2 o2] f2]. simpl in *. exact Hb.
Qed.

Lemma tg_withS (P G : sm -> Prop) (k : sm -> M) : (forall s0, P s0 -> tg (eq s0) (k s0) G) -> tg P (withS k) G.
Proof. intros H s Hs. unfold withS. exact (H s Hs s eq_refl). Qed.

Lemma tg_when (P G : sm -> Prop) b m : (b = true -> tg P m G) -> (b = false -> forall s, P s -> G s) -> tg P (when b m) G.
Proof. intros Hm Hr. destruct b; simpl; [apply Hm; reflexivity|apply tg_ret; apply Hr; reflexivity]. Qed.

Lemma tg_pre (P P' G : sm -> Prop) m : (forall s, P s -> P' s) -> tg P' m G -> tg P m G.
Proof. intros H Hm s Hs. exact (Hm s (H s Hs)). Qed.

Lemma tg_post (P G G' : sm -> Prop) m : (forall s, G s -> G' s) -> tg P m G -> tg P m G'.
Proof. intros H Hm s Hs E. exact (H _ (Hm s Hs E)). Qed.

Lemma tg_never (P G : sm -> Prop) m : never_go m -> tg P m G.
Proof. intros N s _ E. destruct (N s E). Qed.

Ltac gfrom P H0 := apply (tg_pre _ P); [intros ? <-; exact H0|].

(** computations that never fall through *)
Lemma ng_advance_round : never_go advance_round.
Proof. unfold advance_round. apply never_go_withS. intros s0. do 2 apply never_go_bind. apply never_go_send_entrance. Qed.
Lemma ng_advance_height : never_go advance_height.
Proof. unfold advance_height. apply never_go_withS. intros s0. do 3 apply never_go_bind. apply never_go_send_entrance. Qed.
Lemma ng_stop f : f <> Go -> never_go (stop f).
Proof. intros H s. unfold stop, fl. simpl. exact H. Qed.
Lemma ng_handle_jump_ahead j : never_go (handle_jump_ahead j).
Proof.
  unfold handle_jump_ahead. apply never_go_withS. intros s0. destruct j as [jh jr].
  destruct (negb _); [apply ng_stop; discriminate|].
  destruct (jr <=? _); [apply ng_stop; discriminate|apply ng_advance_round].
Qed.

Lemma tg_thresholds P G v k : (forall mn mj, tg P (k mn mj) G) -> tg P (thresholds v k) G.
Proof.
  intros H. unfold thresholds.
  destruct (byz_minority (avail v)); [|apply tg_stop; discriminate].
  destruct (byz_majority (avail v)); [|apply tg_stop; discriminate]. apply H.
Qed.

Lemma tg_vrv_or_panic P G k : (forall v, tg P (k v) G) -> tg P (vrv_or_panic k) G.
Proof.
  intros H. unfold vrv_or_panic. apply tg_withS. intros s0 H0.
  destruct (rVRV (rl s0)); [|apply tg_stop; discriminate]. gfrom P H0. apply H.
Qed.

Lemma tg_suspend (R P G : sm -> Prop) m v ja : tg P m R -> tg R (view_tail v ja) G -> tg P (suspend_with_tail m v ja) G.
Proof.
  intros Hm Ht s Hs. unfold suspend_with_tail, st, fl in *. specialize (Hm s Hs).
  destruct (m s) as [[s1 o1] f1]. simpl in *.
  destruct f1; simpl; try (intros E; discriminate E).
  specialize (Hm eq_refl). specialize (Ht s1 Hm).
  destruct (view_tail v ja s1) as [[s2 o2] f2]. simpl in *. exact Ht.
Qed.

(** ** Frames: what a computation leaves alone *)
(** [keeps c m]: [m] does not change the step (on any path); with [c = true] nor the held call *)
Definition keeps (c : bool) (m : M) : Prop :=
  forall s, rS (rl (st (m s))) = rS (rl s) /\ (c = true -> cm (st (m s)) = cm s).
(** assertions about the step only ([c = false]) / about the step and the held call ([c = true]) *)
Definition sfr (c : bool) (P : sm -> Prop) : Prop :=
  forall s s', rS (rl s') = rS (rl s) -> (c = true -> cm s' = cm s) -> P s -> P s'.

Lemma tg_keeps c P m : sfr c P -> keeps c m -> tg P m P.
Proof. intros F K s Hs _. destruct (K s) as [A B]. exact (F s _ A B Hs). Qed.

Lemma sfr_weaken P : sfr false P -> sfr true P.
Proof. intros H s s' A B. apply H; [exact A|discriminate]. Qed.
Lemma keeps_weaken m : keeps true m -> keeps false m.
Proof. intros H s. destruct (H s) as [A _]. split; [exact A|discriminate]. Qed.

Lemma keeps_ret c : keeps c ret.
Proof. intros s. split; reflexivity. Qed.
Lemma keeps_stop c f : keeps c (stop f).
Proof. intros s. split; reflexivity. Qed.
Lemma keeps_say c o : keeps c (say o).
Proof. intros s. split; reflexivity. Qed.
Lemma keeps_upd c f : (forall s, rS (rl (f s)) = rS (rl s) /\ (c = true -> cm (f s) = cm s)) -> keeps c (upd f).
Proof. intros H s. exact (H s). Qed.
Lemma keeps_updr c f : (forall l, rS (f l) = rS l) -> keeps c (updr f).
Proof. intros H s. unfold updr, st. simpl. split; [apply H|reflexivity]. Qed.
Lemma keeps_bind c a b : keeps c a -> keeps c b -> keeps c (a ;; b).
Proof.
  intros Ha Hb s. unfold keeps, bindM, st in *. specialize (Ha s). destruct (a s) as [[s1 o1] f1]. simpl in *.
  destruct f1; simpl; try exact Ha.
  specialize (Hb s1). destruct (b s1) as [[s2 o2] f2]. simpl in *.
  destruct Ha as [A1 A2], Hb as [B1 B2]. split; [rewrite B1; exact A1|]. intros C. rewrite (B2 C). exact (A2 C).
Qed.
Lemma keeps_withS c (k : sm -> M) : (forall s0, keeps c (k s0)) -> keeps c (withS k).
Proof. intros H s. unfold withS. apply H. Qed.
Lemma keeps_when c b m : keeps c m -> keeps c (when b m).
Proof. intros H. destruct b; simpl; [exact H|apply keeps_ret]. Qed.

Ltac kp_step :=
  lazymatch goal with
  | |- keeps _ ret => apply keeps_ret
  | |- keeps _ (stop _) => apply keeps_stop
  | |- keeps _ (say _) => apply keeps_say
  | |- keeps _ (upd _) => apply keeps_upd; intros; split; [reflexivity|intros; reflexivity]
  | |- keeps _ (updr _) => apply keeps_updr; intros; reflexivity
  | |- keeps _ (bindM _ _) => apply keeps_bind
  | |- keeps _ (when _ _) => apply keeps_when
  | |- keeps _ (withS _) => apply keeps_withS; let s0 := fresh "s0" in intros s0
  | |- keeps _ (if ?c then _ else _) => destruct c
  | |- keeps _ (match ?x with _ => _ end) => destruct x
  end.
Ltac kp := repeat (kp_step; cbv beta zeta).

Lemma keeps_cancel c must : keeps c (cancel_timer must).
Proof. unfold cancel_timer. kp. Qed.
Lemma keeps_start_timer c k : keeps c (start_timer k).
Proof. unfold start_timer. kp. Qed.
Lemma keeps_finalize_req c h r bh : keeps c (finalize_req h r bh).
Proof. unfold finalize_req. kp. Qed.
Lemma keeps_emit c o : keeps c (emit o).
Proof. unfold emit. kp. Qed.
Lemma keeps_cm_request k ro o : keeps false (cm_request k ro o).
Proof.
  unfold cm_request. apply keeps_withS. intros s0. destruct (cm s0); [apply keeps_stop|].
  apply keeps_bind; [|apply keeps_say]. apply keeps_upd. intros s. split; [reflexivity|discriminate].
Qed.
Lemma keeps_req_consider phs mk ui mj : keeps false (req_consider phs mk ui mj).
Proof.
  unfold req_consider. apply keeps_withS. intros s0. destruct (if mk then _ else _) as [nw cn].
  apply keeps_bind; [kp|apply keeps_cm_request].
Qed.
Lemma keeps_req_choose phs : keeps false (req_choose phs).
Proof. unfold req_choose. apply keeps_withS. intros s0. apply keeps_cm_request. Qed.
Lemma keeps_req_decide vs : keeps false (req_decide vs).
Proof. unfold req_decide. apply keeps_withS. intros s0. apply keeps_cm_request. Qed.
Lemma keeps_reset c h r : keeps c (reset h r).
Proof. unfold reset. apply keeps_bind; [apply keeps_cancel|]. kp. Qed.
Lemma keeps_enter_round c h r f : keeps c (enter_round h r f).
Proof. unfold enter_round. kp. Qed.

(** ** Pass A: the step does not decrease *)
Definition Eq (a : N) (s : sm) : Prop := rS (rl s) = a.
Definition Ge (n : N) (s : sm) : Prop := n <= rS (rl s).

Lemma sfr_Eq a : sfr false (Eq a).
Proof. intros s s' A _. unfold Eq. congruence. Qed.
Lemma sfr_Ge n : sfr false (Ge n).
Proof. intros s s' A _. unfold Ge. rewrite A. auto. Qed.
Lemma Eq_Ge n s : Eq n s -> Ge n s.
Proof. unfold Eq, Ge. lia. Qed.

Ltac kl := first
  [ apply keeps_cancel | apply keeps_start_timer | apply keeps_finalize_req | apply keeps_emit
  | apply keeps_req_consider | apply keeps_req_choose | apply keeps_req_decide | apply keeps_cm_request
  | apply keeps_reset | apply keeps_enter_round
  | apply keeps_weaken; first [apply keeps_cancel | apply keeps_start_timer | apply keeps_finalize_req | apply keeps_emit] ].
Ltac kfA := apply (tg_keeps false); [first [apply sfr_Eq|apply sfr_Ge]|kl].
Ltac lfA := let s := fresh "s" in let H := fresh "H" in
  intros s H; unfold Eq, Ge in *; fields; steps; try subst; try lia.

Lemma A_begin_commit v n : n <= 6 -> tg (Eq n) (begin_commit v) (Ge n).
Proof.
  intros Hn. unfold begin_commit.
  apply (tg_bind (Ge n)); [apply tg_updr; lfA|].
  apply (tg_bind (Ge n)); [kfA|].
  destruct (find_ph (v_phs v) (pcm v)); [kfA|apply tg_ret; auto].
Qed.

Lemma A_commit_or_advance v n : n <= 6 ->
  tg (Eq n) (match pcm v with [] => advance_round | _ => begin_commit v end) (Ge n).
Proof. intros Hn. destruct (pcm v); [apply tg_never, ng_advance_round|apply A_begin_commit; exact Hn]. Qed.

Lemma A_precommit_delay vs n : n <= 5 ->
  tg (Eq n) (updr (set_rS StepPrecommitDelay) ;; start_timer 3 ;; req_decide vs) (Ge n).
Proof.
  intros Hn. apply (tg_bind (Ge n)); [apply tg_updr; lfA|].
  apply (tg_bind (Ge n)); kfA.
Qed.

Lemma A_handle_proposal_view v n : n <= 3 -> tg (Eq n) (handle_proposal_view v) (Ge n).
Proof.
  intros Hn. unfold handle_proposal_view. apply tg_thresholds. intros mn mj.
  destruct (mj <=? tpc v).
  { apply (tg_bind (Eq n)); [kfA|].
    destruct (mj <=? pc_pow v); [apply A_commit_or_advance; lia|apply A_precommit_delay; lia]. }
  destruct (mn <=? tpc v).
  { apply (tg_bind (Eq n)); [kfA|]. apply (tg_bind (Ge n)); [apply tg_updr; lfA|kfA]. }
  destruct (mj <=? tpv v).
  { apply (tg_bind (Eq n)); [kfA|]. apply tg_withS. intros s0 H0. gfrom (Eq n) H0. cbv zeta.
    destruct (mj <=? pv_pow v).
    - apply (tg_bind (Ge n)); [apply tg_updr; lfA|]. apply (tg_bind (Ge n)); [kfA|apply tg_updr; lfA].
    - apply (tg_bind (Ge n)); [apply tg_updr; lfA|]. apply (tg_bind (Ge n)); [kfA|].
      apply tg_when; [intros _; kfA|auto]. }
  apply tg_withS. intros s0 H0. gfrom (Eq n) H0. apply (tg_post _ (Eq n)); [apply Eq_Ge|].
  destruct (rVRV (rl s0)) as [old|]; [|apply tg_stop; discriminate].
  destruct (N.of_nat _ <? N.of_nat _); [|apply tg_ret; auto]. cbv zeta.
  destruct (N.of_nat _ <=? N.of_nat _); [apply tg_ret; auto|kfA].
Qed.

Lemma A_handle_prevote_view v n : n <= 3 -> tg (Eq n) (handle_prevote_view v) (Ge n).
Proof.
  intros Hn. unfold handle_prevote_view. apply tg_thresholds. intros mn mj.
  apply tg_withS. intros s0 H0. gfrom (Eq n) H0. cbv zeta.
  destruct (mj <=? tpc v).
  { apply (tg_bind (Eq n)); [apply tg_when; [intros _; kfA|auto]|].
    destruct (mj <=? pc_pow v); [apply A_commit_or_advance; lia|apply A_precommit_delay; lia]. }
  destruct (mj <=? tpv v); [|apply tg_ret; apply Eq_Ge].
  destruct (mj <=? pv_pow v).
  - apply (tg_bind (Eq n)); [apply tg_when; [intros _; kfA|auto]|].
    apply (tg_bind (Ge n)); [apply tg_updr; lfA|kfA].
  - apply tg_when; [intros _|intros _; apply Eq_Ge].
    apply (tg_bind (Ge n)); [apply tg_updr; lfA|kfA].
Qed.

Lemma A_handle_precommit_view v n : n <= 5 -> tg (Eq n) (handle_precommit_view v) (Ge n).
Proof.
  intros Hn. unfold handle_precommit_view. apply tg_thresholds. intros mn mj.
  apply tg_withS. intros s0 H0. gfrom (Eq n) H0.
  destruct (mj <=? tpc v); [|apply tg_ret; apply Eq_Ge].
  destruct (mj <=? pc_pow v).
  - destruct (pcm v); [apply tg_never, ng_advance_round|].
    apply (tg_bind (Eq n)); [apply tg_when; [intros _; kfA|auto]|apply A_begin_commit; lia].
  - destruct (tpc v =? avail v); [apply tg_never, ng_advance_round|].
    apply tg_when; [intros _|intros _; apply Eq_Ge].
    apply (tg_bind (Ge n)); [apply tg_updr; lfA|kfA].
Qed.

Lemma A_handle_commit_wait_view v n : tg (Eq n) (handle_commit_wait_view v) (Ge n).
Proof.
  unfold handle_commit_wait_view. apply tg_withS. intros s0 H0. gfrom (Eq n) H0.
  apply (tg_post _ (Eq n)); [apply Eq_Ge|].
  destruct (negb (rFinCh (rl s0))); [apply tg_ret; auto|].
  destruct (rVRV (rl s0)) as [old|]; [|apply tg_stop; discriminate].
  destruct (find_ph (v_phs old) (pcm old)); [apply tg_ret; auto|].
  destruct (find_ph (v_phs v) (pcm v)); [kfA|apply tg_ret; auto].
Qed.

Lemma A_view_tail v ja n : tg (Ge n) (view_tail v ja) (Ge n).
Proof.
  unfold view_tail. apply (tg_bind (Ge n)).
  - apply tg_withS. intros s0 H0. gfrom (Ge n) H0.
    destruct (rVRV (rl s0)); [|apply tg_stop; discriminate].
    apply tg_when; [intros _; apply tg_updr; lfA|auto].
  - destruct ja as [j|]; [apply tg_never, ng_handle_jump_ahead|apply tg_ret; auto].
Qed.

Lemma eqb_Eq s0 n a : Eq n s0 -> (rS (rl s0) =? a) = true -> n = a.
Proof. unfold Eq. intros <- E. apply N.eqb_eq. exact E. Qed.

Lemma A_handle_view_update v ja n : tg (Eq n) (handle_view_update v ja) (Ge n).
Proof.
  unfold handle_view_update. apply tg_withS. intros s0 H0.
  destruct (v_h v =? 0).
  { destruct ja as [j|]; [apply tg_never, ng_handle_jump_ahead|apply tg_stop; discriminate]. }
  destruct (negb _); [apply tg_ret; intros s <-; apply Eq_Ge; exact H0|].
  destruct (rVRV (rl s0)) as [cur|]; [|apply tg_stop; discriminate].
  destruct (v_ver v <=? v_ver cur); [apply tg_stop; discriminate|]. cbv zeta.
  apply (tg_suspend (Ge n)); [|apply A_view_tail]. gfrom (Eq n) H0.
  destruct (rS (rl s0) =? StepAwaitingProposal) eqn:E1.
  { apply A_handle_proposal_view. rewrite (eqb_Eq _ _ _ H0 E1). steps. lia. }
  destruct ((rS (rl s0) =? StepAwaitingPrevotes) || (rS (rl s0) =? StepPrevoteDelay)) eqn:E2.
  { apply A_handle_prevote_view. apply orb_true_iff in E2. destruct E2 as [E|E]; rewrite (eqb_Eq _ _ _ H0 E); steps; lia. }
  destruct ((rS (rl s0) =? StepAwaitingPrecommits) || (rS (rl s0) =? StepPrecommitDelay)) eqn:E3.
  { apply A_handle_precommit_view. apply orb_true_iff in E3. destruct E3 as [E|E]; rewrite (eqb_Eq _ _ _ H0 E); steps; lia. }
  destruct ((rS (rl s0) =? StepCommitWait) || _); [|apply tg_stop; discriminate].
  apply A_handle_commit_wait_view.
Qed.

(** the two timer branches that ask first and set the step afterwards, as units *)
Lemma A_handle_timer_elapsed n : tg (Eq n) handle_timer_elapsed (Ge n).
Proof.
  unfold handle_timer_elapsed. apply tg_withS. intros s0 H0. cbv zeta. gfrom (Eq n) H0.
  destruct (rS (rl s0) =? StepAwaitingProposal) eqn:E1.
  { pose proof (eqb_Eq _ _ _ H0 E1) as Hn.
    apply (tg_bind (Eq n)); [apply tg_vrv_or_panic; intros v; kfA|].
    apply (tg_bind (Ge n)); [apply tg_updr; lfA|kfA]. }
  destruct (rS (rl s0) =? StepPrevoteDelay) eqn:E2.
  { pose proof (eqb_Eq _ _ _ H0 E2) as Hn.
    apply (tg_bind (Eq n)); [apply tg_vrv_or_panic; intros v; kfA|].
    apply (tg_bind (Ge n)); [apply tg_updr; lfA|kfA]. }
  destruct (rS (rl s0) =? StepPrecommitDelay).
  { apply (tg_bind (Eq n)); [kfA|apply tg_never, ng_advance_round]. }
  destruct (rS (rl s0) =? StepCommitWait) eqn:E4; [|apply tg_stop; discriminate].
  pose proof (eqb_Eq _ _ _ H0 E4) as Hn.
  apply (tg_bind (Eq n)); [kfA|].
  destruct (rFinVS (rl s0) =? 0); [apply tg_updr; lfA|apply tg_never, ng_advance_height].
Qed.

Lemma A_handle_height_committed n : tg (Eq n) handle_height_committed (Ge n).
Proof.
  unfold handle_height_committed.
  apply (tg_bind (Eq n)); [apply tg_updr; lfA|].
  apply (tg_bind (Eq n)); [kfA|].
  apply tg_withS. intros s0 H0. cbv zeta. gfrom (Eq n) H0.
  destruct (rS (rl s0) =? StepAwaitingFinalization); [apply tg_ret; apply Eq_Ge|].
  destruct (negb (rS (rl s0) =? StepCommitWait)) eqn:E; [apply tg_stop; discriminate|].
  apply negb_false_iff in E. pose proof (eqb_Eq _ _ _ H0 E) as Hn.
  destruct (rFinVS (rl s0) =? 0); [apply tg_updr; lfA|apply tg_never, ng_advance_height].
Qed.

Lemma A_handle_finalization h r bh vs ash n : tg (Ge n) (handle_finalization h r bh vs ash) (Ge n).
Proof.
  unfold handle_finalization. destruct (vs =? 0); [apply tg_stop; discriminate|].
  apply (tg_bind (Ge n)); [apply tg_updr; lfA|].
  apply tg_withS. intros s0 H0. cbv zeta. gfrom (Ge n) H0.
  destruct (negb _); [apply tg_stop; discriminate|].
  destruct (fstore_get (fStore s0) (rH (rl s0))).
  - apply (tg_bind (Ge n)); [apply tg_say; auto|apply tg_stop; discriminate].
  - apply (tg_bind (Ge n)); [apply tg_upd; lfA|].
    apply (tg_bind (Ge n)); [apply tg_say; auto|].
    apply tg_when; [intros _; apply tg_never, ng_advance_height|auto].
Qed.

Lemma A_handle_block_data h r d n : tg (Eq n) (handle_block_data h r d) (Ge n).
Proof.
  unfold handle_block_data. apply tg_withS. intros s0 H0. gfrom (Eq n) H0.
  apply (tg_post _ (Eq n)); [apply Eq_Ge|].
  destruct (negb (rPvCh (rl s0))); [apply tg_ret; auto|].
  destruct (negb _); [apply tg_ret; auto|].
  apply tg_vrv_or_panic. intros v. cbv zeta.
  destruct (reject_mismatched (rl s0) (v_phs v)); [apply tg_ret; auto|].
  destruct (map ph_data _); [apply tg_ret; auto|kfA].
Qed.

Lemma A_record_prevote t n : tg (Eq n) (record_prevote t ;; updr (set_rPvCh false)) (Ge n).
Proof.
  apply (tg_bind (Ge n)); [|apply tg_updr; lfA].
  unfold record_prevote. apply tg_withS. intros s0 H0. cbv zeta. gfrom (Eq n) H0.
  apply (tg_bind (Eq n)).
  { apply tg_when; [intros _|auto].
    apply (tg_bind (Eq n)); [apply tg_say; auto|].
    destruct (ra_pv (cur_ra s0)).
    - apply (tg_bind (Eq n)); [apply tg_say; auto|apply tg_stop; discriminate].
    - apply (tg_bind (Eq n)); [apply tg_upd; lfA|].
      apply (tg_bind (Eq n)); [apply tg_say; auto|kfA]. }
  apply tg_when; [intros E|intros _; apply Eq_Ge].
  pose proof (eqb_Eq _ _ _ H0 E) as Hn.
  apply (tg_bind (Ge n)); [apply tg_updr; lfA|kfA].
Qed.

Lemma A_record_precommit t n : tg (Eq n) (record_precommit t ;; updr (set_rPcCh false)) (Ge n).
Proof.
  apply (tg_post _ (Eq n)); [apply Eq_Ge|].
  apply (tg_bind (Eq n)); [|apply tg_updr; lfA].
  unfold record_precommit. apply tg_withS. intros s0 H0. cbv zeta. gfrom (Eq n) H0.
  apply tg_when; [intros _|auto].
  apply (tg_bind (Eq n)); [apply tg_say; auto|].
  destruct (ra_pc (cur_ra s0)).
  - apply (tg_bind (Eq n)); [apply tg_say; auto|apply tg_stop; discriminate].
  - apply (tg_bind (Eq n)); [apply tg_upd; lfA|].
    apply (tg_bind (Eq n)); [apply tg_say; auto|kfA].
Qed.

Lemma A_record_proposed_header d n :
  tg (Eq n) (record_proposed_header d ;; updr (set_rPropCh false) ;; upd (set_propOut 2)) (Ge n).
Proof.
  apply (tg_post _ (Eq n)); [apply Eq_Ge|].
  apply (tg_bind (Eq n)); [|apply (tg_bind (Eq n)); [apply tg_updr; lfA|apply tg_upd; lfA]].
  unfold record_proposed_header. apply tg_withS. intros s0 H0. cbv zeta. gfrom (Eq n) H0.
  apply (tg_bind (Eq n)).
  { destruct (initial_height <? rH (rl s0)); [|apply tg_ret; auto].
    destruct (rVRV (rl s0)); [|apply tg_stop; discriminate].
    destruct (rPrevVS (rl s0) =? 0); [apply tg_stop; discriminate|].
    destruct (pcp_finalizes (rl s0) v); [apply tg_ret; auto|apply tg_stop; discriminate]. }
  apply (tg_bind (Eq n)); [destruct (signer s0); [apply tg_ret; auto|apply tg_stop; discriminate]|].
  apply (tg_bind (Eq n)); [apply tg_say; auto|].
  destruct (ra_ph (cur_ra s0)).
  - apply (tg_bind (Eq n)); [apply tg_say; auto|apply tg_stop; discriminate].
  - apply (tg_bind (Eq n)); [apply tg_upd; lfA|].
    apply (tg_bind (Eq n)); [apply tg_say; auto|kfA].
Qed.

(** ** Pass B: a held decision / choice request and the step *)
Definition cmk (s : sm) : option N := match cm s with Some (k, _, _) => Some k | None => None end.
Definition Cn (s : sm) : Prop := cm s = None.
Definition CnS (a : N) (s : sm) : Prop := cm s = None /\ a <= rS (rl s).
Definition Hk (k : N) (s : sm) : Prop := cmk s = Some k.
(** a held precommit-decision request: the step is at least AwaitingPrecommits;
    a held prevote-choice request: the step is at least AwaitingPrevotes *)
Definition asks_ok (s : sm) : Prop :=
  (cmk s = Some K_decide -> StepAwaitingPrecommits <= rS (rl s)) /\
  (cmk s = Some K_choose -> StepAwaitingPrevotes <= rS (rl s)).

Lemma sfr_Cn : sfr true Cn.
Proof. intros s s' A B. unfold Cn. rewrite (B eq_refl). auto. Qed.
Lemma sfr_CnS a : sfr true (CnS a).
Proof. intros s s' A B. unfold CnS. rewrite (B eq_refl), A. auto. Qed.
Lemma sfr_asks_ok : sfr true asks_ok.
Proof. intros s s' A B. unfold asks_ok, cmk. rewrite (B eq_refl), A. auto. Qed.
Lemma sfr_Hk k : sfr true (Hk k).
Proof. intros s s' A B. unfold Hk, cmk. rewrite (B eq_refl). auto. Qed.
Lemma Cn_asks s : Cn s -> asks_ok s.
Proof. unfold Cn, asks_ok, cmk. intros ->. split; discriminate. Qed.
Lemma CnS_asks a s : CnS a s -> asks_ok s.
Proof. intros [A _]. apply Cn_asks. exact A. Qed.
Lemma Hk_consider_asks s : Hk K_consider s -> asks_ok s.
Proof. unfold Hk, asks_ok. intros ->. split; intros E; vm_compute in E; discriminate E. Qed.

Ltac klB := first
  [ apply keeps_cancel | apply keeps_start_timer | apply keeps_finalize_req | apply keeps_emit
  | apply keeps_reset | apply keeps_enter_round ].
Ltac sfB := first [apply sfr_Cn|apply sfr_CnS|apply sfr_asks_ok|apply sfr_Hk].
Ltac kfB := apply (tg_keeps true); [sfB|klB].
Ltac lfB := let s := fresh "s" in let H := fresh "H" in
  intros s H; unfold Cn, CnS, Hk, asks_ok, cmk in *; fields; steps;
  try (destruct H; split); try assumption; try lia; try (intros; lia); try tauto.

Lemma B_cm_request (Q : sm -> Prop) k ro o : sfr false Q ->
  tg (fun s => cm s = None /\ Q s) (cm_request k ro o) (fun s => Hk k s /\ Q s).
Proof.
  intros F s [C HQ]. unfold cm_request, withS. rewrite C. unfold bindM, upd, say, st, fl. simpl. intros _.
  split; [reflexivity|]. apply (F s); [reflexivity|discriminate|exact HQ].
Qed.

Lemma B_req_decide (Q : sm -> Prop) vs : sfr false Q ->
  tg (fun s => cm s = None /\ Q s) (req_decide vs) (fun s => Hk K_decide s /\ Q s).
Proof.
  intros F. unfold req_decide. apply tg_withS. intros s0 H0. gfrom (fun s => cm s = None /\ Q s) H0.
  apply B_cm_request. exact F.
Qed.
Lemma B_req_choose (Q : sm -> Prop) phs : sfr false Q ->
  tg (fun s => cm s = None /\ Q s) (req_choose phs) (fun s => Hk K_choose s /\ Q s).
Proof.
  intros F. unfold req_choose. apply tg_withS. intros s0 H0. gfrom (fun s => cm s = None /\ Q s) H0.
  apply B_cm_request. exact F.
Qed.
(** no decision / choice request is held (nothing, or a consider request) *)
Definition NDC (s : sm) : Prop := cmk s <> Some K_decide /\ cmk s <> Some K_choose.
Lemma sfr_NDC : sfr true NDC.
Proof. intros s s' A B. unfold NDC, cmk. rewrite (B eq_refl). auto. Qed.
Lemma NDC_asks s : NDC s -> asks_ok s.
Proof. unfold NDC, asks_ok. intros [A B]. split; intros E; contradiction. Qed.
Lemma Cn_NDC s : Cn s -> NDC s.
Proof. unfold Cn, NDC, cmk. intros ->. split; discriminate. Qed.

Lemma B_req_consider_n phs mk ui mj : tg Cn (req_consider phs mk ui mj) NDC.
Proof.
  unfold req_consider. apply tg_withS. intros s0 H0. destruct (if mk then _ else _) as [nw cn].
  gfrom Cn H0. apply (tg_bind (fun s => cm s = None /\ True)); [apply tg_updr; intros s H; split; [exact H|exact I]|].
  apply (tg_post _ (fun s => Hk K_consider s /\ True)).
  { intros s [H _]. unfold NDC, Hk in *. rewrite H. split; intros E; vm_compute in E; discriminate E. }
  apply B_cm_request. intros s s' _ _ _. exact I.
Qed.
Lemma B_req_consider phs mk ui mj : tg Cn (req_consider phs mk ui mj) asks_ok.
Proof. apply (tg_post _ NDC); [exact NDC_asks|apply B_req_consider_n]. Qed.
Ltac sfB ::= first [apply sfr_Cn|apply sfr_CnS|apply sfr_asks_ok|apply sfr_Hk|apply sfr_NDC].

Lemma sfr_Ge4 a : sfr false (fun s => a <= rS (rl s)).
Proof. intros s s' A _ H. rewrite A. exact H. Qed.

(** decide asked in a step >= AwaitingPrecommits that has been set before *)
Lemma B_decide_after a vs : 4 <= a -> tg (CnS a) (req_decide vs) asks_ok.
Proof.
  intros Ha. apply (tg_post _ (fun s => Hk K_decide s /\ a <= rS (rl s))).
  - intros s [H1 H2]. unfold asks_ok, Hk in *. rewrite H1. steps. split; intros; [lia|discriminate].
  - apply (B_req_decide (fun s => a <= rS (rl s))). apply sfr_Ge4.
Qed.
Lemma B_choose_after a phs : 2 <= a -> tg (CnS a) (req_choose phs) asks_ok.
Proof.
  intros Ha. apply (tg_post _ (fun s => Hk K_choose s /\ a <= rS (rl s))).
  - intros s [H1 H2]. unfold asks_ok, Hk in *. rewrite H1. steps. split; intros; [discriminate|lia].
  - apply (B_req_choose (fun s => a <= rS (rl s))). apply sfr_Ge4.
Qed.

Lemma B_begin_commit v : tg Cn (begin_commit v) Cn.
Proof.
  unfold begin_commit. apply (tg_bind Cn); [apply tg_updr; lfB|].
  apply (tg_bind Cn); [kfB|].
  destruct (find_ph (v_phs v) (pcm v)); [kfB|apply tg_ret; auto].
Qed.

Lemma B_commit_or_advance v : tg Cn (match pcm v with [] => advance_round | _ => begin_commit v end) asks_ok.
Proof.
  destruct (pcm v); [apply tg_never, ng_advance_round|].
  apply (tg_post _ Cn); [exact Cn_asks|apply B_begin_commit].
Qed.

Lemma B_precommit_delay vs : tg Cn (updr (set_rS StepPrecommitDelay) ;; start_timer 3 ;; req_decide vs) asks_ok.
Proof.
  apply (tg_bind (CnS 5)); [apply tg_updr; lfB|].
  apply (tg_bind (CnS 5)); [kfB|apply B_decide_after; lia].
Qed.

Lemma B_handle_proposal_view v : tg Cn (handle_proposal_view v) asks_ok.
Proof.
  unfold handle_proposal_view. apply tg_thresholds. intros mn mj.
  destruct (mj <=? tpc v).
  { apply (tg_bind Cn); [kfB|].
    destruct (mj <=? pc_pow v); [apply B_commit_or_advance|apply B_precommit_delay]. }
  destruct (mn <=? tpc v).
  { apply (tg_bind Cn); [kfB|]. apply (tg_bind (CnS 4)); [apply tg_updr; lfB|apply B_decide_after; lia]. }
  destruct (mj <=? tpv v).
  { apply (tg_bind Cn); [kfB|]. apply tg_withS. intros s0 H0. gfrom Cn H0. cbv zeta.
    destruct (mj <=? pv_pow v).
    - apply (tg_bind (CnS 4)); [apply tg_updr; lfB|].
      apply (tg_bind asks_ok); [apply B_choose_after; lia|apply tg_updr; lfB].
    - apply (tg_bind Cn); [apply tg_updr; lfB|]. apply (tg_bind Cn); [kfB|].
      apply tg_when; [intros _; apply B_req_consider|intros _; exact Cn_asks]. }
  apply tg_withS. intros s0 H0. gfrom Cn H0.
  destruct (rVRV (rl s0)) as [old|]; [|apply tg_stop; discriminate].
  destruct (N.of_nat _ <? N.of_nat _); [|apply tg_ret; exact Cn_asks]. cbv zeta.
  destruct (N.of_nat _ <=? N.of_nat _); [apply tg_ret; exact Cn_asks|apply B_req_consider].
Qed.

Lemma B_handle_prevote_view v : tg Cn (handle_prevote_view v) asks_ok.
Proof.
  unfold handle_prevote_view. apply tg_thresholds. intros mn mj.
  apply tg_withS. intros s0 H0. gfrom Cn H0. cbv zeta.
  destruct (mj <=? tpc v).
  { apply (tg_bind Cn); [apply tg_when; [intros _; kfB|auto]|].
    destruct (mj <=? pc_pow v); [apply B_commit_or_advance|apply B_precommit_delay]. }
  destruct (mj <=? tpv v); [|apply tg_ret; exact Cn_asks].
  destruct (mj <=? pv_pow v).
  - apply (tg_bind Cn); [apply tg_when; [intros _; kfB|auto]|].
    apply (tg_bind (CnS 4)); [apply tg_updr; lfB|apply B_decide_after; lia].
  - apply (tg_post _ Cn); [exact Cn_asks|].
    apply tg_when; [intros _|auto].
    apply (tg_bind Cn); [apply tg_updr; lfB|kfB].
Qed.

Lemma B_handle_precommit_view v : tg Cn (handle_precommit_view v) asks_ok.
Proof.
  apply (tg_post _ Cn); [exact Cn_asks|].
  unfold handle_precommit_view. apply tg_thresholds. intros mn mj.
  apply tg_withS. intros s0 H0. gfrom Cn H0.
  destruct (mj <=? tpc v); [|apply tg_ret; auto].
  destruct (mj <=? pc_pow v).
  - destruct (pcm v); [apply tg_never, ng_advance_round|].
    apply (tg_bind Cn); [apply tg_when; [intros _; kfB|auto]|apply B_begin_commit].
  - destruct (tpc v =? avail v); [apply tg_never, ng_advance_round|].
    apply tg_when; [intros _|auto].
    apply (tg_bind Cn); [apply tg_updr; lfB|kfB].
Qed.

Lemma B_handle_commit_wait_view v : tg Cn (handle_commit_wait_view v) asks_ok.
Proof.
  apply (tg_post _ Cn); [exact Cn_asks|].
  unfold handle_commit_wait_view. apply tg_withS. intros s0 H0. gfrom Cn H0.
  destruct (negb (rFinCh (rl s0))); [apply tg_ret; auto|].
  destruct (rVRV (rl s0)) as [old|]; [|apply tg_stop; discriminate].
  destruct (find_ph (v_phs old) (pcm old)); [apply tg_ret; auto|].
  destruct (find_ph (v_phs v) (pcm v)); [kfB|apply tg_ret; auto].
Qed.

Lemma B_view_tail v ja : tg asks_ok (view_tail v ja) asks_ok.
Proof.
  unfold view_tail. apply (tg_bind asks_ok).
  - apply tg_withS. intros s0 H0. gfrom asks_ok H0.
    destruct (rVRV (rl s0)); [|apply tg_stop; discriminate].
    apply tg_when; [intros _; apply tg_updr; lfB|auto].
  - destruct ja as [j|]; [apply tg_never, ng_handle_jump_ahead|apply tg_ret; auto].
Qed.

Lemma B_handle_view_update v ja : tg Cn (handle_view_update v ja) asks_ok.
Proof.
  unfold handle_view_update. apply tg_withS. intros s0 H0.
  destruct (v_h v =? 0).
  { destruct ja as [j|]; [apply tg_never, ng_handle_jump_ahead|apply tg_stop; discriminate]. }
  destruct (negb _); [apply tg_ret; intros s <-; apply Cn_asks; exact H0|].
  destruct (rVRV (rl s0)) as [cur|]; [|apply tg_stop; discriminate].
  destruct (v_ver v <=? v_ver cur); [apply tg_stop; discriminate|]. cbv zeta.
  apply (tg_suspend asks_ok); [|apply B_view_tail]. gfrom Cn H0.
  destruct (rS (rl s0) =? StepAwaitingProposal); [apply B_handle_proposal_view|].
  destruct (_ || _); [apply B_handle_prevote_view|].
  destruct (_ || _); [apply B_handle_precommit_view|].
  destruct (_ || _); [apply B_handle_commit_wait_view|apply tg_stop; discriminate].
Qed.

(** the units: the request is held first, the step is set by the next primitive *)
Lemma B_handle_timer_elapsed : tg Cn handle_timer_elapsed asks_ok.
Proof.
  unfold handle_timer_elapsed. apply tg_withS. intros s0 H0. cbv zeta. gfrom Cn H0.
  destruct (rS (rl s0) =? StepAwaitingProposal).
  { apply (tg_bind (Hk K_choose)).
    { apply tg_vrv_or_panic; intros v. apply (tg_pre _ (fun s => cm s = None /\ True)); [intros s H; split; [exact H|exact I]|].
      apply (tg_post _ (fun s => Hk K_choose s /\ True)); [tauto|]. apply B_req_choose. intros s s' _ _ _. exact I. }
    apply (tg_bind asks_ok); [|kfB].
    apply tg_updr. intros s H. unfold asks_ok, Hk, cmk in *. fields.
    destruct (cm s) as [[[k g] b]|]; [|discriminate]. inversion H; subst. steps. split; intros; [discriminate|lia]. }
  destruct (rS (rl s0) =? StepPrevoteDelay).
  { apply (tg_bind (Hk K_decide)).
    { apply tg_vrv_or_panic; intros v. apply (tg_pre _ (fun s => cm s = None /\ True)); [intros s H; split; [exact H|exact I]|].
      apply (tg_post _ (fun s => Hk K_decide s /\ True)); [tauto|]. apply B_req_decide. intros s s' _ _ _. exact I. }
    apply (tg_bind asks_ok); [|kfB].
    apply tg_updr. intros s H. unfold asks_ok, Hk, cmk in *. fields.
    destruct (cm s) as [[[k g] b]|]; [|discriminate]. inversion H; subst. steps. split; intros; [lia|discriminate]. }
  apply (tg_post _ Cn); [exact Cn_asks|].
  destruct (rS (rl s0) =? StepPrecommitDelay).
  { apply (tg_bind Cn); [kfB|apply tg_never, ng_advance_round]. }
  destruct (rS (rl s0) =? StepCommitWait); [|apply tg_stop; discriminate].
  apply (tg_bind Cn); [kfB|].
  destruct (rFinVS (rl s0) =? 0); [apply tg_updr; lfB|apply tg_never, ng_advance_height].
Qed.

Lemma B_handle_block_data h r d : tg Cn (handle_block_data h r d) asks_ok.
Proof.
  unfold handle_block_data. apply tg_withS. intros s0 H0. gfrom Cn H0.
  destruct (negb (rPvCh (rl s0))); [apply tg_ret; exact Cn_asks|].
  destruct (negb _); [apply tg_ret; exact Cn_asks|].
  apply tg_vrv_or_panic. intros v. cbv zeta.
  destruct (reject_mismatched (rl s0) (v_phs v)); [apply tg_ret; exact Cn_asks|].
  destruct (map ph_data _); [apply tg_ret; exact Cn_asks|apply B_req_consider].
Qed.

(** beginRoundLive's AwaitingPrecommits branch asks first and sets the step afterwards: a unit *)
Lemma B_begin_round_live v : tg Cn (begin_round_live v) asks_ok.
Proof.
  unfold begin_round_live.
  destruct (get_step_from_vote_summary (v_vs v)) as [st|]; [|apply tg_stop; discriminate].
  destruct (st =? StepAwaitingProposal).
  { apply (tg_post _ NDC); [exact NDC_asks|].
    apply (tg_bind NDC).
    { apply tg_withS. intros s0 H0. gfrom Cn H0.
      apply tg_when; [intros _; apply B_req_consider_n|intros _; exact Cn_NDC]. }
    apply (tg_bind NDC); [apply tg_updr; intros s H; exact H|kfB]. }
  destruct (st =? StepAwaitingPrevotes); [apply tg_stop; discriminate|].
  destruct (st =? StepAwaitingPrecommits) eqn:E4.
  { apply N.eqb_eq in E4. subst st.
    apply (tg_bind (Hk K_decide)).
    { apply (tg_pre _ (fun s => cm s = None /\ True)); [intros s H; split; [exact H|exact I]|].
      apply (tg_post _ (fun s => Hk K_decide s /\ True)); [tauto|]. apply B_req_decide. intros s s' _ _ _. exact I. }
    apply tg_updr. intros s H. unfold asks_ok, Hk, cmk in *. fields.
    destruct (cm s) as [[[k g] b]|]; [|discriminate]. inversion H; subst. steps. split; intros; [lia|discriminate]. }
  destruct (st =? StepCommitWait); [|apply tg_stop; discriminate].
  apply (tg_post _ Cn); [exact Cn_asks|].
  destruct (pcm v); [apply tg_never, ng_advance_round|].
  apply (tg_bind Cn); [apply B_begin_commit|apply tg_updr; lfB].
Qed.

Lemma B_enter_round h r f : tg Cn (enter_round h r f) Cn.
Proof. kfB. Qed.

Lemma B_advance_after_vrv v : tg Cn (advance_after_vrv v) asks_ok.
Proof.
  unfold advance_after_vrv. apply (tg_bind Cn); [apply tg_upd; lfB|].
  apply (tg_bind Cn); [apply B_enter_round|apply B_begin_round_live].
Qed.

Lemma B_init_after_vrv v : tg Cn (init_after_vrv v) asks_ok.
Proof.
  unfold init_after_vrv. apply tg_withS. intros s0 H0. cbv zeta. gfrom Cn H0.
  apply (tg_bind Cn); [kfB|].
  apply (tg_bind Cn); [apply tg_upd; lfB|].
  apply (tg_bind Cn).
  { destruct ((rH (rl s0) =? initial_height) && (rR (rl s0) =? 0)); [apply tg_updr; lfB|].
    destruct (fstore_get (fStore s0) (sub64 (rH (rl s0)) 1)); [apply tg_updr; lfB|apply tg_stop; discriminate]. }
  apply tg_withS. intros s1 H1. cbv zeta. gfrom Cn H1.
  apply (tg_bind Cn).
  { destruct (signer s1); [|apply tg_ret; auto].
    destruct (existsb ph_mine _); [|apply tg_ret; auto].
    apply (tg_bind Cn); [apply tg_updr; lfB|apply tg_ret; auto]. }
  apply tg_withS. intros s2 H2. cbv zeta. gfrom Cn H2.
  apply (tg_bind Cn).
  { destruct (if signer s2 && rPropCh (rl s2) then ra_ph (cur_ra s2) else None); [|apply tg_ret; auto].
    apply (tg_bind Cn); [apply tg_updr; lfB|].
    apply (tg_bind Cn); [kfB|apply tg_ret; auto]. }
  apply (tg_bind Cn); [apply B_enter_round|apply B_begin_round_live].
Qed.

(** ** [noreq k m]: [m] never asks the strategy for [k] *)
Definition noreq (k : N) (m : M) : Prop := forall s, ~ In k (reqs (ou (m s))).

Lemma nr_ret k : noreq k ret.
Proof. intros s H. exact H. Qed.
Lemma nr_stop k f : noreq k (stop f).
Proof. intros s H. exact H. Qed.
Lemma nr_say k o : reqk o <> Some k -> noreq k (say o).
Proof.
  intros H s. unfold say, ou, reqs. simpl. destruct (reqk o) as [k'|]; simpl; [|tauto].
  intros [E|[]]. apply H. congruence.
Qed.
Lemma nr_upd k f : noreq k (upd f).
Proof. intros s H. exact H. Qed.
Lemma nr_updr k f : noreq k (updr f).
Proof. intros s H. exact H. Qed.
Lemma nr_bind k a b : noreq k a -> noreq k b -> noreq k (a ;; b).
Proof.
  intros Ha Hb s. unfold bindM, ou in *. specialize (Ha s). destruct (a s) as [[s1 o1] f1]. simpl in *.
  destruct f1; simpl; try exact Ha.
  specialize (Hb s1). destruct (b s1) as [[s2 o2] f2]. simpl in *.
  rewrite reqs_app. intros H. apply in_app_or in H. tauto.
Qed.
Lemma nr_withS k (f : sm -> M) : (forall s0, noreq k (f s0)) -> noreq k (withS f).
Proof. intros H s. unfold withS. apply H. Qed.
Lemma nr_when k b m : noreq k m -> noreq k (when b m).
Proof. intros H. destruct b; simpl; [exact H|apply nr_ret]. Qed.
Lemma nr_cm_request k k' ro o : reqk o = Some k' -> k' <> k -> noreq k (cm_request k' ro o).
Proof.
  intros E N s. unfold cm_request, withS. destruct (cm s); [apply nr_stop|].
  apply nr_bind; [apply nr_upd|apply nr_say]. rewrite E. congruence.
Qed.
Lemma nr_suspend k m v ja : noreq k m -> noreq k (view_tail v ja) -> noreq k (suspend_with_tail m v ja).
Proof.
  intros Ha Hb s. unfold suspend_with_tail, ou in *. specialize (Ha s). destruct (m s) as [[s1 o1] f1]. simpl in *.
  destruct f1; simpl; try exact Ha.
  specialize (Hb s1). destruct (view_tail v ja s1) as [[s2 o2] f2]. simpl in *.
  rewrite reqs_app. intros H. apply in_app_or in H. tauto.
Qed.

Ltac nr_step :=
  lazymatch goal with
  | |- noreq _ ret => apply nr_ret
  | |- noreq _ (stop _) => apply nr_stop
  | |- noreq _ (say _) => apply nr_say; simpl; discriminate
  | |- noreq _ (upd _) => apply nr_upd
  | |- noreq _ (updr _) => apply nr_updr
  | |- noreq _ (bindM _ _) => apply nr_bind
  | |- noreq _ (when _ _) => apply nr_when
  | |- noreq _ (withS _) => apply nr_withS; let s0 := fresh "s0" in intros s0
  | |- noreq _ (cm_request _ _ _) => apply nr_cm_request; [reflexivity|vm_compute; discriminate]
  | |- noreq _ (if ?c then _ else _) => destruct c
  | |- noreq _ (match ?x with _ => _ end) => destruct x
  end.
Ltac nr := repeat (nr_step; cbv beta zeta).
Ltac unf_h := unfold view_tail, handle_precommit_view, handle_prevote_view, handle_commit_wait_view, handle_jump_ahead,
  handle_block_data, handle_finalization, handle_height_committed, vrv_or_panic, thresholds, advance_round, advance_height,
  begin_commit, reset, set_hr, send_entrance, cancel_timer, start_timer, finalize_req, req_decide, req_choose, req_consider, emit.

Lemma nr_view_tail k v ja : noreq k (view_tail v ja).
Proof. unf_h. nr. Qed.
Lemma nr_handle_precommit_view k v : noreq k (handle_precommit_view v).
Proof. unf_h. nr. Qed.
Lemma nr_handle_commit_wait_view k v : noreq k (handle_commit_wait_view v).
Proof. unf_h. nr. Qed.
Lemma nr_handle_prevote_view_choose v : noreq K_choose (handle_prevote_view v).
Proof. unf_h. nr. Qed.
Lemma nr_handle_finalization k h r bh vs ash : noreq k (handle_finalization h r bh vs ash).
Proof. unf_h. nr. Qed.
Lemma nr_handle_height_committed k : noreq k handle_height_committed.
Proof. unf_h. nr. Qed.
Lemma nr_handle_block_data_decide h r d : noreq K_decide (handle_block_data h r d).
Proof. unf_h. nr. Qed.
Lemma nr_handle_block_data_choose h r d : noreq K_choose (handle_block_data h r d).
Proof. unf_h. nr. Qed.
Lemma nr_handle_jump_ahead k j : noreq k (handle_jump_ahead j).
Proof. unf_h. nr. Qed.

(** a view update asks for the precommit decision only in a step before AwaitingPrecommits,
    for the prevote choice only in AwaitingProposal *)
Lemma nr_handle_view_update_decide v ja s : StepAwaitingPrecommits <= rS (rl s) ->
  ~ In K_decide (reqs (ou (handle_view_update v ja s))).
Proof.
  intros Hs. unfold handle_view_update, withS.
  destruct (v_h v =? 0).
  { destruct ja as [j|]; [apply nr_handle_jump_ahead|apply nr_stop]. }
  destruct (negb _); [apply nr_ret|].
  destruct (rVRV (rl s)) as [cur|]; [|apply nr_stop].
  destruct (v_ver v <=? v_ver cur); [apply nr_stop|]. cbv zeta.
  apply nr_suspend; [|apply nr_view_tail].
  destruct (rS (rl s) =? StepAwaitingProposal) eqn:E1; [apply N.eqb_eq in E1; revert Hs; rewrite E1; steps; lia|].
  destruct ((rS (rl s) =? StepAwaitingPrevotes) || (rS (rl s) =? StepPrevoteDelay)) eqn:E2.
  { apply orb_true_iff in E2. destruct E2 as [E|E]; apply N.eqb_eq in E; revert Hs; rewrite E; steps; lia. }
  clear E2. destruct (_ || _); [apply nr_handle_precommit_view|].
  destruct (_ || _); [apply nr_handle_commit_wait_view|apply nr_stop].
Qed.

Lemma nr_handle_view_update_choose v ja s : rS (rl s) <> StepAwaitingProposal ->
  ~ In K_choose (reqs (ou (handle_view_update v ja s))).
Proof.
  intros Hs. unfold handle_view_update, withS.
  destruct (v_h v =? 0).
  { destruct ja as [j|]; [apply nr_handle_jump_ahead|apply nr_stop]. }
  destruct (negb _); [apply nr_ret|].
  destruct (rVRV (rl s)) as [cur|]; [|apply nr_stop].
  destruct (v_ver v <=? v_ver cur); [apply nr_stop|]. cbv zeta.
  apply nr_suspend; [|apply nr_view_tail].
  destruct (rS (rl s) =? StepAwaitingProposal) eqn:E1; [apply N.eqb_eq in E1; contradiction|].
  destruct (_ || _); [apply nr_handle_prevote_view_choose|].
  destruct (_ || _); [apply nr_handle_precommit_view|].
  destruct (_ || _); [apply nr_handle_commit_wait_view|apply nr_stop].
Qed.

Lemma nr_handle_timer_elapsed_decide s : StepAwaitingPrecommits <= rS (rl s) ->
  ~ In K_decide (reqs (ou (handle_timer_elapsed s))).
Proof.
  intros Hs. unfold handle_timer_elapsed, withS. cbv zeta.
  destruct (rS (rl s) =? StepAwaitingProposal) eqn:E1; [apply N.eqb_eq in E1; revert Hs; rewrite E1; steps; lia|].
  destruct (rS (rl s) =? StepPrevoteDelay) eqn:E2; [apply N.eqb_eq in E2; revert Hs; rewrite E2; steps; lia|].
  match goal with |- ~ In ?k (reqs (ou (?m s))) => assert (X : noreq k m); [|exact (X s)] end.
  unf_h. nr.
Qed.

Lemma nr_handle_timer_elapsed_choose s : rS (rl s) <> StepAwaitingProposal ->
  ~ In K_choose (reqs (ou (handle_timer_elapsed s))).
Proof.
  intros Hs. unfold handle_timer_elapsed, withS. cbv zeta.
  destruct (rS (rl s) =? StepAwaitingProposal) eqn:E1; [apply N.eqb_eq in E1; contradiction|].
  match goal with |- ~ In ?k (reqs (ou (?m s))) => assert (X : noreq k m); [|exact (X s)] end.
  unf_h. nr.
Qed.

(** ** the step stays one of the step constants *)
Definition le7 (m : M) : Prop := forall s, rS (rl s) <= 7 -> rS (rl (st (m s))) <= 7.
Lemma le7_of_keeps c m : keeps c m -> le7 m.
Proof. intros K s H. destruct (K s) as [A _]. rewrite A. exact H. Qed.
Lemma le7_bind a b : le7 a -> le7 b -> le7 (a ;; b).
Proof.
  intros Ha Hb s H. unfold bindM, st in *. specialize (Ha s H). destruct (a s) as [[s1 o1] f1]. simpl in *.
  destruct f1; simpl; try exact Ha.
  specialize (Hb s1 Ha). destruct (b s1) as [[s2 o2] f2]. simpl in *. exact Hb.
Qed.
Lemma le7_withS (f : sm -> M) : (forall s0, le7 (f s0)) -> le7 (withS f).
Proof. intros H s. unfold withS. apply H. Qed.
Lemma le7_when b m : le7 m -> le7 (when b m).
Proof. intros H. destruct b; simpl; [exact H|intros s A; exact A]. Qed.
Lemma le7_updr f : (forall l, rS l <= 7 -> rS (f l) <= 7) -> le7 (updr f).
Proof. intros H s A. unfold updr, st. simpl. apply H. exact A. Qed.
Lemma le7_suspend m v ja : le7 m -> le7 (view_tail v ja) -> le7 (suspend_with_tail m v ja).
Proof.
  intros Ha Hb s H. unfold suspend_with_tail, st in *. specialize (Ha s H). destruct (m s) as [[s1 o1] f1]. simpl in *.
  destruct f1; simpl; try exact Ha.
  specialize (Hb s1 Ha). destruct (view_tail v ja s1) as [[s2 o2] f2]. simpl in *. exact Hb.
Qed.

Ltac l7_step :=
  lazymatch goal with
  | |- le7 ret => apply (le7_of_keeps false), keeps_ret
  | |- le7 (stop _) => apply (le7_of_keeps false), keeps_stop
  | |- le7 (say _) => apply (le7_of_keeps false), keeps_say
  | |- le7 (upd _) => apply (le7_of_keeps false), keeps_upd; intros; split; [reflexivity|discriminate]
  | |- le7 (updr _) => apply le7_updr; let l := fresh "l" in let H := fresh "H" in intros l H; fields; steps; try exact H; try lia
  | |- le7 (bindM _ _) => apply le7_bind
  | |- le7 (when _ _) => apply le7_when
  | |- le7 (withS _) => apply le7_withS; let s0 := fresh "s0" in intros s0
  | |- le7 (cm_request _ _ _) => apply (le7_of_keeps false), keeps_cm_request
  | |- le7 (if ?c then _ else _) => destruct c eqn:?
  | |- le7 (match ?x with _ => _ end) => destruct x eqn:?
  end.
Ltac l7 := repeat (l7_step; cbv beta zeta).
Ltac unf_all := unfold handle_view_update, handle_proposal_view, handle_timer_elapsed, record_prevote, record_precommit,
  record_proposed_header, init_after_vrv, init_after_ch, advance_after_vrv, advance_after_ch, enter_round; unf_h.

Lemma le7_view_tail v ja : le7 (view_tail v ja).
Proof. unf_all. l7. Qed.
Lemma le7_handle_view_update v ja : le7 (handle_view_update v ja).
Proof.
  unfold handle_view_update. apply le7_withS. intros s0.
  destruct (v_h v =? 0); [destruct ja; [unf_all; l7|l7]|].
  destruct (negb _); [l7|]. destruct (rVRV (rl s0)); [|l7]. destruct (v_ver v <=? v_ver v0); [l7|]. cbv zeta.
  apply le7_suspend; [|apply le7_view_tail].
  unf_all. l7.
Qed.
Lemma le7_handle_timer_elapsed : le7 handle_timer_elapsed.
Proof. unf_all. l7. Qed.
Lemma le7_handle_height_committed : le7 handle_height_committed.
Proof. unf_all. l7. Qed.
Lemma le7_handle_finalization h r bh vs ash : le7 (handle_finalization h r bh vs ash).
Proof. unf_all. l7. Qed.
Lemma le7_handle_block_data h r d : le7 (handle_block_data h r d).
Proof. unf_all. l7. Qed.
Lemma le7_record_prevote t : le7 (record_prevote t ;; updr (set_rPvCh false)).
Proof. unf_all. l7. Qed.
Lemma le7_record_precommit t : le7 (record_precommit t ;; updr (set_rPcCh false)).
Proof. unf_all. l7. Qed.
Lemma le7_record_proposed_header d : le7 (record_proposed_header d ;; updr (set_rPropCh false) ;; upd (set_propOut 2)).
Proof. unf_all. l7. Qed.
Lemma le7_begin_round_live v : le7 (begin_round_live v).
Proof.
  unfold begin_round_live. destruct (get_step_from_vote_summary (v_vs v)) as [st|]; [|l7].
  destruct (st =? StepAwaitingProposal) eqn:E1.
  { apply N.eqb_eq in E1. subst st. unf_all. l7. }
  destruct (st =? StepAwaitingPrevotes); [l7|].
  destruct (st =? StepAwaitingPrecommits) eqn:E4.
  { apply N.eqb_eq in E4. subst st. unf_all. l7. }
  destruct (st =? StepCommitWait); [|l7]. unf_all. l7.
Qed.
Lemma le7_init_after_vrv v : le7 (init_after_vrv v).
Proof.
  unfold init_after_vrv. apply le7_withS. intros s0. cbv zeta.
  apply le7_bind; [apply (le7_of_keeps false), keeps_reset|].
  apply le7_bind; [l7|]. apply le7_bind; [l7|].
  apply le7_withS. intros s1. cbv zeta. apply le7_bind; [l7|].
  apply le7_withS. intros s2. cbv zeta. apply le7_bind; [unfold emit; l7|].
  apply le7_bind; [apply (le7_of_keeps false), keeps_enter_round|apply le7_begin_round_live].
Qed.
Lemma le7_init_after_ch bh h pr : le7 (init_after_ch bh h pr).
Proof. unf_all. l7. Qed.
Lemma le7_advance_after_vrv v : le7 (advance_after_vrv v).
Proof.
  unfold advance_after_vrv. apply le7_bind; [l7|].
  apply le7_bind; [apply (le7_of_keeps false), keeps_enter_round|apply le7_begin_round_live].
Qed.
Lemma le7_advance_after_ch bh h pr : le7 (advance_after_ch bh h pr).
Proof. unf_all. l7. Qed.
