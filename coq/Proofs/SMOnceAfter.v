(** C08 over ALL event histories of the round state machine model: once the strategy's prevote has been
    signed in a round, the strategy is not asked about its prevote again in that round - neither to
    consider proposed blocks nor to choose one - until a round entrance is announced.
    ([Section Scan2]: a flag set by one kind of output forbids another kind until the next entrance.) *)
From Coq Require Import List NArith String Bool Lia.
From GV Require Import Base.Ints Gen.Math Gen.StepSM Model.StateMachine Model.SMWire Model.SMWalk Proofs.SMStep Proofs.SMOutputs
  Proofs.SMInv Proofs.SMInvH Proofs.SMInvStep Proofs.SMRel Proofs.SMTheorems Proofs.SMInvActs Proofs.SMWitness
  Proofs.SMOnce Proofs.SMOnceRel Proofs.SMOnceStep Proofs.SMOnceHist Proofs.SMOnceSign Proofs.SMOncePH Proofs.SMOnceCons.
Import ListNotations.
Local Open Scope N_scope.

(** [isb] sets the flag, an entrance clears it, [isa] while the flag is set is a violation *)
Fixpoint scan2 (isa isb : out -> bool) (d : bool) (os : list out) : bool * bool :=
  match os with
  | [] => (true, d)
  | o :: os' => if is_ent o then scan2 isa isb false os'
                else if isa o then (if d then (false, true) else scan2 isa isb d os')
                else if isb o then scan2 isa isb true os'
                else scan2 isa isb d os'
  end.

Definition After (isb isa : out -> bool) (os : list out) : Prop :=
  forall a x b y c, os = a ++ x :: b ++ y :: c -> isb x = true -> isa y = true ->
    exists z, In z b /\ is_ent z = true.

Section Scan2Lemmas.
Variables isa isb : out -> bool.
Hypothesis isa_not_ent : forall o, isa o = true -> is_ent o = false.
Hypothesis isb_not_ent : forall o, isb o = true -> is_ent o = false.
Hypothesis isa_not_isb : forall o, isa o = true -> isb o = false.

Lemma scan2_app a : forall d b, fst (scan2 isa isb d a) = true ->
  scan2 isa isb d (a ++ b) = scan2 isa isb (snd (scan2 isa isb d a)) b.
Proof.
  induction a as [|x a IH]; intros d b; simpl; [reflexivity|].
  destruct (is_ent x); [apply IH|]. destruct (isa x); [destruct d; [discriminate|apply IH]|].
  destruct (isb x); apply IH.
Qed.

Lemma scan2_fail_app a : forall d b, fst (scan2 isa isb d a) = false -> fst (scan2 isa isb d (a ++ b)) = false.
Proof.
  induction a as [|x a IH]; intros d b; simpl; [discriminate|].
  destruct (is_ent x); [apply IH|]. destruct (isa x); [destruct d; [reflexivity|apply IH]|].
  destruct (isb x); apply IH.
Qed.

Lemma scan2_noa o : forall d, (forall x, In x o -> isa x = false) ->
  fst (scan2 isa isb d o) = true /\
  (snd (scan2 isa isb d o) = true -> d = true \/ exists y, In y o /\ isb y = true).
Proof.
  induction o as [|x o IH]; intros d H; simpl; [auto|].
  assert (Hx : isa x = false) by (apply H; left; reflexivity).
  assert (Ho : forall y, In y o -> isa y = false) by (intros y Hy; apply H; right; exact Hy).
  rewrite Hx. destruct (is_ent x).
  - destruct (IH false Ho) as [A B]. split; [exact A|]. intros X. destruct (B X) as [X1|(y & Y1 & Y2)]; [discriminate X1|].
    right. exists y. split; [right; exact Y1|exact Y2].
  - destruct (isb x) eqn:Bx.
    + destruct (IH true Ho) as [A B]. split; [exact A|]. intros _. right. exists x. split; [left; reflexivity|exact Bx].
    + destruct (IH d Ho) as [A B]. split; [exact A|]. intros X. destruct (B X) as [X1|(y & Y1 & Y2)]; [left; exact X1|].
      right. exists y. split; [right; exact Y1|exact Y2].
Qed.

Lemma scan2_nob o : (forall y, In y o -> isb y = false) ->
  fst (scan2 isa isb false o) = true /\ snd (scan2 isa isb false o) = false.
Proof.
  induction o as [|x o IH]; intros H; simpl; [auto|].
  assert (Hx : isb x = false) by (apply H; left; reflexivity).
  assert (Ho : forall y, In y o -> isb y = false) by (intros y Hy; apply H; right; exact Hy).
  rewrite Hx. destruct (is_ent x); [exact (IH Ho)|]. destruct (isa x); exact (IH Ho).
Qed.

Lemma scan2_ent_last o' E d : is_ent E = true -> fst (scan2 isa isb d (o' ++ [E])) = true ->
  snd (scan2 isa isb d (o' ++ [E])) = false.
Proof.
  intros HE H. destruct (fst (scan2 isa isb d o')) eqn:F.
  - rewrite scan2_app by exact F. simpl. rewrite HE. reflexivity.
  - rewrite (scan2_fail_app o' d [E] F) in H. discriminate H.
Qed.

Lemma scan2_After os : forall d, fst (scan2 isa isb d os) = true ->
  After isb isa os /\ (d = true -> forall a y c, os = a ++ y :: c -> isa y = true -> exists z, In z a /\ is_ent z = true).
Proof.
  induction os as [|o os IH]; intros d H.
  { split; [intros a x b y c E; destruct a; discriminate E|intros _ a y c E; destruct a; discriminate E]. }
  simpl in H. destruct (is_ent o) eqn:EO.
  - destruct (IH false H) as [A _]. split.
    + intros a x b y c E Hx Hy. destruct a as [|a0 a]; simpl in E; inversion E; subst.
      * rewrite (isb_not_ent _ Hx) in EO. discriminate.
      * eapply A; eauto.
    + intros _ a y c E Hy. destruct a as [|a0 a]; simpl in E; inversion E; subst.
      * rewrite (isa_not_ent _ Hy) in EO. discriminate.
      * exists a0. split; [left; reflexivity|exact EO].
  - destruct (isa o) eqn:IO.
    + destruct d; [discriminate H|]. destruct (IH false H) as [A B]. split; [|discriminate].
      intros a x b y c E Hx Hy. destruct a as [|a0 a]; simpl in E; inversion E; subst.
      * rewrite (isa_not_isb _ IO) in Hx. discriminate Hx.
      * eapply A; eauto.
    + destruct (isb o) eqn:BO.
      * destruct (IH true H) as [A B]. split.
        -- intros a x b y c E Hx Hy. destruct a as [|a0 a]; simpl in E; inversion E; subst.
           ++ exact (B eq_refl b y c eq_refl Hy).
           ++ eapply A; eauto.
        -- intros _ a y c E Hy. destruct a as [|a0 a]; simpl in E; inversion E; subst; [congruence|].
           destruct (B eq_refl a y c eq_refl Hy) as (z & Z1 & Z2). exists z. split; [right; exact Z1|exact Z2].
      * destruct (IH d H) as [A B]. split.
        -- intros a x b y c E Hx Hy. destruct a as [|a0 a]; simpl in E; inversion E; subst; [congruence|eapply A; eauto].
        -- intros -> a y c E Hy. destruct a as [|a0 a]; simpl in E; inversion E; subst; [congruence|].
           destruct (B eq_refl a y c eq_refl Hy) as (z & Z1 & Z2). exists z. split; [right; exact Z1|exact Z2].
Qed.
End Scan2Lemmas.

Section Scan2.
Variables isa isb : out -> bool.
Variable Good : sm -> Prop.
Hypothesis isa_not_ent : forall o, isa o = true -> is_ent o = false.
Hypothesis isb_not_ent : forall o, isb o = true -> is_ent o = false.
Hypothesis isa_not_isb : forall o, isa o = true -> isb o = false.
Hypothesis isa_und : isa OUndeliverable = false.
Hypothesis isb_und : isb OUndeliverable = false.
(** an event does not both ask and sign *)
Hypothesis Hexcl : forall s e x y, In x (snd (step s e)) -> isa x = true -> In y (snd (step s e)) -> isb y = false.
Hypothesis HaskA : forall s e x, rS (rl s) <= 7 -> In x (snd (step s e)) -> isa x = true ->
  (run s = Idle \/ awaiting s) /\ (run s = Idle -> ~ Good s).
Hypothesis HaskB : forall s e y, rS (rl s) <= 7 -> In y (snd (step s e)) -> isb y = true ->
  run (fst (step s e)) = Idle -> Good (fst (step s e)).
Hypothesis Hkeep : forall s e, rS (rl s) <= 7 -> run s = Idle -> run (fst (step s e)) = Idle ->
  Good s -> Good (fst (step s e)).

Definition Iflag2 (d : bool) (s : sm) : Prop :=
  d = true -> match run s with Idle => Good s | AwaitInit | AwaitAdv _ => False | _ => True end.

Lemma Iflag2_idle d s : Iflag2 d s -> d = true -> run s = Idle -> Good s.
Proof. unfold Iflag2. intros H Hd R. specialize (H Hd). rewrite R in H. exact H. Qed.
Lemma Iflag2_await d s : Iflag2 d s -> d = true -> awaiting s -> False.
Proof. unfold Iflag2, awaiting. intros H Hd A. specialize (H Hd). destruct (run s); tauto. Qed.

Lemma existsb_cases (f : out -> bool) (o : list out) :
  (exists x, In x o /\ f x = true) \/ (forall x, In x o -> f x = false).
Proof.
  destruct (existsb f o) eqn:E.
  - left. apply existsb_exists. exact E.
  - right. intros x Hx. destruct (f x) eqn:F; [|reflexivity].
    assert (X : existsb f o = true) by (apply existsb_exists; eauto). congruence.
Qed.

Lemma scan2_step s e d : rS (rl s) <= 7 -> Iflag2 d s ->
  fst (scan2 isa isb d (snd (step s e))) = true /\
  Iflag2 (snd (scan2 isa isb d (snd (step s e)))) (fst (step s e)).
Proof.
  intros L7 HI.
  pose proof (step_await_cases s e L7) as U1. pose proof (step_idle_from s e) as U2.
  pose proof (Hexcl s e) as HX. pose proof (HaskA s e) as HA. pose proof (HaskB s e) as HB. pose proof (Hkeep s e L7) as HK.
  set (o := snd (step s e)) in *. set (s' := fst (step s e)) in *.
  destruct (existsb_cases isa o) as [(x0 & X1 & X2)|NO].
  - (* the strategy is asked about its prevote *)
    destruct (HA x0 L7 X1 X2) as (H1 & H2).
    assert (Hd : d = false).
    { destruct d; [|reflexivity]. exfalso. destruct H1 as [R0|A0]; [exact (H2 R0 (Iflag2_idle _ s HI eq_refl R0))|exact (Iflag2_await _ s HI eq_refl A0)]. }
    subst d. destruct (scan2_nob isa isb o (fun y Hy => HX x0 y X1 X2 Hy)) as [F Sd].
    split; [exact F|]. rewrite Sd. intros X. discriminate X.
  - destruct (scan2_noa isa isb o d NO) as [F B]. split; [exact F|].
    intros Sd. destruct (B Sd) as [Hd|(y & Y1 & Y2)].
    + (* the flag was set before *)
      destruct (run s') eqn:R'; try exact I.
      * assert (A : awaiting s') by (unfold awaiting; rewrite R'; exact I).
        destruct (U1 A) as [(o' & pk & act & E)|[A0 _]]; [|exact (Iflag2_await d s HI Hd A0)].
        fold o in E. rewrite E in F, Sd.
        rewrite (scan2_ent_last isa isb o' (ORoundEntrance (rH (rl s')) (rR (rl s')) pk act) d eq_refl F) in Sd. discriminate Sd.
      * assert (A : awaiting s') by (unfold awaiting; rewrite R'; exact I).
        destruct (U1 A) as [(o' & pk & act & E)|[A0 _]]; [|exact (Iflag2_await d s HI Hd A0)].
        fold o in E. rewrite E in F, Sd.
        rewrite (scan2_ent_last isa isb o' (ORoundEntrance (rH (rl s')) (rR (rl s')) pk act) d eq_refl F) in Sd. discriminate Sd.
      * destruct (U2 eq_refl) as [R0|A0]; [|destruct (Iflag2_await d s HI Hd A0)].
        apply HK; [exact R0|reflexivity|exact (Iflag2_idle d s HI Hd R0)].
    + (* the prevote is signed in this event *)
      destruct (run s') eqn:R'; try exact I.
      * assert (A : awaiting s') by (unfold awaiting; rewrite R'; exact I).
        destruct (U1 A) as [(o' & pk & act & E)|[_ [E|E]]]; fold o in E.
        -- rewrite E in F, Sd.
           rewrite (scan2_ent_last isa isb o' (ORoundEntrance (rH (rl s')) (rR (rl s')) pk act) d eq_refl F) in Sd. discriminate Sd.
        -- rewrite E in Y1. destruct Y1.
        -- rewrite E in Y1. destruct Y1 as [<-|[]]. rewrite isb_und in Y2. discriminate Y2.
      * assert (A : awaiting s') by (unfold awaiting; rewrite R'; exact I).
        destruct (U1 A) as [(o' & pk & act & E)|[_ [E|E]]]; fold o in E.
        -- rewrite E in F, Sd.
           rewrite (scan2_ent_last isa isb o' (ORoundEntrance (rH (rl s')) (rR (rl s')) pk act) d eq_refl F) in Sd. discriminate Sd.
        -- rewrite E in Y1. destruct Y1.
        -- rewrite E in Y1. destruct Y1 as [<-|[]]. rewrite isb_und in Y2. discriminate Y2.
      * exact (HB y L7 Y1 Y2 eq_refl).
Qed.

Lemma scan2_hist es : forall s d, rS (rl s) <= 7 -> Iflag2 d s ->
  fst (scan2 isa isb d (List.concat (run_events s es))) = true.
Proof.
  induction es as [|e es IH]; intros s d L7 HI; simpl; [reflexivity|].
  destruct (scan2_step s e d L7 HI) as [F I1]. pose proof (step_le7 s e L7) as L71.
  destruct (step s e) as [s1 o]. simpl in *.
  rewrite (scan2_app isa isb o d _ F). apply IH; assumption.
Qed.

Theorem after_hist sg es : After isb isa (List.concat (run_events (sm0 sg) es)).
Proof.
  apply (scan2_After isa isb isa_not_ent isb_not_ent isa_not_isb _ false). apply scan2_hist; [vm_compute; discriminate|].
  intros X. discriminate X.
Qed.
End Scan2.

(** ** the instance *)
Definition is_prevote_ask (o : out) : bool := match o with OConsider _ _ _ _ | OChoose _ => true | _ => false end.

(** the machine is past AwaitingProposal and its prevote channel is closed *)
Definition pv_done (s : sm) : Prop := rS (rl s) <> StepAwaitingProposal /\ rPvCh (rl s) = false.

Lemma record_prevote_leaves_proposal t :
  tg (fun _ => True) (record_prevote t ;; updr (set_rPvCh false)) (fun s => rS (rl s) <> StepAwaitingProposal).
Proof.
  apply (tg_bind (fun s => rS (rl s) <> StepAwaitingProposal)); [|apply tg_updr; intros s H; exact H].
  unfold record_prevote. apply tg_withS. intros s0 _. cbv zeta.
  apply (tg_bind (fun s => rS (rl s) = rS (rl s0))).
  { apply (tg_pre _ (Eq (rS (rl s0)))); [intros s <-; reflexivity|].
    apply tg_when; [intros _|auto].
    apply (tg_bind (Eq (rS (rl s0)))); [apply tg_say; auto|].
    destruct (ra_pv (cur_ra s0)).
    - apply (tg_bind (Eq (rS (rl s0)))); [apply tg_say; auto|apply tg_stop; discriminate].
    - apply (tg_bind (Eq (rS (rl s0)))); [apply tg_upd; lfA|].
      apply (tg_bind (Eq (rS (rl s0)))); [apply tg_say; auto|kfA]. }
  destruct (rS (rl s0) =? StepAwaitingProposal) eqn:E; simpl.
  - apply (tg_bind (fun s => rS (rl s) <> StepAwaitingProposal)).
    + apply tg_updr. intros s _. fields. steps. discriminate.
    + apply (tg_keeps false); [|kl]. intros s s' A _ H. rewrite A. exact H.
  - apply tg_ret. intros s H. rewrite H. apply N.eqb_neq. exact E.
Qed.

Lemma sign_pv_event s e y : In y (snd (step s e)) -> is_sign_k KPv y = true ->
  reqs (snd (step s e)) = [] /\
  (run (fst (step s e)) = Idle -> rS (rl (fst (step s e))) <> StepAwaitingProposal).
Proof.
  intros Hy Hk.
  assert (Hs : In y (signs (snd (step s e)))) by (apply filter_In; split; [exact Hy|apply (is_sign_k_sign KPv); exact Hk]).
  destruct (sign_step s e) as [E|[(Rn & t & -> & [(E & C & Cl)|(E & C & Cl)])|(Rn & d & -> & E & C & Cl)]];
    rewrite E in Hs; simpl in Hs; try contradiction; destruct Hs as [<-|[]]; try discriminate Hk.
  clear Hk Hy. revert E. unfold step.
  destruct (deliverable s (EvAnswer 0 t)) eqn:D; [|simpl; intros X; discriminate X].
  assert (CM : cm s <> None).
  { unfold deliverable in D. apply andb_true_iff in D. destruct D as [_ D]. destruct (cm s); [discriminate|discriminate D]. }
  pose proof (dispatch_EF (set_pend 0 s) (EvAnswer 0 t)) as [_ [Q|(Q & _)]]; [|destruct (CM Q)].
  unfold dispatch in *. change (cm (set_pend 0 s)) with (cm s) in *.
  destruct (cm s) as [[[ck g] op]|]; [|simpl; intros X; discriminate X]. cbv zeta in *.
  change ((0 =? 1) && (ck =? K_consider)) with false in *. cbv iota in *.
  destruct (negb op); [simpl; intros X; discriminate X|].
  match goal with |- context [if ?b then _ else _] => destruct b end; [|simpl; intros X; discriminate X].
  change (0 =? 0) with true in *. cbv iota in *.
  destruct (ck =? K_decide).
  - intros X. exfalso. revert X.
    set (r := (record_precommit t;; updr (set_rPcCh false)) (set_cm None (set_pend 0 s))).
    destruct (finish r) as [sf of] eqn:EF. simpl.
    assert (Z : signs of = signs (ou r)) by (change of with (snd (sf, of)); rewrite <- EF; apply finish_signs).
    rewrite Z. destruct (record_precommit_signs t (set_cm None (set_pend 0 s))) as [W|W]; fold r in W; rewrite W; discriminate.
  - intros _.
    set (r := (record_prevote t;; updr (set_rPvCh false)) (set_cm None (set_pend 0 s))) in *.
    destruct (finish r) as [sf of] eqn:EF. simpl in *. split; [exact Q|].
    intros RI. assert (RI' : run (fst (finish r)) = Idle) by (rewrite EF; exact RI).
    destruct (finish_idle r RI') as (G & RL & _).
    change sf with (fst (sf, of)). rewrite <- EF, RL.
    exact (record_prevote_leaves_proposal t _ I G).
Qed.

(** after the prevote of a round has been signed the strategy is not asked about its prevote again
    (neither consider nor choose) before the next round entrance *)
Theorem no_prevote_ask_after_sign sg es :
  After (is_sign_k KPv) is_prevote_ask (List.concat (run_events (sm0 sg) es)).
Proof.
  apply (after_hist is_prevote_ask (is_sign_k KPv) pv_done).
  - intros o H. destruct o; try discriminate H; reflexivity.
  - intros o H. destruct o; try discriminate H; reflexivity.
  - intros o H. destruct o; try discriminate H; reflexivity.
  - reflexivity.
  - (* an event does not both ask and sign *)
    intros s e x y Hx Ex Hy. destruct (is_sign_k KPv y) eqn:K; [|reflexivity]. exfalso.
    destruct (sign_pv_event s e y Hy K) as [Q _].
    assert (X : exists k, In k (reqs (snd (step s e)))).
    { destruct x; try discriminate Ex.
      - exists K_consider. apply (in_consider_reqs _ (OConsider phs new upd maj)); [exact Hx|reflexivity].
      - exists K_choose. apply (in_choose_reqs _ (OChoose phs)); [exact Hx|reflexivity]. }
    destruct X as [k X]. rewrite Q in X. destruct X.
  - (* asking needs: not yet past the proposal step, or the prevote channel open *)
    intros s e x L7 Hx Ex. destruct x; try discriminate Ex.
    + destruct (consider_step s e _ Hx eq_refl) as (_ & [(A & _)|[(Rn & S1 & _)|(Rn & P & _)]]).
      * split; [right; exact A|intros X; destruct (awaiting_not_idle _ A X)].
      * split; [left; exact Rn|intros _ [N1 _]; exact (N1 S1)].
      * split; [left; exact Rn|intros _ [_ N2]; congruence].
    + pose proof (in_choose_reqs _ _ Hx eq_refl) as X.
      destruct (event_eq_stop e) as [->|NS].
      { destruct (stop_step s) as [[_ O]|(_ & O & _)]; cbv zeta in O; rewrite O in X; destruct X. }
      destruct (run_cases s) as [Rn|[Aw|[Rn|Dd]]].
      * destruct (nst_step s e Rn NS) as (Q & _). cbv zeta in Q. rewrite Q in X. destruct X.
      * split; [right; exact Aw|intros Y; destruct (awaiting_not_idle _ Aw Y)].
      * destruct (idle_step s e Rn L7 NS) as (_ & _ & _ & _ & _ & F6 & _). destruct (F6 X) as [S1 _].
        split; [left; exact Rn|intros _ [N1 _]; exact (N1 S1)].
      * destruct (dead_step s e Dd NS) as (_ & Q & _). cbv zeta in Q. rewrite Q in X. destruct X.
  - (* signing leaves the proposal step and closes the prevote channel *)
    intros s e y L7 Hy Ky RI. destruct (sign_pv_event s e y Hy Ky) as [_ N1].
    destruct (sign_k_facts s e KPv y Hy Ky) as (_ & _ & _ & Cl & _).
    split; [exact (N1 RI)|exact (Cl RI)].
  - (* idle to idle: AwaitingProposal is not re-entered, channels only close *)
    intros s e L7 Rn Rn' [N1 N2]. pose proof (step_keep s e L7 Rn Rn') as ((K1 & _ & K3 & _) & _).
    split; [intros X; exact (N1 (K3 X))|]. destruct (rPvCh (rl (fst (step s e)))); [rewrite (K1 eq_refl) in N2; discriminate|reflexivity].
Qed.

(** non-vacuity: consider, not ready; choose at the proposal timeout; the prevote is signed; nothing is asked
    about the prevote afterwards although another proposed header and its block data arrive *)
Definition ex_after_hist : list event :=
  [ EvStart; EvRERespVRV (mkv 1 0 1 (vs_of 0 0 [] []) [gph 7]); EvAnswer 1 [];
    EvTimer; EvAnswer 0 [7];
    EvView (mkv 1 0 2 (vs_of 0 0 [] []) [gph 7; gph 8]) None; EvBlockData 1 0 [108] ].
Example ex_no_ask_after_sign :
  filter (fun o => is_prevote_ask o || is_sign_k KPv o) (List.concat (run_events (sm0 true) ex_after_hist)) =
    [ OConsider [[7]] [[7]] [] false; OChoose [[7]]; OSignPrevote 1 0 [7] ].
Proof. vm_compute. reflexivity. Qed.
