(** C13 (BLS tree) - model_satisfies_monitor: for every operation sequence whose key sets have at most 32768
    keys, the monitor C13Blsm accepts the model's own run. *)
From Coq Require Import List NArith ZArith String Bool Lia Arith Permutation.
From GV Require Import Base.Ints Model.SimpleProofBase Model.BlsTree Monitors.C13Blsm
  Proofs.BlsTreeBase Proofs.BlsTreeAdd Proofs.BlsTreeProof Proofs.BlsTreeMachine Proofs.BlsTreeSparse
  Proofs.BlsTreeMerge Proofs.BlsTreeRoundtrip Proofs.BlsTreeClosed Proofs.BlsTreeMonBase.
Import ListNotations.
Local Open Scope N_scope.

(* ------------------------------------------------------------------ keys are a function of n *)
Lemma nth_error_ext' : forall A (l l' : list A), (forall i, nth_error l i = nth_error l' i) -> l = l'.
Proof.
  induction l as [|a l IH]; intros [|b l'] H; auto.
  - specialize (H O). discriminate.
  - specialize (H O). discriminate.
  - pose proof (H O) as H0. cbn in H0. inversion H0; subst. f_equal. apply IH. intro i. apply (H (S i)).
Qed.

Lemma wf_keys_eq : forall h t t', wf_tree h t -> wf_tree h t' -> t_n t = t_n t' -> t_keys t = t_keys t'.
Proof.
  intros h t t' A B En. apply nth_error_ext'. intro i.
  destruct (N.ltb (N.of_nat i) (2 * p2 h - 1)) eqn:E.
  - apply N.ltb_lt in E. destruct (node_exists h (N.of_nat i) E) as (d & off & Hd & Ho & Hi).
    pose proof (wf_keys _ _ A d off Hd Ho) as KA. pose proof (wf_keys _ _ B d off Hd Ho) as KB.
    unfold nthN in KA, KB. rewrite <- Hi, Nat2N.id in KA, KB. rewrite KA, KB, En. reflexivity.
  - apply N.ltb_ge in E.
    assert (X : nth_error (t_keys t) i = None).
    { apply nth_error_None. pose proof (wf_keys_len _ _ A) as L. unfold lenN in L. lia. }
    assert (Y : nth_error (t_keys t') i = None).
    { apply nth_error_None. pose proof (wf_keys_len _ _ B) as L. unfold lenN in L. lia. }
    congruence.
Qed.

Lemma wf_same_h : forall h h' t t', wf_tree h t -> wf_tree h' t' -> t_n t = t_n t' -> h = h'.
Proof.
  intros h h' t t' A B E. apply p2_inj. rewrite <- (wf_lw _ _ A), <- (wf_lw _ _ B), E. reflexivity.
Qed.

Lemma pinv_keys_eq : forall p q, pinv p -> pinv q -> t_n (p_tree p) = t_n (p_tree q) ->
  t_keys (p_tree p) = t_keys (p_tree q).
Proof.
  intros p q [h (A & _)] [h' (B & _)] E. pose proof (wf_same_h _ _ _ _ A B E). subst h'.
  eapply wf_keys_eq; eauto.
Qed.

(* ------------------------------------------------------------------ keys, leaves, verification *)
Lemma listN_eqb_sym : forall a b, listN_eqb a b = listN_eqb b a.
Proof. induction a; destruct b; cbn; auto. rewrite N.eqb_sym, IHa. reflexivity. Qed.

Lemma key_at_leaves : forall h t id, wf_tree h t -> id < 2 * p2 h - 1 ->
  (key_at (t_keys t) id = None /\ leaves_of (t_keys t) id = []) \/
  (exists y k, key_at (t_keys t) id = Some (y :: k) /\ leaves_of (t_keys t) id = y :: k).
Proof.
  intros h t id Hwf Hid. destruct (node_exists h id Hid) as (d & off & Hd & Ho & ->).
  unfold key_at, leaves_of. rewrite (wf_keys _ _ Hwf d off Hd Ho).
  destruct (rkey (t_n t) (off * p2 (h - d)) (p2 (h - d))) as [ks|] eqn:E; [|left; auto].
  pose proof (rkey_some_nonempty _ _ _ _ (p2_pos (h - d)) E) as Hne.
  destruct ks as [|y k]; [congruence|]. right. eauto.
Qed.

Lemma genuine_verify : forall h t msg id sg, wf_tree h t -> t_n t <= 65535 -> id < 2 * p2 h - 1 ->
  genuine (t_n t) msg id sg = verify (key_at (t_keys t) id) msg sg.
Proof.
  intros h t msg id sg Hwf Hn Hid. unfold genuine.
  rewrite (leaves_under_idx h t id Hwf Hn) by (rewrite (n_nodes_wf h t Hwf Hn); exact Hid).
  destruct (key_at_leaves h t id Hwf Hid) as [[A B]|(y & k & A & B)]; rewrite A, B; unfold verify.
  - destruct sg as [m [|x l]| |]; reflexivity.
  - destruct sg as [m [|x l]| |]; try reflexivity.
    + cbn [listN_eqb]. now rewrite andb_false_r.
    + f_equal. apply (listN_eqb_sym (x :: l) (y :: k)).
Qed.

Lemma entry_mask_spec : forall h t msg m e, wf_tree h t -> t_n t <= 65535 ->
  m_n m = t_n t -> m_msg m = msg ->
  entry_mask m e = if entry_ok (t_keys t) msg e then Some (mask_of (entry_leaves (t_keys t) e)) else None.
Proof.
  intros h t msg m [kid sg] Hwf Hn En Em. unfold entry_mask, entry_ok, entry_leaves. cbn [fst snd].
  destruct kid as [|x [|y [|z kid']]]; try reflexivity.
  rewrite En, Em, (n_nodes_wf h t Hwf Hn), (wf_keys_len _ _ Hwf).
  destruct (x * 256 + y <? 2 * p2 h - 1) eqn:E; cbn [andb]; [|reflexivity].
  apply N.ltb_lt in E. rewrite (genuine_verify h t msg _ sg Hwf Hn E).
  destruct (verify (key_at (t_keys t) (x * 256 + y)) msg sg); [|reflexivity].
  rewrite (leaves_under_idx h t _ Hwf Hn) by (rewrite (n_nodes_wf h t Hwf Hn); exact E). reflexivity.
Qed.

Lemma exp_entries_spec : forall h t msg m, wf_tree h t -> t_n t <= 65535 -> m_n m = t_n t -> m_msg m = msg ->
  forall ents b av,
    snd (exp_entries m ents b av) = av && forallb (entry_ok (t_keys t) msg) ents /\
    forall i, N.testbit (fst (exp_entries m ents b av)) i = true <->
              N.testbit b i = true \/
              exists e, In e ents /\ entry_ok (t_keys t) msg e = true /\ In i (entry_leaves (t_keys t) e).
Proof.
  intros h t msg m Hwf Hn En Em. induction ents as [|e rest IH]; intros b av; cbn [exp_entries forallb].
  - cbn [fst snd]. rewrite andb_true_r. split; [reflexivity|]. intro i. split; [auto|]. intros [A|(e & [] & _)]. exact A.
  - rewrite (entry_mask_spec h t msg m e Hwf Hn En Em).
    destruct (entry_ok (t_keys t) msg e) eqn:Eo.
    + destruct (IH (N.lor b (mask_of (entry_leaves (t_keys t) e))) av) as [A B]. split; [rewrite A; reflexivity|].
      intro i. rewrite B, lor_mask_iff. split.
      * intros [[X|X]|(e' & X & Y)]; [auto| |].
        -- right. exists e. split; [left; reflexivity|auto].
        -- right. exists e'. split; [right; assumption|assumption].
      * intros [X|(e' & [X|X] & Y & Z)]; [auto| |].
        -- subst e'. auto.
        -- right. exists e'. auto.
    + destruct (IH b false) as [A B]. split; [rewrite A; cbn; now rewrite andb_false_r|].
      intro i. rewrite B. split.
      * intros [X|(e' & X & Y)]; [auto|]. right. exists e'. split; [right; assumption|assumption].
      * intros [X|(e' & [X|X] & Y & Z)]; [auto| |].
        -- subst e'. congruence.
        -- right. exists e'. auto.
Qed.

(* ------------------------------------------------------------------ the simulation relation *)
Definition good (p : proof) : Prop := pinv p /\ t_n (p_tree p) <= 32768.

Definition rel1 (p : proof) (m : mreg) : Prop :=
  good p /\ m_n m = t_n (p_tree p) /\ m_msg m = p_msg p /\ m_hash m = p_hash p /\ m_bits m = p_bits p.

Definition R (rs : regs) (ms : mregs) : Prop :=
  forall r, match reg_get rs r, mget ms r with
            | Some p, Some m => rel1 p m
            | None, None => True
            | _, _ => False
            end.

Lemma R_set : forall rs ms r p m, R rs ms -> rel1 p m -> R (reg_set rs r p) (mset ms r m).
Proof.
  intros rs ms r p m H Hr r'. unfold reg_set, mset. cbn [reg_get mget]. destruct (Nat.eqb r r'); [exact Hr|apply H].
Qed.

Lemma R_get : forall rs ms r, R rs ms ->
  (exists p m, reg_get rs r = Some p /\ mget ms r = Some m /\ rel1 p m) \/ (reg_get rs r = None /\ mget ms r = None).
Proof.
  intros rs ms r H. specialize (H r). destruct (reg_get rs r) as [p|], (mget ms r) as [m|]; try contradiction;
    [left; exists p, m; auto | right; auto].
Qed.

Lemma flags_ok_model : forall n av inc sup bits, (forall i, N.testbit bits i = true -> i < n) ->
  flags_ok n (obs_flags (mk_flags av inc sup) bits) av inc sup bits = true.
Proof.
  intros. unfold flags_ok, obs_flags. cbn [f_all_valid f_increased f_superset].
  rewrite !N.eqb_refl, bits_ok_model by assumption. reflexivity.
Qed.

Lemma is_superset_of : forall a b, (forall i, N.testbit b i = true -> N.testbit a i = true) -> is_superset a b = true.
Proof.
  intros a b H. unfold is_superset. apply N.eqb_eq. apply N.bits_inj. intro i. rewrite N.land_spec.
  specialize (H i). destruct (N.testbit b i) eqn:Eb; [rewrite (H eq_refl); reflexivity | apply andb_false_r].
Qed.

Lemma with_bits_rel : forall p m p', rel1 p m -> good p' -> t_n (p_tree p') = t_n (p_tree p) ->
  p_msg p' = p_msg p -> p_hash p' = p_hash p -> rel1 p' (with_bits m (p_bits p')).
Proof.
  intros p m p' (G & A & B & C & D) G' E1 E2 E3. unfold rel1, with_bits. cbn. repeat split; try apply G'; congruence.
Qed.
