(** C13 (BLS tree) - model_satisfies_monitor: for every operation sequence whose key sets have at most 32768
    keys, the monitor C13Blsm accepts the model's own run. *)
From Coq Require Import List NArith ZArith String Bool Lia Arith Permutation.
From GV Require Import Base.Ints Model.SimpleProofBase Model.BlsTree Monitors.C13Blsm
  Proofs.BlsTreeBase Proofs.BlsTreeAdd Proofs.BlsTreeProof Proofs.BlsTreeMachine Proofs.BlsTreeSparse
  Proofs.BlsTreeMerge Proofs.BlsTreeRoundtrip Proofs.BlsTreeClosed Proofs.BlsTreeMonBase Proofs.BlsTreeWitness.
Import ListNotations.
Local Open Scope N_scope.

(* ------------------------------------------------------------------ keys are a function of n *)
Lemma nth_error_ext' : forall A (l l' : list A), (forall i, nth_error l i = nth_error l' i) -> l = l'.
Proof.
  induction l as [|a l IH]; intros [|b l'] H; auto.
  - specialize (H O). discriminate.
  - specialize (H O). discriminate.
  - pose proof (H O) as H0. cbn in H0. inversion H0; subst. f_equal. apply IH. intro i. apply (H (S i)).
Qed.

Lemma wf_keys_eq : forall h t t', wf_tree h t -> wf_tree h t' -> t_n t = t_n t' -> t_keys t = t_keys t'.
Proof.
  intros h t t' A B En. apply nth_error_ext'. intro i.
  destruct (N.ltb (N.of_nat i) (2 * p2 h - 1)) eqn:E.
  - apply N.ltb_lt in E. destruct (node_exists h (N.of_nat i) E) as (d & off & Hd & Ho & Hi).
    pose proof (wf_keys _ _ A d off Hd Ho) as KA. pose proof (wf_keys _ _ B d off Hd Ho) as KB.
    unfold nthN in KA, KB. rewrite <- Hi, Nat2N.id in KA, KB. rewrite KA, KB, En. reflexivity.
  - apply N.ltb_ge in E.
    assert (X : nth_error (t_keys t) i = None).
    { apply nth_error_None. pose proof (wf_keys_len _ _ A) as L. unfold lenN in L. lia. }
    assert (Y : nth_error (t_keys t') i = None).
    { apply nth_error_None. pose proof (wf_keys_len _ _ B) as L. unfold lenN in L. lia. }
    congruence.
Qed.

Lemma wf_same_h : forall h h' t t', wf_tree h t -> wf_tree h' t' -> t_n t = t_n t' -> h = h'.
Proof.
  intros h h' t t' A B E. apply p2_inj. rewrite <- (wf_lw _ _ A), <- (wf_lw _ _ B), E. reflexivity.
Qed.

Lemma pinv_keys_eq : forall p q, pinv p -> pinv q -> t_n (p_tree p) = t_n (p_tree q) ->
  t_keys (p_tree p) = t_keys (p_tree q).
Proof.
  intros p q [h (A & _)] [h' (B & _)] E. pose proof (wf_same_h _ _ _ _ A B E). subst h'.
  eapply wf_keys_eq; eauto.
Qed.

(* ------------------------------------------------------------------ keys, leaves, verification *)
Lemma listN_eqb_sym : forall a b, listN_eqb a b = listN_eqb b a.
Proof. induction a; destruct b; cbn; auto. rewrite N.eqb_sym, IHa. reflexivity. Qed.

Lemma key_at_leaves : forall h t id, wf_tree h t -> id < 2 * p2 h - 1 ->
  (key_at (t_keys t) id = None /\ leaves_of (t_keys t) id = []) \/
  (exists y k, key_at (t_keys t) id = Some (y :: k) /\ leaves_of (t_keys t) id = y :: k).
Proof.
  intros h t id Hwf Hid. destruct (node_exists h id Hid) as (d & off & Hd & Ho & ->).
  unfold key_at, leaves_of. rewrite (wf_keys _ _ Hwf d off Hd Ho).
  destruct (rkey (t_n t) (off * p2 (h - d)) (p2 (h - d))) as [ks|] eqn:E; [|left; auto].
  pose proof (rkey_some_nonempty _ _ _ _ (p2_pos (h - d)) E) as Hne.
  destruct ks as [|y k]; [congruence|]. right. eauto.
Qed.

Lemma genuine_verify : forall h t msg id sg, wf_tree h t -> t_n t <= 65535 -> id < 2 * p2 h - 1 ->
  genuine (t_n t) msg id sg = verify (key_at (t_keys t) id) msg sg.
Proof.
  intros h t msg id sg Hwf Hn Hid. unfold genuine.
  rewrite (leaves_under_idx h t id Hwf Hn) by (rewrite (n_nodes_wf h t Hwf Hn); exact Hid).
  destruct (key_at_leaves h t id Hwf Hid) as [[A B]|(y & k & A & B)]; rewrite A, B; unfold verify.
  - destruct sg as [m [|x l]| |]; reflexivity.
  - destruct sg as [m [|x l]| |]; try reflexivity.
    + cbn [listN_eqb]. now rewrite andb_false_r.
    + f_equal. apply (listN_eqb_sym (x :: l) (y :: k)).
Qed.

Lemma entry_mask_spec : forall h t msg m e, wf_tree h t -> t_n t <= 65535 ->
  m_n m = t_n t -> m_msg m = msg ->
  entry_mask m e = if entry_ok (t_keys t) msg e then Some (mask_of (entry_leaves (t_keys t) e)) else None.
Proof.
  intros h t msg m [kid sg] Hwf Hn En Em. unfold entry_mask, entry_ok, entry_leaves. cbn [fst snd].
  destruct kid as [|x [|y [|z kid']]]; try reflexivity.
  rewrite En, Em, (n_nodes_wf h t Hwf Hn), (wf_keys_len _ _ Hwf).
  destruct (x * 256 + y <? 2 * p2 h - 1) eqn:E; cbn [andb]; [|reflexivity].
  apply N.ltb_lt in E. rewrite (genuine_verify h t msg _ sg Hwf Hn E).
  destruct (verify (key_at (t_keys t) (x * 256 + y)) msg sg); [|reflexivity].
  rewrite (leaves_under_idx h t _ Hwf Hn) by (rewrite (n_nodes_wf h t Hwf Hn); exact E). reflexivity.
Qed.

Lemma exp_entries_spec : forall h t msg m, wf_tree h t -> t_n t <= 65535 -> m_n m = t_n t -> m_msg m = msg ->
  forall ents b av,
    snd (exp_entries m ents b av) = av && forallb (entry_ok (t_keys t) msg) ents /\
    forall i, N.testbit (fst (exp_entries m ents b av)) i = true <->
              N.testbit b i = true \/
              exists e, In e ents /\ entry_ok (t_keys t) msg e = true /\ In i (entry_leaves (t_keys t) e).
Proof.
  intros h t msg m Hwf Hn En Em. induction ents as [|e rest IH]; intros b av; cbn [exp_entries forallb].
  - cbn [fst snd]. rewrite andb_true_r. split; [reflexivity|]. intro i. split; [auto|]. intros [A|(e & [] & _)]. exact A.
  - rewrite (entry_mask_spec h t msg m e Hwf Hn En Em).
    destruct (entry_ok (t_keys t) msg e) eqn:Eo.
    + destruct (IH (N.lor b (mask_of (entry_leaves (t_keys t) e))) av) as [A B]. split; [rewrite A; reflexivity|].
      intro i. rewrite B, lor_mask_iff. split.
      * intros [[X|X]|(e' & X & Y)]; [auto| |].
        -- right. exists e. split; [left; reflexivity|auto].
        -- right. exists e'. split; [right; assumption|assumption].
      * intros [X|(e' & [X|X] & Y & Z)]; [auto| |].
        -- subst e'. auto.
        -- right. exists e'. auto.
    + destruct (IH b false) as [A B]. split; [rewrite A; cbn; now rewrite andb_false_r|].
      intro i. rewrite B. split.
      * intros [X|(e' & X & Y)]; [auto|]. right. exists e'. split; [right; assumption|assumption].
      * intros [X|(e' & [X|X] & Y & Z)]; [auto| |].
        -- subst e'. congruence.
        -- right. exists e'. auto.
Qed.

(* ------------------------------------------------------------------ the simulation relation *)
Definition good (p : proof) : Prop := pinv p /\ t_n (p_tree p) <= 32768.

Definition rel1 (p : proof) (m : mreg) : Prop :=
  good p /\ m_n m = t_n (p_tree p) /\ m_msg m = p_msg p /\ m_hash m = p_hash p /\ m_bits m = p_bits p.

Definition R (rs : regs) (ms : mregs) : Prop :=
  forall r, match reg_get rs r, mget ms r with
            | Some p, Some m => rel1 p m
            | None, None => True
            | _, _ => False
            end.

Lemma R_set : forall rs ms r p m, R rs ms -> rel1 p m -> R (reg_set rs r p) (mset ms r m).
Proof.
  intros rs ms r p m H Hr r'. unfold reg_set, mset. cbn [reg_get mget]. destruct (Nat.eqb r r'); [exact Hr|apply H].
Qed.

Lemma R_get : forall rs ms r, R rs ms ->
  (exists p m, reg_get rs r = Some p /\ mget ms r = Some m /\ rel1 p m) \/ (reg_get rs r = None /\ mget ms r = None).
Proof.
  intros rs ms r H. specialize (H r). destruct (reg_get rs r) as [p|], (mget ms r) as [m|]; try contradiction;
    [left; exists p, m; auto | right; auto].
Qed.

Lemma flags_ok_model : forall n av inc sup bits, (forall i, N.testbit bits i = true -> i < n) ->
  flags_ok n (obs_flags (mk_flags av inc sup) bits) av inc sup bits = true.
Proof.
  intros. unfold flags_ok, obs_flags. cbn [f_all_valid f_increased f_superset].
  rewrite !N.eqb_refl, bits_ok_model by assumption. reflexivity.
Qed.

Lemma is_superset_of : forall a b, (forall i, N.testbit b i = true -> N.testbit a i = true) -> is_superset a b = true.
Proof.
  intros a b H. unfold is_superset. apply N.eqb_eq. apply N.bits_inj. intro i. rewrite N.land_spec.
  specialize (H i). destruct (N.testbit b i) eqn:Eb; [rewrite (H eq_refl); reflexivity | apply andb_false_r].
Qed.

Lemma with_bits_rel : forall p m p', rel1 p m -> good p' -> t_n (p_tree p') = t_n (p_tree p) ->
  p_msg p' = p_msg p -> p_hash p' = p_hash p -> rel1 p' (with_bits m (p_bits p')).
Proof.
  intros p m p' (G & A & B & C & D) G' E1 E2 E3. unfold rel1, with_bits. cbn. repeat split; try apply G'; congruence.
Qed.

(* ------------------------------------------------------------------ per operation *)
Definition sim (rs : regs) (ms : mregs) (o : bop) : Prop :=
  exists ms', mon_step ms o (snd (step rs o)) = Some ms' /\ R (fst (step rs o)) ms'.

Lemma R_update_same : forall rs ms r p' m, R rs ms -> mget ms r = Some m -> rel1 p' m -> R (reg_set rs r p') ms.
Proof.
  intros rs ms r p' m H E Hr r'. unfold reg_set. cbn [reg_get]. destruct (Nat.eqb r r') eqn:Er; [|apply H].
  apply Nat.eqb_eq in Er. subst r'. rewrite E. exact Hr.
Qed.

Lemma obs_eqb_refl : forall l, obs_eqb l l = true.
Proof. intro. unfold obs_eqb. apply listN_eqb_refl. Qed.

Lemma good_bits_lt : forall p m, rel1 p m -> forall i, N.testbit (p_bits p) i = true -> i < m_n m.
Proof. intros p m ((Hp & _) & An & _) i Hi. rewrite An. now apply pinv_bits_lt. Qed.

Lemma sim_new : forall rs ms r n msg hash, R rs ms -> (n <= 32768 \/ 65535 < n) -> sim rs ms (BNew r n msg hash).
Proof.
  intros rs ms r n msg hash H Hn. unfold sim. cbn [step mon_step].
  destruct ((n <? 1) || (65535 <? n)) eqn:E.
  - apply orb_true_iff in E.
    assert (Hb : n < 1 \/ 65535 < n) by (destruct E as [E|E]; apply N.ltb_lt in E; auto).
    destruct (new_proof_panics msg n hash Hb) as [s Es]. rewrite Es. cbn [fst snd]. rewrite obs_eqb_refl. eauto.
  - apply orb_false_iff in E. destruct E as [E1 E2]. apply N.ltb_ge in E1. apply N.ltb_ge in E2.
    destruct (new_proof_pinv msg n hash (conj E1 E2)) as (p & Ep & Hp & Hb & Hn'). rewrite Ep. cbn [fst snd].
    rewrite obs_eqb_refl. eexists. split; [reflexivity|]. apply R_set; [assumption|].
    unfold new_proof in Ep. destruct (tree_new n) as [t|]; [|discriminate]. inversion Ep; subst p.
    unfold rel1, good. cbn [m_n m_msg m_hash m_bits p_msg p_hash p_tree] in *. repeat split; auto; lia.
Qed.

Lemma sim_noreg1 : forall rs ms r o, R rs ms -> reg_get rs r = None -> mget ms r = None ->
  (snd (step rs o) = obs_noreg /\ fst (step rs o) = rs) -> mon_step ms o obs_noreg = Some ms -> sim rs ms o.
Proof. intros rs ms r o H _ _ [A B] C. unfold sim. rewrite A, B, C. eauto. Qed.

Lemma sim_bits : forall rs ms r, R rs ms -> sim rs ms (BBits r).
Proof.
  intros rs ms r H. unfold sim. cbn [step mon_step].
  destruct (R_get rs ms r H) as [(p & m & E1 & E2 & Hr)|(E1 & E2)]; rewrite E1, E2; cbn [fst snd].
  - unfold signature_bitset. pose proof Hr as (_ & _ & _ & _ & Ab). rewrite Ab.
    rewrite bits_ok_model by (apply (good_bits_lt p m Hr)). eauto.
  - rewrite obs_eqb_refl. eauto.
Qed.

Lemma sim_clone : forall rs ms r to, R rs ms -> sim rs ms (BClone r to).
Proof.
  intros rs ms r to H. unfold sim. cbn [step mon_step].
  destruct (R_get rs ms r H) as [(p & m & E1 & E2 & Hr)|(E1 & E2)]; rewrite E1, E2; cbn [fst snd]; rewrite obs_eqb_refl.
  - eexists. split; [reflexivity|]. apply R_set; [assumption|]. now rewrite clone_eq.
  - eauto.
Qed.

Lemma sim_derive : forall rs ms r to, R rs ms -> sim rs ms (BDerive r to).
Proof.
  intros rs ms r to H. unfold sim. cbn [step mon_step].
  destruct (R_get rs ms r H) as [(p & m & E1 & E2 & Hr)|(E1 & E2)]; rewrite E1, E2; cbn [fst snd]; rewrite obs_eqb_refl.
  - eexists. split; [reflexivity|]. apply R_set; [assumption|].
    destruct Hr as ((Hp & Hn) & An & Am & Ah & Ab). destruct (derive_pinv p Hp) as [Hd Hd0].
    destruct (derive_keys p) as (_ & Dm & Dh & Dn).
    unfold rel1, good, with_bits. cbn [m_n m_msg m_hash m_bits]. rewrite Dm, Dh, Dn, Hd0. repeat split; auto.
  - eauto.
Qed.

Lemma sim_merge_sparse : forall rs ms r hash ents, R rs ms -> sim rs ms (BMergeSparse r hash ents).
Proof.
  intros rs ms r hash ents H. unfold sim. cbn [step mon_step].
  destruct (R_get rs ms r H) as [(p & m & E1 & E2 & Hr)|(E1 & E2)]; rewrite E1, E2; cbn [fst snd];
    [|rewrite obs_eqb_refl; eauto].
  pose proof Hr as ((Hp & Hn) & An & Am & Ah & Ab).
  destruct (merge_sparse_spec p hash ents Hp) as (p' & S1 & S2 & Sm & Sh & Sk & Sn & S5). rewrite S1. cbn [fst snd].
  assert (Hr' : rel1 p' (with_bits m (p_bits p'))).
  { apply (with_bits_rel p m p' Hr); auto. split; [assumption|]. now rewrite Sn. }
  assert (Hlt : forall i, N.testbit (p_bits p') i = true -> i < m_n m).
  { intros i Hi. rewrite An, <- Sn. now apply pinv_bits_lt. }
  rewrite Ah. destruct (N.eqb hash (p_hash p)) eqn:Eh; cbn [negb].
  - apply N.eqb_eq in Eh. destruct Hp as [h Hinv]. pose proof Hinv as (Hwf & _).
    destruct (exp_entries_spec h (p_tree p) (p_msg p) m Hwf ltac:(lia) An Am ents (m_bits m) true) as [X1 X2].
    destruct (exp_entries m ents (m_bits m) true) as [bits' av]. cbn [fst snd] in X1, X2. cbn [andb] in X1.
    assert (Eb : bits' = p_bits p').
    { apply same_bits_eq. intro i. rewrite X2, S5, Ab. split.
      - intros [A|A]; [auto|]. right. auto.
      - intros [A|[_ A]]; auto. }
    subst bits' av. rewrite Ab. rewrite flags_ok_model by assumption.
    eexists. split; [reflexivity|]. apply R_set; assumption.
  - apply N.eqb_neq in Eh.
    assert (Eb : p_bits p' = p_bits p).
    { apply same_bits_eq. intro i. rewrite S5. split; [|auto]. intros [A|[A _]]; [exact A|congruence]. }
    unfold no_flags. rewrite Ab, <- Eb. rewrite flags_ok_model by assumption.
    eexists. split; [reflexivity|]. eapply R_update_same; eauto.
    destruct Hr' as (G & A1 & A2 & A3 & _). unfold with_bits in *. cbn [m_n m_msg m_hash] in *.
    repeat split; try apply G; auto. congruence.
Qed.

(* ------------------------------------------------------------------ Merge *)
Lemma merge_facts : forall p o p' f, pinv p -> merge p o = Ok (p', f) ->
  p_msg p' = p_msg p /\ p_hash p' = p_hash p /\ t_n (p_tree p') = t_n (p_tree p).
Proof.
  intros p o p' f [h Hinv] E. unfold merge in E.
  destruct (negb (matches p o)); [inversion E; subst; auto|].
  destruct (sparse_indices (p_tree o)) as [ids|]; [|discriminate].
  destruct (merge_loop_spec (p_msg p) h (p_tree o) ids (p_tree p) true false Hinv) as (t' & av & inc & R1 & _ & _ & R4 & _).
  rewrite R1 in E. inversion E; subst. unfold set_tree. cbn. auto.
Qed.

Lemma lenient_ok : forall n bits' bits, (forall i, N.testbit bits' i = true -> i < n) ->
  (forall i, N.testbit bits i = true -> N.testbit bits' i = true) ->
  all_lt (bits_list bits') n && is_superset (mask_of (bits_list bits')) bits = true.
Proof.
  intros. rewrite mask_of_bits_list. apply andb_true_iff. split.
  - apply all_lt_spec. intros x Hx. apply H. now apply bits_list_spec.
  - now apply is_superset_of.
Qed.

Lemma sim_merge : forall rs ms r o, R rs ms -> sim rs ms (BMerge r o).
Proof.
  intros rs ms r o H. unfold sim. cbn [step mon_step].
  destruct (R_get rs ms r H) as [(p & m & E1 & E2 & Hr)|(E1 & E2)]; rewrite E1, E2;
    [|cbn [fst snd]; rewrite obs_eqb_refl; eauto].
  destruct (R_get rs ms o H) as [(q & mq & F1 & F2 & Hq)|(F1 & F2)]; rewrite F1, F2;
    [|cbn [fst snd]; rewrite obs_eqb_refl; eauto].
  pose proof Hr as ((Hp & Hn) & An & Am & Ah & Ab). pose proof Hq as ((Hpq & Hnq) & Bn & Bm & Bh & Bb).
  destruct (merge_total_pinv p q Hp Hpq) as (p' & f & Em & Hp' & Hmono). rewrite Em. cbn [fst snd].
  destruct (merge_facts p q p' f Hp Em) as (Fm & Fh & Fn).
  assert (Hr' : rel1 p' (with_bits m (p_bits p'))).
  { apply (with_bits_rel p m p' Hr); auto. split; [assumption|]. now rewrite Fn. }
  assert (Hlt : forall i, N.testbit (p_bits p') i = true -> i < m_n m).
  { intros i Hi. rewrite An, <- Fn. now apply pinv_bits_lt. }
  rewrite Am, Ah, Bm, Bh. fold (matches p q).
  destruct (matches p q) eqn:Ema; cbn [negb].
  2:{ unfold merge in Em. rewrite Ema in Em. cbn [negb] in Em. inversion Em; subst p' f.
      unfold no_flags. rewrite Ab. rewrite flags_ok_model by assumption.
      eexists. split; [reflexivity|]. eapply R_update_same; eauto. }
  rewrite An, Bn. destruct (N.eqb (t_n (p_tree p)) (t_n (p_tree q))) eqn:En; cbn [negb].
  - apply N.eqb_eq in En. pose proof (pinv_keys_eq p q Hp Hpq En) as Hk.
    destruct (merge_spec p q Hp Hpq Hk) as (p2' & M1 & _ & _ & _ & _ & _ & M5).
    rewrite Em in M1. inversion M1; subst p2'. rewrite Ema in *.
    assert (Eb : N.lor (m_bits m) (m_bits mq) = p_bits p').
    { apply same_bits_eq. intro i. rewrite M5, N.lor_spec, orb_true_iff, Ab, Bb. tauto. }
    rewrite Eb, Ab, Bb. unfold looks_superset. fold (looks_superset_b (p_bits q) (p_bits p)).
    rewrite <- An. rewrite flags_ok_model by assumption.
    eexists. split; [reflexivity|]. apply R_set; assumption.
  - destruct f as [av inc sup]. unfold obs_flags. cbn [f_all_valid f_increased f_superset].
    rewrite <- An. rewrite Ab.
    cbv iota. rewrite (lenient_ok (m_n m) (p_bits p') (p_bits p) Hlt Hmono).
    rewrite mask_of_bits_list. eexists. split; [reflexivity|]. apply R_set; assumption.
Qed.

(* ------------------------------------------------------------------ MergeSparse(AsSparse) *)
Lemma max_sig : forall h q id, inv (p_msg q) h (p_tree q) -> is_max h (t_sigs (p_tree q)) id ->
  exists ks, id < 2 * p2 h - 1 /\ nthN (t_keys (p_tree q)) id = Some (Some ks) /\ ks <> [] /\
             snd (sparse_entry_of q id) = SAgg (p_msg q) ks.
Proof.
  intros h q id Hinv (d & off & Hd & Ho & -> & Hm). pose proof Hinv as (Hwf & Hgen & _).
  apply andb_true_iff in Hm. destruct Hm as [M1 _]. apply set_at_is_set in M1. destruct M1 as [sg Hs].
  destruct (Hgen _ _ Hs) as (ks & Hk & Hne & ->). exists ks.
  assert (Hlt : nidx h d off < 2 * p2 h - 1) by (apply lstart_bound; assumption).
  split; [assumption|]. split; [assumption|]. split; [assumption|].
  unfold sparse_entry_of. cbn [snd].
  destruct (tree_get_spec h (p_tree q) (nidx h d off) Hwf) as [(_ & k & s & A & B & C)|(Hge & _)]; [|lia].
  rewrite C. rewrite Hs in B. inversion B; subst s. reflexivity.
Qed.

Lemma sim_merge_from : forall rs ms r o, R rs ms -> sim rs ms (BMergeFrom r o).
Proof.
  intros rs ms r o H. unfold sim. cbn [step mon_step].
  destruct (R_get rs ms r H) as [(p & m & E1 & E2 & Hr)|(E1 & E2)]; rewrite E1, E2;
    [|cbn [fst snd]; rewrite obs_eqb_refl; eauto].
  destruct (R_get rs ms o H) as [(q & mq & F1 & F2 & Hq)|(F1 & F2)]; rewrite F1, F2;
    [|cbn [fst snd]; rewrite obs_eqb_refl; eauto].
  pose proof Hr as ((Hp & Hn) & An & Am & Ah & Ab). pose proof Hq as ((Hpq & Hnq) & Bn & Bm & Bh & Bb).
  destruct Hpq as [hq Hinvq]. pose proof Hinvq as (Hwfq & _).
  destruct (sparse_indices_spec (p_msg q) hq (p_tree q) Hinvq) as (ids & Es & _ & Hin).
  rewrite (as_sparse_eq q ids Es).
  set (ents := map (sparse_entry_of q) ids).
  destruct (merge_sparse_spec p (p_hash q) ents Hp) as (p' & S1 & S2 & Sm & Sh & Sk & Sn & S5). rewrite S1. cbn [fst snd].
  assert (Hr' : rel1 p' (with_bits m (p_bits p'))).
  { apply (with_bits_rel p m p' Hr); auto. split; [assumption|]. now rewrite Sn. }
  assert (Hlt : forall i, N.testbit (p_bits p') i = true -> i < m_n m).
  { intros i Hi. rewrite An, <- Sn. now apply pinv_bits_lt. }
  assert (Hmono : forall i, N.testbit (p_bits p) i = true -> N.testbit (p_bits p') i = true).
  { intros i Hi. apply S5. auto. }
  rewrite Ah, Bh. destruct (N.eqb (p_hash q) (p_hash p)) eqn:Eh; cbn [negb].
  2:{ apply N.eqb_neq in Eh.
      assert (Eb : p_bits p' = p_bits p).
      { apply same_bits_eq. intro i. rewrite S5. split; [|auto]. intros [A|[A _]]; [exact A|congruence]. }
      unfold no_flags. rewrite Ab, <- Eb. rewrite flags_ok_model by assumption.
      eexists. split; [reflexivity|]. eapply R_update_same; eauto.
      destruct Hr' as (G & A1 & A2 & A3 & _). unfold with_bits in *. cbn [m_n m_msg m_hash] in *.
      repeat split; try apply G; auto. congruence. }
  apply N.eqb_eq in Eh.
  rewrite An, Bn. destruct (N.eqb (t_n (p_tree p)) (t_n (p_tree q))) eqn:En; cbn [negb].
  2:{ unfold obs_flags. rewrite <- An, Ab.
      cbv iota. rewrite (lenient_ok (m_n m) (p_bits p') (p_bits p) Hlt Hmono).
      rewrite mask_of_bits_list. eexists. split; [reflexivity|]. apply R_set; assumption. }
  apply N.eqb_eq in En.
  pose proof (pinv_keys_eq p q Hp (ex_intro _ hq Hinvq) En) as Hk.
  rewrite Am, Bm. destruct (N.eqb (p_msg p) (p_msg q)) eqn:Emsg.
  - (* same message: every entry verifies, the bits are the union *)
    apply N.eqb_eq in Emsg.
    assert (Hok : forall id, In id ids -> entry_ok (t_keys (p_tree p)) (p_msg p) (sparse_entry_of q id) = true /\
                    entry_leaves (t_keys (p_tree p)) (sparse_entry_of q id) = leaves_of (t_keys (p_tree p)) id).
    { intros id Hid. rewrite Hk, Emsg. apply (sparse_entry_ok hq q id Hinvq ltac:(lia)). now apply Hin. }
    assert (Hall : forallb (entry_ok (t_keys (p_tree p)) (p_msg p)) ents = true).
    { apply forallb_forall. intros e He. apply in_map_iff in He. destruct He as (id & <- & Hid). apply Hok. exact Hid. }
    assert (Eb : N.lor (m_bits m) (m_bits mq) = p_bits p').
    { apply same_bits_eq. intro i. rewrite S5, N.lor_spec, orb_true_iff, Ab, Bb.
      unfold p_bits at 3. rewrite (sparse_cover (p_msg q) hq (p_tree q) ids Hinvq Es i). split.
      - intros [A|(id & Hid & Hl)]; [auto|]. right. split; [assumption|]. exists (sparse_entry_of q id).
        destruct (Hok id Hid) as [X Y]. split; [apply in_map; assumption|]. split; [assumption|]. rewrite Y, Hk. exact Hl.
      - intros [A|(_ & e & He & Ho & Hl)]; [auto|]. right. apply in_map_iff in He. destruct He as (id & <- & Hid).
        exists id. split; [assumption|]. destruct (Hok id Hid) as [X Y]. rewrite Y, Hk in Hl. exact Hl. }
    rewrite Hall, Eb, Ab. rewrite <- An. rewrite flags_ok_model by assumption.
    eexists. split; [reflexivity|]. apply R_set; assumption.
  - (* another message: every entry fails *)
    apply N.eqb_neq in Emsg.
    assert (Hbad : forall id, In id ids -> entry_ok (t_keys (p_tree p)) (p_msg p) (sparse_entry_of q id) = false).
    { intros id Hid. destruct (max_sig hq q id Hinvq (proj1 (Hin id) Hid)) as (ks & _ & _ & _ & Hs).
      unfold entry_ok. destruct (fst (sparse_entry_of q id)) as [|x [|y [|z l]]]; try reflexivity.
      rewrite Hs. unfold verify. destruct (key_at (t_keys (p_tree p)) (x * 256 + y)) as [[|k0 kk]|];
        rewrite ?andb_false_r; try reflexivity.
      replace (p_msg q =? p_msg p) with false by (symmetry; apply N.eqb_neq; congruence). apply andb_false_r. }
    assert (Eb : p_bits p' = p_bits p).
    { apply same_bits_eq. intro i. rewrite S5. split; [|auto].
      intros [A|(_ & e & He & Ho & _)]; [exact A|]. apply in_map_iff in He. destruct He as (id & <- & Hid).
      rewrite (Hbad id Hid) in Ho. discriminate. }
    assert (Hav : forallb (entry_ok (t_keys (p_tree p)) (p_msg p)) ents = N.eqb (m_bits mq) 0).
    { rewrite Bb. destruct ids as [|id0 ids'] eqn:Eids.
      - cbn. symmetry. apply N.eqb_eq. apply N.bits_inj_0. intro i.
        destruct (N.testbit (p_bits q) i) eqn:T; [|reflexivity].
        unfold p_bits in T. apply (sparse_cover (p_msg q) hq (p_tree q) [] Hinvq Es i) in T.
        destruct T as (x & [] & _).
      - unfold ents. cbn [map forallb]. rewrite (Hbad id0 (or_introl eq_refl)). cbn [andb]. symmetry. apply N.eqb_neq.
        intro Z. destruct (max_sig hq q id0 Hinvq (proj1 (Hin id0) (or_introl eq_refl))) as (ks & _ & Hks & Hne & _).
        destruct ks as [|k0 kk]; [congruence|].
        assert (T : N.testbit (p_bits q) k0 = true).
        { unfold p_bits. apply (sparse_cover (p_msg q) hq (p_tree q) (id0 :: ids') Hinvq Es k0).
          exists id0. split; [left; reflexivity|]. unfold leaves_of. rewrite Hks. left. reflexivity. }
        rewrite Z, N.bits_0 in T. discriminate. }
    rewrite Hav, Eb. rewrite N.ltb_irrefl. rewrite Ab, <- Eb. rewrite <- An.
    rewrite flags_ok_model by assumption.
    eexists. split; [reflexivity|]. eapply R_update_same; eauto.
    destruct Hr' as (G & A1 & A2 & A3 & _). unfold with_bits in *. cbn [m_n m_msg m_hash] in *.
    repeat split; try apply G; auto. congruence.
Qed.

(* ------------------------------------------------------------------ HasSparseKeyID *)
Lemma sim_has : forall rs ms r id, R rs ms -> sim rs ms (BHas r id).
Proof.
  intros rs ms r id H. unfold sim. cbn [step mon_step].
  destruct (R_get rs ms r H) as [(p & m & E1 & E2 & Hr)|(E1 & E2)]; rewrite E1, E2;
    [|cbn [fst snd]; rewrite obs_eqb_refl; eauto].
  pose proof Hr as ((Hp & Hn) & An & Am & Ah & Ab). destruct Hp as [h Hinv]. pose proof Hinv as (Hwf & Hgen & _).
  assert (Hnn : n_nodes (m_n m) = 2 * p2 h - 1) by (rewrite An; apply (n_nodes_wf h _ Hwf); lia).
  unfold has_sparse_key_id.
  destruct id as [|x [|y [|z l]]]; cbn [fst snd]; try (cbn; eauto; fail).
  destruct (tree_get_spec h (p_tree p) (x * 256 + y) Hwf) as [(Hlt & k & s & Hk & Hs & Hg)|(Hge & Hg)]; rewrite Hg; cbn [negb fst snd].
  - rewrite Hnn. replace (x * 256 + y <? 2 * p2 h - 1) with true by (symmetry; apply N.ltb_lt; exact Hlt).
    destruct s as [sg|]; cbn [b2n]; [|cbn; eauto].
    destruct (Hgen _ _ Hs) as (ks & Hk' & Hne & ->).
    rewrite An, (leaves_under_idx h (p_tree p) _ Hwf ltac:(lia)) by (rewrite (n_nodes_wf h _ Hwf) by lia; exact Hlt).
    unfold leaves_of. rewrite Hk'.
    replace (mask_of ks =? 0) with false by (symmetry; apply N.eqb_neq; intro Z; apply mask_of_zero in Z; congruence).
    rewrite Ab. rewrite is_superset_of.
    2:{ intros i Hi. apply mask_of_spec in Hi. exact (set_node_bits _ h _ _ ks _ Hinv Hs Hk' i Hi). }
    cbn. eauto.
  - rewrite Hnn. replace (x * 256 + y <? 2 * p2 h - 1) with false by (symmetry; apply N.ltb_ge; exact Hge).
    cbn. eauto.
Qed.

(* ------------------------------------------------------------------ AddSignature *)
Lemma index_from_complete : forall keys k i idx, nthN keys idx = Some k -> index_from keys k i <> None.
Proof.
  induction keys as [|tk keys IH]; intros k i idx H.
  - unfold nthN in H. destruct (N.to_nat idx); discriminate.
  - cbn [index_from]. destruct (key_eqb tk k) eqn:E; [discriminate|].
    unfold nthN in H. destruct (N.to_nat idx) as [|j] eqn:Ej.
    + cbn in H. inversion H; subst. rewrite (proj2 (key_eqb_eq k k) eq_refl) in E. discriminate.
    + cbn in H. apply (IH k (i + 1) (N.of_nat j)). unfold nthN. now rewrite Nat2N.id.
Qed.

Lemma key_sig_genuine_verify : forall msg k s, key_sig_genuine msg k s = verify k msg s.
Proof. intros msg [[|x ks]|] [m l| |]; reflexivity. Qed.

Lemma add_signature_code : forall p sg key p' code, pinv p -> add_signature p sg key = Ok (p', code) ->
  (index_from (t_keys (p_tree p)) key 0 = None -> code = 1) /\
  (index_from (t_keys (p_tree p)) key 0 <> None ->
     (verify key (p_msg p) sg = true -> code = 0) /\ (verify key (p_msg p) sg = false -> code = 2 \/ code = 3)).
Proof.
  intros p sg key p' code [h Hinv] E. pose proof Hinv as (Hwf & Hgen & _). unfold add_signature, tree_index in E.
  destruct (index_from (t_keys (p_tree p)) key 0) as [idx|] eqn:Ei.
  2:{ inversion E; subst. split; [reflexivity|congruence]. }
  split; [discriminate|]. intros _.
  apply index_from_spec in Ei. destruct Ei as [_ Hk]. replace (idx - 0) with idx in Hk by lia.
  pose proof (nthN_some_lt _ _ _ _ Hk) as Hlt. rewrite (wf_keys_len _ _ Hwf) in Hlt.
  destruct (tree_get_spec h (p_tree p) idx Hwf) as [(_ & k & s & Hk2 & Hs & Hg)|(Hge & _)]; [|lia].
  rewrite Hk in Hk2. inversion Hk2; subst k. clear Hk2. rewrite Hg in E.
  destruct s as [hs|].
  - destruct (Hgen _ _ Hs) as (ks & Hk' & Hne & ->). rewrite Hk in Hk'. inversion Hk'; subst key. clear Hk'.
    destruct (decode sg) as [g|] eqn:Ed.
    + assert (g = sg) by (destruct sg; cbn in Ed; congruence). subst g.
      destruct (bsig_eqb sg (SAgg (p_msg p) ks)) eqn:Eq; inversion E; subst.
      * split; [reflexivity|]. apply bsig_eqb_eq in Eq. subst sg. intro V.
        rewrite (proj2 (verify_true _ _ _)) in V; [discriminate|]. exists ks. auto.
      * split; [|auto]. intro V. apply verify_true in V. destruct V as (ks' & A & _ & B). inversion A; subst ks' sg.
        rewrite (proj2 (bsig_eqb_eq _ _) eq_refl) in Eq. discriminate.
    + inversion E; subst. split; [|auto]. intro V. destruct sg; cbn in Ed; try discriminate.
      unfold verify in V. destruct ks; discriminate.
  - destruct (verify key (p_msg p) sg) eqn:Ev; cbn [negb] in E.
    + apply verify_true in Ev. destruct Ev as (ks & -> & Hne & ->). cbn [decode] in E.
      destruct (tree_add_signature_spec (p_msg p) h (p_tree p) idx ks Hinv Hk Hne) as (t1 & A1 & _).
      rewrite A1 in E. inversion E; subst. split; [reflexivity|discriminate].
    + inversion E; subst. split; [discriminate|auto].
Qed.

Lemma found_b : forall keys k, (exists idx, nthN keys idx = Some k) <-> index_from keys k 0 <> None.
Proof.
  intros keys k. split.
  - intros [idx H]. eapply index_from_complete; eauto.
  - intro H. destruct (index_from keys k 0) as [idx|] eqn:E; [|congruence].
    apply index_from_spec in E. destruct E as [_ E]. eauto.
Qed.

Lemma known_key_spec : forall h t key, wf_tree h t -> t_n t <= 65535 ->
  known_key (t_n t) key = true <-> index_from (t_keys t) key 0 <> None.
Proof.
  intros h t key Hwf Hn. rewrite <- found_b. unfold known_key.
  pose proof (wf_nw _ _ Hwf) as Hnw. pose proof (wf_n1 _ _ Hwf) as Hn1.
  destruct key as [[|k0 ks]|].
  - split; [discriminate|]. intros [idx H]. exfalso.
    pose proof (nthN_some_lt _ _ _ _ H) as Hlt. rewrite (wf_keys_len _ _ Hwf) in Hlt.
    destruct (node_exists h idx Hlt) as (d & off & Hd & Ho & ->).
    rewrite (wf_keys _ _ Hwf d off Hd Ho) in H. inversion H as [H1].
    apply (rkey_some_nonempty _ _ _ _ (p2_pos (h - d)) H1). reflexivity.
  - rewrite existsb_exists. rewrite (n_nodes_wf h t Hwf Hn). split.
    + intros (id & Hid & He). apply rangeN_In in Hid. apply listN_eqb_eq in He.
      rewrite (leaves_under_idx h t id Hwf Hn) in He by (rewrite (n_nodes_wf h t Hwf Hn); lia).
      exists id. unfold leaves_of in He. destruct (nthN (t_keys t) id) as [[kk|]|]; try discriminate. congruence.
    + intros [idx H]. pose proof (nthN_some_lt _ _ _ _ H) as Hlt. rewrite (wf_keys_len _ _ Hwf) in Hlt.
      exists idx. split; [apply rangeN_In; lia|]. apply listN_eqb_eq.
      rewrite (leaves_under_idx h t idx Hwf Hn) by (rewrite (n_nodes_wf h t Hwf Hn); lia).
      unfold leaves_of. now rewrite H.
  - rewrite (pow2_ge_wf h t Hwf Hn). rewrite N.ltb_lt. split.
    + intro L. exists (t_n t). pose proof (wf_keys _ _ Hwf h (t_n t) (le_n h) L) as K.
      rewrite lstart_h in K. replace (0 + t_n t) with (t_n t) in K by lia. rewrite K. f_equal. unfold rkey. rewrite Nat.sub_diag. cbn [p2].
      replace (t_n t * 1 <? t_n t) with false by (symmetry; apply N.ltb_ge; lia). reflexivity.
    + intros [idx H]. pose proof (nthN_some_lt _ _ _ _ H) as Hlt. rewrite (wf_keys_len _ _ Hwf) in Hlt.
      destruct (node_exists h idx Hlt) as (d & off & Hd & Ho & ->).
      rewrite (wf_keys _ _ Hwf d off Hd Ho) in H. inversion H as [H1]. unfold rkey in H1.
      destruct (off * p2 (h - d) <? t_n t) eqn:E; [discriminate|]. apply N.ltb_ge in E.
      pose proof (p2_split h d Hd) as Hs. pose proof (p2_pos (h - d)).
      assert ((off + 1) * p2 (h - d) <= p2 d * p2 (h - d)) by (apply N.mul_le_mono_r; lia). lia.
Qed.

Lemma sim_add : forall rs ms r s key, R rs ms -> sim rs ms (BAdd r s key).
Proof.
  intros rs ms r s key H. unfold sim. cbn [step mon_step].
  destruct (R_get rs ms r H) as [(p & m & E1 & E2 & Hr)|(E1 & E2)]; rewrite E1, E2;
    [|cbn [fst snd]; rewrite obs_eqb_refl; eauto].
  pose proof Hr as ((Hp & Hn) & An & Am & Ah & Ab).
  destruct (add_signature_spec p s key Hp) as (p' & code & S1 & S2 & Sm & Sh & Sk & Sn & S5 & S6 & S7).
  rewrite S1. cbn [fst snd].
  destruct (add_signature_code p s key p' code Hp S1) as [C1 C2].
  assert (Hr' : rel1 p' (with_bits m (p_bits p'))).
  { apply (with_bits_rel p m p' Hr); auto. split; [assumption|]. now rewrite Sn. }
  assert (Hlt : forall i, N.testbit (p_bits p') i = true -> i < m_n m).
  { intros i Hi. rewrite An, <- Sn. now apply pinv_bits_lt. }
  destruct Hp as [h Hinv]. pose proof Hinv as (Hwf & _).
  pose proof (known_key_spec h (p_tree p) key Hwf ltac:(lia)) as Hkn. rewrite <- An in Hkn.
  rewrite key_sig_genuine_verify, Am.
  destruct (known_key (m_n m) key) eqn:Ek.
  - destruct (C2 (proj1 Hkn eq_refl)) as [V1 V0].
    destruct (verify key (p_msg p) s) eqn:Ev; cbn [andb].
    + pose proof (V1 eq_refl) as Hc. subst code.
      apply verify_true in Ev. destruct Ev as (ks & -> & Hne & ->).
      assert (Eb : N.lor (m_bits m) (mask_of ks) = p_bits p').
      { apply same_bits_eq. intro i. rewrite lor_mask_iff, S5, Ab. split.
        - intros [A|A]; [auto|]. right. split; [reflexivity|]. exists ks. auto.
        - intros [A|(_ & ks' & A & B)]; [auto|]. inversion A; subst. auto. }
      rewrite Eb, N.eqb_refl. cbn [andb]. rewrite bits_ok_model by assumption.
      eexists. split; [reflexivity|]. apply R_set; assumption.
    + assert (Eb : p_bits p' = p_bits p).
      { apply same_bits_eq. intro i. rewrite S5. split; [|auto]. intros [A|(A & _)]; [exact A|].
        destruct (V0 eq_refl); lia. }
      replace (N.eqb code 2 || N.eqb code 3) with true
        by (symmetry; apply orb_true_iff; destruct (V0 eq_refl) as [-> | ->]; [left|right]; reflexivity).
      cbn [andb]. rewrite Ab, <- Eb. rewrite bits_ok_model by assumption.
      eexists. split; [reflexivity|]. rewrite Eb. apply R_set; [assumption|]. rewrite <- Eb.
      replace (with_bits m (p_bits p')) with (with_bits m (p_bits p')) by reflexivity. exact Hr'.
  - assert (Hnone : index_from (t_keys (p_tree p)) key 0 = None).
    { destruct (index_from (t_keys (p_tree p)) key 0) eqn:Ei; [|reflexivity].
      assert (X : false = true) by (apply Hkn; discriminate). discriminate. }
    pose proof (C1 Hnone) as Hc. subst code. cbn [andb].
    assert (Eb : p_bits p' = p_bits p).
    { apply same_bits_eq. intro i. rewrite S5. split; [|auto]. intros [A|(A & _)]; [exact A|discriminate]. }
    rewrite N.eqb_refl. cbn [andb]. rewrite Ab, <- Eb. rewrite bits_ok_model by assumption.
    eexists. split; [reflexivity|]. rewrite Eb. apply R_set; [assumption|]. rewrite <- Eb. exact Hr'.
Qed.

(* ------------------------------------------------------------------ AsSparse *)
From Coq Require Import Sorted.

Lemma insert_perm : forall x l, Permutation (x :: l) (insert_N x l).
Proof.
  induction l as [|y t IH]; cbn [insert_N]; [reflexivity|]. destruct (x <=? y); [reflexivity|].
  rewrite perm_swap. now apply perm_skip.
Qed.

Lemma sort_perm : forall l, Permutation l (sort_N l).
Proof.
  induction l as [|x l IH]; cbn; [reflexivity|]. fold (sort_N l).
  rewrite <- insert_perm. now apply perm_skip.
Qed.

Lemma insert_sorted : forall x l, StronglySorted N.lt l -> ~ In x l -> StronglySorted N.lt (insert_N x l).
Proof.
  induction l as [|y t IH]; intros Hs Hn; cbn [insert_N].
  - constructor; constructor.
  - inversion Hs as [|? ? Hs' Hf]; subst. destruct (x <=? y) eqn:E.
    + apply N.leb_le in E. assert (x < y) by (assert (x <> y) by (intro; subst; apply Hn; left; reflexivity); lia).
      constructor; [assumption|]. constructor; [assumption|].
      rewrite Forall_forall in *. intros z Hz. specialize (Hf z Hz). lia.
    + apply N.leb_gt in E. constructor.
      * apply IH; [assumption|]. intro C. apply Hn. right. assumption.
      * rewrite Forall_forall in *. intros z Hz.
        apply (Permutation_in _ (Permutation_sym (insert_perm x t))) in Hz. destruct Hz as [<-|Hz]; [assumption|auto].
Qed.

Lemma sort_sorted : forall l, NoDup l -> StronglySorted N.lt (sort_N l).
Proof.
  induction l as [|x l IH]; intro Hn; cbn; [constructor|]. fold (sort_N l). inversion Hn; subst.
  apply insert_sorted; [auto|]. intro C. apply (Permutation_in _ (Permutation_sym (sort_perm l))) in C. contradiction.
Qed.

Lemma flat_map_ext_in' : forall A B (f g : A -> list B) l, (forall a, In a l -> f a = g a) -> flat_map f l = flat_map g l.
Proof.
  induction l as [|a l IH]; intro H; cbn; [reflexivity|]. rewrite (H a (or_introl eq_refl)). f_equal.
  apply IH. intros b Hb. apply H. right. assumption.
Qed.

Lemma lor_double_double : forall a b, N.lor (N.double a) (N.double b) = N.double (N.lor a b).
Proof. destruct a, b; reflexivity. Qed.
Lemma lor_double_sdouble : forall a b, N.lor (N.double a) (N.succ_double b) = N.succ_double (N.lor a b).
Proof. destruct a, b; reflexivity. Qed.
Lemma lor_sdouble_double : forall a b, N.lor (N.succ_double a) (N.double b) = N.succ_double (N.lor a b).
Proof. destruct a, b; reflexivity. Qed.

Lemma popcount_lor_disjoint : forall a b,
  (forall i, N.testbit a i = true -> N.testbit b i = true -> False) ->
  popcount (N.lor a b) = popcount a + popcount b.
Proof.
  induction a using N.binary_ind; intros b H.
  - cbn. lia.
  - destruct (binary_cases b) as [b' [-> | ->]].
    + rewrite lor_double_double, !pc_double. apply IHa. intros i A B. apply (H (N.succ i)); rewrite tb_double_S; assumption.
    + rewrite lor_double_sdouble, pc_double, !pc_succ_double. rewrite IHa; [lia|].
      intros i A B. apply (H (N.succ i)); [rewrite tb_double_S|rewrite tb_sdouble_S]; assumption.
  - destruct (binary_cases b) as [b' [-> | ->]].
    + rewrite lor_sdouble_double, pc_double, !pc_succ_double. rewrite IHa; [lia|].
      intros i A B. apply (H (N.succ i)); [rewrite tb_sdouble_S|rewrite tb_double_S]; assumption.
    + exfalso. apply (H 0); apply tb_sdouble_0.
Qed.

Section Pairs.
  Variable n : N.
  Definition mk (id : N) : N := mask_of (leaves_under n id).

  Lemma pairs_ok : forall L prev acc cnt,
    StronglySorted N.lt L ->
    (forall id, In id L -> id < n_nodes n /\ mk id <> 0) ->
    match prev with None => True | Some q => Forall (N.lt q) L end ->
    sparse_pairs_ok n (flat_map (fun id => [id; 1]) L) prev acc cnt =
    Some (fold_left (fun a id => N.lor a (mk id)) L acc, fold_left (fun c id => c + popcount (mk id)) L cnt).
  Proof.
    induction L as [|x L IH]; intros prev acc cnt Hs Hp Hprev; [reflexivity|].
    cbn [flat_map app sparse_pairs_ok fold_left]. fold (mk x).
    inversion Hs as [|? ? Hs' Hf]; subst.
    destruct (Hp x (or_introl eq_refl)) as [P1 P2].
    replace (x <? n_nodes n) with true by (symmetry; apply N.ltb_lt; assumption).
    replace (mk x =? 0) with false by (symmetry; apply N.eqb_neq; assumption).
    replace (match prev with Some q => q <? x | None => true end) with true.
    2:{ destruct prev as [q|]; [|reflexivity]. symmetry. apply N.ltb_lt. inversion Hprev; assumption. }
    cbn [N.eqb Pos.eqb andb negb]. apply IH; [assumption| |assumption].
    intros id Hid. apply Hp. right. assumption.
  Qed.

  Lemma fold_lor_spec : forall L acc i,
    N.testbit (fold_left (fun a id => N.lor a (mk id)) L acc) i = true <->
    N.testbit acc i = true \/ exists id, In id L /\ N.testbit (mk id) i = true.
  Proof.
    induction L as [|x L IH]; intros acc i; cbn [fold_left].
    - split; [auto|]. intros [A|(id & [] & _)]. exact A.
    - rewrite IH, N.lor_spec, orb_true_iff. split.
      + intros [[A|A]|(id & B & C)]; [auto| |].
        * right. exists x. split; [left; reflexivity|assumption].
        * right. exists id. split; [right; assumption|assumption].
      + intros [A|(id & [B|B] & C)]; [auto| |].
        * subst id. auto.
        * right. exists id. auto.
  Qed.

  Lemma fold_count : forall L acc cnt, NoDup L ->
    (forall x y i, In x L -> In y L -> N.testbit (mk x) i = true -> N.testbit (mk y) i = true -> x = y) ->
    (forall x i, In x L -> N.testbit acc i = true -> N.testbit (mk x) i = true -> False) ->
    cnt = popcount acc ->
    fold_left (fun c id => c + popcount (mk id)) L cnt = popcount (fold_left (fun a id => N.lor a (mk id)) L acc).
  Proof.
    induction L as [|x L IH]; intros acc cnt Hn Hd Ha Hc; cbn [fold_left]; [assumption|].
    inversion Hn; subst. apply IH; [assumption| | |].
    - intros a b i A B. apply Hd; right; assumption.
    - intros y i Hy Hl Hm. rewrite N.lor_spec, orb_true_iff in Hl. destruct Hl as [Hl|Hl].
      + apply (Ha y i); [right; assumption|assumption|assumption].
      + assert (x = y) by (apply (Hd x y i); [left; reflexivity|right; assumption|assumption|assumption]).
        subst y. contradiction.
    - rewrite popcount_lor_disjoint; [reflexivity|]. intros i A B. apply (Ha x i); [left; reflexivity|assumption|assumption].
  Qed.
End Pairs.

Lemma sorted_nodup : forall L, StronglySorted N.lt L -> NoDup L.
Proof.
  induction L as [|x L IH]; intro H; [constructor|]. inversion H as [|? ? Hs Hf]; subst. constructor; [|auto].
  intro C. rewrite Forall_forall in Hf. specialize (Hf x C). lia.
Qed.

Lemma sim_sparse : forall rs ms r, R rs ms -> sim rs ms (BSparse r).
Proof.
  intros rs ms r H. unfold sim. cbn [step mon_step].
  destruct (R_get rs ms r H) as [(p & m & E1 & E2 & Hr)|(E1 & E2)]; rewrite E1, E2;
    [|cbn [fst snd]; rewrite obs_eqb_refl; eauto].
  cbn [fst snd]. pose proof Hr as ((Hp & Hn) & An & Am & Ah & Ab). destruct Hp as [h Hinv]. pose proof Hinv as (Hwf & Hgen & _).
  destruct (sparse_indices_spec (p_msg p) h (p_tree p) Hinv) as (ids & Es & Hnd & Hin).
  unfold obs_sparse. rewrite (as_sparse_eq p ids Es).
  set (ents := map (sparse_entry_of p) ids).
  (* what each listed id looks like *)
  assert (Hid : forall id, In id ids ->
            id < 2 * p2 h - 1 /\ id_of_bytes (fst (sparse_entry_of p id)) = id /\
            exists ks, nthN (t_keys (p_tree p)) id = Some (Some ks) /\ ks <> [] /\
                       snd (sparse_entry_of p id) = SAgg (p_msg p) ks).
  { intros id Hi. destruct (max_sig h p id Hinv (proj1 (Hin id) Hi)) as (ks & A & B & C & D).
    split; [assumption|]. split; [|eauto]. unfold sparse_entry_of. cbn [fst].
    apply (node_ids_fit (t_n (p_tree p))); [pose proof (wf_n1 _ _ Hwf); lia|]. rewrite (wf_lw _ _ Hwf). exact A. }
  assert (Emap : map (fun e : sparse_entry => id_of_bytes (fst e)) ents = ids).
  { unfold ents. rewrite map_map. rewrite <- (map_id ids) at 2. apply map_ext_in. intros id Hi. apply (Hid id Hi). }
  rewrite Emap.
  set (L := sort_N ids).
  assert (HL : forall id, In id L <-> In id ids).
  { intro id. split; intro X; [apply (Permutation_in _ (Permutation_sym (sort_perm ids)))|apply (Permutation_in _ (sort_perm ids))]; exact X. }
  assert (Hs : StronglySorted N.lt L) by (apply sort_sorted; assumption).
  (* every listed signature verifies *)
  assert (Eobs : flat_map (fun id =>
            [id; b2n (existsb (fun e : sparse_entry => N.eqb (id_of_bytes (fst e)) id &&
                         verify (fst (fst (tree_get (p_tree p) id))) (p_msg p) (snd e)) ents)]) L =
                 flat_map (fun id => [id; 1]) L).
  { apply flat_map_ext_in'. intros id Hi. apply HL in Hi. f_equal. f_equal.
    replace (existsb _ ents) with true; [reflexivity|]. symmetry. apply existsb_exists.
    exists (sparse_entry_of p id). split; [unfold ents; apply in_map; assumption|].
    destruct (Hid id Hi) as (A & B & ks & C & D & F). rewrite B, N.eqb_refl, F. cbn [andb].
    destruct (tree_get_spec h (p_tree p) id Hwf) as [(_ & k & s & X & Y & Z)|(Hge & _)]; [|lia].
    rewrite Z. cbn [fst]. rewrite C in X. inversion X; subst k. apply verify_true. exists ks. auto. }
  rewrite Eobs.
  assert (Hnn : n_nodes (m_n m) = 2 * p2 h - 1) by (rewrite An; apply (n_nodes_wf h _ Hwf); lia).
  assert (Hmk : forall id, In id L -> mk (m_n m) id = mask_of (leaves_of (t_keys (p_tree p)) id)).
  { intros id Hi. apply HL in Hi. unfold mk. rewrite An. f_equal.
    apply (leaves_under_idx h (p_tree p) id Hwf ltac:(lia)). rewrite (n_nodes_wf h _ Hwf) by lia. apply (Hid id Hi). }
  rewrite (pairs_ok (m_n m) L None 0 0 Hs); [| |exact I].
  2:{ intros id Hi. split.
      - rewrite Hnn. apply (Hid id (proj1 (HL id) Hi)).
      - rewrite (Hmk id Hi). destruct (Hid id (proj1 (HL id) Hi)) as (_ & _ & ks & C & D & _).
        unfold leaves_of. rewrite C. intro Z. apply mask_of_zero in Z. contradiction. }
  assert (Eacc : fold_left (fun a id => N.lor a (mk (m_n m) id)) L 0 = p_bits p).
  { apply same_bits_eq. intro i. rewrite fold_lor_spec, N.bits_0.
    unfold p_bits. rewrite (sparse_cover (p_msg p) h (p_tree p) ids Hinv Es i). split.
    - intros [A|(id & Hi & T)]; [discriminate|]. exists id. split; [apply HL; assumption|].
      rewrite (Hmk id Hi) in T. now apply mask_of_spec in T.
    - intros (id & Hi & T). right. exists id. apply HL in Hi. split; [assumption|]. rewrite (Hmk id Hi). now apply mask_of_spec. }
  rewrite (fold_count (m_n m) L 0 0 (sorted_nodup L Hs)); [| | |reflexivity].
  - rewrite Eacc, Ab, !N.eqb_refl. cbn. eauto.
  - intros x y i Hx Hy Tx Ty. rewrite (Hmk x Hx) in Tx. rewrite (Hmk y Hy) in Ty.
    apply mask_of_spec in Tx. apply mask_of_spec in Ty.
    apply (sparse_disjoint (p_msg p) h (p_tree p) ids Hinv Es x y i); auto; apply HL; assumption.
  - intros x i _ T. rewrite N.bits_0 in T. discriminate.
Qed.

(* ------------------------------------------------------------------ all operation sequences *)
(** the monitor expects the sparse round trip to succeed, which needs node ids that fit two bytes *)
Definition op_small (o : bop) : Prop :=
  match o with BNew _ n _ _ => n <= 32768 \/ 65535 < n | _ => True end.

Lemma step_sim : forall rs ms o, R rs ms -> op_small o -> sim rs ms o.
Proof.
  intros rs ms o H Hs. destruct o.
  - apply sim_new; assumption.
  - apply sim_add; assumption.
  - apply sim_merge; assumption.
  - apply sim_merge_sparse; assumption.
  - apply sim_merge_from; assumption.
  - apply sim_has; assumption.
  - apply sim_sparse; assumption.
  - apply sim_clone; assumption.
  - apply sim_derive; assumption.
  - apply sim_bits; assumption.
Qed.

Lemma mon_from_model : forall ops rs ms i, R rs ms -> Forall op_small ops ->
  mon_from ms ops (run_from rs ops) i = None.
Proof.
  induction ops as [|o ops IH]; intros rs ms i H Hs; [reflexivity|].
  inversion Hs as [|? ? Ho Hrest]; subst.
  destruct (step_sim rs ms o H Ho) as (ms' & M1 & M2).
  cbn [run_from]. destruct (step rs o) as [rs' ob] eqn:Est. cbn [fst snd] in M1, M2.
  cbn [mon_from]. rewrite M1. apply IH; assumption.
Qed.

Lemma R_nil : R [] [].
Proof. intro r. cbn. exact I. Qed.

(** model_satisfies_monitor: the monitor accepts the model's own run of ANY operation sequence over key sets of
    at most 32768 keys (or rejected by the constructor). *)
Theorem model_satisfies_monitor : forall ops, Forall op_small ops -> c13bls_mon ops (run ops) = None.
Proof. intros ops H. unfold c13bls_mon, run. apply mon_from_model; [exact R_nil|exact H]. Qed.

(** the guard is needed: with 32769 keys the monitor rejects the model's (and the real code's) sparse round trip *)
Theorem model_satisfies_monitor_guard_needed :
  exists ops, c13bls_mon ops (run ops) <> None.
Proof.
  exists (BlsTreeWitness.big_ops ++ [BDerive 0 1; BMergeFrom 1 0]). vm_compute. discriminate.
Qed.
