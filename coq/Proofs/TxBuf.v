(** Proofs about the gtxbuf model (C19). *)
From Coq Require Import List NArith Bool Lia.
From GV Require Import Model.TxBuf Model.TxBufSpec.
Import ListNotations.

Section Proofs.
  Context {S T : Type}.
  Variable apply : S -> T -> ares S.
  Variable deleter : list T -> T -> bool.

  Lemma buffered_spec : forall (w : wstate S T) dst, buffered w dst = dst ++ txs w.
  Proof. reflexivity. Qed.
End Proofs.
