(** Proofs about the gtxbuf model (C19): the invariant "working state = pending list applied in
    order to the base", the exact characterisation of AddTx and Rebase, refinement of the model
    to the (base, pending) specification machine for every request sequence, the monitors. *)
From Coq Require Import List NArith Bool Lia Permutation.
From GV Require Import Model.TxBuf Model.TxBufSpec Monitors.C19m.
Import ListNotations.

(** Order-preserving merge: [interleave k i l] = l is a shuffle of k and i keeping both orders. *)
Inductive interleave {A : Type} : list A -> list A -> list A -> Prop :=
| il_nil : interleave [] [] []
| il_left : forall a k i l, interleave k i l -> interleave (a :: k) i (a :: l)
| il_right : forall a k i l, interleave k i l -> interleave k (a :: i) (a :: l).

Lemma interleave_perm {A} (k i l : list A) : interleave k i l -> Permutation (k ++ i) l.
Proof.
  induction 1; cbn.
  - constructor.
  - constructor; assumption.
  - eapply perm_trans; [symmetry; apply Permutation_middle|]. constructor; assumption.
Qed.

Lemma interleave_length {A} (k i l : list A) : interleave k i l -> length l = (length k + length i)%nat.
Proof. induction 1; cbn; lia. Qed.

(** A schedule of several callers: [schedule ths ops] = ops is obtained by repeatedly taking
    the next request of some caller (every interleaving that respects each caller's order). *)
Inductive schedule {A : Type} : list (list A) -> list A -> Prop :=
| sch_done : forall ths, Forall (fun th => th = []) ths -> schedule ths []
| sch_take : forall pre a th post ops,
    schedule (pre ++ th :: post) ops -> schedule (pre ++ (a :: th) :: post) (a :: ops).

Section Proofs.
  Context {S T : Type}.
  Variable apply : S -> T -> ares S.
  Variable deleter : list T -> T -> bool.

  Notation W := (wstate S T).

  (** THE invariant of C19. *)
  Definition Inv (w : W) : Prop := fold_apply apply (base w) (txs w) = Some (cur w).

  Lemma buffered_spec : forall (w : W) dst, buffered w dst = dst ++ txs w.
  Proof. reflexivity. Qed.

  Lemma fold_apply_app s l1 l2 :
    fold_apply apply s (l1 ++ l2) =
    match fold_apply apply s l1 with Some s' => fold_apply apply s' l2 | None => None end.
  Proof.
    revert s; induction l1 as [|t l1 IH]; intros s; cbn; [reflexivity|].
    destruct (apply s t); auto.
  Qed.

  Lemma applies_iff s l : applies apply s l = true <-> exists s', fold_apply apply s l = Some s'.
  Proof.
    unfold applies. destruct (fold_apply apply s l); split; intros H; eauto; try discriminate.
    destruct H; discriminate.
  Qed.

  Lemma init_inv b : Inv (init b).
  Proof. reflexivity. Qed.

  (** ---------------------------------------------------------------- AddTx *)
  Lemma add_spec w t w' e : Inv w -> check_add_tx apply w t = (w', e) ->
    (e = ENone <-> applies apply (base w) (txs w ++ [t]) = true) /\
    (e = ENone -> txs w' = txs w ++ [t] /\ base w' = base w /\ Inv w') /\
    (e <> ENone -> w' = w) /\
    (forall c, e = EInvalid c <-> apply (cur w) t = AInvalid c) /\
    (forall c, e = EFatal c <-> apply (cur w) t = AFatal c).
  Proof.
    unfold Inv, check_add_tx, applies. intros HI H.
    rewrite fold_apply_app, HI. cbn.
    destruct (apply (cur w) t) eqn:E; inversion H; subst; clear H; cbn.
    - split; [split; auto|]. split.
      { intros _. split; [reflexivity|]. split; [reflexivity|]. unfold Inv; cbn.
        rewrite fold_apply_app, HI. cbn. rewrite E. reflexivity. }
      split; [congruence|]. split; intros c; split; discriminate.
    - split; [split; discriminate|]. split; [discriminate|]. split; [reflexivity|].
      split; intros c; split; congruence.
    - split; [split; discriminate|]. split; [discriminate|]. split; [reflexivity|].
      split; intros c; split; congruence.
  Qed.

  (** ---------------------------------------------------------------- Rebase *)
  Lemma loop_greedy : forall l cs upd,
    match rebase_loop apply cs upd l with
    | LDone c u k i =>
        greedy apply cs l = GDone k i /\ fold_apply apply cs k = Some c /\
        (upd = true -> u = true) /\ (u = false -> c = cs)
    | LFatal e c u => greedy apply cs l = GFatal e
    end.
  Proof.
    induction l as [|t r IH]; intros cs upd; cbn.
    - repeat split; auto.
    - destruct (apply cs t) eqn:E.
      + specialize (IH s true). destruct (rebase_loop apply s true r).
        * destruct IH as (G & F & U & _). rewrite G. cbn. rewrite E.
          repeat split; auto. intros Hu. rewrite (U eq_refl) in Hu. discriminate.
        * rewrite IH. reflexivity.
      + specialize (IH cs upd). destruct (rebase_loop apply cs upd r).
        * destruct IH as (G & F & U & C). rewrite G. repeat split; auto.
        * rewrite IH. reflexivity.
      + reflexivity.
  Qed.

  Lemma greedy_all_kept : forall l s k, greedy apply s l = GDone k [] -> k = l.
  Proof.
    induction l as [|t r IH]; intros s k; cbn.
    - intros H; inversion H; reflexivity.
    - destruct (apply s t) eqn:E.
      + destruct (greedy apply s0 r) eqn:G; intros H; inversion H; subst.
        f_equal. eapply IH; eauto.
      + destruct (greedy apply s r) eqn:G; intros H; inversion H.
      + discriminate.
  Qed.

  Lemma not_applied_nil ap : not_applied deleter ap [] = [].
  Proof. unfold not_applied, drop_applied. destruct ap; reflexivity. Qed.

  (** Rebase does exactly the greedy in-order re-application on the not-applied pending
      transactions, and re-establishes the invariant from ANY previous state. *)
  Lemma rebase_spec w nb ap w' e i : rebase apply deleter w nb ap = (w', (e, i)) ->
    match greedy apply nb (not_applied deleter ap (txs w)) with
    | GDone k i' => e = ENone /\ i = i' /\ txs w' = k /\ base w' = nb /\ Inv w'
    | GFatal e' => e = EFatal e' /\ i = [] /\ base w' = nb /\ txs w' = not_applied deleter ap (txs w)
    end.
  Proof.
    unfold rebase. destruct (txs w) as [|t0 l0] eqn:Etx.
    - intros H; inversion H; subst; clear H. rewrite not_applied_nil. cbn.
      repeat split; reflexivity.
    - fold (not_applied deleter ap (t0 :: l0)).
      set (L := not_applied deleter ap (t0 :: l0)).
      pose proof (loop_greedy L nb false) as LG.
      destruct (rebase_loop apply nb false L) as [c u k iv|e' c u].
      + destruct LG as (G & F & _ & C). rewrite G.
        assert (K : (match iv with [] => L | _ :: _ => k end) = k).
        { destruct iv; [symmetry; eapply greedy_all_kept; eauto | reflexivity]. }
        rewrite K.
        intros H; inversion H; subst; clear H. cbn.
        repeat split; auto.
        unfold Inv, cur; cbn. rewrite F. destruct u; [reflexivity|].
        rewrite (C eq_refl). reflexivity.
      + rewrite LG. intros H; inversion H; subst; clear H. cbn. repeat split; reflexivity.
  Qed.

  (** Declarative reading of [greedy]. *)
  Lemma greedy_interleave : forall l s k i, greedy apply s l = GDone k i -> interleave k i l.
  Proof.
    induction l as [|t r IH]; intros s k i; cbn.
    - intros H; inversion H; constructor.
    - destruct (apply s t) eqn:E.
      + destruct (greedy apply s0 r) eqn:G; intros H; inversion H; subst.
        constructor. eapply IH; eauto.
      + destruct (greedy apply s r) eqn:G; intros H; inversion H; subst.
        constructor. eapply IH; eauto.
      + discriminate.
  Qed.

  Lemma greedy_kept_applies : forall l s k i, greedy apply s l = GDone k i ->
    exists s', fold_apply apply s k = Some s'.
  Proof.
    induction l as [|t r IH]; intros s k i; cbn.
    - intros H; inversion H; cbn; eauto.
    - destruct (apply s t) eqn:E.
      + destruct (greedy apply s0 r) eqn:G; intros H; inversion H; subst.
        cbn. rewrite E. eapply IH; eauto.
      + destruct (greedy apply s r) eqn:G; intros H; inversion H; subst. eapply IH; eauto.
      + discriminate.
  Qed.

  (** One more transaction at the end: it is kept iff it applies to the state produced by the
      transactions kept so far, invalidated iff the user's function says invalid there. *)
  Lemma greedy_snoc : forall l s t,
    greedy apply s (l ++ [t]) =
    match greedy apply s l with
    | GFatal e => GFatal e
    | GDone k i =>
        match fold_apply apply s k with
        | Some c =>
            match apply c t with
            | AOk _ => GDone (k ++ [t]) i
            | AInvalid _ => GDone k (i ++ [t])
            | AFatal e => GFatal e
            end
        | None => GFatal 0
        end
    end.
  Proof.
    induction l as [|x r IH]; intros s t; cbn.
    - destruct (apply s t); reflexivity.
    - destruct (apply s x) eqn:E.
      + rewrite IH. destruct (greedy apply s0 r) as [k i|e]; [|reflexivity].
        cbn. rewrite E. destruct (fold_apply apply s0 k); [|reflexivity].
        destruct (apply s1 t); reflexivity.
      + rewrite IH. destruct (greedy apply s r) as [k i|e']; [|reflexivity].
        destruct (fold_apply apply s k); [|reflexivity].
        destruct (apply s0 t); reflexivity.
      + reflexivity.
  Qed.

  (** Each invalidated transaction really was invalid where it was met; each kept one applied. *)
  Lemma greedy_split : forall l1 t l2 s k i, greedy apply s (l1 ++ t :: l2) = GDone k i ->
    exists k1 i1 c, greedy apply s l1 = GDone k1 i1 /\ fold_apply apply s k1 = Some c /\
      ((exists c' k2 i2, apply c t = AOk c' /\ greedy apply c' l2 = GDone k2 i2 /\
                         k = k1 ++ t :: k2 /\ i = i1 ++ i2) \/
       (exists e k2 i2, apply c t = AInvalid e /\ greedy apply c l2 = GDone k2 i2 /\
                        k = k1 ++ k2 /\ i = i1 ++ t :: i2)).
  Proof.
    induction l1 as [|x r IH]; intros t l2 s k i; cbn.
    - intros H. exists [], [], s. repeat split; auto.
      destruct (apply s t) eqn:E.
      + destruct (greedy apply s0 l2) eqn:G; inversion H; subst. left. eauto 10.
      + destruct (greedy apply s l2) eqn:G; inversion H; subst. right. eauto 10.
      + discriminate.
    - destruct (apply s x) eqn:E.
      + destruct (greedy apply s0 (r ++ t :: l2)) eqn:G; intros H; inversion H; subst.
        destruct (IH _ _ _ _ _ G) as (k1 & i1 & c & G1 & F1 & D). rewrite G1.
        exists (x :: k1), i1, c. cbn. rewrite E. repeat split; auto.
        destruct D as [(c' & k2 & i2 & A & G2 & -> & ->)|(e & k2 & i2 & A & G2 & -> & ->)];
          [left|right]; eauto 10.
      + destruct (greedy apply s (r ++ t :: l2)) eqn:G; intros H; inversion H; subst.
        destruct (IH _ _ _ _ _ G) as (k1 & i1 & c & G1 & F1 & D). rewrite G1.
        exists k1, (x :: i1), c. repeat split; auto.
        destruct D as [(c' & k2 & i2 & A & G2 & -> & ->)|(e0 & k2 & i2 & A & G2 & -> & ->)];
          [left|right]; eauto 10.
      + discriminate.
  Qed.

  (** ---------------------------------------------------------------- one step refines the spec *)
  Lemma step_refines w o w' x : Inv w -> step apply deleter w o = (w', x) ->
    spec_step apply deleter (base w) (txs w) o =
      (x, if is_fatal_rebase x then None else Some (base w', txs w')) /\
    (is_fatal_rebase x = false -> Inv w').
  Proof.
    intros HI. destruct o as [t|dst|nb ap]; cbn.
    - destruct (check_add_tx apply w t) as [w1 e] eqn:C. intros H; inversion H; subst; clear H.
      unfold check_add_tx in C. unfold Inv in HI. rewrite HI.
      destruct (apply (cur w) t) eqn:E; inversion C; subst; clear C; cbn; split; auto.
      intros _. unfold Inv; cbn. rewrite fold_apply_app, HI. cbn. rewrite E. reflexivity.
    - intros H; inversion H; subst; clear H. cbn. split; auto.
    - destruct (rebase apply deleter w nb ap) as [w1 [e i]] eqn:R.
      intros H; inversion H; subst; clear H.
      apply rebase_spec in R.
      destruct (greedy apply nb (not_applied deleter ap (txs w))) as [k i'|e'].
      + destruct R as (-> & -> & <- & <- & I). cbn. split; auto.
      + destruct R as (-> & -> & _ & _). cbn. split; [reflexivity | discriminate].
  Qed.

  (** ---------------------------------------------------------------- all request sequences *)
  Lemma run_outs_states : forall ops w, snd (run apply deleter w ops) = map fst (run_states apply deleter w ops).
  Proof.
    induction ops as [|o r IH]; intros w; cbn; [reflexivity|].
    destruct (step apply deleter w o) as [w1 x] eqn:E.
    specialize (IH w1). destruct (run apply deleter w1 r) as [w2 xs]. cbn in *. congruence.
  Qed.

  (** The invariant holds after every request of every sequence, as long as no rebase has
      returned a fatal error. *)
  Theorem inv_always : forall ops w, Inv w ->
    forall pre x w' post, run_states apply deleter w ops = pre ++ (x, w') :: post ->
      (forall y, In y pre -> is_fatal_rebase (fst y) = false) ->
      is_fatal_rebase x = false -> Inv w'.
  Proof.
    induction ops as [|o r IH]; intros w HI pre x w' post; cbn.
    - destruct pre; discriminate.
    - destruct (step apply deleter w o) as [w1 x1] eqn:E.
      destruct (step_refines _ _ _ _ HI E) as [_ I1].
      destruct pre as [|p pre]; cbn; intros H; inversion H; subst; clear H.
      + intros _ F. auto.
      + intros Hp F.
        assert (Inv w1) by (apply I1; apply (Hp (x1, w1)); left; reflexivity).
        apply (IH w1) with (pre := pre) (x := x) (post := post); auto.
  Qed.

  Corollary inv_final : forall ops b,
    existsb (@is_fatal_rebase T) (snd (run apply deleter (init b) ops)) = false ->
    Inv (fst (run apply deleter (init b) ops)).
  Proof.
    intros ops b. generalize (init_inv b). generalize (init b : W).
    induction ops as [|o r IH]; intros w HI; cbn; [auto|].
    destruct (step apply deleter w o) as [w1 x] eqn:E.
    specialize (IH w1). destruct (run apply deleter w1 r) as [w2 xs] eqn:R. cbn in *.
    intros H. apply orb_false_iff in H as [F H].
    apply IH; auto. destruct (step_refines _ _ _ _ HI E) as [_ I1]; auto.
  Qed.

  (** Refinement: the results of the model equal the results of the (base, pending)
      specification machine, up to and including the first fatal rebase response. *)
  Theorem refines_spec : forall ops w, Inv w ->
    cut_fatal (map fst (run_states apply deleter w ops)) = spec_outs apply deleter (base w) (txs w) ops.
  Proof.
    induction ops as [|o r IH]; intros w HI; cbn; [reflexivity|].
    destruct (step apply deleter w o) as [w1 x] eqn:E.
    destruct (step_refines _ _ _ _ HI E) as [SS I1]. cbn. rewrite SS.
    destruct (is_fatal_rebase x) eqn:F; [reflexivity|].
    f_equal. apply IH. auto.
  Qed.

  (** Any concurrent mix: whatever schedule the kernel loop takes the callers' requests in,
      it is one request sequence, hence covered. *)
  Corollary inv_any_schedule : forall (ths : list (list (op S T))) ops b,
    schedule ths ops ->
    existsb (@is_fatal_rebase T) (snd (run apply deleter (init b) ops)) = false ->
    Inv (fst (run apply deleter (init b) ops)) /\
    snd (run apply deleter (init b) ops) = spec_outs apply deleter b [] ops.
  Proof.
    intros ths ops b _ NF. split; [apply inv_final; assumption|].
    rewrite run_outs_states in *.
    pose proof (refines_spec ops (init b) (init_inv b)) as RS. cbn [init base txs] in RS. rewrite <- RS. clear RS.
    clear - NF. induction (map fst (run_states apply deleter (init b) ops)) as [|x r IH]; cbn in *; [reflexivity|].
    apply orb_false_iff in NF as [F NF]. rewrite F. f_equal. auto.
  Qed.

  (** ---------------------------------------------------------------- monitors *)
  Variable S_eqb : S -> S -> bool.
  Variable T_eqb : T -> T -> bool.
  Hypothesis S_eqb_refl : forall s, S_eqb s s = true.
  Hypothesis T_eqb_refl : forall t, T_eqb t t = true.

  Lemma l_eqb_refl l : l_eqb T_eqb l l = true.
  Proof. induction l; cbn; [reflexivity|]. rewrite T_eqb_refl; auto. Qed.

  Lemma err_eqb_refl e : err_eqb e e = true.
  Proof. destruct e; cbn; auto using N.eqb_refl. Qed.

  Lemma out_eqb_refl x : out_eqb T_eqb x x = true.
  Proof. destruct x; cbn; rewrite ?err_eqb_refl, ?l_eqb_refl; reflexivity. Qed.

  (** what the harness observes of a model run *)
  Fixpoint api_trace (ops : list (op S T)) (rs : list (out T * W)) : list (op S T * out T * list T) :=
    match ops, rs with
    | o :: ops', (x, w) :: rs' => (o, x, txs w) :: api_trace ops' rs'
    | _, _ => []
    end.

  Definition snap_of (w : W) : snap (S := S) (T := T) := (base w, is_updated w, cur_state w, txs w).

  Theorem model_satisfies_api_mon : forall ops w, Inv w ->
    c19_api_mon apply deleter T_eqb (base w) (txs w) (api_trace ops (run_states apply deleter w ops)) = true.
  Proof.
    induction ops as [|o r IH]; intros w HI; cbn; [reflexivity|].
    destruct (step apply deleter w o) as [w1 x] eqn:E.
    destruct (step_refines _ _ _ _ HI E) as [SS I1]. cbn. rewrite SS.
    destruct (is_fatal_rebase x) eqn:F.
    - apply out_eqb_refl.
    - specialize (I1 eq_refl). rewrite out_eqb_refl, l_eqb_refl. cbn.
      unfold applies. unfold Inv in I1. rewrite I1. cbn. apply IH. exact I1.
  Qed.

  Theorem model_satisfies_inv_mon : forall ops w, Inv w ->
    c19_inv_mon apply S_eqb (map (fun xw : out T * W => (fst xw, snap_of (snd xw))) (run_states apply deleter w ops)) = true.
  Proof.
    induction ops as [|o r IH]; intros w HI; cbn; [reflexivity|].
    destruct (step apply deleter w o) as [w1 x] eqn:E.
    destruct (step_refines _ _ _ _ HI E) as [_ I1]. cbn.
    destruct (is_fatal_rebase x) eqn:F; [reflexivity|].
    specialize (I1 eq_refl). rewrite IH by exact I1. rewrite andb_true_r.
    unfold snap_ok, snap_of, snap_cur. unfold Inv, cur in I1. rewrite I1. apply S_eqb_refl.
  Qed.

  (** Soundness of the API monitor: if it accepts a trace of observations, the observed
      results ARE the results of the specification machine (up to a fatal rebase), and every
      reported pending list applies cleanly to its base. *)
  Hypothesis T_eqb_sound : forall a b, T_eqb a b = true -> a = b.

  Lemma l_eqb_sound : forall x y, l_eqb T_eqb x y = true -> x = y.
  Proof.
    induction x as [|a x IH]; intros [|b y]; cbn; intros H; try discriminate; [reflexivity|].
    apply andb_true_iff in H as [H1 H2]. f_equal; auto.
  Qed.

  Lemma err_eqb_sound a b : err_eqb a b = true -> a = b.
  Proof. destruct a, b; cbn; intros H; try discriminate; try reflexivity; apply N.eqb_eq in H; congruence. Qed.

  Lemma out_eqb_sound x y : out_eqb T_eqb x y = true -> x = y.
  Proof.
    destruct x, y; cbn; intros H; try discriminate.
    - f_equal. apply err_eqb_sound; assumption.
    - f_equal. apply l_eqb_sound; assumption.
    - apply andb_true_iff in H as [H1 H2]. f_equal; [apply err_eqb_sound | apply l_eqb_sound]; assumption.
  Qed.

  Lemma spec_step_fatal_iff b p o x n : applies apply b p = true ->
    spec_step apply deleter b p o = (x, n) -> (n = None <-> is_fatal_rebase x = true).
  Proof.
    unfold applies. intros A. destruct o as [t|dst|nb ap]; cbn.
    - destruct (fold_apply apply b p); [|discriminate].
      destruct (apply s t); intros H; inversion H; subst; cbn; split; intros; discriminate.
    - intros H; inversion H; subst; cbn; split; intros; discriminate.
    - destruct (greedy apply nb (not_applied deleter ap p)); intros H; inversion H; subst; cbn; split; intros; try discriminate; reflexivity.
  Qed.

  Theorem api_mon_sound : forall tr b p, applies apply b p = true ->
    c19_api_mon apply deleter T_eqb b p tr = true ->
    cut_fatal (map (fun e : op S T * out T * list T => snd (fst e)) tr) =
    spec_outs apply deleter b p (map (fun e : op S T * out T * list T => fst (fst e)) tr).
  Proof.
    induction tr as [|[[o x] p'] r IH]; intros b p A; cbn; [reflexivity|].
    destruct (spec_step apply deleter b p o) as [xs n] eqn:SS.
    pose proof (spec_step_fatal_iff _ _ _ _ _ A SS) as FI.
    destruct n as [[b' ps]|].
    - intros H. repeat (apply andb_true_iff in H as [H ?]).
      apply out_eqb_sound in H. subst xs.
      destruct (is_fatal_rebase x) eqn:F.
      + destruct FI as [_ FI]. specialize (FI eq_refl). discriminate.
      + apply l_eqb_sound in H2. subst ps. f_equal. apply IH; assumption.
    - intros H. apply out_eqb_sound in H. subst xs.
      destruct FI as [FI _]. rewrite (FI eq_refl). reflexivity.
  Qed.
End Proofs.
