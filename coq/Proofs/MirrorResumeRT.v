(** C10, ingredients for "the restarted view decides like the view that was persisted":
      - [pmeq]: two proof maps hold, target by target, the same signer sets;
      - the vote summary's decision data (block powers and the most voted block,
        [set_powers]) depend on the proof map only up to [pmeq] - in particular not on the order of
        its entries (Go iterates a map);
      - round trip: loading ([to_full_entries]) what was written for a proof map
        ([as_sparse] of each proof) gives a proof map that is [pmeq] to it. *)
From Coq Require Import List NArith Arith Bool Lia String Permutation.
From GV Require Import Base.Ints Gen.Math Gen.Kernel Model.Mirror
  Proofs.MirrorAuth Proofs.MirrorCert Proofs.BytesOrder Proofs.MirrorResumeLoad.
Import ListNotations.
Local Open Scope N_scope.

(** * Proof maps with distinct targets *)
Definition keys_nodup {A} (pm : list (bytes * A)) : Prop := NoDup (map fst pm).

Lemma pm_get_pm_set {A} (m : list (bytes * A)) k v t :
  pm_get (pm_set m k v) t = if bytes_eqb k t then Some v else pm_get m t.
Proof.
  induction m as [|[k' v'] m IH]; cbn [pm_set pm_get].
  - destruct (bytes_eqb k t); reflexivity.
  - destruct (bytes_eqb k' k) eqn:E; cbn [pm_get].
    + apply bytes_eqb_eq in E; subst. destruct (bytes_eqb k t); reflexivity.
    + destruct (bytes_eqb k' t) eqn:E2.
      * destruct (bytes_eqb k t) eqn:E3; [|reflexivity].
        apply bytes_eqb_eq in E2, E3; subst. rewrite bytes_eqb_refl in E. discriminate.
      * exact IH.
Qed.

Lemma pm_set_keys {A} (m : list (bytes * A)) k v x :
  In x (map fst (pm_set m k v)) <-> x = k \/ In x (map fst m).
Proof.
  induction m as [|[k' v'] m IH]; cbn [pm_set map fst In].
  - intuition.
  - destruct (bytes_eqb k' k) eqn:E; cbn [map fst In].
    + apply bytes_eqb_eq in E; subst. intuition.
    + rewrite IH. intuition.
Qed.

Lemma pm_set_keys_nodup {A} (m : list (bytes * A)) k v : keys_nodup m -> keys_nodup (pm_set m k v).
Proof.
  unfold keys_nodup. induction m as [|[k' v'] m IH]; cbn [pm_set map fst]; intros H.
  - constructor; [intros []|constructor].
  - inversion H as [|a l Hn Hd]; subst. destruct (bytes_eqb k' k) eqn:E; cbn [map fst].
    + apply bytes_eqb_eq in E; subst. constructor; assumption.
    + constructor; [|apply IH; exact Hd].
      intros Hin. apply pm_set_keys in Hin as [->|Hin]; [rewrite bytes_eqb_refl in E; discriminate|contradiction].
Qed.

Lemma fold_pm_set_keys_nodup {A} (ups : list (bytes * A)) : forall pm, keys_nodup pm ->
  keys_nodup (fold_left (fun m e => pm_set m (fst e) (snd e)) ups pm).
Proof. induction ups as [|e ups IH]; intros pm H; cbn [fold_left]; [exact H|]. apply IH, pm_set_keys_nodup, H. Qed.

Lemma pm_get_none {A} (m : list (bytes * A)) t : ~ In t (map fst m) -> pm_get m t = None.
Proof.
  induction m as [|[k v] m IH]; cbn [pm_get map fst In]; [reflexivity|]. intros H.
  destruct (bytes_eqb k t) eqn:E; [apply bytes_eqb_eq in E; subst; exfalso; apply H; left; reflexivity|].
  apply IH. intros Hin. apply H. right; exact Hin.
Qed.

Lemma in_pm_get {A} (m : list (bytes * A)) t v : keys_nodup m -> In (t, v) m -> pm_get m t = Some v.
Proof.
  unfold keys_nodup. induction m as [|[k v'] m IH]; cbn [pm_get map fst]; [intros _ []|]. intros Hn [E|Hin].
  - inversion E; subst. rewrite bytes_eqb_refl. reflexivity.
  - inversion Hn as [|a l Hni Hd]; subst. destruct (bytes_eqb k t) eqn:E.
    + apply bytes_eqb_eq in E; subst. exfalso. apply Hni. apply in_map_iff. exists (t, v). split; [reflexivity|exact Hin].
    + apply IH; assumption.
Qed.

(** * Signer sets *)
Definition peq (p q : proof) : Prop := forall i, In i (map fst p) <-> In i (map fst q).

Definition pmeq (a b : pmap) : Prop :=
  forall t, match pm_get a t, pm_get b t with
            | Some p, Some q => peq p q
            | None, None => True
            | _, _ => False
            end.

Lemma peq_refl p : peq p p. Proof. intros i; reflexivity. Qed.
Lemma peq_sym p q : peq p q -> peq q p. Proof. intros H i; symmetry; apply H. Qed.
Lemma pmeq_refl a : pmeq a a.
Proof. intros t. destruct (pm_get a t); [apply peq_refl|exact I]. Qed.
Lemma pmeq_sym a b : pmeq a b -> pmeq b a.
Proof. intros H t. specialize (H t). destruct (pm_get a t), (pm_get b t); try exact H; try exact I. apply peq_sym; exact H. Qed.

(** ** nodup_n is a duplicate-free enumeration of the same elements *)
Lemma nodup_n_in_inv x l : In x (nodup_n l) -> In x l.
Proof.
  induction l as [|y t IH]; [intros []|]. cbn [nodup_n].
  destruct (existsb (N.eqb y) t); [intros H; right; apply IH; exact H|].
  intros [->|H]; [left; reflexivity|right; apply IH; exact H].
Qed.

Lemma nodup_n_NoDup l : NoDup (nodup_n l).
Proof.
  induction l as [|y t IH]; [constructor|]. cbn [nodup_n].
  destruct (existsb (N.eqb y) t) eqn:E; [exact IH|]. constructor; [|exact IH].
  intros Hin. apply nodup_n_in_inv in Hin.
  assert (existsb (N.eqb y) t = true) by (apply existsb_exists; exists y; split; [exact Hin|apply N.eqb_refl]).
  congruence.
Qed.

Lemma fold_left_perm {A B} (f : A -> B -> A) :
  (forall a x y, f (f a x) y = f (f a y) x) ->
  forall l l', Permutation l l' -> forall a, fold_left f l a = fold_left f l' a.
Proof.
  intros Hc l l' P. induction P as [|x l l' P IH|x y l|l1 l2 l3 P1 IH1 P2 IH2]; intros a; cbn [fold_left].
  - reflexivity.
  - apply IH.
  - rewrite Hc. reflexivity.
  - rewrite IH1. apply IH2.
Qed.

Lemma idx_power_perm pows l l' : Permutation l l' -> idx_power pows l = idx_power pows l'.
Proof.
  intros P. unfold idx_power. apply fold_left_perm; [|exact P].
  intros a x y. destruct (nth_n pows x) as [p|], (nth_n pows y) as [q|]; try reflexivity.
  unfold wrap64. rewrite !N.add_mod_idemp_l by (unfold two64; lia). f_equal. lia.
Qed.

Lemma proof_power_peq pows p q : peq p q -> proof_power pows p = proof_power pows q.
Proof.
  intros H. unfold proof_power, proof_idxs. apply idx_power_perm.
  apply NoDup_Permutation; try apply nodup_n_NoDup.
  intros i. split; intros Hi; apply nodup_n_in, H, nodup_n_in_inv, Hi.
Qed.

(** * Block powers by target *)
Lemma blocks_get pows pm t : keys_nodup pm ->
  map_get (blocks pows pm) t = match pm_get pm t with Some p => proof_power pows p | None => 0 end.
Proof.
  rewrite blocks_eq.
  assert (G : forall b, keys_nodup pm ->
            map_get (fold_left (fun b e => pm_set b (fst e) (proof_power pows (snd e))) pm b) t =
            match pm_get pm t with Some p => proof_power pows p | None => map_get b t end).
  { unfold keys_nodup. induction pm as [|[k p] pm IH]; intros b Hn; cbn [fold_left pm_get fst snd]; [reflexivity|].
    inversion Hn as [|a l Hni Hd]; subst. rewrite (IH _ Hd), map_get_pm_set.
    destruct (bytes_eqb k t) eqn:E; [|reflexivity].
    apply bytes_eqb_eq in E; subst. rewrite (pm_get_none pm t Hni). reflexivity. }
  intros Hn. rewrite (G [] Hn). destruct (pm_get pm t); reflexivity.
Qed.

(** * The most voted block *)
Definition mstep (pows : list N) (acc : bytes * N) (e : bytes * proof) : bytes * N :=
  let bp := proof_power pows (snd e) in
  if bp =? snd acc then (bytes_min (fst acc) (fst e), snd acc)
  else if snd acc <? bp then (fst e, bp) else acc.

Lemma set_powers_mpc pows pm : snd (set_powers pows pm) = fst (fold_left (mstep pows) pm ([], 0)).
Proof.
  unfold set_powers.
  assert (G : forall present b maxh maxp,
    snd (let '(present, blocks, maxh, maxp) :=
      fold_left (fun acc e =>
        let '(present, blocks, maxh, maxp) := acc in
        let bp := proof_power pows (snd e) in
        let present' := present ++ map fst (snd e) in
        let blocks' := pm_set blocks (fst e) bp in
        if bp =? maxp then (present', blocks', bytes_min maxh (fst e), maxp)
        else if maxp <? bp then (present', blocks', fst e, bp)
        else (present', blocks', maxh, maxp)) pm (present, b, maxh, maxp) in
      (idx_power pows (sort_n (nodup_n present)), blocks, maxh)) =
    fst (fold_left (mstep pows) pm (maxh, maxp))).
  { induction pm as [|e pm IH]; intros present b maxh maxp; cbn [fold_left]; [reflexivity|].
    unfold mstep at 2. cbn [fst snd].
    destruct (proof_power pows (snd e) =? maxp); [apply IH|].
    destruct (maxp <? proof_power pows (snd e)); apply IH. }
  apply G.
Qed.

(** the fold computes the greatest power and, among the targets of that power (and the start
    value), the least hash *)
Definition cand_ok (cands : list (bytes * N)) (hm : bytes * N) : Prop :=
  In hm cands /\ forall t w, In (t, w) cands -> w <= snd hm /\ (w = snd hm -> hash_le (fst hm) t).

Lemma bytes_min_le_l a b : hash_le (bytes_min a b) a.
Proof. unfold bytes_min. destruct (bytes_ltb b a) eqn:E; [apply ltb_hash_le; exact E|apply hash_le_refl]. Qed.
Lemma bytes_min_le_r a b : hash_le (bytes_min a b) b.
Proof. unfold bytes_min. destruct (bytes_ltb b a) eqn:E; [apply hash_le_refl|exact E]. Qed.
Lemma bytes_min_cases a b : bytes_min a b = a \/ bytes_min a b = b.
Proof. unfold bytes_min. destruct (bytes_ltb b a); auto. Qed.


Lemma mfold_ok pows pm : forall cands acc,
  cand_ok cands acc ->
  cand_ok (cands ++ map (fun e => (fst e, proof_power pows (snd e))) pm) (fold_left (mstep pows) pm acc).
Proof.
  induction pm as [|[t p] pm IH]; intros cands acc H; cbn [fold_left map].
  - rewrite app_nil_r. exact H.
  - replace (cands ++ (fst (t, p), proof_power pows (snd (t, p))) :: map (fun e => (fst e, proof_power pows (snd e))) pm)
      with ((cands ++ [(t, proof_power pows p)]) ++ map (fun e => (fst e, proof_power pows (snd e))) pm)
      by (rewrite <- app_assoc; reflexivity).
    apply IH. destruct acc as [h M]. destruct H as [Hin Hall]. cbn [fst snd] in *.
    unfold mstep. cbn [fst snd]. set (bp := proof_power pows p).
    destruct (N.eqb_spec bp M) as [E|Hne].
    + split.
      * destruct (bytes_min_cases h t) as [-> | ->]; apply in_or_app; [left; exact Hin|right; left; rewrite E; reflexivity].
      * cbn [fst snd]. intros x w Hx. apply in_app_or in Hx as [Hx|[Hx|[]]].
        -- destruct (Hall x w Hx) as [A B]. split; [exact A|]. intros Ew.
           eapply hash_le_trans; [apply bytes_min_le_l|apply B; exact Ew].
        -- inversion Hx; subst x w. split; [lia|]. intros _. apply bytes_min_le_r.
    + destruct (N.ltb_spec M bp) as [Hlt|Hge].
      * split; [apply in_or_app; right; left; reflexivity|]. cbn [fst snd].
        intros x w Hx. apply in_app_or in Hx as [Hx|[Hx|[]]].
        -- destruct (Hall x w Hx) as [A _]. split; [lia|]. intros Ew. lia.
        -- inversion Hx; subst x w. split; [lia|]. intros _. apply hash_le_refl.
      * split; [apply in_or_app; left; exact Hin|]. cbn [fst snd].
        intros x w Hx. apply in_app_or in Hx as [Hx|[Hx|[]]].
        -- apply Hall; exact Hx.
        -- inversion Hx; subst x w. split; [lia|]. intros Ew. lia.
Qed.

Lemma cand_ok_unique c c' x y :
  (forall e, In e c <-> In e c') -> cand_ok c x -> cand_ok c' y -> x = y.
Proof.
  intros Hc [Hx Ax] [Hy Ay]. destruct x as [h M], y as [h' M']. cbn [fst snd] in *.
  apply Hc in Hx. apply Hc in Hy.
  destruct (Ay _ _ Hx) as [L1 E1]. destruct (Ax _ _ Hy) as [L2 E2].
  assert (M = M') by lia. subst M'. f_equal.
  apply hash_le_antisym; [apply E2; reflexivity|apply E1; reflexivity].
Qed.

Lemma mpc_pmeq pows a b : keys_nodup a -> keys_nodup b -> pmeq a b ->
  snd (set_powers pows a) = snd (set_powers pows b).
Proof.
  intros Na Nb H. rewrite !set_powers_mpc. f_equal.
  assert (I0 : cand_ok [([], 0)] ([], 0)).
  { split; [left; reflexivity|]. intros t w [E|[]]. inversion E; subst. cbn. split; [lia|intros _; apply hash_le_refl]. }
  eapply cand_ok_unique; [|apply (mfold_ok pows a _ _ I0)|apply (mfold_ok pows b _ _ I0)].
  assert (G : forall x y, keys_nodup x -> keys_nodup y -> pmeq x y -> forall e,
            In e (map (fun e => (fst e, proof_power pows (snd e))) x) ->
            In e (map (fun e => (fst e, proof_power pows (snd e))) y)).
  { intros x y Nx Ny Hxy e He. apply in_map_iff in He as ([t p]&<-&Hin). cbn [fst snd].
    pose proof (in_pm_get _ _ _ Nx Hin) as Hg. specialize (Hxy t). rewrite Hg in Hxy.
    destruct (pm_get y t) as [q|] eqn:Hq; [|destruct Hxy].
    rewrite (proof_power_peq pows p q Hxy). apply in_map_iff. exists (t, q). split; [reflexivity|apply pm_get_in; exact Hq]. }
  intros e. split; intros He; apply in_app_or in He as [He|He]; apply in_or_app; try (left; exact He); right.
  - eapply G; [exact Na|exact Nb|exact H|exact He].
  - eapply G; [exact Nb|exact Na|apply pmeq_sym; exact H|exact He].
Qed.

Lemma blocks_pmeq pows a b t : keys_nodup a -> keys_nodup b -> pmeq a b ->
  map_get (blocks pows a) t = map_get (blocks pows b) t.
Proof.
  intros Na Nb H. rewrite !blocks_get by assumption. specialize (H t).
  destruct (pm_get a t), (pm_get b t); try destruct H; [|reflexivity]. apply proof_power_peq; exact H.
Qed.

(** * Round trip: what is loaded from the sparse form of a proof map *)
Definition nd_proof (p : proof) : Prop := NoDup (map snd p).
Definition nd_pmap (pm : pmap) : Prop := forall t p, In (t, p) pm -> nd_proof p.

Lemma has_sig_in p s : has_sig p s = true <-> exists j, In (j, s) p.
Proof.
  unfold has_sig. rewrite existsb_exists. split.
  - intros ([j s']&Hin&E). cbn in E. apply sigd_eqb_eq in E. subst. exists j; exact Hin.
  - intros (j&Hin). exists (j, s). split; [exact Hin|apply sigd_eqb_refl].
Qed.

Lemma NoDup_app_single {A} (l : list A) x : NoDup l -> ~ In x l -> NoDup (l ++ [x]).
Proof.
  induction l as [|y l IH]; cbn [app]; intros Hn Hx; [constructor; [intros []|constructor]|].
  inversion Hn as [|a l' Hy Hd]; subst. constructor.
  - intros Hin. apply in_app_or in Hin as [Hin|[E|[]]]; [contradiction|]. subst. apply Hx. left; reflexivity.
  - apply IH; [exact Hd|]. intros Hin. apply Hx. right; exact Hin.
Qed.

Lemma add_sig_nd p i s : nd_proof p -> nd_proof (add_sig p i s).
Proof.
  unfold add_sig, nd_proof. intros H. destruct (has_sig p s) eqn:E; [exact H|].
  rewrite map_app. cbn [map snd]. apply NoDup_app_single; [exact H|].
  intros Hin. apply in_map_iff in Hin as ([j s']&Es&Hin). cbn in Es. subst s'.
  assert (has_sig p s = true) by (apply has_sig_in; exists j; exact Hin). congruence.
Qed.

Lemma merge_sigs_nd kind h r t keys sigs : forall p p' a,
  merge_sigs kind h r t keys p sigs = (p', a) -> nd_proof p -> nd_proof p'.
Proof.
  induction sigs as [|s rest IH]; intros p p' a; cbn [merge_sigs].
  - intros E; inversion E; subst. intros H; exact H.
  - assert (Hskip : (let '(p0, _) := merge_sigs kind h r t keys p rest in (p0, false)) = (p', a) -> nd_proof p -> nd_proof p').
    { destruct (merge_sigs kind h r t keys p rest) as [p0 a0] eqn:E0. intros E; inversion E; subst. eapply IH; exact E0. }
    destruct (keyid_decode (ss_kid s)) as [n|]; [|exact Hskip].
    destruct (nth_n keys n) as [key|]; [|exact Hskip].
    destruct (verify_vote key kind h r t (ss_sig s)); [|exact Hskip].
    intros E H. eapply IH; [exact E|apply add_sig_nd; exact H].
Qed.

Lemma merge_sparse_nd kind h r t keys p sigs : nd_proof p -> nd_proof (fst (fst (merge_sparse kind h r t keys p sigs))).
Proof.
  intros H. unfold merge_sparse. destruct (merge_sigs kind h r t keys p sigs) as [p' a] eqn:E. cbn [fst].
  eapply merge_sigs_nd; eassumption.
Qed.

(** every pair of the result is an old pair or comes from a listed signature *)
Lemma merge_sigs_pairs kind h r t keys sigs : forall p p' a,
  merge_sigs kind h r t keys p sigs = (p', a) ->
  forall i s, In (i, s) p' -> In (i, s) p \/ exists ss, In ss sigs /\ keyid_decode (ss_kid ss) = Some i /\ ss_sig ss = s.
Proof.
  induction sigs as [|s0 rest IH]; intros p p' a; cbn [merge_sigs].
  - intros E; inversion E; subst. intros i s H; left; exact H.
  - assert (Hskip : (let '(p0, _) := merge_sigs kind h r t keys p rest in (p0, false)) = (p', a) ->
              forall i s, In (i, s) p' -> In (i, s) p \/ exists ss, In ss (s0 :: rest) /\ keyid_decode (ss_kid ss) = Some i /\ ss_sig ss = s).
    { destruct (merge_sigs kind h r t keys p rest) as [p0 a0] eqn:E0. intros E; inversion E; subst. intros i s Hin.
      destruct (IH _ _ _ E0 i s Hin) as [H|(ss&H1&H2)]; [left; exact H|right; exists ss; split; [right; exact H1|exact H2]]. }
    destruct (keyid_decode (ss_kid s0)) as [n|] eqn:Ed; [|exact Hskip].
    destruct (nth_n keys n) as [key|]; [|exact Hskip].
    destruct (verify_vote key kind h r t (ss_sig s0)); [|exact Hskip].
    intros E i s Hin. destruct (IH _ _ _ E i s Hin) as [H|(ss&H1&H2)].
    + unfold add_sig in H. destruct (has_sig p (ss_sig s0)); [left; exact H|].
      apply in_app_or in H as [H|[H|[]]]; [left; exact H|]. inversion H; subst.
      right. exists s0. split; [left; reflexivity|split; [exact Ed|reflexivity]].
    + right. exists ss. split; [right; exact H1|exact H2].
Qed.

(** when all listed signatures are valid, each of them is in the result *)
Lemma merge_sigs_all_in kind h r t keys sigs : forall p p',
  merge_sigs kind h r t keys p sigs = (p', true) ->
  (forall j s, In (j, s) p -> exists j', In (j', s) p') /\
  (forall ss, In ss sigs -> exists j, In (j, ss_sig ss) p').
Proof.
  induction sigs as [|s0 rest IH]; intros p p'; cbn [merge_sigs].
  - intros E; inversion E; subst. split; [intros j s H; exists j; exact H|intros ss []].
  - assert (Hskip : forall X, (let '(p0, _) := merge_sigs kind h r t keys p rest in (p0, false)) = (p', true) -> X).
    { intros X. destruct (merge_sigs kind h r t keys p rest). intros E; inversion E. }
    destruct (keyid_decode (ss_kid s0)) as [n|]; [|apply Hskip].
    destruct (nth_n keys n) as [key|]; [|apply Hskip].
    destruct (verify_vote key kind h r t (ss_sig s0)); [|apply Hskip].
    intros E. destruct (IH _ _ E) as [A B].
    assert (Hadd : forall j s, In (j, s) p -> exists j', In (j', s) (add_sig p n (ss_sig s0))).
    { intros j s H. exists j. unfold add_sig. destruct (has_sig p (ss_sig s0)); [exact H|apply in_or_app; left; exact H]. }
    split.
    + intros j s H. destruct (Hadd j s H) as (j'&H'). exact (A j' s H').
    + intros ss [->|Hin]; [|apply B; exact Hin].
      assert (H0 : exists j, In (j, ss_sig ss) (add_sig p n (ss_sig ss))).
      { unfold add_sig. destruct (has_sig p (ss_sig ss)) eqn:Eh.
        - apply has_sig_in in Eh. exact Eh.
        - exists n. apply in_or_app. right; left; reflexivity. }
      destruct H0 as (j&Hj). exact (A j _ Hj).
Qed.

Lemma as_sparse_has p i s : In (i, s) p -> In (mk_ssig (keyid_encode i) s) (as_sparse p).
Proof.
  intros H. unfold as_sparse. apply in_flat_map. exists i. split.
  - apply sort_n_in. unfold proof_idxs. apply nodup_n_in. apply in_map_iff. exists (i, s). split; [reflexivity|exact H].
  - apply in_map. apply sig_of_idx_has. exact H.
Qed.

Lemma nd_proof_inj p i j s : nd_proof p -> In (i, s) p -> In (j, s) p -> i = j.
Proof.
  unfold nd_proof. induction p as [|[k s'] p IH]; cbn [map snd]; [intros _ []|]. intros Hn [E1|H1] [E2|H2].
  - congruence.
  - inversion E1; subst. inversion Hn as [|a l Hni _]; subst. exfalso. apply Hni.
    apply in_map_iff. exists (j, s). split; [reflexivity|exact H2].
  - inversion E2; subst. inversion Hn as [|a l Hni _]; subst. exfalso. apply Hni.
    apply in_map_iff. exists (i, s). split; [reflexivity|exact H1].
  - inversion Hn; subst. eapply IH; eassumption.
Qed.

Lemma reload_peq keys kind h r t p p1 :
  nd_proof p -> merge_sigs kind h r t keys [] (as_sparse p) = (p1, true) -> peq p1 p.
Proof.
  intros Hnd Em i. split; intros Hi; apply in_map_iff in Hi as ([i' s]&Ei&Hin); cbn in Ei; subst i'.
  - destruct (merge_sigs_pairs _ _ _ _ _ _ _ _ _ Em i s Hin) as [[]|(ss&Hss&Hd&Hs)].
    destruct (as_sparse_in _ _ Hss) as (i0&s0&Hp&->). cbn [ss_kid ss_sig] in Hd, Hs.
    rewrite keyid_roundtrip in Hd. inversion Hd; subst.
    apply in_map_iff. exists (i, s). split; [reflexivity|exact Hp].
  - destruct (merge_sigs_all_in _ _ _ _ _ _ _ _ Em) as [_ B].
    destruct (B _ (as_sparse_has p i s Hin)) as (j&Hj). cbn [ss_sig] in Hj.
    destruct (merge_sigs_pairs _ _ _ _ _ _ _ _ _ Em j s Hj) as [[]|(ss&Hss&Hd&Hs)].
    destruct (as_sparse_in _ _ Hss) as (i0&s0&Hp&->). cbn [ss_kid ss_sig] in Hd, Hs.
    rewrite keyid_roundtrip in Hd. inversion Hd; subst.
    assert (j = i) by (eapply nd_proof_inj; eassumption). subst j.
    apply in_map_iff. exists (i, s). split; [reflexivity|exact Hj].
Qed.

Lemma to_full_entries_keys_nodup kind h r keys entries : forall pm,
  to_full_entries kind h r keys entries = Ok pm -> keys_nodup pm /\ nd_pmap pm.
Proof.
  induction entries as [|[t sigs] rest IH]; intros pm; cbn [to_full_entries].
  - intros E; inversion E; subst. split; [constructor|intros t p []].
  - destruct sigs as [|sg sigs']; [discriminate|].
    pose proof (merge_sparse_nd kind h r t keys [] (sg :: sigs')) as Hnd.
    destruct (merge_sparse kind h r t keys [] (sg :: sigs')) as [[p allv] inc]. cbn [fst] in Hnd.
    destruct (allv && inc); [|discriminate].
    unfold bind. destruct (to_full_entries kind h r keys rest) as [m|] eqn:Hr; [|discriminate].
    intros E; inversion E; subst. destruct (IH m eq_refl) as [A B].
    split; [apply pm_set_keys_nodup; exact A|].
    intros t' p' Hin. apply pm_set_in in Hin as [Heq|Hin]; [inversion Heq; subst; apply Hnd; constructor|exact (B _ _ Hin)].
Qed.

Theorem roundtrip kind h r keys (votes : pmap) :
  auth_pmap keys kind h r votes -> ne_pmap votes -> nd_pmap votes ->
  exists pm', to_full_entries kind h r keys (map (fun e => (fst e, as_sparse (snd e))) votes) = Ok pm' /\ pmeq pm' votes.
Proof.
  induction votes as [|[t p] votes IH]; intros Ha Hne Hnd; cbn [map to_full_entries fst snd].
  - exists []. split; [reflexivity|apply pmeq_refl].
  - assert (Ha' : auth_pmap keys kind h r votes) by (intros t' p' Hin; apply (Ha t' p'); right; exact Hin).
    assert (Hne' : ne_pmap votes) by (intros t' p' Hin; apply (Hne t' p'); right; exact Hin).
    assert (Hnd' : nd_pmap votes) by (intros t' p' Hin; apply (Hnd t' p'); right; exact Hin).
    destruct (IH Ha' Hne' Hnd') as (m&Em&Hm).
    destruct (as_sparse_good keys kind h r t p (Ha t p (or_introl eq_refl)) (Hne t p (or_introl eq_refl))) as [Hs Hall].
    cbn [fst snd] in Hs, Hall.
    destruct (as_sparse p) as [|sg sigs'] eqn:Es; [contradiction|]. rewrite <- Es in *.
    unfold merge_sparse.
    destruct (merge_sigs_admissible kind h r t keys (as_sparse p) [] Hall) as (p1&E1&Hp1).
    rewrite Es in E1 |- *. rewrite E1. cbn [andb]. rewrite <- Es in E1.
    assert (Hinc : Nat.ltb (bit_count []) (bit_count p1) = true).
    { apply Nat.ltb_lt. apply bit_count_pos. apply Hp1. rewrite Es. discriminate. }
    rewrite Hinc, Em. cbn [bind]. exists (pm_set m t p1). split; [reflexivity|].
    intros t'. rewrite pm_get_pm_set. cbn [pm_get].
    destruct (bytes_eqb t t'); [|exact (Hm t')].
    eapply reload_peq; [exact (Hnd t p (or_introl eq_refl))|exact E1].
Qed.
