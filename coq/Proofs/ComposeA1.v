(** Composition of the two developments for C03 ("correct nodes never finalize different blocks at
    the same height") and C02 ("the local validator never signs two votes in one round"):

    (a) the round state machine model (Model/StateMachine.v) with the theorems over ALL event
        histories of Proofs/SMInvActs.v / SMOncePH.v (C02_one_emission_ever,
        C02_emitted_was_signed_and_saved, C02_one_proposal_data_ever), and
    (b) the agreement theorems for two mirrors (Proofs/MirrorAgree.v) whose hypothesis A1
        ([A1m]: a correct validator has one prevote target and one precommit target per (h, r) in
        the global list [V] of ideal signatures) was so far only assumed.

    Here A1 is DISCHARGED from (a): [V_from_machines] says that every prevote/precommit signature
    of a correct key in [V] was emitted by that key's engine, which is ONE state machine run (any
    event history from [sm0], restarts included, on one action store).  Then [A1m] holds for every
    validator set and height.

    The Mirror modules are imported first, the state machine modules last: [step], [view], [ph],
    [v_h] ... below are the state machine's. *)
From Coq Require Import List NArith Bool Lia.
From GV Require Import Base.Ints Gen.Math Gen.Kernel Model.Network Model.Mirror
  Proofs.Thresholds Proofs.Network Proofs.MirrorAuth Proofs.MirrorChain Proofs.MirrorCert
  Proofs.MirrorHdrGood Proofs.MirrorAgree.
From GV Require Import Gen.StepSM Model.StateMachine Proofs.SMInv Proofs.SMInvStep Proofs.SMRel
  Proofs.SMInvActs Proofs.SMWitness Proofs.SMOnce Proofs.SMOnceSign Proofs.SMOncePH.
Import ListNotations.
Local Open Scope N_scope.

(** * The bridge *)

(** the ideal signature carried by an emission of the engine of validator [key] *)
Definition vote_of (key : N) (o : out) : list sigd :=
  match o with
  | OEmitPrevote h r t => [SVote key KPrevote h r t]
  | OEmitPrecommit h r t => [SVote key KPrecommit h r t]
  | _ => []
  end.

(** all votes the engine of [key] handed to the mirror / network in an output history *)
Definition emitted_votes (key : N) (outs : list (list out)) : list sigd :=
  flat_map (vote_of key) (List.concat outs).

(** the block data of every proposed header emitted, with its (height, round) *)
Definition prop_of (o : out) : list (N * N * hash) :=
  match o with OEmitPH h r d => [(h, r, d)] | _ => [] end.
Definition emitted_proposals (outs : list (list out)) : list (N * N * hash) :=
  flat_map prop_of (List.concat outs).

(** the signatures the SIGNER produced (whether or not they were saved and emitted) *)
Definition signed_of (key : N) (o : out) : list sigd :=
  match o with
  | OSignPrevote h r t => [SVote key KPrevote h r t]
  | OSignPrecommit h r t => [SVote key KPrecommit h r t]
  | _ => []
  end.
Definition signed_votes (key : N) (outs : list (list out)) : list sigd :=
  flat_map (signed_of key) (List.concat outs).

Definition kind_of (pv : bool) : N := if pv then KPrevote else KPrecommit.

Lemma kind_of_inj pv pv' : kind_of pv = kind_of pv' -> pv = pv'.
Proof. destruct pv, pv'; intros H; try reflexivity; discriminate H. Qed.

Lemma vote_of_in key o key' kind h r t :
  In (SVote key' kind h r t) (vote_of key o) <->
  key' = key /\ exists pv, kind = kind_of pv /\ o = emit_of pv h r t.
Proof.
  split.
  - destruct o; simpl; intros H; try contradiction; destruct H as [H|[]]; inversion H; subst;
      (split; [reflexivity|]); [exists true|exists false]; split; reflexivity.
  - intros (-> & pv & -> & ->). destruct pv; simpl; left; reflexivity.
Qed.

Lemma emitted_votes_in key outs key' kind h r t :
  In (SVote key' kind h r t) (emitted_votes key outs) <->
  key' = key /\ exists pv, kind = kind_of pv /\ exists o, In o outs /\ In (emit_of pv h r t) o.
Proof.
  unfold emitted_votes. rewrite in_flat_map. split.
  - intros (x & Hx & Hv). apply vote_of_in in Hv. destruct Hv as (-> & pv & -> & ->).
    apply in_concat in Hx. destruct Hx as (o & Ho & Hx).
    split; [reflexivity|]. exists pv. split; [reflexivity|]. exists o. split; assumption.
  - intros (-> & pv & -> & o & Ho & Hx). exists (emit_of pv h r t). split.
    + apply in_concat. exists o. split; assumption.
    + apply vote_of_in. split; [reflexivity|]. exists pv. split; reflexivity.
Qed.

Lemma emitted_proposals_in outs h r d :
  In (h, r, d) (emitted_proposals outs) <-> exists o, In o outs /\ In (OEmitPH h r d) o.
Proof.
  unfold emitted_proposals. rewrite in_flat_map. split.
  - intros (x & Hx & Hp). destruct x; simpl in Hp; try contradiction. destruct Hp as [Hp|[]].
    inversion Hp; subst. apply in_concat in Hx. exact Hx.
  - intros (o & Ho & Hx). exists (OEmitPH h r d). split; [|left; reflexivity].
    apply in_concat. exists o. split; assumption.
Qed.

(** * One target per kind and (height, round) in one history *)

(** two emissions of one kind for one (h, r) anywhere in one history - restarts included - carry the
    same target: they are the same event (C02_one_emission_ever), and after that event the action
    store holds exactly one vote of the kind for (h, r) (C02_emitted_was_signed_and_saved), which
    both emissions equal.  In particular ONE event cannot emit two different targets. *)
Theorem one_target_per_history sg pv es oi oj h r t t' :
  In oi (run_events (sm0 sg) es) -> In oj (run_events (sm0 sg) es) ->
  In (emit_of pv h r t) oi -> In (emit_of pv h r t') oj -> t = t'.
Proof.
  intros Hi Hj Ei Ej.
  destruct (In_nth_error _ _ Hi) as (i & Ni). destruct (In_nth_error _ _ Hj) as (j & Nj).
  pose proof (emit_once_history sg pv es i j oi oj h r t t' Ni Nj Ei Ej) as E. subst j.
  rewrite Ni in Nj. inversion Nj; subst oj. clear Nj.
  destruct (run_events_split _ _ _ Hi) as (es1 & e & X). subst oi.
  destruct (emit_saved_first sg pv es1 e h r t Ei) as (_ & A & _).
  destruct (emit_saved_first sg pv es1 e h r t' Ej) as (_ & A' & _).
  rewrite A in A'. inversion A'. reflexivity.
Qed.

(** the same statement over the bridge: the emitted votes of one history satisfy A1 *)
Theorem emitted_votes_one_target sg es key kind h r t t' :
  In (SVote key kind h r t) (emitted_votes key (run_events (sm0 sg) es)) ->
  In (SVote key kind h r t') (emitted_votes key (run_events (sm0 sg) es)) -> t = t'.
Proof.
  intros H H'. apply emitted_votes_in in H. apply emitted_votes_in in H'.
  destruct H as (_ & pv & K & oi & Hi & Ei). destruct H' as (_ & pv' & K' & oj & Hj & Ej).
  rewrite K in K'. apply kind_of_inj in K'. subst pv'.
  exact (one_target_per_history sg pv es oi oj h r t t' Hi Hj Ei Ej).
Qed.

(** * Unforgeability as a predicate on [V], and A1 *)

(** every prevote / precommit signature in [V] under a key that is correct at its height was emitted
    by that key's engine: ONE state machine run [runs key] from the initial state with signer setting
    [sg key] (any event history, any number of restarts - on the one action store of the run) *)
Definition V_from_machines (V : list sigd) (B : N -> list N) (sg : N -> bool) (runs : N -> list event) : Prop :=
  forall key kind h r t, kind = KPrevote \/ kind = KPrecommit -> ~ In key (B h) ->
    In (SVote key kind h r t) V ->
    In (SVote key kind h r t) (emitted_votes key (run_events (sm0 (sg key)) (runs key))).

Theorem A1_from_state_machines : forall V B sg runs,
  V_from_machines V B sg runs -> forall vs h, A1m vs (B h) V h.
Proof.
  intros V B sg runs HV vs h key kind r t t' Hk _ Hc H H'.
  exact (emitted_votes_one_target (sg key) (runs key) key kind h r t t'
           (HV key kind h r t Hk Hc H) (HV key kind h r t' Hk Hc H')).
Qed.

(** * The mirror agreement theorems with A1 replaced by [V_from_machines] *)

Theorem mirrors_agree_same_round_composed : forall ih ivs s1 s2 V (B : N -> list N) sg runs,
  1 <= ih -> vs_ok ivs = true -> reachable_b ih ivs s1 -> reachable_b ih ivs s2 ->
  cert_sigs_in V s1 -> cert_sigs_in V s2 -> hash_binds_next s1 s2 ->
  V_from_machines V B sg runs ->
  forall h,
  (forall h' x1 cp1 x2 cp2, h' <= h ->
     In (h', (x1, cp1)) (st_hdrs s1) -> In (h', (x2, cp2)) (st_hdrs s2) ->
     cp_round cp1 = cp_round cp2 /\
     byz_bound (chain_vals ih ivs (st_hdrs s1) h') (B h')) ->
  forall x1 cp1 x2 cp2, In (h, (x1, cp1)) (st_hdrs s1) -> In (h, (x2, cp2)) (st_hdrs s2) ->
    hd_hash x1 = hd_hash x2 /\ valset_equal (hd_next x1) (hd_next x2) = true.
Proof.
  intros ih ivs s1 s2 V B sg runs Hih Hvs R1 R2 C1 C2 HB HV h Hyp.
  apply (mirrors_agree_same_round ih ivs s1 s2 V B Hih Hvs R1 R2 C1 C2 HB h).
  intros h' x1 cp1 x2 cp2 Hle I1 I2. destruct (Hyp h' x1 cp1 x2 cp2 Hle I1 I2) as [Hr Hb].
  split; [exact Hr|]. split; [exact Hb|]. exact (A1_from_state_machines V B sg runs HV _ h').
Qed.

Theorem mirrors_agree_composed : forall ih ivs s1 s2 V (B : N -> list N) sg runs,
  1 <= ih -> vs_ok ivs = true -> reachable_b ih ivs s1 -> reachable_b ih ivs s2 ->
  cert_sigs_in V s1 -> cert_sigs_in V s2 -> hash_binds_next s1 s2 ->
  V_from_machines V B sg runs ->
  (forall h x1 cp1 x2 cp2, In (h, (x1, cp1)) (st_hdrs s1) -> In (h, (x2, cp2)) (st_hdrs s2) ->
     byz_bound (chain_vals ih ivs (st_hdrs s1) h) (B h) /\
     A2m (chain_vals ih ivs (st_hdrs s1) h) (B h) V h /\
     A3m (chain_vals ih ivs (st_hdrs s1) h) (B h) V h) ->
  forall h x1 cp1 x2 cp2, In (h, (x1, cp1)) (st_hdrs s1) -> In (h, (x2, cp2)) (st_hdrs s2) ->
    hd_hash x1 = hd_hash x2 /\
    valset_equal (hd_next x1) (hd_next x2) = true /\
    vs_keys (chain_vals ih ivs (st_hdrs s1) h) = vs_keys (chain_vals ih ivs (st_hdrs s2) h) /\
    vs_pows (chain_vals ih ivs (st_hdrs s1) h) = vs_pows (chain_vals ih ivs (st_hdrs s2) h).
Proof.
  intros ih ivs s1 s2 V B sg runs Hih Hvs R1 R2 C1 C2 HB HV Hyp.
  apply (mirrors_agree ih ivs s1 s2 V B Hih Hvs R1 R2 C1 C2 HB).
  intros h x1 cp1 x2 cp2 I1 I2. destruct (Hyp h x1 cp1 x2 cp2 I1 I2) as (Hb & H2 & H3).
  split; [exact Hb|]. split; [exact (A1_from_state_machines V B sg runs HV _ h)|]. split; assumption.
Qed.

Theorem mirrors_agree_upto_composed : forall ih ivs s1 s2 V (B : N -> list N) sg runs,
  1 <= ih -> vs_ok ivs = true -> reachable_b ih ivs s1 -> reachable_b ih ivs s2 ->
  cert_sigs_in V s1 -> cert_sigs_in V s2 -> hash_binds_next s1 s2 ->
  V_from_machines V B sg runs ->
  forall h,
  (forall h' x1 cp1 x2 cp2, h' <= h ->
     In (h', (x1, cp1)) (st_hdrs s1) -> In (h', (x2, cp2)) (st_hdrs s2) ->
     byz_bound (chain_vals ih ivs (st_hdrs s1) h') (B h') /\
     (cp_round cp1 = cp_round cp2 \/
      (A2m (chain_vals ih ivs (st_hdrs s1) h') (B h') V h' /\ A3m (chain_vals ih ivs (st_hdrs s1) h') (B h') V h'))) ->
  forall x1 cp1 x2 cp2, In (h, (x1, cp1)) (st_hdrs s1) -> In (h, (x2, cp2)) (st_hdrs s2) ->
    hd_hash x1 = hd_hash x2 /\
    valset_equal (hd_next x1) (hd_next x2) = true /\
    vs_keys (chain_vals ih ivs (st_hdrs s1) h) = vs_keys (chain_vals ih ivs (st_hdrs s2) h) /\
    vs_pows (chain_vals ih ivs (st_hdrs s1) h) = vs_pows (chain_vals ih ivs (st_hdrs s2) h).
Proof.
  intros ih ivs s1 s2 V B sg runs Hih Hvs R1 R2 C1 C2 HB HV h Hyp.
  apply (mirrors_agree_upto ih ivs s1 s2 V B Hih Hvs R1 R2 C1 C2 HB h).
  intros h' x1 cp1 x2 cp2 Hle I1 I2. destruct (Hyp h' x1 cp1 x2 cp2 Hle I1 I2) as (Hb & Hr).
  split; [exact Hb|]. split; [exact (A1_from_state_machines V B sg runs HV _ h')|exact Hr].
Qed.

(** * Proposals: a correct proposer never equivocates *)
Theorem one_proposal_per_round_from_state_machines : forall sg es h r d1 d2,
  In (h, r, d1) (emitted_proposals (run_events (sm0 sg) es)) ->
  In (h, r, d2) (emitted_proposals (run_events (sm0 sg) es)) -> d1 = d2.
Proof.
  intros sg es h r d1 d2 H1 H2. apply emitted_proposals_in in H1. apply emitted_proposals_in in H2.
  destruct H1 as (oi & Hi & Ei). destruct H2 as (oj & Hj & Ej).
  destruct (In_nth_error _ _ Hi) as (i & Ni). destruct (In_nth_error _ _ Hj) as (j & Nj).
  exact (emit_ph_one_data es _ (Inv_init sg) i j oi oj h r d1 d2 Ni Nj Ei Ej).
Qed.

(** * Non-vacuity *)

(** two engines: key 10 runs [ex_sign_hist] (prevote and precommit [7] in (1,0), a proposal in (1,1)),
    key 11 prevotes and precommits [8] in (1,0) *)
Definition hist8 : list event :=
  [ EvStart; EvRERespVRV (mkv 1 0 1 (vs_of 0 0 [] []) []); EvTimer; EvAnswer 0 [8];
    EvView (mkv 1 0 2 (vs_of 30 0 [([8], 30)] []) []) None; EvAnswer 0 [8] ].
Definition ex_runs (key : N) : list event :=
  if key =? 10 then ex_sign_hist else if key =? 11 then hist8 else [].
Definition ex_sg (key : N) : bool := true.
Definition exV2 : list sigd :=
  emitted_votes 10 (run_events (sm0 true) ex_sign_hist) ++ emitted_votes 11 (run_events (sm0 true) hist8).
Definition ex_vs : valset := mk_valset [10; 11] [1; 1] [] [] true.

Lemma exV2_value :
  exV2 = [SVote 10 KPrevote 1 0 [7]; SVote 10 KPrecommit 1 0 [7];
          SVote 11 KPrevote 1 0 [8]; SVote 11 KPrecommit 1 0 [8]].
Proof. vm_compute. reflexivity. Qed.

Example ex_V_from_machines :
  V_from_machines exV2 (fun _ => []) ex_sg ex_runs /\
  In 10 (vs_keys ex_vs) /\ ~ In 10 ([] : list N) /\
  In (SVote 10 KPrevote 1 0 [7]) exV2 /\ In (SVote 10 KPrecommit 1 0 [7]) exV2 /\
  In (SVote 11 KPrevote 1 0 [8]) exV2 /\ In (SVote 11 KPrecommit 1 0 [8]) exV2 /\
  A1m ex_vs [] exV2 1 /\
  emitted_proposals (run_events (sm0 true) ex_sign_hist) = [(1, 1, [9])].
Proof.
  assert (HV : V_from_machines exV2 (fun _ => []) ex_sg ex_runs).
  { intros key kind h r t _ _. rewrite exV2_value. intros H.
    repeat (destruct H as [H|H]; [inversion H; subst; vm_compute; tauto|]). destruct H. }
  split; [exact HV|]. split; [simpl; tauto|]. split; [intros []|].
  rewrite exV2_value.
  split; [simpl; tauto|]. split; [simpl; tauto|]. split; [simpl; tauto|]. split; [simpl; tauto|].
  split; [rewrite <- exV2_value; exact (A1_from_state_machines _ _ _ _ HV ex_vs 1)|].
  vm_compute. reflexivity.
Qed.

(** * Why ONE history on ONE action store per key *)

(** the same key run as TWO machines with separate stores (two independent runs from [sm0]) *)
Definition V_from_two_machines (V : list sigd) (B : N -> list N) (sg : N -> bool)
    (runs1 runs2 : N -> list event) : Prop :=
  forall key kind h r t, kind = KPrevote \/ kind = KPrecommit -> ~ In key (B h) ->
    In (SVote key kind h r t) V ->
    In (SVote key kind h r t) (emitted_votes key (run_events (sm0 (sg key)) (runs1 key))) \/
    In (SVote key kind h r t) (emitted_votes key (run_events (sm0 (sg key)) (runs2 key))).

(** the first lifetime of [w3] and the second lifetime of [w3], each on a FRESH store *)
Definition w3a : list event := firstn 4 w3.
Definition w3b : list event := skipn 5 w3.

(** REFUTED: with two machines per key (same key, separate action stores) A1 fails.  Witness: key 10
    runs [w3a] (EvStart, round entrance response for (1,0), proposal timeout, strategy answers
    prevote [7]) on one store and [w3b] (the same with answer [8]) on another: prevotes for [7] and
    for [8] in (1,0) are both emitted.  On ONE store (the history [w3] = w3a, EvStop, w3b) the second
    is refused by the action store and never emitted. *)
Theorem A1_needs_one_store_refuted :
  exists V B sg runs1 runs2 vs h,
    V_from_two_machines V B sg runs1 runs2 /\ ~ A1m vs (B h) V h /\
    w3 = runs1 10 ++ EvStop :: runs2 10 /\
    emitted_votes 10 (run_events (sm0 (sg 10)) (runs1 10)) = [SVote 10 KPrevote 1 0 [7]] /\
    emitted_votes 10 (run_events (sm0 (sg 10)) (runs2 10)) = [SVote 10 KPrevote 1 0 [8]] /\
    emitted_votes 10 (run_events (sm0 (sg 10)) w3) = [SVote 10 KPrevote 1 0 [7]].
Proof.
  exists [SVote 10 KPrevote 1 0 [7]; SVote 10 KPrevote 1 0 [8]], (fun _ => []), (fun _ => true),
         (fun _ => w3a), (fun _ => w3b), (mk_valset [10] [1] [] [] true), 1.
  split.
  { intros key kind h r t _ _ H.
    destruct H as [H|[H|[]]]; inversion H; subst; [left|right]; vm_compute; tauto. }
  split.
  { intros HA. specialize (HA 10 KPrevote 0 [7] [8] (or_introl eq_refl)).
    cbn [vs_keys] in HA.
    assert (X : [7] = [8]) by (apply HA; [left; reflexivity|intros []|left; reflexivity|right; left; reflexivity]).
    discriminate X. }
  vm_compute. repeat split; reflexivity.
Qed.

(** REFUTED: the bridge over SIGNER calls instead of emissions does not give A1 either (the known
    finding restart-resigns-then-halts): in the ONE history [w3] the signer produces prevote
    signatures for [7] and for [8] in (1,0); the second is never saved nor emitted (the machine
    halts).  Hence [V_from_machines] must speak about what left the engine, and a signature that the
    signer produced but the engine did not emit must not leak. *)
Theorem A1_from_signer_calls_refuted :
  exists sg es key h r t t',
    In (SVote key KPrevote h r t) (signed_votes key (run_events (sm0 sg) es)) /\
    In (SVote key KPrevote h r t') (signed_votes key (run_events (sm0 sg) es)) /\ t <> t' /\
    emitted_votes key (run_events (sm0 sg) es) = [SVote key KPrevote h r t].
Proof.
  exists true, w3, 10, 1, 0, [7], [8].
  split; [vm_compute; tauto|]. split; [vm_compute; tauto|]. split; [discriminate|].
  vm_compute. reflexivity.
Qed.

(** proposals: the restart history [ex_ph_hist] emits the proposal of (1,0) twice, same data *)
Example ex_proposals :
  emitted_proposals (run_events (sm0 true) ex_ph_hist) = [(1, 0, [9]); (1, 0, [9])].
Proof. vm_compute. reflexivity. Qed.

(** * What was emitted was signed: the (h, r, target) an emission is labelled with is the content the
    signer signed in the same event (so the ideal signature attributed to the emission by
    [emitted_votes] is the one the key really produced) *)
Theorem emitted_votes_were_signed sg es key v :
  In v (emitted_votes key (run_events (sm0 sg) es)) -> In v (signed_votes key (run_events (sm0 sg) es)).
Proof.
  unfold emitted_votes at 1. rewrite in_flat_map. intros (x & Hx & Hv).
  apply in_concat in Hx. destruct Hx as (o & Ho & Hx).
  assert (K : exists pv h r t, x = emit_of pv h r t /\ v = SVote key (kind_of pv) h r t).
  { destruct x; simpl in Hv; try contradiction; destruct Hv as [Hv|[]]; subst v;
      [exists true|exists false]; do 3 eexists; split; reflexivity. }
  destruct K as (pv & h & r & t & -> & ->).
  destruct (run_events_split _ _ _ Ho) as (es1 & e & X).
  pose proof Hx as Hx'. rewrite X in Hx'.
  destruct (emit_saved_first sg pv es1 e h r t Hx') as (_ & _ & _ & S & _). rewrite <- X in S.
  unfold signed_votes. apply in_flat_map.
  exists (if pv then OSignPrevote h r t else OSignPrecommit h r t). split.
  - apply in_concat. exists o. split; assumption.
  - destruct pv; simpl; left; reflexivity.
Qed.
