(** C10: restart on the same stores resumes without loss or regression - after a crash at any
    point of any operation, and after a clean restart.

    Summary of what is proved here (mirror model, [Model/Mirror.v]):
      - [reachable_g]: states reachable from the initial state by operations, clean restarts and
        crashes ([xstep]), with the side conditions [wf_op]: those of MirrorTotal's [reachable_a]
        ([op_bounded], [step_adm]: the next validator set of an accepted / replayed header has
        non-zero power, a replayed round is a uint32) plus "that next set has at least one key"
        (implied by non-zero power in Go, not in the model: Proofs/MirrorResumeWit.v,
        [keys_guard_needed_in_model]); the crashes of the HISTORY are restricted to [clean_cut]
        points (every crash point except the single one between the committed-header write and
        the position write of a commit).
      - [reachable_g_K]: every such state satisfies [INV] (cinv, auth_state, sinv, hinv), [tinv]
        and the store invariant [SI] of its stores.
      - [startup_never_fails_partial], [startup_never_fails_any_cut]: from every such state a
        clean restart comes up, and so does the restart after a crash at EVERY cut of every
        admissible operation (at the one cut that is not clean only totality is proved).
      - [no_regression_partial]: the state after such a restart / crash has lost no committed
        header and its stored position is not behind the position stored before ([sadv]).
    The former guard "no offered signature collection has an empty signature list" is gone: the
    kernel now skips such entries ([signed_entries]), as the repaired Go code does. *)
From Coq Require Import List NArith Arith Bool Lia String.
From GV Require Import Base.Ints Gen.Math Gen.Kernel Model.Mirror
  Proofs.Thresholds Proofs.MirrorAuth Proofs.MirrorNoop Proofs.MirrorChain Proofs.MirrorCert
  Proofs.MirrorTotal Proofs.MirrorRestart Proofs.MirrorLog
  Proofs.MirrorResumeWit Proofs.MirrorResumeLoad Proofs.MirrorResumeInv Proofs.MirrorResumeStart
  Proofs.MirrorResumeAhead Proofs.MirrorResumeOps Proofs.MirrorResumeOps2 Proofs.MirrorResumeOps3 Proofs.MirrorResumeOps4
  Proofs.MirrorResumeOps5.
Import ListNotations.
Local Open Scope N_scope.

(** * Side conditions *)
Definition wf_op (o : op) (res : N) : Prop :=
  op_bounded o /\ step_adm o res /\
  match o with
  | OpPH p => ph_adm p res
  | OpReplay x _ => vs_keys (hd_next x) <> []
  | _ => True
  end.

(** the crash point is not the one between the committed-header write and the position write *)
Definition clean_cut (s : kstate) (o : op) (k : nat) : Prop :=
  match step s o with
  | Ok (s1, _) => ends_hdr (firstn k (skipn (List.length (st_log s)) (st_log s1))) = false
  | Panic _ => True
  end.

Definition xwf (s : kstate) (x : xop) (res : N) : Prop :=
  match x with
  | XOp o => wf_op o res
  | XCrash k o => wf_op o res /\ clean_cut s o k
  | XRestart => True
  end.

Inductive reachable_g (ih : N) (ivs : valset) : kstate -> Prop :=
| rg_init : reachable_g ih ivs (init_state ih ivs)
| rg_step s x s' res : reachable_g ih ivs s -> xwf s x res ->
    xstep s x = Ok (s', res) -> reachable_g ih ivs s'.

(** * One operation *)
Lemma K_step ih ivs s o s' res :
  K ih ivs s -> tinv s -> wf_op o res -> step s o = Ok (s', res) ->
  K ih ivs s' /\ tinv s' /\ pref ih ivs s s'.
Proof.
  intros HK HT (Hb&Hadm&Hph) Hs.
  assert (HT' : tinv s') by (eapply tinv_step; [exact (proj1 HK)|exact HT|exact Hadm|exact Hs]).
  assert (G : K ih ivs s' /\ pref ih ivs s s'); [|split; [exact (proj1 G)|split; [exact HT'|exact (proj2 G)]]].
  destruct o as [p|m|m|x cp]; cbn [step] in Hs.
  - unfold handle_ph in Hs. destruct (ph_key p).
    + eapply K_handle_ph_loop; eassumption.
    + inversion Hs; subst. split; [exact HK|apply pref_refl; exact (proj2 (proj2 (proj2 (proj2 (proj2 (proj2 HK))))))].
  - eapply K_handle_votes; [left; reflexivity|exact HK|exact Hs].
  - eapply K_handle_votes; [right; reflexivity|exact HK|exact Hs].
  - cbn in Hb, Hadm, Hph. destruct (N.eq_dec res 0) as [E0|N0].
    + eapply K_handle_replay; [exact HK|exact HT|exact Hb|exact (Hadm E0)|exact Hph|exact Hs].
    + (* a rejected replay leaves the state as it was *)
      assert (Es : s' = s) by (eapply replay_rejected_is_identity; [cbn [step]; exact Hs|exact N0]).
      subst s'. split; [exact HK|apply pref_refl; exact (proj2 (proj2 (proj2 (proj2 (proj2 (proj2 HK))))))].
Qed.

(** * Restart on stores satisfying [SI] that are not behind given stores *)
Lemma restart_from ih ivs st vals log :
  1 <= ih -> vwf ivs -> SI ih ivs st ->
  exists s', restart ih ivs st vals log = Ok s' /\ K ih ivs s' /\ tinv s' /\ sadv st (stores_of s').
Proof.
  intros Hih Hivs HSI.
  destruct (restart_K ih ivs st vals log Hih Hivs HSI) as (s0&s1&Er&Ec&Es&_&_&K0&T0&A1&K2&T2&P).
  exists (update_observers s1). split; [exact Er|]. split; [exact K2|]. split; [exact T2|].
  rewrite <- Es. eapply pref_ends; exact P.
Qed.

Lemma K_init ih ivs : 1 <= ih -> vwf ivs -> K ih ivs (init_state ih ivs) /\ tinv (init_state ih ivs).
Proof.
  intros Hih (Hok&Hpow&Hkeys). pose proof (tinv_init ih ivs Hpow) as HT.
  split; [|exact HT]. split; [apply INV_init; assumption|]. split; [exact (proj2 HT)|].
  split; [reflexivity|]. split; [repeat split; intros t p []|].
  split; [split; intros H; contradiction|].
  split; [split; [intros p [[]|[]]|split; apply yview_fresh; reflexivity]|].
  exists ih, 0, 0, 0. unfold stores_of, init_state. cbn.
  split; [reflexivity|]. split; [left; repeat split|].
  split; [intros h x cp []|]. split; [intros h x cp []|]. split; [intros h r e E; discriminate|intros x []].
Qed.

(** * Every step of [xstep] *)
Lemma K_xstep ih ivs s x s' res :
  1 <= ih -> vwf ivs -> K ih ivs s -> tinv s -> xwf s x res -> xstep s x = Ok (s', res) ->
  K ih ivs s' /\ tinv s' /\ sadv (stores_of s) (stores_of s').
Proof.
  intros Hih Hivs HK HT Hw Hx.
  pose proof (proj1 (proj1 HK)) as Hc. destruct Hc as (Hi1&Hi2&_).
  destruct x as [o|k o|]; cbn [xstep xwf] in *.
  - destruct (K_step _ _ _ _ _ _ HK HT Hw Hx) as (K1&T1&P1).
    split; [exact K1|]. split; [exact T1|eapply pref_ends; exact P1].
  - destruct Hw as (Hw&Hcut). unfold clean_cut in Hcut.
    destruct (step s o) as [[s1 r1]|] eqn:Hs; cbn [bind fst snd] in Hx; [|discriminate].
    assert (Er : r1 = res).
    { destruct (restart _ _ _ _ _); cbn [bind] in Hx; [inversion Hx; reflexivity|discriminate]. }
    subst r1. destruct (K_step _ _ _ _ _ _ HK HT Hw Hs) as (_&_&(ws&L&S&P)).
    assert (Hskip : skipn (List.length (st_log s)) (st_log s1) = ws)
      by (rewrite L, skipn_app, skipn_all, Nat.sub_diag; reflexivity).
    rewrite Hskip in *. destruct (proj1 (P k) Hcut) as (Q1&Q2&_).
    rewrite Hi1, Hi2 in Hx.
    destruct (restart_from ih ivs (fold_left apply_wr (firstn k ws) (stores_of s)) (st_vals s)
                (st_log s ++ firstn k ws) Hih Hivs Q1) as (s2&E2&K2&T2&A2).
    rewrite E2 in Hx. cbn [bind] in Hx. inversion Hx; subst s'.
    split; [exact K2|]. split; [exact T2|eapply sadv_trans; eassumption].
  - rewrite Hi1, Hi2 in Hx.
    destruct (restart_from ih ivs (stores_of s) (st_vals s) (st_log s) Hih Hivs
                (proj2 (proj2 (proj2 (proj2 (proj2 (proj2 HK))))))) as (s2&E2&K2&T2&A2).
    rewrite E2 in Hx. cbn [bind] in Hx. inversion Hx; subst s'.
    split; [exact K2|]. split; [exact T2|exact A2].
Qed.

(** (3) the invariants hold again after every [xstep] *)
Theorem reachable_g_K ih ivs s :
  1 <= ih -> vwf ivs -> reachable_g ih ivs s -> K ih ivs s /\ tinv s.
Proof.
  intros Hih Hivs. induction 1 as [|s x s' res Hr [IK IT] Hw Hx]; [apply K_init; assumption|].
  destruct (K_xstep ih ivs s x s' res Hih Hivs IK IT Hw Hx) as (A&B&_). split; assumption.
Qed.

Theorem reachable_g_INV ih ivs s :
  1 <= ih -> vwf ivs -> reachable_g ih ivs s ->
  INV ih ivs s /\ tinv s /\ SI ih ivs (stores_of s).
Proof.
  intros Hih Hivs Hr. destruct (reachable_g_K ih ivs s Hih Hivs Hr) as [(HI&_&(_&_&_&_&HS)) HT].
  split; [exact HI|]. split; [exact HT|exact HS].
Qed.

(** (1), partial: start-up never fails *)
Theorem startup_never_fails_partial ih ivs s :
  1 <= ih -> vwf ivs -> reachable_g ih ivs s ->
  (exists s', xstep s XRestart = Ok (s', 0)) /\
  (forall o k s1 r, step s o = Ok (s1, r) -> wf_op o r -> clean_cut s o k ->
     exists s', xstep s (XCrash k o) = Ok (s', r)).
Proof.
  intros Hih Hivs Hr. destruct (reachable_g_K ih ivs s Hih Hivs Hr) as [HK HT].
  pose proof (proj1 (proj1 HK)) as Hc. destruct Hc as (Hi1&Hi2&_).
  split.
  - cbn [xstep]. rewrite Hi1, Hi2.
    destruct (restart_from ih ivs (stores_of s) (st_vals s) (st_log s) Hih Hivs
                (proj2 (proj2 (proj2 (proj2 (proj2 (proj2 HK))))))) as (s2&E2&_).
    rewrite E2. cbn [bind]. eexists; reflexivity.
  - intros o k s1 r Hs Hw Hcut. unfold clean_cut in Hcut. cbn [xstep]. rewrite Hs in *. cbn [bind fst snd].
    destruct (K_step _ _ _ _ _ _ HK HT Hw Hs) as (_&_&(ws&L&S&P)).
    assert (Hskip : skipn (List.length (st_log s)) (st_log s1) = ws)
      by (rewrite L, skipn_app, skipn_all, Nat.sub_diag; reflexivity).
    rewrite Hskip in *. destruct (proj1 (P k) Hcut) as (Q1&_&_). rewrite Hi1, Hi2.
    destruct (restart_from ih ivs (fold_left apply_wr (firstn k ws) (stores_of s)) (st_vals s)
                (st_log s ++ firstn k ws) Hih Hivs Q1) as (s2&E2&_).
    rewrite E2. cbn [bind]. eexists; reflexivity.
Qed.

(** (1), every crash point: start-up comes up after a crash at ANY point of any admissible
    operation of such a state - also between the committed-header write and the position write
    (there only totality is proved: the state after that restart is not shown to satisfy [INV],
    which is why [reachable_g] does not continue from it) *)
Theorem startup_never_fails_any_cut ih ivs s :
  1 <= ih -> vwf ivs -> reachable_g ih ivs s ->
  forall o k s1 r, step s o = Ok (s1, r) -> wf_op o r ->
     exists s', xstep s (XCrash k o) = Ok (s', r).
Proof.
  intros Hih Hivs Hr o k s1 r Hs Hw. destruct (reachable_g_K ih ivs s Hih Hivs Hr) as [HK HT].
  pose proof (proj1 (proj1 HK)) as Hc. destruct Hc as (Hi1&Hi2&_).
  cbn [xstep]. rewrite Hs. cbn [bind fst snd].
  destruct (K_step _ _ _ _ _ _ HK HT Hw Hs) as (_&_&(ws&L&S&P)).
  assert (Hskip : skipn (List.length (st_log s)) (st_log s1) = ws)
    by (rewrite L, skipn_app, skipn_all, Nat.sub_diag; reflexivity).
  rewrite Hskip, Hi1, Hi2. destruct (P k) as [Pc Pa].
  destruct (ends_hdr (firstn k ws)) eqn:E.
  - destruct (restart_ahead_total ih ivs (fold_left apply_wr (firstn k ws) (stores_of s)) (st_vals s)
                (st_log s ++ firstn k ws) Hih Hivs (Pa eq_refl)) as (s2&E2).
    rewrite E2. cbn [bind]. eexists; reflexivity.
  - destruct (Pc eq_refl) as (Q1&_&_).
    destruct (restart_from ih ivs (fold_left apply_wr (firstn k ws) (stores_of s)) (st_vals s)
                (st_log s ++ firstn k ws) Hih Hivs Q1) as (s2&E2&_).
    rewrite E2. cbn [bind]. eexists; reflexivity.
Qed.

(** (2), partial: nothing committed is lost and the stored position does not regress *)
Theorem no_regression_partial ih ivs s x s' res :
  1 <= ih -> vwf ivs -> reachable_g ih ivs s -> xwf s x res -> xstep s x = Ok (s', res) ->
  (forall h hc, In (h, hc) (st_hdrs s) -> In (h, hc) (st_hdrs s')) /\
  n_vh (st_nhr s) <= n_vh (st_nhr s') /\ n_ch (st_nhr s) <= n_ch (st_nhr s') /\
  (n_vh (st_nhr s') = n_vh (st_nhr s) ->
     n_ch (st_nhr s') = n_ch (st_nhr s) /\ n_cr (st_nhr s') = n_cr (st_nhr s) /\
     rsteps (n_vr (st_nhr s)) (n_vr (st_nhr s'))).
Proof.
  intros Hih Hivs Hr Hw Hx. destruct (reachable_g_K ih ivs s Hih Hivs Hr) as [HK HT].
  destruct (K_xstep ih ivs s x s' res Hih Hivs HK HT Hw Hx) as (_&_&A). exact A.
Qed.

(** the crash stores are between the stores before and the stores the uninterrupted operation
    leaves: in particular the stored voting height after the crash is at most the one the
    uninterrupted operation reaches (start-up may then move on by its own re-evaluation) *)
Theorem crash_stores_between ih ivs s o k s1 r :
  1 <= ih -> vwf ivs -> reachable_g ih ivs s ->
  step s o = Ok (s1, r) -> wf_op o r -> clean_cut s o k ->
  let st := fold_left apply_wr (firstn k (skipn (List.length (st_log s)) (st_log s1))) (stores_of s) in
  SI ih ivs st /\ sadv (stores_of s) st /\ sadv st (stores_of s1).
Proof.
  intros Hih Hivs Hr Hs Hw Hcut st. destruct (reachable_g_K ih ivs s Hih Hivs Hr) as [HK HT].
  unfold clean_cut in Hcut. rewrite Hs in Hcut.
  destruct (K_step _ _ _ _ _ _ HK HT Hw Hs) as (_&_&(ws&L&S&P)).
  assert (Hskip : skipn (List.length (st_log s)) (st_log s1) = ws)
    by (rewrite L, skipn_app, skipn_all, Nat.sub_diag; reflexivity).
  unfold st. rewrite Hskip in *. exact (proj1 (P k) Hcut).
Qed.
