(** C10: restart on the same stores resumes without loss or regression - after a crash at any
    point of any operation, and after a clean restart.

    Summary of what is proved here (mirror model, [Model/Mirror.v]):
      - [reachable_g]: states reachable from the initial state by operations, clean restarts and
        crashes ([xstep]), with the side conditions [wf_op]: those of MirrorTotal's [reachable_a]
        ([op_bounded], [step_adm]: the next validator set of an accepted / replayed header has
        non-zero power, a replayed round is a uint32) plus "that next set has at least one key"
        (implied by non-zero power in Go, not in the model: Proofs/MirrorResumeWit.v,
        [keys_guard_needed_in_model]).  Crashes at EVERY point are part of the histories: also the
        one between the committed-header write and the position write of a commit, where the
        start-up re-evaluation commits the same block again (Proofs/MirrorResumeAhead2.v).
      - [reachable_g_K]: every such state satisfies [INV] (cinv, auth_state, sinv, hinv), [tinv]
        and the store invariant [SI] of its stores.
      - [startup_never_fails]: from every such state a clean restart comes up, and so does the
        restart after a crash at EVERY cut of every admissible operation; the result is reachable.
      - [no_regression]: the state after such a restart / crash has lost no committed
        header and its stored position is not behind the position stored before ([sadv]).
    The former guard "no offered signature collection has an empty signature list" is gone: the
    kernel now skips such entries ([signed_entries]), as the repaired Go code does. *)
From Coq Require Import List NArith Arith Bool Lia String.
From GV Require Import Base.Ints Gen.Math Gen.Kernel Model.Mirror
  Proofs.Thresholds Proofs.MirrorAuth Proofs.MirrorNoop Proofs.MirrorChain Proofs.MirrorCert
  Proofs.MirrorTotal Proofs.MirrorRestart Proofs.MirrorLog
  Proofs.MirrorResumeWit Proofs.MirrorResumeLoad Proofs.MirrorResumeInv Proofs.MirrorResumeStart
  Proofs.MirrorResumeAhead Proofs.MirrorResumeRT Proofs.MirrorResumeOps Proofs.MirrorResumeOps2 Proofs.MirrorResumeOps3 Proofs.MirrorResumeOps4
  Proofs.MirrorResumeOps5 Proofs.MirrorResumeAhead2.
Import ListNotations.
Local Open Scope N_scope.

(** * Side conditions *)
Definition wf_op (o : op) (res : N) : Prop :=
  op_bounded o /\ step_adm o res /\
  match o with
  | OpPH p => ph_adm p res
  | OpReplay x _ => vs_keys (hd_next x) <> []
  | _ => True
  end.

(** the crash point is not the one between the committed-header write and the position write *)
Definition clean_cut (s : kstate) (o : op) (k : nat) : Prop :=
  match step s o with
  | Ok (s1, _) => ends_hdr (firstn k (skipn (List.length (st_log s)) (st_log s1))) = false
  | Panic _ => True
  end.

Definition xwf (s : kstate) (x : xop) (res : N) : Prop :=
  match x with
  | XOp o => wf_op o res
  | XCrash k o => wf_op o res
  | XRestart => True
  end.

Inductive reachable_g (ih : N) (ivs : valset) : kstate -> Prop :=
| rg_init : reachable_g ih ivs (init_state ih ivs)
| rg_step s x s' res : reachable_g ih ivs s -> xwf s x res ->
    xstep s x = Ok (s', res) -> reachable_g ih ivs s'.

(** * One operation *)
Lemma K_step ih ivs s o s' res :
  K ih ivs s -> tinv s -> wf_op o res -> step s o = Ok (s', res) ->
  K ih ivs s' /\ tinv s' /\ pref ih ivs s s'.
Proof.
  intros HK HT (Hb&Hadm&Hph) Hs.
  assert (HT' : tinv s') by (eapply tinv_step; [exact (proj1 HK)|exact HT|exact Hadm|exact Hs]).
  assert (G : K ih ivs s' /\ pref ih ivs s s'); [|split; [exact (proj1 G)|split; [exact HT'|exact (proj2 G)]]].
  destruct o as [p|m|m|x cp]; cbn [step] in Hs.
  - unfold handle_ph in Hs. destruct (ph_key p).
    + eapply K_handle_ph_loop; eassumption.
    + inversion Hs; subst. split; [exact HK|apply pref_refl; exact (proj2 (proj2 (proj2 (proj2 (proj2 (proj2 HK))))))].
  - eapply K_handle_votes; [left; reflexivity|exact HK|exact Hs].
  - eapply K_handle_votes; [right; reflexivity|exact HK|exact Hs].
  - cbn in Hb, Hadm, Hph. destruct (N.eq_dec res 0) as [E0|N0].
    + eapply K_handle_replay; [exact HK|exact HT|exact Hb|exact (Hadm E0)|exact Hph|exact Hs].
    + (* a rejected replay leaves the state as it was *)
      assert (Es : s' = s) by (eapply replay_rejected_is_identity; [cbn [step]; exact Hs|exact N0]).
      subst s'. split; [exact HK|apply pref_refl; exact (proj2 (proj2 (proj2 (proj2 (proj2 (proj2 HK))))))].
Qed.

(** * Restart on stores satisfying [SI] that are not behind given stores *)
Lemma restart_from ih ivs st vals log :
  1 <= ih -> vwf ivs -> SI ih ivs st ->
  exists s', restart ih ivs st vals log = Ok s' /\ K ih ivs s' /\ tinv s' /\ sadv st (stores_of s').
Proof.
  intros Hih Hivs HSI.
  destruct (restart_K ih ivs st vals log Hih Hivs HSI) as (s0&s1&Er&Ec&Es&_&_&K0&T0&A1&K2&T2&P).
  exists (update_observers s1). split; [exact Er|]. split; [exact K2|]. split; [exact T2|].
  rewrite <- Es. eapply pref_ends; exact P.
Qed.

Lemma K_init ih ivs : 1 <= ih -> vwf ivs -> K ih ivs (init_state ih ivs) /\ tinv (init_state ih ivs).
Proof.
  intros Hih (Hok&Hpow&Hkeys). pose proof (tinv_init ih ivs Hpow) as HT.
  split; [|exact HT]. split; [apply INV_init; assumption|]. split; [exact (proj2 HT)|].
  split; [reflexivity|]. split; [repeat split; intros t p []|].
  split; [split; intros H; contradiction|].
  split; [split; [intros p [[]|[]]|split; apply yview_fresh; reflexivity]|].
  exists ih, 0, 0, 0. unfold stores_of, init_state. cbn.
  split; [reflexivity|]. split; [left; repeat split|].
  split; [intros h x cp []|]. split; [intros h x cp []|]. split; [intros h r e E; discriminate|intros x []].
Qed.

(** * Every crash point of an operation *)

(** the stores a crash after [k] writes leaves behind *)
Definition crash_stores (s s1 : kstate) (k : nat) : stores :=
  fold_left apply_wr (firstn k (skipn (List.length (st_log s)) (st_log s1))) (stores_of s).

(** for EVERY k there are stores [stc] satisfying [SI], lying between the stores before and after
    the uninterrupted operation, on which start-up returns exactly what it returns on the crash
    stores: the crash stores themselves at a clean cut, the stores of the committing state at
    the cut between the committed-header write and the position write *)
Lemma crash_point ih ivs s o s1 r k :
  1 <= ih -> vwf ivs -> K ih ivs s -> tinv s -> wf_op o r -> step s o = Ok (s1, r) ->
  exists stc, SI ih ivs stc /\ sadv (stores_of s) stc /\ sadv stc (stores_of s1) /\
              (clean_cut s o k -> stc = crash_stores s s1 k) /\
              forall vals log, restart ih ivs (crash_stores s s1 k) vals log = restart ih ivs stc vals log.
Proof.
  intros Hih Hivs HK HT Hw Hs. destruct (K_step _ _ _ _ _ _ HK HT Hw Hs) as (_&_&(ws&L&S&P)).
  assert (Hskip : skipn (List.length (st_log s)) (st_log s1) = ws)
    by (rewrite L, skipn_app, skipn_all, Nat.sub_diag; reflexivity).
  unfold crash_stores, clean_cut. rewrite Hs, Hskip. destruct (P k) as [Pc Pa].
  destruct (ends_hdr (firstn k ws)) eqn:E.
  - destruct (Pa eq_refl) as (m&p&Km&Hcc&A1&A2&Est). exists (stores_of m).
    split; [exact (proj2 (proj2 (proj2 (proj2 (proj2 (proj2 Km))))))|]. split; [exact A1|]. split; [exact A2|].
    split; [discriminate|]. intros vals log. rewrite Est. apply restart_ahead_same; assumption.
  - destruct (Pc eq_refl) as (Q1&Q2&Q3). exists (fold_left apply_wr (firstn k ws) (stores_of s)).
    split; [exact Q1|]. split; [exact Q2|]. split; [exact Q3|]. split; [reflexivity|]. intros; reflexivity.
Qed.

(** * Every step of [xstep] *)
Lemma K_xstep ih ivs s x s' res :
  1 <= ih -> vwf ivs -> K ih ivs s -> tinv s -> xwf s x res -> xstep s x = Ok (s', res) ->
  K ih ivs s' /\ tinv s' /\ sadv (stores_of s) (stores_of s').
Proof.
  intros Hih Hivs HK HT Hw Hx.
  pose proof (proj1 (proj1 HK)) as Hc. destruct Hc as (Hi1&Hi2&_).
  destruct x as [o|k o|]; cbn [xstep xwf] in *.
  - destruct (K_step _ _ _ _ _ _ HK HT Hw Hx) as (K1&T1&P1).
    split; [exact K1|]. split; [exact T1|eapply pref_ends; exact P1].
  - destruct (step s o) as [[s1 r1]|] eqn:Hs; cbn [bind fst snd] in Hx; [|discriminate].
    assert (Er : r1 = res).
    { destruct (restart _ _ _ _ _); cbn [bind] in Hx; [inversion Hx; reflexivity|discriminate]. }
    subst r1. destruct (crash_point ih ivs s o s1 res k Hih Hivs HK HT Hw Hs) as (stc&Q1&Q2&_&_&Er).
    fold (crash_stores s s1 k) in Hx. rewrite Hi1, Hi2, Er in Hx.
    destruct (restart_from ih ivs stc (st_vals s)
                (st_log s ++ firstn k (skipn (List.length (st_log s)) (st_log s1))) Hih Hivs Q1) as (s2&E2&K2&T2&A2).
    rewrite E2 in Hx. cbn [bind] in Hx. inversion Hx; subst s'.
    split; [exact K2|]. split; [exact T2|eapply sadv_trans; eassumption].
  - rewrite Hi1, Hi2 in Hx.
    destruct (restart_from ih ivs (stores_of s) (st_vals s) (st_log s) Hih Hivs
                (proj2 (proj2 (proj2 (proj2 (proj2 (proj2 HK))))))) as (s2&E2&K2&T2&A2).
    rewrite E2 in Hx. cbn [bind] in Hx. inversion Hx; subst s'.
    split; [exact K2|]. split; [exact T2|exact A2].
Qed.

(** (3) the invariants hold again after every [xstep] - at every crash point *)
Theorem reachable_g_K ih ivs s :
  1 <= ih -> vwf ivs -> reachable_g ih ivs s -> K ih ivs s /\ tinv s.
Proof.
  intros Hih Hivs. induction 1 as [|s x s' res Hr [IK IT] Hw Hx]; [apply K_init; assumption|].
  destruct (K_xstep ih ivs s x s' res Hih Hivs IK IT Hw Hx) as (A&B&_). split; assumption.
Qed.

Theorem reachable_g_INV ih ivs s :
  1 <= ih -> vwf ivs -> reachable_g ih ivs s ->
  INV ih ivs s /\ tinv s /\ SI ih ivs (stores_of s).
Proof.
  intros Hih Hivs Hr. destruct (reachable_g_K ih ivs s Hih Hivs Hr) as [(HI&_&(_&_&_&_&HS)) HT].
  split; [exact HI|]. split; [exact HT|exact HS].
Qed.

(** (1) start-up never fails: clean restart, and restart after a crash at EVERY point of every
    admissible operation; the state it returns is reachable again *)
Theorem startup_never_fails ih ivs s :
  1 <= ih -> vwf ivs -> reachable_g ih ivs s ->
  (exists s', xstep s XRestart = Ok (s', 0) /\ reachable_g ih ivs s') /\
  (forall o k s1 r, step s o = Ok (s1, r) -> wf_op o r ->
     exists s', xstep s (XCrash k o) = Ok (s', r) /\ reachable_g ih ivs s').
Proof.
  intros Hih Hivs Hr. destruct (reachable_g_K ih ivs s Hih Hivs Hr) as [HK HT].
  pose proof (proj1 (proj1 HK)) as Hc. destruct Hc as (Hi1&Hi2&_).
  split.
  - assert (E : exists s', xstep s XRestart = Ok (s', 0)).
    { cbn [xstep]. rewrite Hi1, Hi2.
      destruct (restart_from ih ivs (stores_of s) (st_vals s) (st_log s) Hih Hivs
                  (proj2 (proj2 (proj2 (proj2 (proj2 (proj2 HK))))))) as (s2&E2&_).
      rewrite E2. cbn [bind]. eexists; reflexivity. }
    destruct E as (s'&E). exists s'. split; [exact E|]. eapply rg_step; [exact Hr| |exact E]. exact I.
  - intros o k s1 r Hs Hw.
    assert (E : exists s', xstep s (XCrash k o) = Ok (s', r)).
    { cbn [xstep]. rewrite Hs. cbn [bind fst snd].
      destruct (crash_point ih ivs s o s1 r k Hih Hivs HK HT Hw Hs) as (stc&Q1&_&_&_&Er).
      fold (crash_stores s s1 k). rewrite Hi1, Hi2, Er.
      destruct (restart_from ih ivs stc (st_vals s)
                  (st_log s ++ firstn k (skipn (List.length (st_log s)) (st_log s1))) Hih Hivs Q1) as (s2&E2&_).
      rewrite E2. cbn [bind]. eexists; reflexivity. }
    destruct E as (s'&E). exists s'. split; [exact E|]. eapply rg_step; [exact Hr| |exact E]. exact Hw.
Qed.

(** (2) nothing committed is lost and the stored position does not regress *)
Theorem no_regression ih ivs s x s' res :
  1 <= ih -> vwf ivs -> reachable_g ih ivs s -> xwf s x res -> xstep s x = Ok (s', res) ->
  (forall h hc, In (h, hc) (st_hdrs s) -> In (h, hc) (st_hdrs s')) /\
  n_vh (st_nhr s) <= n_vh (st_nhr s') /\ n_ch (st_nhr s) <= n_ch (st_nhr s') /\
  (n_vh (st_nhr s') = n_vh (st_nhr s) ->
     n_ch (st_nhr s') = n_ch (st_nhr s) /\ n_cr (st_nhr s') = n_cr (st_nhr s) /\
     rsteps (n_vr (st_nhr s)) (n_vr (st_nhr s'))).
Proof.
  intros Hih Hivs Hr Hw Hx. destruct (reachable_g_K ih ivs s Hih Hivs Hr) as [HK HT].
  destruct (K_xstep ih ivs s x s' res Hih Hivs HK HT Hw Hx) as (_&_&A). exact A.
Qed.

(** what start-up sees after a crash: stores satisfying [SI] between the stores before and the
    stores after the uninterrupted operation *)
Theorem crash_stores_between ih ivs s o k s1 r :
  1 <= ih -> vwf ivs -> reachable_g ih ivs s ->
  step s o = Ok (s1, r) -> wf_op o r ->
  exists stc, SI ih ivs stc /\ sadv (stores_of s) stc /\ sadv stc (stores_of s1) /\
              (clean_cut s o k -> stc = crash_stores s s1 k) /\
              forall vals log, restart ih ivs (crash_stores s s1 k) vals log = restart ih ivs stc vals log.
Proof.
  intros Hih Hivs Hr Hs Hw. destruct (reachable_g_K ih ivs s Hih Hivs Hr) as [HK HT].
  exact (crash_point ih ivs s o s1 r k Hih Hivs HK HT Hw Hs).
Qed.
