(** Chain / position / validator-set invariants of the mirror model (C04, C07, and the
    positional facts other proofs need), for every reachable state. *)
From Coq Require Import List NArith Arith Bool Lia String.
From GV Require Import Base.Ints Gen.Math Gen.Kernel Model.Mirror Proofs.MirrorAuth Proofs.MirrorNoop.
Import ListNotations.
Local Open Scope N_scope.

Ltac splits := repeat match goal with |- _ /\ _ => split end.

Ltac break_ifs :=
  repeat match goal with
         | |- context [if ?c then _ else _] => destruct c eqn:?
         end.

(** ** The generated view lookup, characterised *)
Lemma find_view_found pos h r vid st :
  find_view pos h r = Ok (vid, st) -> st = ViewFound ->
  (vid = ViewIDVoting /\ h = kpos_Voting_Height pos /\ r = kpos_Voting_Round pos) \/
  (vid = ViewIDNextRound /\ h = kpos_Voting_Height pos /\ r = wrap32 (kpos_Voting_Round pos + 1)) \/
  (vid = ViewIDCommitting /\ h = kpos_Committing_Height pos /\ r = kpos_Committing_Round pos /\
   h <> kpos_Voting_Height pos).
Proof.
  unfold find_view. cbv zeta. break_ifs; intros E; inversion E; subst; intros Hst;
    try (exfalso; revert Hst; unfold ViewFound, ViewOrphaned, ViewFuture, ViewBeforeCommitting; discriminate).
  all: repeat match goal with
           | X : (_ =? _) = true |- _ => apply N.eqb_eq in X
           | X : (_ =? _) = false |- _ => apply N.eqb_neq in X
           end; subst.
  - left. repeat split.
  - right; left. repeat split.
  - right; right. repeat split; assumption.
Qed.

Lemma find_view_total pos h r : exists vid st, find_view pos h r = Ok (vid, st).
Proof. unfold find_view. cbv zeta. break_ifs; eexists; eexists; reflexivity. Qed.

(** ** Chain of committed headers *)
Inductive hchain (init : N) : N -> list (N * (hdr * cproof)) -> Prop :=
| hc_one x cp : hd_height x = init -> hchain init init [(init, (x, cp))]
| hc_cons h x cp px pcp l :
    hchain init h ((h, (px, pcp)) :: l) ->
    hd_height x = h + 1 -> hd_prev x = hd_hash px -> h + 1 < two64 ->
    hchain init (h + 1) ((h + 1, (x, cp)) :: (h, (px, pcp)) :: l).

Lemma hchain_bounds init top l : hchain init top l ->
  init <= top /\ forall h x, In (h, x) l -> init <= h /\ h <= top.
Proof.
  induction 1 as [x cp Hx|h x cp px pcp l Hc [IH1 IH2] Hh Hp Hb].
  - split; [lia|]. intros h y [E|[]]. inversion E; subst. lia.
  - split; [lia|]. intros h' y [E|Hin].
    + inversion E; subst. lia.
    + destruct (IH2 h' y Hin). lia.
Qed.

Lemma hchain_filter init top l newh : hchain init top l -> top < newh ->
  filter (fun e => negb (fst e =? newh)) l = l.
Proof.
  intros Hc Hlt. destruct (hchain_bounds _ _ _ Hc) as [_ Hb].
  assert (G : forall l', (forall h x, In (h, x) l' -> h <= top) ->
                         filter (fun e : N * (hdr * cproof) => negb (fst e =? newh)) l' = l').
  { induction l' as [|[h x] l' IH]; intros Hl; cbn; [reflexivity|].
    assert (h <= top) by (apply (Hl h x); left; reflexivity).
    destruct (N.eqb_spec h newh); [lia|]. cbn. f_equal. apply IH. intros h' x' Hin. apply (Hl h' x'). right; exact Hin. }
  apply G. intros h x Hin. apply (Hb h x Hin).
Qed.

(** ** The invariant *)
Definition expected_vals (s : kstate) : valset :=
  match k_chdr s with None => k_init_vs s | Some ch => hd_next ch end.

Definition ph_good (s : kstate) (p : ph) : Prop :=
  hd_height (ph_hdr p) = v_h (k_vot s) /\
  hd_ok (ph_hdr p) = true /\
  vs_ok (hd_next (ph_hdr p)) = true /\
  hd_height (ph_hdr p) + 1 < two64 /\
  (hd_height (ph_hdr p) <> k_init_h s ->
   exists ch, k_chdr s = Some ch /\ hd_prev (ph_hdr p) = hd_hash ch).

Definition phs_good (s : kstate) : Prop :=
  forall p, In p (v_phs (k_vot s)) \/ In p (v_phs (k_nxt s)) -> ph_good s p.

Definition chain_ok (ih : N) (s : kstate) : Prop :=
  match k_chdr s with
  | None => v_h (k_com s) = 0 /\ v_r (k_com s) = 0 /\ st_hdrs s = [] /\ v_h (k_vot s) = ih
  | Some ch =>
      v_h (k_com s) = hd_height ch /\ v_h (k_vot s) = hd_height ch + 1 /\ hd_height ch + 1 < two64 /\
      (exists cp rest, st_hdrs s = (hd_height ch, (ch, cp)) :: rest) /\
      hchain ih (hd_height ch) (st_hdrs s)
  end.

Definition cinv (ih : N) (ivs : valset) (s : kstate) : Prop :=
  k_init_h s = ih /\ k_init_vs s = ivs /\ 1 <= ih /\
  v_h (k_nxt s) = v_h (k_vot s) /\
  v_r (k_nxt s) = wrap32 (v_r (k_vot s) + 1) /\
  st_nhr s = (v_h (k_vot s), v_r (k_vot s), v_h (k_com s), v_r (k_com s)) /\
  v_vals (k_vot s) = expected_vals s /\ v_vals (k_nxt s) = expected_vals s /\
  vs_ok (expected_vals s) = true /\
  phs_good s /\ chain_ok ih s.

(** progress relation between a state and a later one *)
Inductive rsteps : N -> N -> Prop :=
| rs_refl a : rsteps a a
| rs_step a b : rsteps a b -> rsteps a (wrap32 (b + 1)).

Lemma rsteps_trans a b c : rsteps a b -> rsteps b c -> rsteps a c.
Proof. intros Hab Hbc. induction Hbc; [exact Hab|apply rs_step; auto]. Qed.

Definition adv (s s' : kstate) : Prop :=
  (forall h x, In (h, x) (st_hdrs s) -> In (h, x) (st_hdrs s')) /\
  v_h (k_vot s) <= v_h (k_vot s') /\ v_h (k_com s) <= v_h (k_com s') /\
  (v_h (k_vot s') = v_h (k_vot s) ->
     v_h (k_com s') = v_h (k_com s) /\ v_r (k_com s') = v_r (k_com s) /\
     rsteps (v_r (k_vot s)) (v_r (k_vot s'))).

Lemma adv_refl s : adv s s.
Proof. repeat split; try lia; auto. apply rs_refl. Qed.

Lemma adv_trans a b c : adv a b -> adv b c -> adv a c.
Proof.
  intros (A1&A2&A3&A4) (B1&B2&B3&B4). unfold adv.
  split; [auto|]. split; [lia|]. split; [lia|].
  intros E. assert (Hb : v_h (k_vot b) = v_h (k_vot a)) by lia. assert (Hc : v_h (k_vot c) = v_h (k_vot b)) by lia.
  destruct (A4 Hb) as (X1&X2&X3). destruct (B4 Hc) as (Y1&Y2&Y3).
  split; [lia|]. split; [lia|]. eapply rsteps_trans; eassumption.
Qed.

(** ** Frame: changes that keep positions, validator sets, proposals and the chain *)
Definition pos_eq (a b : view) : Prop :=
  v_h a = v_h b /\ v_r a = v_r b /\ v_vals a = v_vals b /\ v_phs a = v_phs b.

Definition frame_eq (s s' : kstate) : Prop :=
  pos_eq (k_com s) (k_com s') /\ pos_eq (k_vot s) (k_vot s') /\ pos_eq (k_nxt s) (k_nxt s') /\
  k_chdr s = k_chdr s' /\ st_nhr s = st_nhr s' /\ st_hdrs s = st_hdrs s' /\
  k_init_h s = k_init_h s' /\ k_init_vs s = k_init_vs s'.

Lemma pos_eq_refl v : pos_eq v v.
Proof. repeat split. Qed.

Lemma frame_eq_refl s : frame_eq s s.
Proof. repeat split. Qed.

Lemma frame_eq_trans a b c : frame_eq a b -> frame_eq b c -> frame_eq a c.
Proof.
  unfold frame_eq, pos_eq.
  intros ((?&?&?&?)&(?&?&?&?)&(?&?&?&?)&?&?&?&?&?) ((?&?&?&?)&(?&?&?&?)&(?&?&?&?)&?&?&?&?&?).
  repeat split; congruence.
Qed.

Lemma cinv_frame ih ivs s s' : frame_eq s s' -> cinv ih ivs s -> cinv ih ivs s'.
Proof.
  unfold frame_eq, pos_eq, cinv, expected_vals, phs_good, chain_ok, ph_good.
  intros ((Hc1&Hc2&Hc3&Hc4)&(Hv1&Hv2&Hv3&Hv4)&(Hn1&Hn2&Hn3&Hn4)&Hch&Hnhr&Hh&Hi1&Hi2).
  rewrite <- Hc1, <- Hc2, <- Hv1, <- Hv2, <- Hv3, <- Hv4, <- Hn1, <- Hn2, <- Hn3, <- Hn4,
          <- Hch, <- Hnhr, <- Hh, <- Hi1, <- Hi2.
  intros H; exact H.
Qed.

Lemma adv_frame s s' : frame_eq s s' -> adv s s'.
Proof.
  unfold frame_eq, pos_eq, adv.
  intros ((Hc1&Hc2&Hc3&Hc4)&(Hv1&Hv2&Hv3&Hv4)&(Hn1&Hn2&Hn3&Hn4)&Hch&Hnhr&Hh&Hi1&Hi2).
  rewrite <- Hh, <- Hv1, <- Hv2, <- Hc1, <- Hc2. repeat split; try lia; auto. apply rs_refl.
Qed.

Lemma frame_put_view s vid v : pos_eq (get_view s vid) v -> frame_eq s (put_view s vid v).
Proof.
  unfold get_view, put_view. intros H.
  destruct (vid =? ViewIDVoting); [|destruct (vid =? ViewIDCommitting)];
    unfold frame_eq; cbn; repeat split; try apply H.
Qed.

Lemma frame_set_rounds s x : frame_eq s (set_rounds s x).
Proof. repeat split. Qed.

Lemma pos_eq_bump v : pos_eq v (bump v). Proof. repeat split. Qed.
Lemma pos_eq_with_pv v x : pos_eq v (with_pv v x). Proof. repeat split. Qed.
Lemma pos_eq_with_pc v x : pos_eq v (with_pc v x). Proof. repeat split. Qed.
Lemma pos_eq_with_sum v x : pos_eq v (with_sum v x). Proof. repeat split. Qed.
Lemma pos_eq_trans a b c : pos_eq a b -> pos_eq b c -> pos_eq a c.
Proof. unfold pos_eq. intros (?&?&?&?) (?&?&?&?). repeat split; congruence. Qed.

Lemma frame_backfill s p : frame_eq s (backfill_commit s p).
Proof.
  unfold backfill_commit. destruct (fold_left _ _ _) as [pc' any].
  destruct any; unfold frame_eq; cbn; repeat split.
Qed.

(** ** Round increments *)
Lemma cinv_increment ih ivs s : cinv ih ivs s -> cinv ih ivs (update_observers (increment_voting_round s)).
Proof.
  unfold cinv, expected_vals, update_observers, increment_voting_round. cbn.
  intros (Hi1&Hi2&Hi3&Hnh&Hnr&Hnhr&Hvv&Hvn&Hok&Hphs&Hch).
  splits; try assumption; try congruence.
  - unfold phs_good, ph_good in *. cbn. intros p [Hin|[]].
    destruct (Hphs p (or_intror Hin)) as (A&B&C&D&E). repeat split; try assumption; congruence.
  - unfold chain_ok in *. cbn. destruct (k_chdr s) as [ch|]; rewrite Hnh; exact Hch.
Qed.

Lemma adv_increment ih ivs s : cinv ih ivs s -> adv s (update_observers (increment_voting_round s)).
Proof.
  unfold cinv, adv, update_observers, increment_voting_round. cbn.
  intros (Hi1&Hi2&Hi3&Hnh&Hnr&_). rewrite Hnh, Hnr.
  repeat split; try lia; auto. apply rs_step, rs_refl.
Qed.

Lemma cinv_advance ih ivs s : cinv ih ivs s -> cinv ih ivs (advance_voting_round s).
Proof. intros H. exact (cinv_increment ih ivs (ev_w s (EvNil (k_vot s))) H). Qed.
Lemma adv_advance ih ivs s : cinv ih ivs s -> adv s (advance_voting_round s).
Proof. intros H. exact (adv_increment ih ivs (ev_w s (EvNil (k_vot s))) H). Qed.
Lemma cinv_jump ih ivs s : cinv ih ivs s -> cinv ih ivs (jump_voting_round s).
Proof. intros H. exact (cinv_increment ih ivs s H). Qed.
Lemma adv_jump ih ivs s : cinv ih ivs s -> adv s (jump_voting_round s).
Proof. intros H. exact (adv_increment ih ivs s H). Qed.

(** ** The commit shift *)
Lemma chain_shift ih s p :
  k_init_h s = ih -> chain_ok ih s -> ph_good s p ->
  chain_ok ih (shift_voting_to_committing s (ph_hdr p)).
Proof.
  intros Hi1 Hch (Ph&Pok&Pnext&Pb&Pprev).
  assert (Hw : wrap64 (v_h (k_vot s) + 1) = hd_height (ph_hdr p) + 1).
  { unfold wrap64. rewrite <- Ph. apply N.mod_small. exact Pb. }
  unfold chain_ok in *. unfold shift_voting_to_committing, update_observers. cbn. rewrite ?Hw.
  split; [symmetry; exact Ph|]. split; [reflexivity|]. split; [exact Pb|].
  split; [eexists; eexists; reflexivity|].
  destruct (k_chdr s) as [ch|] eqn:Hc.
  - destruct Hch as (Hc1&Hc2&Hc3&(cp&rest&Hst)&Hchain).
    assert (Hne : hd_height (ph_hdr p) <> k_init_h s) by (destruct (hchain_bounds _ _ _ Hchain); lia).
    destruct (Pprev Hne) as (ch'&Hch'&Hprev). inversion Hch'; subst ch'.
    unfold hstore_set. rewrite (hchain_filter _ _ _ (hd_height (ph_hdr p)) Hchain) by lia.
    rewrite Hst in *. rewrite Ph, Hc2. apply hc_cons; try assumption; try lia.
  - destruct Hch as (Hc1&Hc2&Hc3&Hc4). unfold hstore_set. rewrite Hc3. cbn.
    rewrite Ph, Hc4. apply hc_one. congruence.
Qed.

Lemma cinv_shift ih ivs s p :
  cinv ih ivs s -> In p (v_phs (k_vot s)) ->
  cinv ih ivs (shift_voting_to_committing s (ph_hdr p)).
Proof.
  intros Hinv Hin.
  destruct Hinv as (Hi1&Hi2&Hi3&Hnh&Hnr&Hnhr&Hvv&Hvn&Hok&Hphs&Hch).
  pose proof (Hphs p (or_introl Hin)) as Hgood.
  pose proof (chain_shift ih s p Hi1 Hch Hgood) as Hchain.
  destruct Hgood as (Ph&Pok&Pnext&Pb&Pprev).
  unfold cinv. split; [exact Hi1|]. split; [exact Hi2|]. split; [exact Hi3|].
  split; [reflexivity|]. split; [reflexivity|]. split; [reflexivity|].
  split; [reflexivity|]. split; [reflexivity|]. split; [exact Pnext|].
  split; [|exact Hchain].
  unfold phs_good. cbn. intros q [[]|[]].
Qed.

Lemma adv_shift ih ivs s p :
  cinv ih ivs s -> In p (v_phs (k_vot s)) -> adv s (shift_voting_to_committing s (ph_hdr p)).
Proof.
  intros Hinv Hin.
  destruct Hinv as (Hi1&Hi2&Hi3&Hnh&Hnr&Hnhr&Hvv&Hvn&Hok&Hphs&Hch). unfold chain_ok in Hch.
  destruct (Hphs p (or_introl Hin)) as (Ph&Pok&Pnext&Pb&Pprev).
  unfold adv, shift_voting_to_committing, update_observers. cbn.
  assert (Hw : wrap64 (v_h (k_vot s) + 1) = v_h (k_vot s) + 1).
  { unfold wrap64. apply N.mod_small. rewrite <- Ph. exact Pb. }
  rewrite Hw.
  repeat split; try lia.
  - intros h x Hx. unfold hstore_set. right.
    apply filter_In. split; [exact Hx|]. cbn.
    destruct (k_chdr s) as [ch|].
    + destruct Hch as (Hc1&Hc2&Hc3&_&Hchain). destruct (hchain_bounds _ _ _ Hchain) as [_ Hb].
      destruct (Hb h x Hx). destruct (N.eqb_spec h (hd_height (ph_hdr p))); [lia|reflexivity].
    + destruct Hch as (_&_&Hc3&_). rewrite Hc3 in Hx. destruct Hx.
  - destruct (k_chdr s) as [ch|]; [destruct Hch as (Hc1&Hc2&_)|destruct Hch as (Hc1&_)]; lia.
Qed.

(** ** The three shift checks *)
Lemma find_in {A} (f : A -> bool) l x : find f l = Some x -> In x l.
Proof. induction l as [|y l IH]; cbn; [discriminate|]. destruct (f y); [intros E; inversion E; left; reflexivity|intros E; right; apply IH; exact E]. Qed.

Lemma cinv_check_voting ih ivs s s' :
  cinv ih ivs s -> check_voting_precommit_shift s = Ok s' -> cinv ih ivs s' /\ adv s s'.
Proof.
  intros H. unfold check_voting_precommit_shift, bind.
  destruct (byz_majority _) as [maj|]; [|discriminate].
  assert (Hincr : cinv ih ivs (advance_voting_round s) /\ adv s (advance_voting_round s)).
  { split; [apply cinv_advance; exact H|eapply adv_advance; exact H]. }
  destruct (_ <? maj).
  - destruct (_ =? _); intros E; inversion E; subst; [exact Hincr|].
    split; [exact H|apply adv_refl].
  - destruct (sm_mpc _).
    + intros E; inversion E; subst. exact Hincr.
    + destruct (find _ _) as [p|] eqn:Hf; intros E; inversion E; subst.
      * pose proof (find_in _ _ _ Hf) as Hin.
        split; [apply cinv_shift; assumption|eapply adv_shift; eassumption].
      * split; [exact H|apply adv_refl].
Qed.

Lemma cinv_check_next_round ih ivs s s' :
  cinv ih ivs s -> check_next_round_precommit_shift s = Ok s' -> cinv ih ivs s' /\ adv s s'.
Proof.
  intros H. unfold check_next_round_precommit_shift, bind.
  destruct (byz_minority _) as [mn|]; [|discriminate].
  destruct (_ <? mn); [intros E; inversion E; subst; split; [exact H|apply adv_refl]|].
  destruct (byz_majority _) as [maj|]; [|discriminate].
  pose proof (cinv_jump ih ivs s H) as H1. pose proof (adv_jump ih ivs s H) as A1.
  destruct (maj <=? _).
  - intros E. destruct (cinv_check_voting _ _ _ _ H1 E) as (H2&A2).
    split; [exact H2|]. eapply adv_trans; eassumption.
  - intros E; inversion E; subst. split; assumption.
Qed.

Lemma cinv_check_prevote ih ivs s s' :
  cinv ih ivs s -> check_prevote_shift s = Ok s' -> cinv ih ivs s' /\ adv s s'.
Proof.
  intros H. unfold check_prevote_shift, bind.
  destruct (byz_minority _) as [mn|]; [|discriminate].
  destruct (_ <? mn); intros E; inversion E; subst.
  - split; [exact H|apply adv_refl].
  - split; [apply cinv_jump; exact H|eapply adv_jump; exact H].
Qed.

(** ** Votes *)
Lemma cinv_apply_votes ih ivs kind s vid h r ups s' :
  cinv ih ivs s -> apply_votes kind s vid h r ups = Ok s' -> cinv ih ivs s' /\ adv s s'.
Proof.
  intros H. unfold apply_votes.
  set (v := get_view s vid).
  set (votes' := fold_left (fun m e => pm_set m (fst e) (snd e)) ups (view_votes kind v)).
  set (v1 := if kind =? KPrevote then with_pv v votes' else with_pc v votes').
  set (sm' := if kind =? KPrevote then sum_set_prevotes _ _ _ else _).
  set (v2 := bump (with_sum v1 sm')).
  assert (Hp : pos_eq v v2).
  { unfold v2, v1. destruct (kind =? KPrevote); repeat split. }
  set (s1 := put_view s vid v2).
  set (s2 := ev_w (log_w (set_rounds s1 _) _) _).
  assert (F : frame_eq s s2).
  { eapply frame_eq_trans; [apply frame_put_view; exact Hp|apply frame_set_rounds]. }
  pose proof (cinv_frame _ _ _ _ F H) as H2. pose proof (adv_frame _ _ F) as A2.
  destruct (kind =? KPrevote).
  - destruct (vid =? ViewIDNextRound).
    + intros E. destruct (cinv_check_prevote _ _ _ _ H2 E) as (H3&A3). split; [exact H3|eapply adv_trans; eassumption].
    + intros E; inversion E; subst. split; assumption.
  - destruct (vid =? ViewIDVoting).
    + intros E. destruct (cinv_check_voting _ _ _ _ H2 E) as (H3&A3). split; [exact H3|eapply adv_trans; eassumption].
    + destruct (vid =? ViewIDNextRound).
      * intros E. destruct (cinv_check_next_round _ _ _ _ H2 E) as (H3&A3). split; [exact H3|eapply adv_trans; eassumption].
      * intros E; inversion E; subst. split; assumption.
Qed.

Lemma frame_handle_future kind s m s' res :
  handle_future_votes kind s m = Ok (s', res) -> frame_eq s s'.
Proof.
  unfold handle_future_votes.
  destruct (if vm_h m =? _ then _ else _) as [keys|]; [|intros E; inversion E; subst; apply frame_eq_refl].
  destruct keys; [intros E; inversion E; subst; apply frame_eq_refl|].
  destruct (negb (bytes_eqb _ _)); [intros E; inversion E; subst; apply frame_eq_refl|].
  destruct (match coll_of _ _ with Some c => c | None => _ end) as [spkh stored].
  destruct (fold_left _ _ _) as [[full' allv] inc].
  destruct (negb allv); [intros E; inversion E; subst; apply frame_eq_refl|].
  destruct (negb inc); intros E; inversion E; subst; [apply frame_eq_refl|].
  destruct (kind =? KPrevote); apply frame_set_rounds.
Qed.

Lemma cinv_handle_votes ih ivs kind s m s' res :
  cinv ih ivs s -> handle_votes kind s m = Ok (s', res) -> cinv ih ivs s' /\ adv s s'.
Proof.
  intros H. unfold handle_votes, bind.
  destruct (vm_proofs m) as [|vp0 vpl] eqn:Hp; [intros E; inversion E; subst; split; [exact H|apply adv_refl]|].
  rewrite <- Hp. clear Hp vp0 vpl.
  destruct (find_view _ _ _) as [[vid st]|]; [|discriminate].
  destruct (st =? ViewFuture).
  { intros E. pose proof (frame_handle_future _ _ _ _ _ E) as F. split; [eapply cinv_frame; eassumption|apply adv_frame; exact F]. }
  destruct (negb (st =? ViewFound)); [intros E; inversion E; subst; split; [exact H|apply adv_refl]|].
  destruct (negb (bytes_eqb _ _)); [intros E; inversion E; subst; split; [exact H|apply adv_refl]|].
  destruct (sigs_to_add _ _ _) as [|x0 l0]; [intros E; inversion E; subst; split; [exact H|apply adv_refl]|].
  destruct (build_updates _ _ _) as [ups allv].
  destruct ups as [|u ups'] eqn:Hu; [intros E; inversion E; subst; split; [exact H|apply adv_refl]|]. rewrite <- Hu. clear Hu.
  destruct (apply_votes _ _ _ _ _ _) as [s2|] eqn:Ha; [|discriminate].
  intros E; inversion E; subst. eapply cinv_apply_votes; eassumption.
Qed.

(** ** Proposed headers *)
Definition accept_facts (s : kstate) (p : ph) : Prop :=
  hd_ok (ph_hdr p) = true /\ vs_ok (hd_next (ph_hdr p)) = true /\ hd_height (ph_hdr p) + 1 < two64 /\
  (hd_height (ph_hdr p) = v_h (k_vot s) -> hd_height (ph_hdr p) <> k_init_h s ->
   exists ch, k_chdr s = Some ch /\ hd_prev (ph_hdr p) = hd_hash ch).

Lemma cinv_put_phs ih ivs s vid p :
  cinv ih ivs s ->
  (vid = ViewIDVoting \/ vid = ViewIDNextRound \/ vid = ViewIDCommitting) ->
  (vid = ViewIDVoting \/ vid = ViewIDNextRound -> ph_good s p) ->
  let s1 := put_view s vid (bump (with_phs (get_view s vid) (v_phs (get_view s vid) ++ [p]))) in
  cinv ih ivs s1 /\ v_h (k_vot s1) = v_h (k_vot s) /\ v_r (k_vot s1) = v_r (k_vot s) /\
  v_h (k_com s1) = v_h (k_com s) /\ v_r (k_com s1) = v_r (k_com s) /\ st_hdrs s1 = st_hdrs s.
Proof.
  intros (Hi1&Hi2&Hi3&Hnh&Hnr&Hnhr&Hvv&Hvn&Hok&Hphs&Hch) Hvid Hgood.
  unfold get_view, put_view.
  destruct Hvid as [->|[->| ->]]; cbn.
  - split; [|repeat split]. unfold cinv. splits; try assumption.
    + unfold phs_good in *. cbn. intros q [Hq|Hq].
      * apply in_app_or in Hq as [Hq|[Hq|[]]].
        -- exact (Hphs q (or_introl Hq)).
        -- subst q. exact (Hgood (or_introl eq_refl)).
      * exact (Hphs q (or_intror Hq)).
  - split; [|repeat split]. unfold cinv. splits; try assumption.
    + unfold phs_good in *. cbn. intros q [Hq|Hq].
      * exact (Hphs q (or_introl Hq)).
      * apply in_app_or in Hq as [Hq|[Hq|[]]].
        -- exact (Hphs q (or_intror Hq)).
        -- subst q. exact (Hgood (or_intror eq_refl)).
  - split; [|repeat split]. unfold cinv. splits; assumption.
Qed.

Lemma cinv_add_ph ih ivs s p s' :
  cinv ih ivs s -> accept_facts s p -> add_ph s p = Ok s' -> cinv ih ivs s' /\ adv s s'.
Proof.
  intros H (Aok&Anext&Ab&Aprev). unfold add_ph, bind.
  destruct (find_view _ _ _) as [[vid st]|] eqn:Hfv; [|discriminate].
  destruct (st =? ViewFound) eqn:Hst; cbn [negb]; [|intros E; inversion E; subst; split; [exact H|apply adv_refl]].
  apply N.eqb_eq in Hst.
  destruct (existsb _ _); [intros E; inversion E; subst; split; [exact H|apply adv_refl]|].
  pose proof (find_view_found _ _ _ _ _ Hfv Hst) as Hcase. cbn in Hcase.
  assert (Hvid : vid = ViewIDVoting \/ vid = ViewIDNextRound \/ vid = ViewIDCommitting).
  { destruct Hcase as [(A&_)|[(A&_)|(A&_)]]; auto. }
  assert (Hgood : vid = ViewIDVoting \/ vid = ViewIDNextRound -> ph_good s p).
  { intros Hv. assert (Hh : hd_height (ph_hdr p) = v_h (k_vot s)).
    { destruct Hcase as [(A&B&C)|[(A&B&C)|(A&B&C&D)]]; try exact B.
      subst vid. destruct Hv as [Hv|Hv]; discriminate. }
    unfold ph_good. splits; try assumption. intros Hne. apply Aprev; assumption. }
  destruct (cinv_put_phs ih ivs s vid p H Hvid Hgood) as (H1&E1&E2&E3&E4&E5).
  set (s1 := put_view s vid _) in *.
  assert (A1 : adv s s1).
  { unfold adv. rewrite E1, E2, E3, E4, E5. repeat split; try lia; auto. apply rs_refl. }
  set (s2 := ev_w (log_w (set_rounds s1 _) _) _).
  assert (H2 : cinv ih ivs s2) by (eapply cinv_frame; [apply frame_set_rounds|exact H1]).
  assert (A2 : adv s s2) by exact A1.
  destruct (negb _); [intros E; inversion E; subst; split; assumption|].
  pose proof (frame_backfill s2 p) as F3.
  pose proof (cinv_frame _ _ _ _ F3 H2) as H3.
  assert (A3 : adv s (backfill_commit s2 p)) by (eapply adv_trans; [exact A2|apply adv_frame; exact F3]).
  destruct (vid =? ViewIDVoting).
  - destruct (pm_get _ _).
    + intros E. destruct (cinv_check_voting _ _ _ _ H3 E) as (H4&A4). split; [exact H4|eapply adv_trans; eassumption].
    + intros E; inversion E; subst; split; assumption.
  - intros E; inversion E; subst; split; assumption.
Qed.

Lemma ph_check_prev ih ivs s p status proposer prev_hash prev_vs view_vs :
  cinv ih ivs s -> ph_check s p = PHC status proposer prev_hash prev_vs view_vs ->
  status = PHCheckAcceptable ->
  hd_height (ph_hdr p) = v_h (k_vot s) -> hd_height (ph_hdr p) <> k_init_h s ->
  exists ch, k_chdr s = Some ch /\ prev_hash = hd_hash ch.
Proof.
  intros H Hc Hs Hh Hne.
  destruct H as (Hi1&Hi2&Hi3&Hnh&Hnr&Hnhr&Hvv&Hvn&Hok&Hphs&Hch). unfold chain_ok in Hch.
  assert (Hcom : v_h (k_com s) < v_h (k_vot s)).
  { destruct (k_chdr s); [destruct Hch as (A&B&_)|destruct Hch as (A&_&_&B)]; lia. }
  unfold ph_check in Hc. rewrite Hh in Hc.
  destruct (N.ltb_spec (v_h (k_vot s)) (v_h (k_com s))); [lia|].
  destruct (N.eqb_spec (v_h (k_vot s)) (v_h (k_com s))); [lia|].
  rewrite N.eqb_refl in Hc.
  assert (G : forall v vid, (vid = ViewIDVoting \/ vid = ViewIDNextRound) ->
              set_ph_check_status s p v vid = PHC status proposer prev_hash prev_vs view_vs ->
              exists ch, k_chdr s = Some ch /\ prev_hash = hd_hash ch).
  { intros v vid Hvid. unfold set_ph_check_status.
    destruct (existsb _ _); [intros E; inversion E; subst; discriminate|].
    destruct (ph_key p); [|intros E; inversion E; subst; discriminate].
    destruct (negb _); [intros E; inversion E; subst; discriminate|].
    destruct (N.eqb_spec (hd_height (ph_hdr p)) (k_init_h s)); [contradiction|].
    destruct (k_chdr s) as [ch|].
    - destruct Hvid as [->| ->]; cbn; intros E; inversion E; subst; exists ch; split; reflexivity.
    - exfalso. destruct Hch as (_&_&_&B). rewrite Hi1 in *. congruence. }
  destruct (_ <? _); [inversion Hc; subst; discriminate|].
  destruct (_ =? _); [apply (G _ _ (or_introl eq_refl) Hc)|].
  destruct (_ =? _); [apply (G _ _ (or_intror eq_refl) Hc)|].
  inversion Hc; subst; discriminate.
Qed.

Definition ph_bounded (p : ph) : Prop := hd_height (ph_hdr p) + 1 < two64.

Lemma cinv_handle_ph_loop ih ivs fuel : forall backfilled s p s' res,
  cinv ih ivs s -> ph_bounded p -> handle_ph_loop fuel backfilled s p = Ok (s', res) ->
  cinv ih ivs s' /\ adv s s'.
Proof.
  assert (Hbody : forall s p status proposer prev_hash prev_vs view_vs s' res,
    cinv ih ivs s -> ph_bounded p ->
    ph_check s p = PHC status proposer prev_hash prev_vs view_vs -> status = PHCheckAcceptable ->
    (let hd := ph_hdr p in
      if negb (hd_ok hd) then Ok (s, HandleProposedHeaderBadBlockHash)
      else if negb (vs_ok (hd_vals hd) && vs_ok (hd_next hd)) then Ok (s, HandleProposedHeaderBadBlockHash)
      else if negb (valset_equal (hd_vals hd) view_vs) then Ok (s, HandleProposedHeaderBadBlockHash)
      else
        match proposer with
        | None => Ok (s, HandleProposedHeaderBadSignature)
        | Some key =>
          if negb (verify_prop key (ph_content p) (ph_round p) (ph_sig p)) then Ok (s, HandleProposedHeaderBadSignature)
          else if negb (hd_height hd =? k_init_h s) && negb (bytes_eqb (hd_prev hd) prev_hash)
          then Ok (s, HandleProposedHeaderBadBlockHash)
          else if negb (bytes_eqb (vs_pkh prev_vs) (cp_pkh (hd_pcp hd)))
          then Ok (s, HandleProposedHeaderBadPrevCommitProofPubKeyHash)
          else
            let accept := bind (add_ph s p) (fun s' => Ok (s', HandleProposedHeaderAccepted)) in
            if k_init_h s <? hd_height hd then
              match vs_keys prev_vs with
              | [] => Ok (s, HandleProposedHeaderBadPrevCommitProofPubKeyHash)
              | _ =>
                match validate_finalized (sub64 (hd_height hd) 1) (cp_round (hd_pcp hd)) (vs_keys prev_vs)
                        (hd_prev hd) (cp_proofs (hd_pcp hd)) with
                | (_, false) => Ok (s, HandleProposedHeaderBadPrevCommitProofDoubleSigned)
                | (None, true) => Ok (s, HandleProposedHeaderBadPrevCommitProofSignature)
                | (Some bits, true) =>
                    let avail := sum_pows (vs_pows prev_vs) in
                    bind (byz_majority avail) (fun maj =>
                    if idx_power (vs_pows prev_vs) bits <? maj
                    then Ok (s, HandleProposedHeaderBadPrevCommitVoteCount)
                    else accept)
                end
              end
            else accept
        end) = Ok (s', res) ->
    cinv ih ivs s' /\ adv s s').
  { intros s p status proposer prev_hash prev_vs view_vs s' res H Hb Hc Hs. cbv zeta.
    assert (Hsame : forall r0, Ok (s, r0) = Ok (s', res) -> cinv ih ivs s' /\ adv s s').
    { intros r0 E; inversion E; subst. split; [exact H|apply adv_refl]. }
    destruct (hd_ok (ph_hdr p)) eqn:Hok; cbn [negb]; [|apply Hsame].
    destruct (vs_ok (hd_vals (ph_hdr p)) && vs_ok (hd_next (ph_hdr p))) eqn:Hvs; cbn [negb]; [|apply Hsame].
    apply andb_true_iff in Hvs as [_ Hnext].
    destruct (valset_equal (hd_vals (ph_hdr p)) view_vs) eqn:Hveq; cbn [negb]; [|apply Hsame].
    destruct proposer as [key|]; [|apply Hsame].
    destruct (negb (verify_prop _ _ _ _)); [apply Hsame|].
    destruct (negb (hd_height (ph_hdr p) =? k_init_h s) && negb (bytes_eqb (hd_prev (ph_hdr p)) prev_hash)) eqn:Hprev; [apply Hsame|].
    destruct (negb (bytes_eqb (vs_pkh prev_vs) _)); [apply Hsame|].
    assert (Hfacts : accept_facts s p).
    { unfold accept_facts. repeat split; try assumption.
      intros Hh Hne. destruct (ph_check_prev _ _ _ _ _ _ _ _ _ H Hc Hs Hh Hne) as (ch&Hch&Hph).
      exists ch. split; [exact Hch|].
      apply andb_false_iff in Hprev as [Hp|Hp].
      - apply negb_false_iff in Hp. apply N.eqb_eq in Hp. contradiction.
      - apply negb_false_iff in Hp. apply bytes_eqb_eq in Hp. congruence. }
    assert (Hacc : bind (add_ph s p) (fun s' => Ok (s', HandleProposedHeaderAccepted)) = Ok (s', res) ->
                   cinv ih ivs s' /\ adv s s').
    { unfold bind. destruct (add_ph s p) eqn:Ha; [|discriminate].
      intros E; inversion E; subst. eapply cinv_add_ph; eassumption. }
    destruct (k_init_h s <? _); [|exact Hacc].
    destruct (vs_keys prev_vs); [apply Hsame|].
    destruct (validate_finalized _ _ _ _ _) as [[bits|] [|]]; try apply Hsame.
    unfold bind at 1. destruct (byz_majority _); [|discriminate].
    destruct (_ <? _); [apply Hsame|exact Hacc]. }
  induction fuel as [|f IH]; intros backfilled s p s' res H Hb; cbn [handle_ph_loop];
    destruct (ph_check s p) as [status proposer prev_hash prev_vs view_vs] eqn:Hc.
  all: assert (Hsame : forall r0, Ok (s, r0) = Ok (s', res) -> cinv ih ivs s' /\ adv s s')
         by (intros r0 E; inversion E; subst; split; [exact H|apply adv_refl]).
  all: destruct (status =? PHCheckAlreadyHaveSignature) eqn:S1; [apply Hsame|].
  all: destruct (status =? PHCheckSignerUnrecognized) eqn:S2; [apply Hsame|].
  all: destruct (status =? PHCheckRoundTooOld) eqn:S3; [apply Hsame|].
  all: destruct (status =? PHCheckRoundTooFarInFuture) eqn:S4; [apply Hsame|].
  all: destruct (status =? PHCheckNextHeight) eqn:S5.
  - destruct backfilled; apply Hsame.
  - (* acceptable *)
    assert (Hst : status = PHCheckAcceptable).
    { clear -Hc S1 S2 S3 S4 S5. unfold ph_check, set_ph_check_status in Hc.
      repeat match goal with
             | X : context [if ?c then _ else _] |- _ => destruct c
             | X : context [match ?c with _ => _ end] |- _ => destruct c
             end; inversion Hc; subst; try reflexivity; try discriminate. }
    eapply Hbody; eassumption.
  - destruct backfilled; [apply Hsame|].
    unfold bind at 1. destruct (handle_votes KPrecommit s (vote_msg_of_pcp p)) as [[s1 r1]|] eqn:Hv; [|discriminate].
    cbn [fst]. intros E.
    destruct (cinv_handle_votes _ _ _ _ _ _ _ H Hv) as (H1&A1).
    destruct (IH true s1 p s' res H1 Hb E) as (H2&A2).
    split; [exact H2|eapply adv_trans; eassumption].
  - assert (Hst : status = PHCheckAcceptable).
    { clear -Hc S1 S2 S3 S4 S5. unfold ph_check, set_ph_check_status in Hc.
      repeat match goal with
             | X : context [if ?c then _ else _] |- _ => destruct c
             | X : context [match ?c with _ => _ end] |- _ => destruct c
             end; inversion Hc; subst; try reflexivity; try discriminate. }
    eapply Hbody; eassumption.
Qed.

(** ** Replayed headers *)
Definition frame_eq_but_phs (s s1 : kstate) : Prop :=
  st_hdrs s1 = st_hdrs s /\ v_h (k_vot s1) = v_h (k_vot s) /\ v_r (k_vot s1) = v_r (k_vot s) /\
  v_h (k_com s1) = v_h (k_com s) /\ v_r (k_com s1) = v_r (k_com s).
Lemma fbp_refl s : frame_eq_but_phs s s.
Proof. repeat split. Qed.

Lemma cinv_adv_jump_until ih ivs fuel : forall s r,
  cinv ih ivs s -> cinv ih ivs (jump_until fuel s r) /\ adv s (jump_until fuel s r).
Proof.
  induction fuel as [|f IH]; intros s r H; cbn [jump_until]; [split; [exact H|apply adv_refl]|].
  destruct (_ <? _); [|split; [exact H|apply adv_refl]].
  destruct (IH (jump_voting_round s) r (cinv_jump _ _ _ H)) as [H1 A1].
  split; [exact H1|eapply adv_trans; [eapply adv_jump; exact H|exact A1]].
Qed.

Lemma replay_checks_good ih ivs s hd r :
  cinv ih ivs s -> v_h (k_vot s) = hd_height hd -> hd_ok hd = true -> vs_ok (hd_next hd) = true ->
  hd_height hd + 1 < two64 ->
  negb (hd_height hd =? k_init_h s) && negb (bytes_eqb (hd_prev hd) (chdr_hash s)) = false ->
  ph_good s (fake_ph hd r).
Proof.
  intros H Hh Hok Hnext Hb Hprev.
  unfold ph_good, fake_ph. cbn. splits; try assumption; [congruence|].
  intros Hne. destruct H as (Hi1&_&_&_&_&_&_&_&_&_&Hch). unfold chain_ok in Hch. unfold chdr_hash in Hprev.
  destruct (k_chdr s) as [ch|].
  - exists ch. split; [reflexivity|].
    apply andb_false_iff in Hprev as [Hp|Hp].
    + apply negb_false_iff in Hp. apply N.eqb_eq in Hp. contradiction.
    + apply negb_false_iff in Hp. apply bytes_eqb_eq in Hp. exact Hp.
  - exfalso. destruct Hch as (_&_&_&Hv). apply Hne. rewrite <- Hh, Hv. symmetry. exact Hi1.
Qed.

Lemma cinv_replay_insert ih ivs s hd r s1 :
  cinv ih ivs s -> ph_good s (fake_ph hd r) -> replay_insert s hd r = Ok s1 ->
  cinv ih ivs s1 /\ frame_eq_but_phs s s1.
Proof.
  intros H Hgood. unfold replay_insert.
  destruct (existsb _ (v_phs _)); [intros E; inversion E; subst; split; [exact H|apply fbp_refl]|].
  destruct H as (Hi1&Hi2&Hi3&Hnh&Hnr&Hnhr&Hvv&Hvn&Hokv&Hphs&Hch).
  destruct (existsb _ (st_rounds s)); intros E; inversion E; subst.
  - split; [|unfold frame_eq_but_phs; cbn; repeat split].
    unfold cinv. cbn. splits; try assumption; try reflexivity.
    unfold phs_good in *. cbn. intros q [Hq|Hq].
    + apply in_app_or in Hq as [Hq|[Hq|[]]]; [exact (Hphs q (or_introl Hq))|subst q; exact Hgood].
    + exact (Hphs q (or_intror Hq)).
  - split; [|unfold frame_eq_but_phs; cbn; repeat split].
    unfold cinv. cbn. splits; try assumption; try reflexivity.
    unfold phs_good in *. cbn. intros q [Hq|Hq].
    + apply in_app_or in Hq as [Hq|[Hq|[]]]; [exact (Hphs q (or_introl Hq))|subst q; exact Hgood].
    + exact (Hphs q (or_intror Hq)).
Qed.

Lemma cinv_handle_replay ih ivs s0 hd cp s' res :
  cinv ih ivs s0 -> hd_height hd + 1 < two64 ->
  handle_replay s0 hd cp = Ok (s', res) -> cinv ih ivs s' /\ adv s0 s'.
Proof.
  intros H0 Hb. unfold handle_replay.
  destruct (negb (hd_height hd =? _)); [intros E; inversion E; subst; split; [exact H0|apply adv_refl]|].
  destruct (cp_round cp <? _); [discriminate|].
  destruct (cinv_adv_jump_until ih ivs (N.to_nat (cp_round cp - v_r (k_vot s0))) s0 (cp_round cp) H0) as [H A].
  set (s := jump_until _ s0 _) in *.
  destruct ((v_r (k_vot s) =? cp_round cp) && (v_h (k_vot s) =? hd_height hd)) eqn:Hpos; cbn [negb]; [|discriminate].
  apply andb_true_iff in Hpos as [Hr Hh]. apply N.eqb_eq in Hr, Hh.
  assert (Hsame : forall r0, Ok (s0, r0) = Ok (s', res) -> cinv ih ivs s' /\ adv s0 s')
    by (intros r0 E; inversion E; subst; split; [exact H0|apply adv_refl]).
  destruct (hd_ok hd) eqn:Hok; cbn [negb]; [|apply Hsame].
  destruct (negb (hd_height hd =? k_init_h s) && negb (bytes_eqb (hd_prev hd) (chdr_hash s))) eqn:Hprev; [apply Hsame|].
  destruct (valset_equal (hd_vals hd) (v_vals (k_vot s)) && vs_ok (hd_vals hd)); cbn [negb]; [|apply Hsame].
  destruct (vs_ok (hd_next hd)) eqn:Hnext; cbn [negb]; [|apply Hsame].
  destruct (fold_left _ (signed_entries (cp_proofs cp)) ([], true)) as [temp allv].
  destruct (negb allv); [apply Hsame|].
  destruct (pm_get temp (hd_hash hd)); [|apply Hsame].
  unfold bind at 1. destruct (byz_majority _); [|discriminate].
  destruct (_ <? _); [apply Hsame|].
  fold (replay_insert s hd (cp_round cp)).
  unfold bind at 1. destruct (replay_insert s hd (cp_round cp)) as [s1|] eqn:Hins; [|discriminate].
  pose proof (replay_checks_good _ _ _ _ (cp_round cp) H Hh Hok Hnext Hb Hprev) as Hgood.
  destruct (cinv_replay_insert _ _ _ _ _ _ H Hgood Hins) as [H1 F1].
  assert (A1 : adv s0 s1).
  { eapply adv_trans; [exact A|]. destruct F1 as (F1a&F1b&F1c&F1d&F1e).
    unfold adv. rewrite F1a, F1b, F1c, F1d, F1e. repeat split; try lia; auto. apply rs_refl. }
  unfold bind. destruct (check_voting_precommit_shift _) as [s3|] eqn:Hc; [|discriminate].
  intros E; inversion E; subst.
  match type of Hc with check_voting_precommit_shift ?X = _ => set (s2 := X) in * end.
  assert (F2 : frame_eq s1 s2) by (unfold s2, frame_eq, pos_eq; cbn; repeat split).
  destruct (cinv_check_voting _ _ _ _ (cinv_frame _ _ _ _ F2 H1) Hc) as [H3 A3].
  split; [exact H3|]. eapply adv_trans; [exact A1|]. eapply adv_trans; [apply adv_frame; exact F2|exact A3].
Qed.

(** ** Every reachable state (with bounded header heights in the inputs) *)
Definition op_bounded (o : op) : Prop :=
  match o with
  | OpPH p => ph_bounded p
  | OpReplay x _ => hd_height x + 1 < two64
  | _ => True
  end.

Lemma cinv_step ih ivs s o s' res :
  cinv ih ivs s -> op_bounded o -> step s o = Ok (s', res) -> cinv ih ivs s' /\ adv s s'.
Proof.
  intros H Hb. destruct o as [p|m|m|x cp]; cbn [step]; [| | |apply cinv_handle_replay; assumption].
  - unfold handle_ph. destruct (ph_key p).
    + apply cinv_handle_ph_loop; assumption.
    + intros E; inversion E; subst. split; [exact H|apply adv_refl].
  - apply cinv_handle_votes; exact H.
  - apply cinv_handle_votes; exact H.
Qed.

Lemma cinv_init ih ivs : 1 <= ih -> vs_ok ivs = true -> cinv ih ivs (init_state ih ivs).
Proof.
  intros Hi Hok. unfold cinv, init_state, expected_vals. cbn.
  assert (Hp : phs_good (init_state ih ivs)) by (unfold phs_good; cbn; intros p [[]|[]]).
  assert (Hc : chain_ok ih (init_state ih ivs)) by (unfold chain_ok; cbn; repeat split).
  splits; try reflexivity; try assumption.
Qed.

Inductive reachable_b (ih : N) (ivs : valset) : kstate -> Prop :=
| rb_init : reachable_b ih ivs (init_state ih ivs)
| rb_step s o s' res : reachable_b ih ivs s -> op_bounded o -> step s o = Ok (s', res) -> reachable_b ih ivs s'.

Theorem reachable_cinv ih ivs s : 1 <= ih -> vs_ok ivs = true -> reachable_b ih ivs s -> cinv ih ivs s.
Proof.
  intros Hi Hok. induction 1 as [|s o s' res Hr IH Hb Hs]; [apply cinv_init; assumption|].
  exact (proj1 (cinv_step _ _ _ _ _ _ IH Hb Hs)).
Qed.

(** [find_view] returns a view of exactly the requested height and round. *)
Lemma find_view_matches ih ivs s h r : cinv ih ivs s -> view_matches s h r.
Proof.
  intros (Hi1&Hi2&Hi3&Hnh&Hnr&_) vid st Hfv Hst.
  destruct (find_view_found _ _ _ _ _ Hfv Hst) as [(A&B&C)|[(A&B&C)|(A&B&C&D)]]; cbn in *; subst;
    unfold get_view; cbn; split; congruence.
Qed.

(** *** C04 *)
Theorem committed_hash_immutable ih ivs s o s' res :
  cinv ih ivs s -> op_bounded o -> step s o = Ok (s', res) ->
  forall h x, In (h, x) (st_hdrs s) -> In (h, x) (st_hdrs s').
Proof. intros H Hb Hs. exact (proj1 (proj2 (cinv_step _ _ _ _ _ _ H Hb Hs))). Qed.

Theorem one_header_per_height ih top l : hchain ih top l ->
  forall h x y, In (h, x) l -> In (h, y) l -> x = y.
Proof.
  induction 1 as [x0 cp Hx|h0 x0 cp px pcp l Hc IH Hh Hp Hb]; intros h x y Hx1 Hy1.
  - destruct Hx1 as [E1|[]], Hy1 as [E2|[]]. congruence.
  - destruct (hchain_bounds _ _ _ Hc) as [_ Hbd].
    destruct Hx1 as [E1|Hx1], Hy1 as [E2|Hy1].
    + congruence.
    + inversion E1; subst. destruct (Hbd _ _ Hy1). lia.
    + inversion E2; subst. destruct (Hbd _ _ Hx1). lia.
    + eapply IH; eassumption.
Qed.

Theorem heights_contiguous_and_linked ih ivs s : cinv ih ivs s ->
  match k_chdr s with
  | None => st_hdrs s = []
  | Some ch => hchain ih (hd_height ch) (st_hdrs s)
  end.
Proof.
  intros (_&_&_&_&_&_&_&_&_&_&Hch). unfold chain_ok in Hch.
  destruct (k_chdr s); [apply Hch|apply Hch].
Qed.

Theorem voting_is_committing_plus_one ih ivs s ch : cinv ih ivs s -> k_chdr s = Some ch ->
  v_h (k_com s) = hd_height ch /\ v_h (k_vot s) = v_h (k_com s) + 1 /\
  st_nhr s = (v_h (k_vot s), v_r (k_vot s), v_h (k_com s), v_r (k_com s)).
Proof.
  intros (_&_&_&_&_&Hnhr&_&_&_&_&Hch) E. unfold chain_ok in Hch. rewrite E in Hch.
  destruct Hch as (A&B&_). repeat split; try assumption; lia.
Qed.

Theorem position_never_decreases ih ivs s o s' res :
  cinv ih ivs s -> op_bounded o -> step s o = Ok (s', res) ->
  v_h (k_vot s) <= v_h (k_vot s') /\ v_h (k_com s) <= v_h (k_com s') /\
  (v_h (k_vot s') = v_h (k_vot s) ->
     v_h (k_com s') = v_h (k_com s) /\ v_r (k_com s') = v_r (k_com s) /\
     rsteps (v_r (k_vot s)) (v_r (k_vot s'))).
Proof. intros H Hb Hs. exact (proj2 (proj2 (cinv_step _ _ _ _ _ _ H Hb Hs))). Qed.

(** *** C07 *)
Theorem voting_valset_is_committed_next ih ivs s : cinv ih ivs s ->
  v_vals (k_vot s) = match k_chdr s with None => ivs | Some ch => hd_next ch end /\
  v_vals (k_nxt s) = v_vals (k_vot s) /\
  vs_ok (v_vals (k_vot s)) = true.
Proof.
  intros (Hi1&Hi2&_&_&_&_&Hvv&Hvn&Hok&_). unfold expected_vals in *. rewrite Hi2 in *.
  repeat split; congruence.
Qed.
