(** C08 over ALL states and events of the round state machine model: when the strategy is asked to
    CONSIDER proposed blocks (ConsiderProposedBlocks, [OConsider phs new upd maj]).
    Unlike the final choice ([OChoose]) this request is repeated within a round by design; the three
    sites are told apart by the request itself:
      maj = true            entering the prevote delay (majority prevoted, no block quorum): once per round;
      upd <> []             block data arrived while the prevote channel is still open;
      maj = false, upd = [] the round begins with acceptable proposed headers, or - still awaiting the
                            proposal - a view carries MORE acceptable proposed headers than the machine's. *)
From Coq Require Import List NArith String Bool Lia.
From GV Require Import Base.Ints Gen.Math Gen.StepSM Model.StateMachine Model.SMWire Model.SMWalk Proofs.SMStep Proofs.SMOutputs
  Proofs.SMInv Proofs.SMInvH Proofs.SMInvStep Proofs.SMRel Proofs.SMTheorems Proofs.SMInvActs Proofs.SMWitness
  Proofs.SMOnce Proofs.SMOnceRel Proofs.SMOnceStep Proofs.SMOnceHist Proofs.SMOnceSign Proofs.SMOncePH.
Import ListNotations.
Local Open Scope N_scope.

Definition is_consider (o : out) : bool := match o with OConsider _ _ _ _ => true | _ => false end.
Definition is_consider_maj (o : out) : bool := match o with OConsider _ _ _ true => true | _ => false end.

Lemma in_consider_reqs o x : In x o -> is_consider x = true -> In K_consider (reqs o).
Proof.
  induction o as [|y o IH]; [intros []|]. intros [->|H] E.
  - destruct x; try discriminate E. left. reflexivity.
  - unfold reqs in *. simpl. apply in_or_app. right. apply IH; assumption.
Qed.

Lemma no_cons m s x : noreq K_consider m -> In x (ou (m s)) -> is_consider x = true -> False.
Proof. intros N H E. exact (N s (in_consider_reqs _ _ H E)). Qed.

Lemma in_bind (a b : M) s x : In x (ou ((a ;; b) s)) ->
  In x (ou (a s)) \/ (fl (a s) = Go /\ In x (ou (b (st (a s))))).
Proof.
  unfold bindM, ou, fl, st. destruct (a s) as [[s1 o1] f1]. simpl.
  destruct f1; simpl; auto. destruct (b s1) as [[s2 o2] f2]. simpl. intros H. apply in_app_or in H. tauto.
Qed.

Lemma bind_go (a b : M) s : fl ((a ;; b) s) = Go ->
  fl (a s) = Go /\ fl (b (st (a s))) = Go /\ st ((a ;; b) s) = st (b (st (a s))).
Proof.
  unfold bindM, fl, st. destruct (a s) as [[s1 o1] f1]. simpl.
  destruct f1; simpl; try discriminate. destruct (b s1) as [[s2 o2] f2]. simpl. auto.
Qed.

Lemma suspend_in m v ja s x : In x (ou (suspend_with_tail m v ja s)) ->
  In x (ou (m s)) \/ (fl (m s) = Go /\ In x (ou (view_tail v ja (st (m s))))).
Proof.
  unfold suspend_with_tail, ou, fl, st. destruct (m s) as [[s1 o1] f1]. simpl.
  destruct f1; simpl; auto. destruct (view_tail v ja s1) as [[s2 o2] f2]. simpl. intros H. apply in_app_or in H. tauto.
Qed.

Lemma suspend_go m v ja s : fl (suspend_with_tail m v ja s) = Go ->
  fl (m s) = Go /\ fl (view_tail v ja (st (m s))) = Go /\ st (suspend_with_tail m v ja s) = st (view_tail v ja (st (m s))).
Proof.
  unfold suspend_with_tail, fl, st. destruct (m s) as [[s1 o1] f1]. simpl.
  destruct f1; simpl; try discriminate. destruct (view_tail v ja s1) as [[s2 o2] f2]. simpl. auto.
Qed.

(** one consider request, by evaluation *)
Lemma req_consider_out phs mk ui mj s x : In x (ou (req_consider phs mk ui mj s)) ->
  cm s = None /\ exists nw, x = OConsider (map ph_hash phs) nw ui mj /\ (mk = false -> nw = []).
Proof.
  unfold req_consider, withS. destruct (if mk then _ else _) as [nw cn] eqn:E.
  unfold bindM, updr, cm_request, withS. simpl.
  destruct (cm s); simpl; [intros []|]. unfold ou. simpl. intros [<-|[]].
  split; [reflexivity|]. exists nw. split; [reflexivity|]. intros ->. inversion E. reflexivity.
Qed.

(** more consider-free handlers *)
Lemma nr_handle_timer_elapsed_consider : noreq K_consider handle_timer_elapsed.
Proof. unfold handle_timer_elapsed. unf_h. nr. Qed.
Lemma nr_handle_prevote_view_consider v : noreq K_consider (handle_prevote_view v).
Proof. unf_h. nr. Qed.
Lemma nr_commit_or_advance k v : noreq k (match pcm v with [] => advance_round | _ => begin_commit v end).
Proof. unf_h. nr. Qed.
Lemma nr_precommit_delay_consider vs : noreq K_consider (updr (set_rS StepPrecommitDelay) ;; start_timer 3 ;; req_decide vs).
Proof. unf_h. nr. Qed.
Lemma nr_cancel k must : noreq k (cancel_timer must).
Proof. unf_h. nr. Qed.

(** handleProposalViewUpdate: the two consider sites *)
Lemma cons_proposal_view v s x : In x (ou (handle_proposal_view v s)) -> is_consider x = true ->
  cm s = None /\
  ((exists phs nw, x = OConsider phs nw [] true /\
      (fl (handle_proposal_view v s) = Go -> StepPrevoteDelay <= rS (rl (st (handle_proposal_view v s))))) \/
   (exists old nw, rVRV (rl s) = Some old /\
      x = OConsider (map ph_hash (reject_mismatched (rl s) (v_phs v))) nw [] false /\
      (List.length (reject_mismatched (rl s) (v_phs old)) < List.length (reject_mismatched (rl s) (v_phs v)))%nat)).
Proof.
  unfold handle_proposal_view, thresholds.
  destruct (byz_minority (avail v)) as [mn|]; [|intros []].
  destruct (byz_majority (avail v)) as [mj|]; [|intros []].
  destruct (mj <=? tpc v).
  { intros H E. exfalso. apply in_bind in H. destruct H as [H|[_ H]]; [exact (no_cons _ _ _ (nr_cancel _ true) H E)|].
    destruct (mj <=? pc_pow v); [exact (no_cons _ _ _ (nr_commit_or_advance _ v) H E)|exact (no_cons _ _ _ (nr_precommit_delay_consider _) H E)]. }
  destruct (mn <=? tpc v).
  { intros H E. exfalso. revert H E. apply no_cons. unf_h. nr. }
  destruct (mj <=? tpv v).
  { intros H E.
    match type of H with In _ (ou (?m s)) => set (m0 := m) in * end.
    assert (T : tg (fun _ => True) m0 (fun s1 => StepPrevoteDelay <= rS (rl s1))).
    { unfold m0. apply (tg_bind (fun _ => True)); [intros s1 _ _; exact I|].
      apply tg_withS. intros s0 _. cbv zeta. destruct (mj <=? pv_pow v).
      - apply (tg_bind (Ge StepPrevoteDelay)); [apply tg_updr; intros s1 _; unfold Ge; fields; steps; lia|].
        apply (tg_bind (Ge StepPrevoteDelay)); [kfA|apply tg_updr; lfA].
      - apply (tg_bind (Ge StepPrevoteDelay)); [apply tg_updr; intros s1 _; unfold Ge; fields; steps; lia|].
        apply (tg_bind (Ge StepPrevoteDelay)); [kfA|]. apply tg_when; [intros _; kfA|auto]. }
    unfold m0 in H. apply in_bind in H. destruct H as [H|[_ H]]; [destruct (no_cons _ _ _ (nr_cancel _ true) H E)|].
    unfold withS in H. cbv zeta in H.
    destruct (mj <=? pv_pow v).
    - exfalso. revert H E. apply no_cons. unf_h. nr.
    - apply in_bind in H. destruct H as [H|[_ H]]; [destruct (no_cons _ _ _ (nr_updr _ _) H E)|].
      apply in_bind in H. destruct H as [H|[_ H]]; [exfalso; revert H E; apply no_cons; unf_h; nr|].
      destruct (negb _); simpl in H; [|destruct H].
      destruct (req_consider_out _ _ _ _ _ _ H) as (C & nw & -> & _).
      split; [|left; eexists; exists nw; split; [reflexivity|exact (T s I)]].
      revert C. unfold cancel_timer, withS, start_timer, withS, bindM, say, upd, updr, stop, ret, st.
      destruct (rTimer (rl s)) as [[[k h] r]|]; simpl; [auto|]. simpl. auto. }
  unfold withS. destruct (rVRV (rl s)) as [old|] eqn:EV; [|intros []].
  destruct (N.of_nat _ <? N.of_nat _); [|intros []]. cbv zeta.
  destruct (N.of_nat (List.length (reject_mismatched (rl s) (v_phs v))) <=? N.of_nat (List.length (reject_mismatched (rl s) (v_phs old)))) eqn:LE; [intros []|].
  intros H _. destruct (req_consider_out _ _ _ _ _ _ H) as (C & nw & -> & _).
  split; [exact C|]. right. exists old, nw. split; [reflexivity|]. split; [reflexivity|].
  apply N.leb_gt in LE. lia.
Qed.

(** handleBlockDataArrival *)
Lemma cons_block_data h r d s x : In x (ou (handle_block_data h r d s)) -> is_consider x = true ->
  cm s = None /\ rPvCh (rl s) = true /\ exists phs upd, x = OConsider phs [] upd false /\ upd <> [].
Proof.
  unfold handle_block_data, withS, vrv_or_panic, withS.
  destruct (rPvCh (rl s)); simpl; [|intros []].
  destruct (negb _); [intros []|].
  destruct (rVRV (rl s)) as [v|]; [|intros []]. cbv zeta.
  destruct (reject_mismatched (rl s) (v_phs v)) as [|p ok]; [intros []|].
  destruct (map ph_data _) as [|u upd] eqn:EU; [intros []|].
  intros H _. destruct (req_consider_out _ _ _ _ _ _ H) as (C & nw & -> & N0).
  split; [exact C|]. split; [reflexivity|]. eexists; exists (u :: upd). rewrite (N0 eq_refl). split; [reflexivity|discriminate].
Qed.

(** handlers run on a round entrance response: consider only with maj = false, upd = [] *)
Definition Qc (x : out) : Prop := match x with OConsider _ _ upd maj => upd = [] /\ maj = false | _ => True end.
Definition allc (m : M) : Prop := forall s, Forall Qc (ou (m s)).
Lemma allc_ret : allc ret. Proof. intros s. constructor. Qed.
Lemma allc_stop f : allc (stop f). Proof. intros s. constructor. Qed.
Lemma allc_say o : Qc o -> allc (say o).
Proof. intros H s. repeat constructor. exact H. Qed.
Lemma allc_upd f : allc (upd f). Proof. intros s. constructor. Qed.
Lemma allc_updr f : allc (updr f). Proof. intros s. constructor. Qed.
Lemma allc_bind a b : allc a -> allc b -> allc (a ;; b).
Proof.
  intros Ha Hb s. unfold allc, bindM, ou in *. specialize (Ha s). destruct (a s) as [[s1 o1] f1]. simpl in *.
  destruct f1; simpl; try exact Ha.
  specialize (Hb s1). destruct (b s1) as [[s2 o2] f2]. simpl in *. apply Forall_app. split; assumption.
Qed.
Lemma allc_withS (k : sm -> M) : (forall s0, allc (k s0)) -> allc (withS k).
Proof. intros H s. unfold withS. apply H. Qed.
Lemma allc_when b m : allc m -> allc (when b m).
Proof. intros H. destruct b; simpl; [exact H|apply allc_ret]. Qed.
Lemma allc_cm_request k ro o : Qc o -> allc (cm_request k ro o).
Proof.
  intros H. unfold cm_request. apply allc_withS. intros s0. destruct (cm s0); [apply allc_stop|].
  apply allc_bind; [apply allc_upd|apply allc_say; exact H].
Qed.
Ltac allc_step :=
  lazymatch goal with
  | |- allc ret => apply allc_ret
  | |- allc (stop _) => apply allc_stop
  | |- allc (say _) => apply allc_say; exact I
  | |- allc (upd _) => apply allc_upd
  | |- allc (updr _) => apply allc_updr
  | |- allc (bindM _ _) => apply allc_bind
  | |- allc (when _ _) => apply allc_when
  | |- allc (withS _) => apply allc_withS; let s0 := fresh "s0" in intros s0
  | |- allc (cm_request _ _ (OConsider _ _ _ _)) => apply allc_cm_request; split; reflexivity
  | |- allc (cm_request _ _ _) => apply allc_cm_request; exact I
  | |- allc (if ?c then _ else _) => destruct c
  | |- allc (match ?x with _ => _ end) => destruct x
  | |- allc (let '(_, _) := ?x in _) => destruct x
  end.
Ltac allcs := repeat (allc_step; cbv beta zeta).

Lemma allc_init_after_vrv v : allc (init_after_vrv v).
Proof. unfold init_after_vrv, emit. unf_p. allcs. Qed.
Lemma allc_advance_after_vrv v : allc (advance_after_vrv v).
Proof. unf_p. allcs. Qed.
Lemma allc_view_tail v ja : allc (view_tail v ja).
Proof. unf_p. allcs. Qed.
Lemma allc_resume m tail s : allc m -> Forall Qc (ou (resume_adv m tail s)).
Proof.
  intros Hm. pose proof (Hm (set_run Idle s)) as Ha. unfold resume_adv, ou in *.
  destruct (m (set_run Idle s)) as [[s1 o1] f1]. simpl in *.
  destruct f1; simpl; try exact Ha.
  destruct tail as [[v ja]|]; [|exact Ha].
  pose proof (allc_view_tail v ja s1) as Hb. unfold ou in Hb.
  destruct (view_tail v ja s1) as [[s2 o2] f2]. simpl in *. apply Forall_app. split; assumption.
Qed.

Lemma in_finish_cons r x : In x (snd (finish r)) -> is_consider x = true -> In x (ou r).
Proof. intros H E. apply finish_in in H. destruct H as [H|[H|[[n H]|H]]]; [exact H|subst x; discriminate E..]. Qed.

Lemma Qc_cons x : Qc x -> is_consider x = true -> exists phs nw, x = OConsider phs nw [] false.
Proof. destruct x; try discriminate. simpl. intros [-> ->] _. eauto. Qed.

(** ** every state, every event *)
Definition CS (s : sm) (e : event) (s' : sm) (x : out) : Prop :=
  cm s = None /\
  ((awaiting s /\ (exists v, e = EvRERespVRV v) /\ exists phs nw, x = OConsider phs nw [] false) \/
   (run s = Idle /\ rS (rl s) = StepAwaitingProposal /\ exists v ja, e = EvView v ja /\
      ((exists phs nw, x = OConsider phs nw [] true /\ (run s' = Idle -> StepPrevoteDelay <= rS (rl s'))) \/
       (exists old nw, rVRV (rl s) = Some old /\
          x = OConsider (map ph_hash (reject_mismatched (rl s) (v_phs v))) nw [] false /\
          (List.length (reject_mismatched (rl s) (v_phs old)) < List.length (reject_mismatched (rl s) (v_phs v)))%nat))) \/
   (run s = Idle /\ rPvCh (rl s) = true /\ (exists h r d, e = EvBlockData h r d) /\
      exists phs upd, x = OConsider phs [] upd false /\ upd <> [])).

Theorem consider_step s e x : In x (snd (step s e)) -> is_consider x = true ->
  CS s e (fst (step s e)) x.
Proof.
  intros Hx E.
  assert (C : cm s = None).
  { destruct (one_request_per_event s e) as [Q|(Q & _)]; [|exact Q].
    pose proof (in_consider_reqs _ _ Hx E) as X. rewrite Q in X. destruct X. }
  split; [exact C|]. revert Hx. unfold step.
  destruct (deliverable s e) eqn:D; [|simpl; intros [<-|[]]; discriminate E].
  destruct e; unfold dispatch.
  - (* start *)
    intros Hx. exfalso. apply wrap_in in Hx.
    destruct (start_up_rel (set_pend 0 s)) as (_ & B & F). unfold st, fl, ou in *.
    destruct (start_up (set_pend 0 s)) as [[s1 o] f]. simpl in *.
    assert (N : forall y, In y o -> is_consider y = false).
    { intros y Y. pose proof (proj1 (Forall_forall _ _) B _ Y) as Z. destruct y; try discriminate Z; reflexivity. }
    destruct F as [-> | ->]; simpl in Hx.
    + rewrite (N _ Hx) in E. discriminate E.
    + apply in_app_or in Hx. destruct Hx as [Hx|[<-|[]]]; [rewrite (N _ Hx) in E|]; discriminate E.
  - simpl. intros [].
  - (* round entrance response *)
    change (run (set_pend 0 s)) with (run s).
    destruct (run s) eqn:Rn; try (simpl; intros []).
    + destruct (is_ch_view v); intros Hx; apply wrap_in in Hx; apply (fun H => in_finish_cons _ _ H E) in Hx.
      * exfalso. exact (no_cons _ _ _ (nr_init_after_ch _ [] 0 0) Hx E).
      * left. split; [unfold awaiting; rewrite Rn; exact I|]. split; [eexists; reflexivity|].
        exact (Qc_cons _ (proj1 (Forall_forall _ _) (allc_init_after_vrv v _) _ Hx) E).
    + destruct (is_ch_view v); intros Hx; apply wrap_in in Hx; apply (fun H => in_finish_cons _ _ H E) in Hx.
      * exfalso. pose proof (R_resume (advance_after_ch [] 0 0) tail (set_pend 0 s) (hm_advance_after_ch [] 0 0)) as (_ & CR & _).
        pose proof (in_consider_reqs _ _ Hx E) as X.
        assert (Z : forall k, ~ In k (reqs (ou (resume_adv (advance_after_ch [] 0 0) tail (set_pend 0 s))))).
        { intros k. unfold resume_adv, ou.
          pose proof (nr_advance_after_ch k [] 0 0 (set_run Idle (set_pend 0 s))) as N1. unfold ou in N1.
          destruct (advance_after_ch [] 0 0 (set_run Idle (set_pend 0 s))) as [[s1 o1] f1]. simpl in *.
          destruct f1; simpl; try exact N1. destruct tail as [[v0 ja]|]; [|exact N1].
          pose proof (nr_view_tail k v0 ja s1) as N2. unfold ou in N2.
          destruct (view_tail v0 ja s1) as [[s2 o2] f2]. simpl in *. rewrite reqs_app. intros Y. apply in_app_or in Y. tauto. }
        exact (Z _ X).
      * left. split; [unfold awaiting; rewrite Rn; exact I|]. split; [eexists; reflexivity|].
        exact (Qc_cons _ (proj1 (Forall_forall _ _) (allc_resume _ tail _ (allc_advance_after_vrv v)) _ Hx) E).
  - (* committed header response *)
    change (run (set_pend 0 s)) with (run s).
    destruct (run s) eqn:Rn; try (simpl; intros []); intros Hx; exfalso; apply wrap_in in Hx; apply (fun H => in_finish_cons _ _ H E) in Hx.
    + exact (no_cons _ _ _ (nr_init_after_ch _ bh h pr) Hx E).
    + pose proof (in_consider_reqs _ _ Hx E) as X. revert X. unfold resume_adv, ou.
      pose proof (nr_advance_after_ch K_consider bh h pr (set_run Idle (set_pend 0 s))) as N1. unfold ou in N1.
      destruct (advance_after_ch bh h pr (set_run Idle (set_pend 0 s))) as [[s1 o1] f1]. simpl in *.
      destruct f1; simpl; try exact N1. destruct tail as [[v0 ja]|]; [|exact N1].
      pose proof (nr_view_tail K_consider v0 ja s1) as N2. unfold ou in N2.
      destruct (view_tail v0 ja s1) as [[s2 o2] f2]. simpl in *. rewrite reqs_app. intros Y. apply in_app_or in Y. tauto.
  - (* view update *)
    assert (Rn : run s = Idle) by (apply idle_live_run; exact D).
    intros Hx. apply wrap_in in Hx.
    set (s0 := set_pend 0 s) in *.
    assert (Hx' : In x (ou (handle_view_update v ja s0))) by (exact (in_finish_cons _ _ Hx E)).
    right; left. split; [exact Rn|].
    unfold handle_view_update, withS in Hx'.
    destruct (v_h v =? 0) eqn:VH.
    { exfalso. destruct ja as [j|]; [exact (no_cons _ _ _ (nr_handle_jump_ahead _ j) Hx' E)|destruct Hx']. }
    destruct (negb _) eqn:NB; [destruct Hx'|].
    destruct (rVRV (rl s0)) as [cu|] eqn:EV; [|destruct Hx'].
    destruct (v_ver v <=? v_ver cu) eqn:VV; [destruct Hx'|]. cbv zeta in Hx'.
    apply suspend_in in Hx'. destruct Hx' as [Hx'|[_ Hx']]; [|exfalso; exact (no_cons _ _ _ (nr_view_tail _ v ja) Hx' E)].
    destruct (rS (rl s0) =? StepAwaitingProposal) eqn:E1.
    2:{ exfalso. destruct (_ || _); [exact (no_cons _ _ _ (nr_handle_prevote_view_consider v) Hx' E)|].
        destruct (_ || _); [exact (no_cons _ _ _ (nr_handle_precommit_view _ v) Hx' E)|].
        destruct (_ || _); [exact (no_cons _ _ _ (nr_handle_commit_wait_view _ v) Hx' E)|destruct Hx']. }
    apply N.eqb_eq in E1. split; [exact E1|]. exists v, ja. split; [reflexivity|].
    destruct (cons_proposal_view v s0 x Hx' E) as (_ & [(phs & nw & -> & G)|(old & nw & A1 & A2 & A3)]).
    + left. exists phs, nw. split; [reflexivity|].
      destruct (finish (handle_view_update v ja s0)) as [sf of] eqn:EF. simpl. intros RI.
      assert (RI' : run (fst (finish (handle_view_update v ja s0))) = Idle) by (rewrite EF; exact RI).
      change sf with (fst (sf, of)). rewrite <- EF.
      destruct (finish_idle _ RI') as (FG & RL & _). rewrite RL.
      unfold handle_view_update, withS in FG |- *. fold s0 in FG |- *.
      rewrite VH, NB, EV, VV in FG |- *. cbv zeta in FG |- *. rewrite (proj2 (N.eqb_eq _ _) E1) in FG |- *.
      destruct (suspend_go _ _ _ _ FG) as (G1 & G2 & ->).
      exact (A_view_tail v ja StepPrevoteDelay _ (G G1) G2).
    + right. exists old, nw. auto.
  - (* timer *)
    intros Hx. exfalso. apply wrap_in in Hx.
    destruct (rTimer (rl (set_hTimer None (set_pend 0 s)))); [|destruct Hx].
    exact (no_cons _ _ _ nr_handle_timer_elapsed_consider (in_finish_cons _ _ Hx E) E).
  - (* answer *)
    intros Hx. exfalso. apply wrap_in in Hx.
    pose proof (in_consider_reqs _ _ Hx E) as X. revert X.
    destruct (dispatch_EF (set_pend 0 s) (EvAnswer kind t)) as [_ [Q|(Q & _)]].
    + unfold dispatch in Q. rewrite Q. intros [].
    + simpl in Q. unfold deliverable in D. rewrite Q in D. rewrite andb_false_r in D. discriminate D.
  - (* proposal *)
    intros Hx. exfalso. apply wrap_in in Hx.
    destruct (propOut (set_pend 0 s) =? 1); [|destruct Hx].
    pose proof (in_finish_cons _ _ Hx E) as Hx'. destruct (ph_facts_go d (set_pend 0 s)) as [Q _]. cbv zeta in Q.
    pose proof (in_consider_reqs _ _ Hx' E) as X. rewrite Q in X. destruct X.
  - (* finalization response *)
    intros Hx. exfalso. apply wrap_in in Hx.
    destruct (finReq (set_pend 0 s)) as [[[[g ?] ?] ?]|]; [|destruct Hx].
    match type of Hx with context [if ?b then _ else _] => destruct b end; [|destruct Hx].
    match type of Hx with context [match ?y with Some _ => _ | None => _ end] => destruct y end.
    + exact (no_cons _ _ _ (nr_handle_finalization _ h r bh vs ash) (in_finish_cons _ _ Hx E) E).
    + exact (no_cons _ _ _ (nr_fin7 _ h r bh vs ash) (in_finish_cons _ _ Hx E) E).
  - (* height committed *)
    intros Hx. exfalso. apply wrap_in in Hx.
    match type of Hx with context [if ?b then _ else _] => destruct b end; [|destruct Hx].
    exact (no_cons _ _ _ (nr_handle_height_committed _) (in_finish_cons _ _ Hx E) E).
  - (* block data *)
    assert (Rn : run s = Idle) by (apply andb_true_iff in D; destruct D as [D _]; apply idle_live_run; exact D).
    intros Hx. apply wrap_in in Hx. pose proof (in_finish_cons _ _ Hx E) as Hx'.
    destruct (cons_block_data h r d _ x Hx' E) as (_ & P & Z).
    right; right. split; [exact Rn|]. split; [exact P|]. split; [eexists _, _, _; reflexivity|exact Z].
  - simpl. intros [].
Qed.

(** entering the prevote delay asks to consider at most once per round *)
Lemma filter_maj_reqs o : (List.length (filter is_consider_maj o) <= List.length (filter (N.eqb K_consider) (reqs o)))%nat.
Proof.
  unfold reqs. induction o as [|x o IH]; [simpl; lia|].
  destruct x; simpl; try exact IH; unfold K_consider, K_choose, K_decide in *; simpl in *; try lia.
  destruct maj; simpl; lia.
Qed.

Theorem consider_maj_once sg es : Once is_consider_maj (List.concat (run_events (sm0 sg) es)).
Proof.
  apply (once_hist is_consider_maj (fun s => StepPrevoteDelay <= rS (rl s))).
  - intros o H. destruct o; try discriminate H; reflexivity.
  - reflexivity.
  - intros s e. pose proof (filter_maj_reqs (snd (step s e))). pose proof (count_reqs_le1 s e K_consider). lia.
  - intros s e x L7 H1 H2.
    assert (E : is_consider x = true) by (destruct x; try discriminate H2; reflexivity).
    destruct (consider_step s e x H1 E) as (_ & [(_ & _ & phs & nw & ->)|[(Rn & S1 & v & ja & _ & [(phs & nw & -> & G)|(old & nw & _ & -> & _)])|(_ & _ & _ & phs & upd & -> & _)]]);
      try discriminate H2.
    split; [left; exact Rn|]. split; [intros _; rewrite S1; steps; lia|exact G].
  - intros s e. apply good_keeps.
Qed.

(** non-vacuity: the three kinds of consider requests in one round *)
Definition ex_cons_hist : list event :=
  [ EvStart; EvRERespVRV (mkv 1 0 1 (vs_of 0 0 [] []) [gph 7]); EvAnswer 1 [];
    EvView (mkv 1 0 2 (vs_of 0 0 [] []) [gph 7; gph 8]) None; EvAnswer 1 [];
    EvBlockData 1 0 [107]; EvAnswer 1 [];
    EvView (mkv 1 0 3 (vs_of 30 0 [([7], 20); ([], 10)] []) [gph 7; gph 8]) None ].
Example ex_considers :
  filter is_consider (List.concat (run_events (sm0 true) ex_cons_hist)) =
    [ OConsider [[7]] [[7]] [] false; OConsider [[7]; [8]] [[8]] [] false;
      OConsider [[7]; [8]] [] [[107]] false; OConsider [[7]; [8]] [] [] true ].
Proof. vm_compute. reflexivity. Qed.
