(** An inductive invariant of the round state machine model over ALL event histories, and the
    Hoare-style logic it is proved with.

    [tr P m G]: started in a state satisfying [P], the computation [m] emits only outputs
    satisfying [Po]; if it falls through ([Go]) the state satisfies [G]; if it ends suspended in a
    round entrance ([Susp]) the state satisfies [SQ]; nothing is claimed about a halted / panicked /
    blocked machine (no handler ever runs again in that process lifetime).
    One lemma per handler of the model, each closed by [Qed]; no proof term contains an unfolded [step]. *)
From Coq Require Import List NArith String Bool Lia.
From GV Require Import Base.Ints Gen.Math Gen.StepSM Model.StateMachine.
Import ListNotations.
Local Open Scope N_scope.

Definition st (r : sm * list out * flow) : sm := fst (fst r).
Definition ou (r : sm * list out * flow) : list out := snd (fst r).
Definition fl (r : sm * list out * flow) : flow := snd r.

(** ** The assertions *)

(** the step a timer of kind k belongs to *)
Definition tstep (k : N) : N :=
  if k =? 1 then StepAwaitingProposal else if k =? 2 then StepPrevoteDelay
  else if k =? 3 then StepPrecommitDelay else StepCommitWait.

(** the timer the machine believes to be running is for the current round and for the step it is in *)
Definition tm_ok (s : sm) : Prop :=
  forall k h r, rTimer (rl s) = Some (k, h, r) ->
    h = rH (rl s) /\ r = rR (rl s) /\ 1 <= k <= 4 /\ rS (rl s) = tstep k.
Definition V (s : sm) : Prop := rVRV (rl s) <> None.
Definition tv (s : sm) : Prop := rTimer (rl s) <> None -> V s.

(** the outstanding (harness) timer is the one the machine believes to be running, or has just fired *)
Definition hsub (s : sm) : Prop := hTimer s = None \/ hTimer s = rTimer (rl s).
Definition nt (s : sm) : Prop := rTimer (rl s) = None /\ hTimer s = None.

(** the outgoing action channel belongs to the current round, or nothing can be sent on it *)
Definition out_ok2 (s : sm) : Prop :=
  rOut (rl s) = None \/ rOut (rl s) = Some (rH (rl s), rR (rl s)).
Definition out_ok (s : sm) : Prop :=
  out_ok2 s \/ (rPvCh (rl s) = false /\ rPcCh (rl s) = false /\ propOut s <> 1).
Definition pend_ok (s : sm) : Prop :=
  pendAct s = None \/ pendAct s = Some (rH (rl s), rR (rl s)).

Definition GI0 (s : sm) : Prop := tm_ok s /\ hTimer s = rTimer (rl s) /\ out_ok s /\ run s = Idle.
Definition GI (s : sm) : Prop := GI0 s /\ tv s.
Definition GM (s : sm) : Prop := hsub s /\ out_ok s /\ run s = Idle.
Definition GN (s : sm) : Prop := nt s /\ out_ok s /\ run s = Idle.
Definition GN2 (s : sm) : Prop := nt s /\ out_ok2 s /\ run s = Idle.
Definition GIV (s : sm) : Prop := GI s /\ V s.
Definition GMV (s : sm) : Prop := GM s /\ V s.
Definition GNV (s : sm) : Prop := GN s /\ V s.

(** at a suspension in a round entrance (and while awaiting its response) *)
Definition SQ0 (s : sm) : Prop := nt s /\ pend_ok s /\ propOut s <> 1.
Definition SQ (s : sm) : Prop := SQ0 s /\ (run s = Idle \/ exists t, run s = AwaitAdv t).

(** every output: a timer is never started while one is outstanding *)
Definition Po (o : out) : Prop :=
  match o with OTimerStart _ _ _ ov => ov = false | _ => True end.

Lemma GN_GI s : GN s -> GI s.
Proof.
  intros ((A & B) & C & D). split; [split; [|split; [congruence|split; assumption]]|].
  - intros k h r E. congruence.
  - intros E. congruence.
Qed.
Lemma GI_GM s : GI s -> GM s.
Proof. intros ((A & B & C & D) & _). split; [right; exact B|split; assumption]. Qed.
Lemma GN_GM s : GN s -> GM s.
Proof. intros H. apply GI_GM, GN_GI, H. Qed.
Lemma GN2_GN s : GN2 s -> GN s.
Proof. intros (A & B & C). split; [exact A|split; [left; exact B|exact C]]. Qed.
Lemma GI0_V s : GI0 s -> V s -> GIV s.
Proof. intros A B. split; [split; [exact A|intros _; exact B]|exact B]. Qed.

(** ** The logic *)
Definition post (G : sm -> Prop) (s : sm) (f : flow) : Prop :=
  match f with Go => G s | Susp => SQ s | _ => True end.

Definition tr (P : sm -> Prop) (m : M) (G : sm -> Prop) : Prop :=
  forall s, P s -> post G (st (m s)) (fl (m s)) /\ Forall Po (ou (m s)).

Lemma tr_ret (P G : sm -> Prop) : (forall s, P s -> G s) -> tr P ret G.
Proof. intros H s Hs. split; [exact (H s Hs)|constructor]. Qed.

Lemma tr_stop P G f : f <> Go -> f <> Susp -> tr P (stop f) G.
Proof. intros A B s _. split; [|constructor]. destruct f; simpl; auto; congruence. Qed.

Lemma tr_say (P G : sm -> Prop) o : Po o -> (forall s, P s -> G s) -> tr P (say o) G.
Proof. intros Ho H s Hs. split; [exact (H s Hs)|repeat constructor; exact Ho]. Qed.

Lemma tr_upd (P G : sm -> Prop) f : (forall s, P s -> G (f s)) -> tr P (upd f) G.
Proof. intros H s Hs. split; [exact (H s Hs)|constructor]. Qed.

Lemma tr_updr (P G : sm -> Prop) f : (forall s, P s -> G (set_rl (f (rl s)) s)) -> tr P (updr f) G.
Proof. intros H s Hs. split; [exact (H s Hs)|constructor]. Qed.

Lemma tr_bind (R P G : sm -> Prop) a b : tr P a R -> tr R b G -> tr P (a ;; b) G.
Proof.
  intros Ha Hb s Hs. unfold bindM, st, fl, ou in *.
  destruct (Ha s Hs) as [Qa Fa].
  destruct (a s) as [[s1 o1] f1]. simpl in *.
  destruct f1; simpl; try (split; [exact Qa|exact Fa]).
  destruct (Hb s1 Qa) as [Qb Fb].
  destruct (b s1) as [[s2 o2] f2]. simpl in *.
  split; [exact Qb|apply Forall_app; split; assumption].
Qed.

Lemma tr_withS (P G : sm -> Prop) (k : sm -> M) : (forall s0, P s0 -> tr (eq s0) (k s0) G) -> tr P (withS k) G.
Proof. intros H s Hs. unfold withS. exact (H s Hs s eq_refl). Qed.

Lemma tr_when (P G : sm -> Prop) b m : (b = true -> tr P m G) -> (b = false -> forall s, P s -> G s) -> tr P (when b m) G.
Proof. intros Hm Hr. destruct b; simpl; [apply Hm; reflexivity|apply tr_ret; apply Hr; reflexivity]. Qed.

Lemma tr_pre (P P' G : sm -> Prop) m : (forall s, P s -> P' s) -> tr P' m G -> tr P m G.
Proof. intros H Hm s Hs. exact (Hm s (H s Hs)). Qed.

Lemma tr_post (P G G' : sm -> Prop) m : (forall s, G s -> G' s) -> tr P m G -> tr P m G'.
Proof.
  intros H Hm s Hs. destruct (Hm s Hs) as [Q F]. split; [|exact F].
  destruct (fl (m s)); simpl in *; auto.
Qed.

(** a computation that never falls through *)
Lemma tr_never (P G G' : sm -> Prop) m : tr P m (fun _ => False) -> tr P m G.
Proof. intros Hm. eapply tr_post; [|exact Hm]. intros s []. Qed.

(** ** Tactics for the leaves: assertions are conjunctions about a few fields *)
Ltac unf := unfold GIV, GMV, GNV, GI, GI0, GM, GN, GN2, tv, V, SQ, SQ0, nt, hsub, out_ok, out_ok2, pend_ok, tm_ok in *.
Ltac fields := cbn [rl run gen cm propOut enterErr finReq hcOpen hTimer liveSeen signer pendAct aStore fStore sStore pend
  set_run set_rl set_gen set_cm set_propOut set_enterErr set_finReq set_hcOpen set_hTimer set_liveSeen set_signer
  set_pendAct set_aStore set_fStore set_sStore set_pend
  rH rR rS rTimer rHC rCurVS rPrevVS rVRV rPBH rPFNVS rPFASH rConsidered rOut rPropCh rPvCh rPcCh rFinCh rFinVS rFinASH rFinBH
  set_rH set_rR set_rS set_rTimer set_rHC set_rCurVS set_rPrevVS set_rVRV set_rPBH set_rPFNVS set_rPFASH set_rConsidered
  set_rOut set_rPropCh set_rPvCh set_rPcCh set_rFinCh set_rFinVS set_rFinASH set_rFinBH cycle_finalization mark_catching_up] in *.

(** assertions that do not look at the consensus-manager slot, the considered set, the finalize request *)
Definition frame (P : sm -> Prop) : Prop :=
  (forall s c, P s -> P (set_cm c s)) /\
  (forall s x, P s -> P (set_rl (set_rConsidered x (rl s)) s)) /\
  (forall s x, P s -> P (set_finReq x s)) /\
  (forall s x, P s -> P (set_pend x s)) /\
  (forall s x, P s -> P (set_enterErr x s)) /\
  (forall s x, P s -> P (set_aStore x s)).

Ltac frame_tac := unfold frame; split; [|split; [|split; [|split; [|split]]]]; intros; unf; fields; assumption.

Lemma frame_GI : frame GI. Proof. frame_tac. Qed.
Lemma frame_GM : frame GM. Proof. frame_tac. Qed.
Lemma frame_GN : frame GN. Proof. frame_tac. Qed.
Lemma frame_and P Q : frame P -> frame Q -> frame (fun s => P s /\ Q s).
Proof.
  intros (a1 & a2 & a3 & a4 & a5 & a6) (b1 & b2 & b3 & b4 & b5 & b6).
  split; [|split; [|split; [|split; [|split]]]]; intros s x [H1 H2]; split; auto.
Qed.
Lemma frame_V : frame V. Proof. frame_tac. Qed.
Lemma frame_GIV : frame GIV. Proof. frame_tac. Qed.
Lemma frame_GNV : frame GNV. Proof. frame_tac. Qed.
Lemma frame_GMV : frame GMV. Proof. frame_tac. Qed.
Lemma frame_GN2 : frame GN2. Proof. frame_tac. Qed.
Lemma frame_rS n : frame (fun s => rS (rl s) = n). Proof. frame_tac. Qed.

(** ** Primitives *)
Lemma tr_cm_request P k ro o : frame P -> Po o -> tr P (cm_request k ro o) P.
Proof.
  intros (F1 & _) Ho. unfold cm_request. apply tr_withS. intros s0 H0.
  destruct (cm s0); [apply tr_stop; discriminate|].
  apply (tr_bind P).
  - apply tr_upd. intros s <-. apply F1. exact H0.
  - apply tr_say; auto.
Qed.

Lemma tr_req_consider P phs mk ui mj : frame P -> tr P (req_consider phs mk ui mj) P.
Proof.
  intros F. unfold req_consider. apply tr_withS. intros s0 H0.
  destruct (if mk then _ else _) as [nw cn].
  apply (tr_bind P).
  - apply tr_updr. intros s <-. apply F. exact H0.
  - apply tr_cm_request; [exact F|exact I].
Qed.

Lemma tr_req_choose P phs : frame P -> tr P (req_choose phs) P.
Proof.
  intros F. unfold req_choose. apply tr_withS. intros s0 H0.
  apply (tr_pre _ P); [intros s <-; exact H0|]. apply tr_cm_request; [exact F|exact I].
Qed.

Lemma tr_req_decide P vs : frame P -> tr P (req_decide vs) P.
Proof.
  intros F. unfold req_decide. apply tr_withS. intros s0 H0.
  apply (tr_pre _ P); [intros s <-; exact H0|]. apply tr_cm_request; [exact F|exact I].
Qed.

Lemma tr_finalize_req P h r bh : frame P -> tr P (finalize_req h r bh) P.
Proof.
  intros (_ & _ & F3 & _). unfold finalize_req. apply (tr_bind P).
  - apply tr_say; [exact I|auto].
  - apply tr_upd. intros s H. apply F3. exact H.
Qed.

(** cancelling: afterwards no timer is believed running and none is outstanding *)
Lemma cancel_core must s : GM s ->
  post GN (st (cancel_timer must s)) (fl (cancel_timer must s)) /\ Forall Po (ou (cancel_timer must s)) /\
  (V s -> V (st (cancel_timer must s))).
Proof.
  intros (Hs & O & R). unfold cancel_timer, withS.
  destruct (rTimer (rl s)) as [[[k h] r]|] eqn:E.
  - unfold bindM, say, upd, updr, st, fl, ou. simpl. split; [|split; [repeat constructor|intros H; exact H]].
    unfold GN, nt, out_ok, out_ok2. fields. split; [split; [reflexivity|]|split; assumption].
    destruct Hs as [Hs|Hs]; rewrite Hs; [reflexivity|].
    rewrite E. unfold eq3. rewrite !N.eqb_refl. reflexivity.
  - destruct must; simpl; (split; [|split; [constructor|intros H; exact H]]); [exact I|].
    unfold st. simpl. split; [split; [exact E|destruct Hs as [Hs|Hs]; congruence]|split; assumption].
Qed.

Lemma tr_cancel must : tr GM (cancel_timer must) GN.
Proof. intros s H. destruct (cancel_core must s H) as (A & B & _). split; assumption. Qed.

Lemma tr_cancelV must : tr GMV (cancel_timer must) GNV.
Proof.
  intros s [H HV]. destruct (cancel_core must s H) as (A & B & C). split; [|exact B].
  destruct (fl (cancel_timer must s)); simpl in *; auto. split; auto.
Qed.

Lemma frame_GI0 : frame GI0. Proof. frame_tac. Qed.
Lemma GIV_GMV s : GIV s -> GMV s.
Proof. intros [A B]. split; [apply GI_GM; exact A|exact B]. Qed.
Lemma GNV_GIV s : GNV s -> GIV s.
Proof. intros [A B]. split; [apply GN_GI; exact A|exact B]. Qed.
Lemma GNV_GM s : GNV s -> GM s.
Proof. intros [A B]. apply GN_GM; exact A. Qed.
Lemma GIV_GI s : GIV s -> GI s.
Proof. intros [A B]. exact A. Qed.
