(** C13 - simple scheme: Finalize followed by ValidateFinalizedProof returns exactly the per-block
    signer sets the finalized proof was built from, and the uniqueness flag is false exactly when two
    blocks share a signer (gcrypto/simplecommonmessagesignatureproof.go: Finalize,
    ValidateFinalizedProof).  For every number of rest proofs, every key-set size up to 65536 and
    every signer partition. *)
From Coq Require Import List NArith ZArith String Bool Lia ZifyBool ZifyN Permutation.
From GV Require Import Base.Ints Gen.KeyID Model.SimpleProofBase Model.SimpleProof
  Proofs.SimpleProof Proofs.SimpleInv Proofs.SimpleRoundtrip.
Import ListNotations.
Local Open Scope N_scope.

(** The specification of the uniqueness flag: no two of the listed bit sets intersect. *)
Fixpoint pairwise_disjoint (l : list N) : bool :=
  match l with
  | [] => true
  | b :: t => forallb (fun c => N.eqb (N.land b c) 0) t && pairwise_disjoint t
  end.

(** What Finalize is given: rest proofs over the same candidate keys and key hash as the main one. *)
Definition rest_wf (main : proof) (rest : list proof) : Prop :=
  Forall (fun r => Inv r /\ p_keys r = p_keys main /\ p_hash r = p_hash main) rest.

Definition fin_item (r : proof) : list N * list sparse_entry := (p_msg r, snd (as_sparse r)).
Definition out_item (hashes : list (list N * list N)) (r : proof) : list N * N :=
  (hash_get hashes (p_msg r), p_bits r).

(* ------------------------------------------------------------------ association lists *)
Lemma rest_set_fresh m k v :
  ~ In k (map fst m) -> rest_set m k v = m ++ [(k, v)].
Proof.
  induction m as [|[k' v'] t IH]; cbn [rest_set map fst In app]; intros H; [reflexivity|].
  destruct (bytes_eqb k' k) eqn:E.
  - apply bytes_eqb_eq in E. exfalso. apply H. left. exact E.
  - rewrite IH; [reflexivity|]. intros Hin. apply H. right. exact Hin.
Qed.

Lemma out_set_fresh m k v :
  ~ In k (map fst m) -> out_set m k v = m ++ [(k, v)].
Proof.
  induction m as [|[k' v'] t IH]; cbn [out_set map fst In app]; intros H; [reflexivity|].
  destruct (bytes_eqb k' k) eqn:E.
  - apply bytes_eqb_eq in E. exfalso. apply H. left. exact E.
  - rewrite IH; [reflexivity|]. intros Hin. apply H. right. exact Hin.
Qed.

Lemma finalize_rest_fold rest : forall acc,
  NoDup (map fst acc ++ map p_msg rest) ->
  fold_left (fun m r => rest_set m (p_msg r) (snd (as_sparse r))) rest acc = acc ++ map fin_item rest.
Proof.
  induction rest as [|r t IH]; intros acc ND; cbn [fold_left map].
  - rewrite app_nil_r. reflexivity.
  - cbn [map] in ND. rewrite rest_set_fresh.
    + rewrite IH.
      * rewrite <- app_assoc. reflexivity.
      * rewrite map_app. cbn [map fst]. rewrite <- app_assoc. exact ND.
    + apply NoDup_remove_2 in ND. intros Hin. apply ND. apply in_or_app. left. exact Hin.
Qed.

(* ------------------------------------------------------------------ one block *)
Lemma vf_block_roundtrip r :
  Inv r -> N.of_nat (List.length (p_keys r)) <= 65536 -> p_keys r <> [] ->
  vf_block (p_keys r) (p_hash r) (p_msg r) (snd (as_sparse r)) = Ok (Some (p_bits r)).
Proof.
  intros I L NE. destruct (sparse_roundtrip r I L NE) as (q0 & q & fl & E0 & E1 & B & AV).
  unfold vf_block. rewrite E0. cbn [bind].
  replace (p_hash r, snd (as_sparse r)) with (as_sparse r) by reflexivity.
  rewrite E1. cbn [bind]. rewrite AV. cbn [negb]. rewrite B. reflexivity.
Qed.

Lemma vf_rest_roundtrip keys hash hashes rest : forall out,
  Forall (fun r => Inv r /\ p_keys r = keys /\ p_hash r = hash) rest ->
  N.of_nat (List.length keys) <= 65536 -> keys <> [] ->
  vf_rest keys hash hashes (map fin_item rest) out =
  Ok (Some (fold_left (fun o r => out_set o (hash_get hashes (p_msg r)) (p_bits r)) rest out)).
Proof.
  induction rest as [|r t IH]; intros out W L NE; cbn [map vf_rest fold_left]; [reflexivity|].
  inversion W as [|? ? [I [K H]] W']; subst.
  unfold fin_item at 1. rewrite (vf_block_roundtrip r I L NE). cbn [bind].
  apply IH; assumption.
Qed.

Lemma out_fold rest hashes : forall out,
  NoDup (map fst out ++ map (fun r => hash_get hashes (p_msg r)) rest) ->
  fold_left (fun o r => out_set o (hash_get hashes (p_msg r)) (p_bits r)) rest out =
  out ++ map (out_item hashes) rest.
Proof.
  induction rest as [|r t IH]; intros out ND; cbn [fold_left map].
  - rewrite app_nil_r. reflexivity.
  - cbn [map] in ND. rewrite out_set_fresh.
    + rewrite IH.
      * rewrite <- app_assoc. reflexivity.
      * rewrite map_app. cbn [map fst]. rewrite <- app_assoc. exact ND.
    + apply NoDup_remove_2 in ND. intros Hin. apply ND. apply in_or_app. left. exact Hin.
Qed.

(* ------------------------------------------------------------------ the uniqueness scan *)
Lemma land_lor_zero a b c :
  N.eqb (N.land (N.lor a b) c) 0 = N.eqb (N.land a c) 0 && N.eqb (N.land b c) 0.
Proof.
  rewrite N.land_lor_distr_l.
  destruct (N.eqb (N.land a c) 0) eqn:E1; destruct (N.eqb (N.land b c) 0) eqn:E2; cbn [andb].
  - apply N.eqb_eq in E1, E2. rewrite E1, E2. reflexivity.
  - apply N.eqb_eq in E1. apply N.eqb_neq in E2. apply N.eqb_neq. intros H.
    apply N.lor_eq_0_iff in H. tauto.
  - apply N.eqb_neq in E1. apply N.eqb_neq. intros H. apply N.lor_eq_0_iff in H. tauto.
  - apply N.eqb_neq in E1. apply N.eqb_neq. intros H. apply N.lor_eq_0_iff in H. tauto.
Qed.

Lemma forallb_land_lor a b l :
  forallb (fun c => N.eqb (N.land (N.lor a b) c) 0) l =
  forallb (fun c => N.eqb (N.land a c) 0) l && forallb (fun c => N.eqb (N.land b c) 0) l.
Proof.
  induction l as [|c t IH]; cbn [forallb]; [reflexivity|].
  rewrite IH, land_lor_zero.
  destruct (N.eqb (N.land a c) 0), (N.eqb (N.land b c) 0),
    (forallb (fun c0 => N.eqb (N.land a c0) 0) t), (forallb (fun c0 => N.eqb (N.land b c0) 0) t); reflexivity.
Qed.

Lemma vf_unique_spec out : forall all,
  vf_unique out all =
  forallb (fun c => N.eqb (N.land all c) 0) (map snd out) && pairwise_disjoint (map snd out).
Proof.
  induction out as [|[k b] t IH]; intros all; cbn [vf_unique map snd forallb pairwise_disjoint]; [reflexivity|].
  destruct (N.eqb (N.land all b) 0) eqn:E; cbn [negb andb]; [|reflexivity].
  rewrite IH, forallb_land_lor.
  destruct (forallb (fun c => N.eqb (N.land all c) 0) (map snd t)),
    (forallb (fun c => N.eqb (N.land b c) 0) (map snd t)), (pairwise_disjoint (map snd t)); reflexivity.
Qed.

Lemma forallb_land0 l : forallb (fun c => N.eqb (N.land 0 c) 0) l = true.
Proof. induction l as [|c t IH]; cbn [forallb]; [reflexivity|]. rewrite N.land_0_l, IH. reflexivity. Qed.

(* ------------------------------------------------------------------ the round trip *)
Theorem simple_finalize_validate_roundtrip main rest hashes :
  Inv main -> rest_wf main rest ->
  p_keys main <> [] -> N.of_nat (List.length (p_keys main)) <= 65536 ->
  NoDup (map p_msg (main :: rest)) ->
  NoDup (map (fun r => hash_get hashes (p_msg r)) (main :: rest)) ->
  validate_finalized (finalize main rest) hashes =
  Ok (Some (map (out_item hashes) (main :: rest)), pairwise_disjoint (map p_bits (main :: rest))).
Proof.
  intros I W NE L NDm NDh.
  unfold validate_finalized, finalize.
  cbn [f_keys f_hash f_main_msg f_main_sigs f_rest].
  rewrite (vf_block_roundtrip main I L NE). cbn [bind].
  assert (NDr : NoDup (map fst (@nil (list N * list sparse_entry)) ++ map p_msg rest)).
  { cbn [map app]. cbn [map] in NDm. apply NoDup_cons_iff in NDm. tauto. }
  rewrite (finalize_rest_fold rest [] NDr). cbn [app].
  rewrite (vf_rest_roundtrip (p_keys main) (p_hash main) hashes rest _ W L NE). cbn [bind].
  rewrite (out_fold rest hashes [(hash_get hashes (p_msg main), p_bits main)]).
  2:{ cbn [map fst app]. cbn [map] in NDh. exact NDh. }
  cbn [app map]. unfold out_item at 1.
  f_equal. f_equal.
  rewrite vf_unique_spec. cbn [map snd forallb pairwise_disjoint].
  rewrite N.land_0_l. cbn [N.eqb andb].
  rewrite map_map. cbn [out_item snd].
  rewrite forallb_land0. cbn [andb]. reflexivity.
Qed.

(** Corollaries in the words of the property. *)
Corollary simple_finalize_validate_signers main rest hashes r :
  Inv main -> rest_wf main rest ->
  p_keys main <> [] -> N.of_nat (List.length (p_keys main)) <= 65536 ->
  NoDup (map p_msg (main :: rest)) ->
  NoDup (map (fun r => hash_get hashes (p_msg r)) (main :: rest)) ->
  In r (main :: rest) ->
  exists out u, validate_finalized (finalize main rest) hashes = Ok (Some out, u) /\
    In (hash_get hashes (p_msg r), p_bits r) out /\ List.length out = S (List.length rest).
Proof.
  intros I W NE L NDm NDh Hin.
  eexists _, _. split; [apply simple_finalize_validate_roundtrip; assumption|].
  split.
  - change (hash_get hashes (p_msg r), p_bits r) with (out_item hashes r). apply in_map. exact Hin.
  - rewrite map_length. reflexivity.
Qed.

Lemma pairwise_disjoint_false_iff l :
  pairwise_disjoint l = false <->
  exists i j a b, (i < j)%nat /\ nth_error l i = Some a /\ nth_error l j = Some b /\ N.land a b <> 0.
Proof.
  induction l as [|x t IH]; cbn [pairwise_disjoint].
  - split; [discriminate|]. intros (i & j & a & b & _ & Hi & _). destruct i; discriminate.
  - rewrite andb_false_iff, IH. split.
    + intros [H|(i & j & a & b & Hij & Hi & Hj & Hab)].
      * assert (Hex : exists c, In c t /\ N.eqb (N.land x c) 0 = false).
        { clear IH. induction t as [|c t' IHt]; cbn [forallb] in H; [discriminate|].
          apply andb_false_iff in H. destruct H as [H|H].
          - exists c. split; [left; reflexivity|exact H].
          - destruct (IHt H) as (c' & Hc & Hz). exists c'. split; [right; exact Hc|exact Hz]. }
        destruct Hex as (c & Hc & Hz). apply In_nth_error in Hc. destruct Hc as [n Hn].
        exists 0%nat, (S n), x, c. repeat split; [lia|exact Hn|]. apply N.eqb_neq. exact Hz.
      * exists (S i), (S j), a, b. repeat split; [lia|exact Hi|exact Hj|exact Hab].
    + intros (i & j & a & b & Hij & Hi & Hj & Hab).
      destruct i as [|i].
      * left. cbn [nth_error] in Hi. injection Hi as <-. destruct j as [|j]; [lia|]. cbn [nth_error] in Hj.
        apply nth_error_In in Hj. apply not_true_iff_false. intros Hall.
        rewrite forallb_forall in Hall. specialize (Hall _ Hj). apply N.eqb_eq in Hall. contradiction.
      * right. destruct j as [|j]; [lia|]. cbn [nth_error] in Hi, Hj.
        exists i, j, a, b. repeat split; [lia|exact Hi|exact Hj|exact Hab].
Qed.

(** Double signers are reported: the flag is false exactly when some validator's bit is in two blocks. *)
Corollary simple_finalize_reports_double_signers main rest hashes :
  Inv main -> rest_wf main rest ->
  p_keys main <> [] -> N.of_nat (List.length (p_keys main)) <= 65536 ->
  NoDup (map p_msg (main :: rest)) ->
  NoDup (map (fun r => hash_get hashes (p_msg r)) (main :: rest)) ->
  exists out u, validate_finalized (finalize main rest) hashes = Ok (Some out, u) /\
    (u = false <->
     exists i j a b, (i < j)%nat /\ nth_error (map p_bits (main :: rest)) i = Some a /\
       nth_error (map p_bits (main :: rest)) j = Some b /\ N.land a b <> 0).
Proof.
  intros I W NE L NDm NDh. eexists _, _. split; [apply simple_finalize_validate_roundtrip; assumption|].
  apply pairwise_disjoint_false_iff.
Qed.

(* ------------------------------------------------------------------ non-vacuity *)
(** Three keys; main signed by keys 10 and 30, one rest proof signed by key 20, another by 30 (a double signer). *)
Definition ex_keys : list N := [10; 20; 30].
Definition ex_main : proof :=
  fst (add_signature (fst (add_signature (mk_proof [1] ex_keys [7] 0 []) (Good 10 [1] 0) 10)) (Good 30 [1] 0) 30).
Definition ex_r1 : proof := fst (add_signature (mk_proof [2] ex_keys [7] 0 []) (Good 20 [2] 0) 20).
Definition ex_r2 : proof := fst (add_signature (mk_proof [3] ex_keys [7] 0 []) (Good 30 [3] 0) 30).
Definition ex_hashes : list (list N * list N) := [([1], [101]); ([2], [102]); ([3], [103])].

Lemma Inv_fresh msg keys hash : Inv (mk_proof msg keys hash 0 []).
Proof.
  split; cbn [p_sigs p_bits]; [intros s k []|]. intros i H. rewrite N.bits_0 in H. discriminate.
Qed.

Example ex_hypotheses :
  Inv ex_main /\ rest_wf ex_main [ex_r1; ex_r2] /\ p_keys ex_main <> [] /\
  NoDup (map p_msg [ex_main; ex_r1; ex_r2]) /\
  NoDup (map (fun r => hash_get ex_hashes (p_msg r)) [ex_main; ex_r1; ex_r2]).
Proof.
  split; [apply Inv_add_signature, Inv_add_signature, Inv_fresh|].
  split.
  { unfold rest_wf.
    apply Forall_cons; [split; [apply Inv_add_signature, Inv_fresh|split; reflexivity]|].
    apply Forall_cons; [split; [apply Inv_add_signature, Inv_fresh|split; reflexivity]|].
    apply Forall_nil. }
  split; [vm_compute; discriminate|].
  split; vm_compute.
  - repeat (apply NoDup_cons; [cbn [In]; intros H; repeat (destruct H as [H|H]; [discriminate H|]); exact H|]).
    apply NoDup_nil.
  - repeat (apply NoDup_cons; [cbn [In]; intros H; repeat (destruct H as [H|H]; [discriminate H|]); exact H|]).
    apply NoDup_nil.
Qed.

Example ex_roundtrip :
  validate_finalized (finalize ex_main [ex_r1]) ex_hashes = Ok (Some [([101], 5); ([102], 2)], true) /\
  validate_finalized (finalize ex_main [ex_r1; ex_r2]) ex_hashes =
    Ok (Some [([101], 5); ([102], 2); ([103], 4)], false).
Proof. split; vm_compute; reflexivity. Qed.
