(** C10 (start-up after a crash): states reachable by operations, clean restarts AND crashes.

    History of this file.  The first version refuted "start-up never fails" with two witnesses
    that made the mirror PERSIST a signature-collection entry with an empty signature list
    (A: a replayed commit proof with an entry [(hash, [])]; B: a vote message for a later round of
    the voting height with such an entry); the next NewKernel then panicked in
    SparseSignatureCollection.toFullProofMap ("BUG: saw len(sparseSigs) == 0").  Both were
    confirmed on the Go code and repaired there: the future-vote path and the replay path now
    skip entries without signatures ([signed_entries] in Model/Mirror.v).  The former witnesses are
    kept below as regression examples: the mirror now comes up on them.

    What remains is a MODEL-ONLY way to make start-up fail: the model's [valset] keeps keys and
    powers in two lists of independent length, so a next validator set with non-zero power and NO
    key passes [op_wf]; once committed, "loadInitialVotingView: BUG: no validators available".
    In Go a ValidatorSet is one list of (key, power) pairs, so non-zero power implies a key; the
    theorems of Proofs/MirrorResume.v therefore carry the guard "the next set of an accepted /
    replayed header has a key" ([keys_guard_needed_in_model] shows it is needed in the model). *)
From Coq Require Import List NArith Arith Bool Lia String.
From GV Require Import Base.Ints Gen.Math Gen.Kernel Model.Mirror
  Proofs.Thresholds Proofs.MirrorAuth Proofs.MirrorNoop Proofs.MirrorChain Proofs.MirrorCert
  Proofs.MirrorTotal.
Import ListNotations.
Local Open Scope N_scope.

(** * Reachability by operations, clean restarts and crashes *)

(** the admissibility side conditions of [reachable_a], for the operation inside an [xop] *)
Definition xop_adm (x : xop) (res : N) : Prop :=
  match x with
  | XOp o | XCrash _ o => op_bounded o /\ step_adm o res
  | XRestart => True
  end.

Inductive reachable_x (ih : N) (ivs : valset) : kstate -> Prop :=
| rx_init : reachable_x ih ivs (init_state ih ivs)
| rx_step s x s' res : reachable_x ih ivs s -> xop_adm x res ->
    xstep s x = Ok (s', res) -> reachable_x ih ivs s'.

Lemma reachable_a_x ih ivs s : reachable_a ih ivs s -> reachable_x ih ivs s.
Proof.
  induction 1 as [|s o s' res Hr IH Hb Hw Hs]; [apply rx_init|].
  apply (rx_step ih ivs s (XOp o) s' res IH); [split; assumption|exact Hs].
Qed.

(** * Signature collections without empty entries (what [signed_entries] produces) *)
Definition proofs_nonempty (l : list (bytes * list ssig)) : Prop :=
  forall t sigs, In (t, sigs) l -> sigs <> [].

Lemma signed_entries_nonempty l : proofs_nonempty (signed_entries l).
Proof.
  intros t sigs Hin E. apply filter_In in Hin as [_ H]. cbn [snd] in H. rewrite E in H. discriminate.
Qed.

(** * The former witnesses *)
Definition run_x (s : kstate) (xs : list xop) : res (kstate * N) :=
  fold_left (fun r x => match r with Ok (s, _) => xstep s x | p => p end) xs (Ok (s, 0)).

Definition sg7 (kind h r : N) (t : bytes) : ssig := mk_ssig (keyid_encode 0) (SVote 7 kind h r t).

(** A: the replayed commit proof: the quorum for header [9] and an entry ([8], []) *)
Definition wA_cp : cproof := mk_cproof 0 [1] [([9], [sg7 KPrecommit 1 0 [9]]); ([8], [])].
Definition wA_op : op := OpReplay (ex_hdr ex_vs ex_vs) wA_cp.

(** B: a prevote message for round 2 of height 1 (the mirror is in round 0): one valid nil
    prevote and an entry ([8], []); then the nil precommit that moves the mirror to round 1 *)
Definition wB_msg : vmsg := mk_vmsg 1 2 [1] [([], [sg7 KPrevote 1 2 []]); ([8], [])].
Definition wB_nil : vmsg := ex_precommit 1 0 [1] [].

(** both are still handled as before (accepted / FutureVerified, Accepted) ... *)
Example wA_uninterrupted :
  exists s', step (init_state 1 ex_vs) wA_op = Ok (s', 0) /\ st_nhr s' = (2, 0, 1, 0).
Proof. eexists. vm_compute. split; reflexivity. Qed.

Example wB_uninterrupted :
  exists s1 s2, step (init_state 1 ex_vs) (OpPrevote wB_msg) = Ok (s1, HandleVoteProofsFutureVerified) /\
                step s1 (OpPrecommit wB_nil) = Ok (s2, HandleVoteProofsAccepted) /\
                st_nhr s2 = (1, 1, 0, 0).
Proof. eexists. eexists. vm_compute. repeat split; reflexivity. Qed.

(** ... and the mirror now comes up again: after a clean restart and after a crash at every point *)
Example wA_now_restarts :
  is_ok (run_x (init_state 1 ex_vs) [XOp wA_op; XRestart]) = true /\
  forallb (fun k => is_ok (xstep (init_state 1 ex_vs) (XCrash k wA_op))) [0; 1; 2; 3; 4; 5]%nat = true.
Proof. vm_compute. split; reflexivity. Qed.

Example wB_now_restarts :
  is_ok (run_x (init_state 1 ex_vs) [XOp (OpPrevote wB_msg); XOp (OpPrecommit wB_nil); XRestart]) = true /\
  forallb (fun k => is_ok (run_x (init_state 1 ex_vs) [XOp (OpPrevote wB_msg); XCrash k (OpPrecommit wB_nil)]))
          [0; 1; 2; 3]%nat = true.
Proof. vm_compute. split; reflexivity. Qed.

(** * Model only: a committed next validator set with power but without keys *)
Definition ex_nokeys : valset := mk_valset [] [1] [5] [6] true.
Definition site_no_validators : string := "loadInitialVotingView: BUG: no validators available".

Theorem keys_guard_needed_in_model :
  exists ih ivs s site,
    1 <= ih /\ vs_ok ivs = true /\ 0 < sum_pows (vs_pows ivs) /\
    reachable_x ih ivs s /\ xstep s XRestart = Panic site.
Proof.
  exists 1, ex_vs, (state_after [OpPH (ex_ph ex_vs ex_nokeys); OpPrecommit (ex_precommit 1 0 [1] [9])]), site_no_validators.
  split; [vm_compute; discriminate|]. split; [reflexivity|]. split; [vm_compute; reflexivity|].
  split; [apply reachable_a_x, state_after_reachable_a; vm_compute; reflexivity|].
  vm_compute. reflexivity.
Qed.
