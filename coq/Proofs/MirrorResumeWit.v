(** C10 (start-up after a crash): states reachable by operations, clean restarts AND crashes,
    the guard under which start-up can be shown total, and the two witnesses showing that
    WITHOUT that guard the model's NewKernel does not come up again.

    Both witnesses store a signature collection that contains an entry with an EMPTY signature
    list.  The ordinary vote path filters such entries ([sigs_to_add] drops an entry whose kept
    list is empty); the two other paths that write vote collections do not:
      A. a replayed header whose commit proof carries, beside the quorum for the header, an entry
         [(hash, [])]: [handle_replay] merges the empty list (AllValidSignatures = true), the
         empty proof enters the voting view's precommit map and is written with the round.
      B. a prevote / precommit message for a later round of the voting height carrying one valid
         signature and an entry [(hash, [])]: [handle_future_votes] creates the empty proof,
         merges nothing into it, and writes the whole map.
    On the next start [to_full_map] (SparseSignatureCollection.toFullProofMap) panics with
    "BUG: saw len(sparseSigs) == 0" as soon as that round is loaded. *)
From Coq Require Import List NArith Arith Bool Lia String.
From GV Require Import Base.Ints Gen.Math Gen.Kernel Model.Mirror
  Proofs.Thresholds Proofs.MirrorAuth Proofs.MirrorNoop Proofs.MirrorChain Proofs.MirrorCert
  Proofs.MirrorTotal.
Import ListNotations.
Local Open Scope N_scope.

(** * Reachability by operations, clean restarts and crashes *)

(** the admissibility side conditions of [reachable_a], for the operation inside an [xop] *)
Definition xop_adm (x : xop) (res : N) : Prop :=
  match x with
  | XOp o | XCrash _ o => op_bounded o /\ step_adm o res
  | XRestart => True
  end.

Inductive reachable_x (ih : N) (ivs : valset) : kstate -> Prop :=
| rx_init : reachable_x ih ivs (init_state ih ivs)
| rx_step s x s' res : reachable_x ih ivs s -> xop_adm x res ->
    xstep s x = Ok (s', res) -> reachable_x ih ivs s'.

Lemma reachable_a_x ih ivs s : reachable_a ih ivs s -> reachable_x ih ivs s.
Proof.
  induction 1 as [|s o s' res Hr IH Hb Hw Hs]; [apply rx_init|].
  apply (rx_step ih ivs s (XOp o) s' res IH); [split; assumption|exact Hs].
Qed.

(** * The guard: no signature collection offered to the mirror has an empty signature list *)
Definition proofs_nonempty (l : list (bytes * list ssig)) : Prop :=
  forall t sigs, In (t, sigs) l -> sigs <> [].

Definition proofs_nonemptyb (l : list (bytes * list ssig)) : bool :=
  forallb (fun e => match snd e with [] => false | _ => true end) l.

Lemma proofs_nonemptyb_ok l : proofs_nonemptyb l = true -> proofs_nonempty l.
Proof.
  unfold proofs_nonemptyb, proofs_nonempty. rewrite forallb_forall.
  intros H t sigs Hin E. specialize (H _ Hin). cbn in H. rewrite E in H. discriminate.
Qed.

(** the vote message, the replayed commit proof, and the previous commit proof of a proposed
    header (it is handed to the vote handler when the header is for the next height) *)
Definition op_nonempty (o : op) : Prop :=
  match o with
  | OpPH p => proofs_nonempty (cp_proofs (hd_pcp (ph_hdr p)))
  | OpPrevote m | OpPrecommit m => proofs_nonempty (vm_proofs m)
  | OpReplay _ cp => proofs_nonempty (cp_proofs cp)
  end.

Definition xop_nonempty (x : xop) : Prop :=
  match x with XOp o | XCrash _ o => op_nonempty o | XRestart => True end.

(** * Witnesses *)
Definition run_x (s : kstate) (xs : list xop) : res (kstate * N) :=
  fold_left (fun r x => match r with Ok (s, _) => xstep s x | p => p end) xs (Ok (s, 0)).

Definition sg7 (kind h r : N) (t : bytes) : ssig := mk_ssig (keyid_encode 0) (SVote 7 kind h r t).

(** A: the replayed commit proof: the quorum for header [9] and an entry ([8], []) *)
Definition wA_cp : cproof := mk_cproof 0 [1] [([9], [sg7 KPrecommit 1 0 [9]]); ([8], [])].
Definition wA_op : op := OpReplay (ex_hdr ex_vs ex_vs) wA_cp.

(** B: a prevote message for round 2 of height 1 (the mirror is in round 0): one valid nil
    prevote and an entry ([8], []); then the nil precommit that moves the mirror to round 1 *)
Definition wB_msg : vmsg := mk_vmsg 1 2 [1] [([], [sg7 KPrevote 1 2 []]); ([8], [])].
Definition wB_nil : vmsg := ex_precommit 1 0 [1] [].

Definition site_empty_sigs : string := "toFullProofMap: BUG: saw len(sparseSigs) == 0".

(** A: the replay is accepted and commits height 1 ... *)
Example wA_uninterrupted :
  exists s', step (init_state 1 ex_vs) wA_op = Ok (s', 0) /\ st_nhr s' = (2, 0, 1, 0).
Proof. eexists. vm_compute. split; reflexivity. Qed.

(** ... but a restart afterwards, and a crash after any k >= 2 of its 4 store writes, fails *)
Lemma wA_restart_fails :
  run_x (init_state 1 ex_vs) [XOp wA_op; XRestart] = Panic site_empty_sigs.
Proof. vm_compute. reflexivity. Qed.

Lemma wA_crash_fails :
  xstep (init_state 1 ex_vs) (XCrash 2 wA_op) = Panic site_empty_sigs /\
  xstep (init_state 1 ex_vs) (XCrash 3 wA_op) = Panic site_empty_sigs /\
  xstep (init_state 1 ex_vs) (XCrash 4 wA_op) = Panic site_empty_sigs.
Proof. vm_compute. repeat split; reflexivity. Qed.

(** B: both messages are handled normally (FutureVerified, Accepted) ... *)
Example wB_uninterrupted :
  exists s1 s2, step (init_state 1 ex_vs) (OpPrevote wB_msg) = Ok (s1, HandleVoteProofsFutureVerified) /\
                step s1 (OpPrecommit wB_nil) = Ok (s2, HandleVoteProofsAccepted) /\
                st_nhr s2 = (1, 1, 0, 0).
Proof. eexists. eexists. vm_compute. repeat split; reflexivity. Qed.

(** ... and the mirror cannot be started again: round 2 is now the next-round view *)
Lemma wB_restart_fails :
  run_x (init_state 1 ex_vs) [XOp (OpPrevote wB_msg); XOp (OpPrecommit wB_nil); XRestart] = Panic site_empty_sigs.
Proof. vm_compute. reflexivity. Qed.

Lemma wB_crash_fails :
  run_x (init_state 1 ex_vs) [XOp (OpPrevote wB_msg); XCrash 2 (OpPrecommit wB_nil)] = Panic site_empty_sigs.
Proof. vm_compute. reflexivity. Qed.

(** a crash of the second message after its first write (the precommit is stored, the position
    is not) still comes up: the stored position is round 0 and round 2 is not loaded *)
Example wB_crash_one_write_ok :
  is_ok (run_x (init_state 1 ex_vs) [XOp (OpPrevote wB_msg); XCrash 1 (OpPrecommit wB_nil)]) = true.
Proof. vm_compute. reflexivity. Qed.

(** * The refutation of "start-up never fails" *)
Theorem restart_can_fail_refuted :
  exists ih ivs s o k site,
    1 <= ih /\ vs_ok ivs = true /\ 0 < sum_pows (vs_pows ivs) /\
    reachable_x ih ivs s /\ op_bounded o /\ op_wf o /\
    (exists s' r, step s o = Ok (s', r)) /\
    xstep s (XCrash k o) = Panic site.
Proof.
  exists 1, ex_vs, (state_after [OpPrevote wB_msg]), (OpPrecommit wB_nil), 2%nat, site_empty_sigs.
  split; [vm_compute; discriminate|]. split; [reflexivity|]. split; [vm_compute; reflexivity|].
  split; [apply reachable_a_x, state_after_reachable_a; vm_compute; reflexivity|].
  split; [exact I|]. split; [exact I|].
  split; [eexists; eexists; vm_compute; reflexivity|].
  vm_compute. reflexivity.
Qed.

(** the same for a clean restart (no crash at all), by a peer message (B) and by a replayed
    header (A) *)
Theorem clean_restart_can_fail_refuted :
  exists ih ivs s site,
    1 <= ih /\ vs_ok ivs = true /\ 0 < sum_pows (vs_pows ivs) /\
    reachable_x ih ivs s /\ xstep s XRestart = Panic site.
Proof.
  exists 1, ex_vs, (state_after [OpPrevote wB_msg; OpPrecommit wB_nil]), site_empty_sigs.
  split; [vm_compute; discriminate|]. split; [reflexivity|]. split; [vm_compute; reflexivity|].
  split; [apply reachable_a_x, state_after_reachable_a; vm_compute; reflexivity|].
  vm_compute. reflexivity.
Qed.

Theorem clean_restart_after_replay_can_fail_refuted :
  exists ih ivs s site,
    1 <= ih /\ vs_ok ivs = true /\ 0 < sum_pows (vs_pows ivs) /\
    reachable_x ih ivs s /\ xstep s XRestart = Panic site.
Proof.
  exists 1, ex_vs, (state_after [wA_op]), site_empty_sigs.
  split; [vm_compute; discriminate|]. split; [reflexivity|]. split; [vm_compute; reflexivity|].
  split; [apply reachable_a_x, state_after_reachable_a; vm_compute; reflexivity|].
  vm_compute. reflexivity.
Qed.

(** both witnesses violate the guard (and only it) *)
Example witnesses_violate_guard :
  ~ op_nonempty (OpPrevote wB_msg) /\ ~ op_nonempty wA_op.
Proof.
  split; intros H.
  - apply (H [8] []); [right; left; reflexivity|reflexivity].
  - apply (H [8] []); [right; left; reflexivity|reflexivity].
Qed.
