(** C13 (BLS tree) - the invariant over ALL operation sequences of the register machine, totality of the
    walk (SparseIndices / Merge / AsSparse), Clone / Derive independence, key-id encoding. *)
From Coq Require Import List NArith ZArith String Bool Lia Arith.
From GV Require Import Base.Ints Model.SimpleProofBase Model.BlsTree Proofs.BlsTreeBase Proofs.BlsTreeAdd
  Proofs.BlsTreeProof.
Import ListNotations.
Local Open Scope N_scope.

(* ------------------------------------------------------------------ constructors *)
Lemma empty_tree_inv : forall msg h t, wf_tree h t -> t_bits t = 0 ->
  (forall idx, idx < lenN (t_sigs t) -> nthN (t_sigs t) idx = Some None) -> inv msg h t.
Proof.
  intros msg h t Hwf Hb Hs. split; [assumption|]. split.
  - intros idx sg E. pose proof (nthN_some_lt _ _ _ _ E) as L. rewrite (Hs idx L) in E. discriminate.
  - intro i. rewrite Hb, N.bits_0. split; [discriminate|].
    intros [_ (d & off & Hd & Ho & [sg Hset] & _)].
    assert (L : lstart h d + off < lenN (t_sigs t)) by (rewrite (wf_sigs _ _ Hwf); now apply lstart_bound).
    rewrite (Hs _ L) in Hset. discriminate.
Qed.

Theorem new_proof_pinv : forall msg n hash, 1 <= n <= 65535 ->
  exists p, new_proof msg n hash = Ok p /\ pinv p /\ p_bits p = 0 /\ t_n (p_tree p) = n.
Proof.
  intros msg n hash Hn. destruct (tree_new_wf n Hn) as (h & t & E & Hwf & Hn' & Hb & Hs).
  unfold new_proof. rewrite E. eexists. split; [reflexivity|]. split.
  - exists h. cbn [p_msg p_tree]. now apply empty_tree_inv.
  - split; assumption.
Qed.

Lemma new_proof_panics : forall msg n hash, n < 1 \/ 65535 < n -> exists s, new_proof msg n hash = Panic s.
Proof.
  intros msg n hash H. unfold new_proof, tree_new.
  replace ((n <? 1) || (65535 <? n)) with true; [eauto|].
  symmetry. apply orb_true_iff. destruct H; [left; apply N.ltb_lt|right; apply N.ltb_lt]; assumption.
Qed.

Lemma new_proof_ok_pinv : forall msg n hash p, new_proof msg n hash = Ok p -> pinv p.
Proof.
  intros msg n hash p E. destruct (N.ltb n 1) eqn:A; [|destruct (N.ltb 65535 n) eqn:B].
  - apply N.ltb_lt in A. destruct (new_proof_panics msg n hash (or_introl A)) as [s Hs]. congruence.
  - apply N.ltb_lt in B. destruct (new_proof_panics msg n hash (or_intror B)) as [s Hs]. congruence.
  - apply N.ltb_ge in A. apply N.ltb_ge in B.
    destruct (new_proof_pinv msg n hash (conj A B)) as (p' & E' & H & _). congruence.
Qed.

Lemma derive_pinv : forall p, pinv p -> pinv (derive p) /\ p_bits (derive p) = 0.
Proof.
  intros p [h (Hwf & _ & _)]. split; [|reflexivity]. exists h. unfold derive, tree_derive. cbn [p_msg p_tree].
  apply empty_tree_inv.
  - destruct Hwf. constructor; cbn [t_n t_sigs t_keys]; auto. rewrite lenN_repeatN. assumption.
  - reflexivity.
  - cbn [t_sigs]. intros idx L. rewrite lenN_repeatN in L. now apply nthN_repeatN.
Qed.

Lemma clone_eq : forall p, clone p = p.
Proof. intros [m t hh]. reflexivity. Qed.

(* ------------------------------------------------------------------ Merge keeps the invariant *)
Theorem merge_pinv : forall p o p' f, pinv p -> merge p o = Ok (p', f) ->
  pinv p' /\ (forall i, N.testbit (p_bits p) i = true -> N.testbit (p_bits p') i = true).
Proof.
  intros p o p' f [h Hinv] E. unfold merge in E.
  destruct (negb (matches p o)); [inversion E; subst; split; [exists h; exact Hinv|auto]|].
  destruct (sparse_indices (p_tree o)) as [ids|s]; [|discriminate].
  destruct (merge_loop_spec (p_msg p) h (p_tree o) ids (p_tree p) true false Hinv)
    as (t' & av & inc & R1 & R2 & _ & _ & R5).
  rewrite R1 in E. inversion E; subst. split.
  - exists h. exact R2.
  - intros i Hi. unfold p_bits, set_tree. cbn [p_tree]. apply R5. auto.
Qed.

(* ------------------------------------------------------------------ all registers, all operation sequences *)
Definition regs_ok (rs : regs) : Prop := forall r p, reg_get rs r = Some p -> pinv p.

Lemma regs_ok_set : forall rs r p, regs_ok rs -> pinv p -> regs_ok (reg_set rs r p).
Proof.
  intros rs r p H Hp r' p'. unfold reg_set. cbn [reg_get]. destruct (Nat.eqb r r'); [|apply H].
  intro E. inversion E; subst. exact Hp.
Qed.

Lemma step_regs_ok : forall rs o, regs_ok rs -> regs_ok (fst (step rs o)).
Proof.
  intros rs o H. destruct o; cbn [step].
  - destruct (new_proof msg n hash) eqn:E; cbn [fst]; [|exact H].
    apply regs_ok_set; [exact H|]. eapply new_proof_ok_pinv; eauto.
  - destruct (reg_get rs r) as [p|] eqn:E; [|exact H].
    destruct (add_signature_spec p s key (H _ _ E)) as (p' & code & R1 & R2 & _). rewrite R1. cbn [fst].
    now apply regs_ok_set.
  - destruct (reg_get rs r) as [p|] eqn:E; [|exact H].
    destruct (reg_get rs o) as [q|] eqn:E2; [|exact H].
    destruct (merge p q) as [[p' f]|s] eqn:E3; [|exact H]. cbn [fst].
    apply regs_ok_set; [exact H|]. exact (proj1 (merge_pinv p q p' f (H _ _ E) E3)).
  - destruct (reg_get rs r) as [p|] eqn:E; [|exact H].
    destruct (merge_sparse_spec p hash ents (H _ _ E)) as (p' & R1 & R2 & _). rewrite R1. cbn [fst].
    now apply regs_ok_set.
  - destruct (reg_get rs r) as [p|] eqn:E; [|exact H].
    destruct (reg_get rs o) as [q|] eqn:E2; [|exact H].
    destruct (as_sparse q) as [[hh ents]|s]; [|exact H].
    destruct (merge_sparse_spec p hh ents (H _ _ E)) as (p' & R1 & R2 & _). rewrite R1. cbn [fst].
    now apply regs_ok_set.
  - destruct (reg_get rs r) as [p|]; [|exact H]. destruct (has_sparse_key_id p id). exact H.
  - destruct (reg_get rs r) as [p|]; exact H.
  - destruct (reg_get rs r) as [p|] eqn:E; [|exact H]. cbn [fst].
    apply regs_ok_set; [exact H|]. rewrite clone_eq. eapply H; eauto.
  - destruct (reg_get rs r) as [p|] eqn:E; [|exact H]. cbn [fst].
    apply regs_ok_set; [exact H|]. apply derive_pinv. eapply H; eauto.
  - destruct (reg_get rs r) as [p|]; exact H.
Qed.

Definition regs_after (rs : regs) (ops : list bop) : regs := fold_left (fun rs o => fst (step rs o)) ops rs.

Theorem run_invariant : forall ops rs, regs_ok rs -> regs_ok (regs_after rs ops).
Proof.
  induction ops as [|o ops IH]; intros rs H; cbn [regs_after fold_left]; [exact H|].
  apply IH. now apply step_regs_ok.
Qed.

Lemma regs_ok_nil : regs_ok [].
Proof. intros r p E. discriminate. Qed.

(** what [pinv] says, spelled out *)
Theorem pinv_meaning : forall p, pinv p ->
  (forall i, N.testbit (p_bits p) i = true ->
     i < t_n (p_tree p) /\
     exists idx sg, nthN (t_sigs (p_tree p)) idx = Some (Some sg) /\
                    In i (leaves_of (t_keys (p_tree p)) idx)) /\
  (forall idx sg, nthN (t_sigs (p_tree p)) idx = Some (Some sg) ->
     verify (key_at (t_keys (p_tree p)) idx) (p_msg p) sg = true /\
     forall i, In i (leaves_of (t_keys (p_tree p)) idx) -> N.testbit (p_bits p) i = true).
Proof.
  intros p [h Hinv]. pose proof Hinv as (Hwf & Hgen & Hex). split.
  - intros i Hi. apply Hex in Hi. destruct Hi as [A (d & off & Hd & Ho & [sg Hs] & Hin)].
    split; [assumption|]. exists (lstart h d + off), sg. split; [assumption|].
    destruct (Hgen _ _ Hs) as (ks & Hk & Hne & _). unfold leaves_of. rewrite Hk.
    apply (key_leaves h (p_tree p) d off ks Hwf Hd Ho Hk). auto.
  - intros idx sg Hs. destruct (Hgen _ _ Hs) as (ks & Hk & Hne & ->). split.
    + unfold key_at. rewrite Hk. apply verify_true. exists ks. auto.
    + intros i Hi. unfold leaves_of in Hi. rewrite Hk in Hi. eapply set_node_bits; eauto.
Qed.

(* ------------------------------------------------------------------ the walk never runs out of fuel *)
Lemma walk_rows_total : forall h sigs j fuel k skip acc,
  (h = j + k)%nat -> (j < fuel)%nat ->
  walk_rows fuel sigs (2 * Z.of_N (p2 h) - 2 * Z.of_N (p2 k))%Z (p2 k) skip acc <> None.
Proof.
  intros h sigs. induction j; intros fuel k skip acc Hh Hf.
  - destruct fuel; [lia|]. cbn [walk_rows]. assert (h = k) by lia. subst k.
    replace (2 * Z.of_N (p2 h) - 2 * Z.of_N (p2 h))%Z with 0%Z by lia.
    change (0 <? 0)%Z with false. cbv iota. discriminate.
  - destruct fuel; [lia|]. cbn [walk_rows].
    destruct (0 <? 2 * Z.of_N (p2 h) - 2 * Z.of_N (p2 k))%Z; [|discriminate].
    destruct (walk_row _ skip _) as [ids sk].
    replace (2 * Z.of_N (p2 h) - 2 * Z.of_N (p2 k) - Z.of_N (p2 k * 2))%Z
      with (2 * Z.of_N (p2 h) - 2 * Z.of_N (p2 (S k)))%Z by (cbn [p2]; lia).
    replace (p2 k * 2) with (p2 (S k)) by (cbn [p2]; lia).
    apply IHj; lia.
Qed.

Theorem sparse_indices_total : forall h t, wf_tree h t -> exists ids, sparse_indices t = Ok ids.
Proof.
  intros h t Hwf. unfold sparse_indices. pose proof (wf_sigs _ _ Hwf) as HL. pose proof (p2_pos h) as Hp.
  destruct (nthN_lt_some _ (t_sigs t) (lenN (t_sigs t) - 1)) as [x Hx]; [lia|]. rewrite Hx.
  destruct x; [eauto|].
  destruct (walk_rows 18 (t_sigs t) (Z.of_N (lenN (t_sigs t)) - 3) 2 [false; false] []) as [[acc skip]|] eqn:E; [eauto|].
  exfalso. destruct h as [|h'].
  - rewrite HL in E. cbn in E. discriminate.
  - revert E. rewrite HL.
    replace (Z.of_N (2 * p2 (S h') - 1) - 3)%Z with (2 * Z.of_N (p2 (S h')) - 2 * Z.of_N (p2 1))%Z by (cbn [p2] in *; lia).
    intro E.
    refine (walk_rows_total (S h') (t_sigs t) h' 18 1%nat [false; false] [] _ _ E);
      [lia | pose proof (wf_h _ _ Hwf); lia].
Qed.

Theorem merge_total : forall p o, pinv p -> pinv o -> exists p' f, merge p o = Ok (p', f).
Proof.
  intros p o [h Hinv] [h' (Hwf' & _)]. unfold merge. destruct (negb (matches p o)); [eauto|].
  destruct (sparse_indices_total h' (p_tree o) Hwf') as [ids E]. rewrite E.
  destruct (merge_loop_spec (p_msg p) h (p_tree o) ids (p_tree p) true false Hinv) as (t' & av & inc & R1 & _).
  rewrite R1. eauto.
Qed.

Theorem as_sparse_total : forall p, pinv p -> exists s, as_sparse p = Ok s.
Proof.
  intros p [h (Hwf & _)]. unfold as_sparse. destruct (sparse_indices_total h (p_tree p) Hwf) as [ids E].
  rewrite E. eauto.
Qed.

(** no operation of the machine panics on proofs built by the API, except the documented constructor
    panic.  ([BBits] has no panic branch at all: its observation is the bit list itself, which is [[999]]
    when validator 999 is the only signer, hence the second disjunct.) *)
Theorem step_no_panic : forall rs o, regs_ok rs ->
  snd (step rs o) = obs_panic ->
  (exists r n msg hash, o = BNew r n msg hash /\ (n < 1 \/ 65535 < n)) \/ (exists r, o = BBits r).
Proof.
  intros rs o H. destruct o; cbn [step].
  - destruct (N.ltb n 1) eqn:A; [apply N.ltb_lt in A; left; eauto 10|].
    destruct (N.ltb 65535 n) eqn:B; [apply N.ltb_lt in B; left; eauto 10|].
    apply N.ltb_ge in A. apply N.ltb_ge in B.
    destruct (new_proof_pinv msg n hash (conj A B)) as (p & E & _). rewrite E. cbn. discriminate.
  - destruct (reg_get rs r) as [p|] eqn:E; [|cbn; discriminate].
    destruct (add_signature_spec p s key (H _ _ E)) as (p' & code & R1 & _ & _ & _ & _ & _ & _ & _ & C3). rewrite R1. cbn [snd].
    unfold obs_panic. intro C. inversion C. subst code. lia.
  - destruct (reg_get rs r) as [p|] eqn:E; [|cbn; destruct (reg_get rs o); discriminate].
    destruct (reg_get rs o) as [q|] eqn:E2; [|cbn; discriminate].
    destruct (merge_total p q (H _ _ E) (H _ _ E2)) as (p' & f & R). rewrite R. cbn [snd].
    unfold obs_flags, obs_panic. destruct (f_all_valid f); cbn; discriminate.
  - destruct (reg_get rs r) as [p|] eqn:E; [|cbn; discriminate].
    destruct (merge_sparse_spec p hash ents (H _ _ E)) as (p' & R1 & _). rewrite R1. cbn [snd].
    unfold obs_flags, obs_panic. match goal with |- context [b2n (f_all_valid ?f)] => destruct (f_all_valid f) end; cbn; discriminate.
  - destruct (reg_get rs r) as [p|] eqn:E; [|cbn; destruct (reg_get rs o); discriminate].
    destruct (reg_get rs o) as [q|] eqn:E2; [|cbn; discriminate].
    destruct (as_sparse_total q (H _ _ E2)) as [[hh ents] R]. rewrite R.
    destruct (merge_sparse_spec p hh ents (H _ _ E)) as (p' & R1 & _). rewrite R1. cbn [snd].
    unfold obs_flags, obs_panic. match goal with |- context [b2n (f_all_valid ?f)] => destruct (f_all_valid f) end; cbn; discriminate.
  - destruct (reg_get rs r) as [p|]; [|cbn; discriminate]. destruct (has_sparse_key_id p id) as [a b].
    cbn. destruct a; discriminate.
  - destruct (reg_get rs r) as [p|] eqn:E; [|cbn; discriminate]. cbn [snd]. unfold obs_sparse.
    destruct (as_sparse_total p (H _ _ E)) as [[hh ents] R]. rewrite R.
    set (ids := sort_N _). clearbody ids. destruct ids as [|a [|b l]]; cbn; discriminate.
  - destruct (reg_get rs r) as [p|]; cbn; discriminate.
  - destruct (reg_get rs r) as [p|]; cbn; discriminate.
  - intros _. right. eauto.
Qed.

(* ------------------------------------------------------------------ Clone / Derive independence *)
Definition target (o : bop) : nat :=
  match o with
  | BNew r _ _ _ | BAdd r _ _ | BMerge r _ | BMergeSparse r _ _ | BMergeFrom r _ | BHas r _ | BSparse r | BBits r => r
  | BClone _ to | BDerive _ to => to
  end.

Theorem step_frame : forall rs o r, r <> target o -> reg_get (fst (step rs o)) r = reg_get rs r.
Proof.
  intros rs o r Hne.
  assert (S : forall p, reg_get (reg_set rs (target o) p) r = reg_get rs r).
  { intro p. unfold reg_set. cbn [reg_get]. destruct (Nat.eqb (target o) r) eqn:E; [|reflexivity].
    apply Nat.eqb_eq in E. congruence. }
  destruct o; cbn [step target] in *.
  - destruct (new_proof msg n hash); cbn [fst]; auto.
  - destruct (reg_get rs r0); [|reflexivity]. destruct (add_signature p s key) as [[p' c]|]; cbn [fst]; auto.
  - destruct (reg_get rs r0); [|reflexivity]. destruct (reg_get rs o); [|reflexivity].
    destruct (merge p p0) as [[p' f]|]; cbn [fst]; auto.
  - destruct (reg_get rs r0); [|reflexivity]. destruct (merge_sparse p hash ents) as [[p' f]|]; cbn [fst]; auto.
  - destruct (reg_get rs r0); [|reflexivity]. destruct (reg_get rs o); [|reflexivity].
    destruct (as_sparse p0) as [[hh ents]|]; [|reflexivity].
    destruct (merge_sparse p hh ents) as [[p' f]|]; cbn [fst]; auto.
  - destruct (reg_get rs r0); [|reflexivity]. destruct (has_sparse_key_id p id). reflexivity.
  - destruct (reg_get rs r0); reflexivity.
  - destruct (reg_get rs r0); cbn [fst]; auto.
  - destruct (reg_get rs r0); cbn [fst]; auto.
  - destruct (reg_get rs r0); reflexivity.
Qed.

(** after Clone / Derive of r into [to], any operations aimed at other registers leave r as it was *)
Theorem clone_independent : forall ops rs r,
  (forall o, In o ops -> target o <> r) -> reg_get (regs_after rs ops) r = reg_get rs r.
Proof.
  induction ops as [|o ops IH]; intros rs r H; cbn [regs_after fold_left]; [reflexivity|].
  fold (regs_after (fst (step rs o)) ops). rewrite IH by (intros o' Ho'; apply H; right; assumption).
  apply step_frame. intro C. apply (H o); [left; reflexivity|congruence].
Qed.

(* ------------------------------------------------------------------ key ids *)
Lemma be16_roundtrip : forall id, id < 65536 -> id_of_bytes (be16 id) = id.
Proof.
  intros id H. unfold be16, id_of_bytes.
  pose proof (N.div_mod id 256 ltac:(lia)) as DM. pose proof (N.mod_upper_bound id 256 ltac:(lia)) as DU.
  assert (id / 256 < 256) by (apply N.div_lt_upper_bound; lia).
  rewrite (N.mod_small (id / 256) 256) by assumption.
  remember (id / 256) as q. remember (id mod 256) as r. lia.
Qed.

(** up to 32768 keys every node id fits the two key-id bytes *)
Theorem node_ids_fit : forall n id, 1 <= n <= 32768 -> id < 2 * leaves_width n - 1 ->
  id_of_bytes (be16 (id mod 65536)) = id.
Proof.
  intros n id Hn Hid. destruct (leaves_width_p2 n ltac:(lia)) as (h & Hh & Hw & Hle).
  assert (leaves_width n <= 32768).
  { pose proof lw_all as A. rewrite forallb_forall in A. clear A.
    (* leaves_width n < 2 n unless n is itself a power of two: checked for every size *)
    assert (B : forallb (fun n => leaves_width n <=? 32768) (rangeN 1 32768) = true) by (vm_compute; reflexivity).
    rewrite forallb_forall in B. apply N.leb_le. apply B. apply rangeN_In. lia. }
  rewrite N.mod_small by lia. apply be16_roundtrip. lia.
Qed.

(* ------------------------------------------------------------------ packaged for Properties/C13Bls.v *)
Theorem no_bit_without_valid_sig : forall ops r p,
  reg_get (regs_after [] ops) r = Some p ->
  (forall i, N.testbit (p_bits p) i = true ->
     i < t_n (p_tree p) /\
     exists idx sg, nthN (t_sigs (p_tree p)) idx = Some (Some sg) /\
                    In i (leaves_of (t_keys (p_tree p)) idx)) /\
  (forall idx sg, nthN (t_sigs (p_tree p)) idx = Some (Some sg) ->
     verify (key_at (t_keys (p_tree p)) idx) (p_msg p) sg = true /\
     forall i, In i (leaves_of (t_keys (p_tree p)) idx) -> N.testbit (p_bits p) i = true).
Proof.
  intros ops r p E. apply pinv_meaning. exact (run_invariant ops [] regs_ok_nil r p E).
Qed.

Theorem merge_total_pinv : forall p o, pinv p -> pinv o ->
  exists p' f, merge p o = Ok (p', f) /\ pinv p' /\
    (forall i, N.testbit (p_bits p) i = true -> N.testbit (p_bits p') i = true).
Proof.
  intros p o Hp Ho. destruct (merge_total p o Hp Ho) as (p' & f & E). exists p', f. split; [exact E|].
  exact (merge_pinv p o p' f Hp E).
Qed.

Theorem run_no_panic : forall ops o,
  snd (step (regs_after [] ops) o) = obs_panic ->
  (exists r n msg hash, o = BNew r n msg hash /\ (n < 1 \/ 65535 < n)) \/ (exists r, o = BBits r).
Proof. intros ops o. apply step_no_panic. apply run_invariant. exact regs_ok_nil. Qed.

(** the observations compared by the correspondence check are those of the same steps *)
Lemma run_from_steps : forall ops rs, run_from rs ops =
  match ops with [] => [] | o :: t => snd (step rs o) :: run_from (fst (step rs o)) t end.
Proof. intros [|o t] rs; cbn [run_from]; [reflexivity|]. destruct (step rs o). reflexivity. Qed.
