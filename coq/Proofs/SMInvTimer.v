(** C12(a) over ALL event histories of the round state machine model, from the inductive invariant
    [Inv] (Proofs/SMInvStep.v): at most one step timer is outstanding, an outstanding timer is the one
    of the step the machine is in (every exit from a timed step has cancelled it), and the converse
    direction with its counterexample. *)
From Coq Require Import List NArith String Bool Lia.
From GV Require Import Base.Ints Gen.Math Gen.StepSM Model.StateMachine Model.SMWire Model.SMWalk
  Proofs.SMInv Proofs.SMInvH Proofs.SMInvStep Proofs.SMWitness.
Import ListNotations.
Local Open Scope N_scope.

(** the process has not halted, panicked or wedged *)
Definition alive (s : sm) : Prop :=
  match run s with Halted | Panicked _ | Wedged => False | _ => True end.

Lemma final_state_app s es1 es2 : final_state s (es1 ++ es2) = final_state (final_state s es1) es2.
Proof. revert s. induction es1 as [|e es1 IH]; intros s; simpl; [reflexivity|apply IH]. Qed.

(** (I1) the overlap flag of every timer start in every history is false *)
Theorem no_timer_overlap sg es outs k h r ov :
  In outs (run_events (sm0 sg) es) -> In (OTimerStart k h r ov) outs -> ov = false.
Proof.
  intros H1 H2. pose proof (outputs_reachable sg es) as F.
  pose proof (proj1 (Forall_forall _ _) F outs H1) as F1.
  exact (proj1 (Forall_forall _ _) F1 _ H2).
Qed.

(** (I1) an outstanding timer is the timer of the step the machine is in, for the round it is in *)
Theorem outstanding_timer_matches_step sg es k h r :
  let s := final_state (sm0 sg) es in
  alive s -> hTimer s = Some (k, h, r) ->
  run s = Idle /\ rTimer (rl s) = Some (k, h, r) /\ h = rH (rl s) /\ r = rR (rl s) /\ 1 <= k <= 4 /\
  rS (rl s) = tstep k /\ rVRV (rl s) <> None.
Proof.
  intros s A HT. pose proof (Inv_reachable sg es) as HI. fold s in HI.
  unfold Inv in HI. unfold alive in A.
  destruct (run s) eqn:R; try contradiction.
  - destruct HI as (_ & E & _). congruence.
  - destruct HI as (((_ & E) & _) & _). congruence.
  - destruct HI as ((_ & E) & _). congruence.
  - destruct HI as ((T & E & O & _) & TV). rewrite HT in E. symmetry in E.
    destruct (T k h r E) as (A1 & A2 & A3 & A4).
    repeat split; auto; try (apply A3). apply TV. congruence.
Qed.

(** (I1) conversely what the machine believes to be running is outstanding; nothing runs while a
    round entrance is awaited or before the start *)
Theorem believed_timer_is_outstanding sg es :
  let s := final_state (sm0 sg) es in
  alive s -> rTimer (rl s) = hTimer s /\ (run s <> Idle -> hTimer s = None).
Proof.
  intros s A. pose proof (Inv_reachable sg es) as HI. fold s in HI.
  unfold Inv in HI. unfold alive in A.
  destruct (run s) eqn:R; try contradiction.
  - destruct HI as (E0 & E & _). rewrite E0, E. split; [reflexivity|auto].
  - destruct HI as (((E1 & E) & _) & _). split; [congruence|auto].
  - destruct HI as ((E1 & E) & _). split; [congruence|auto].
  - destruct HI as ((T & E & O & _) & TV). split; [congruence|congruence].
Qed.

(** (I1) every exit from a timed step cancels its timer: after an event that leaves the step or the
    round of an outstanding timer, that timer is no longer outstanding *)
Theorem exit_from_timed_step_cancels sg es e k h r :
  let s := final_state (sm0 sg) es in
  let s' := fst (step s e) in
  alive s' -> hTimer s = Some (k, h, r) ->
  (rS (rl s') <> tstep k \/ rH (rl s') <> h \/ rR (rl s') <> r) -> hTimer s' <> Some (k, h, r).
Proof.
  intros s s' A HT HX E.
  assert (Es : s' = final_state (sm0 sg) (es ++ [e])) by (rewrite final_state_app; reflexivity).
  rewrite Es in A, E.
  destruct (outstanding_timer_matches_step sg (es ++ [e]) k h r A E) as (_ & _ & B1 & B2 & _ & B3 & _).
  rewrite <- Es in *. destruct HX as [X|[X|X]]; congruence.
Qed.

(** the converse "in a timed step a timer is outstanding" is FALSE of the faithful model: after a
    committed-header response inside [advance] the step of the previous round stays (rlc.S is not
    reset, nothing re-arms a timer); here the machine sits idle in AwaitingProposal with no timer *)
Definition w_stale_step : list event :=
  [ EvStart;
    EvRERespVRV (mkv 1 0 1 (vs_of 0 0 [] []) []);
    EvView (mkv 1 0 2 (vs_of 0 0 [] []) []) (Some (1, 1));
    EvRERespCH [7] 1 0 ].

Theorem timed_step_has_timer_refuted :
  let s := final_state (sm0 true) w_stale_step in
  run s = Idle /\ rS (rl s) = StepAwaitingProposal /\ (rH (rl s), rR (rl s)) = (1, 1) /\
  hTimer s = None /\ rTimer (rl s) = None.
Proof. vm_compute. repeat split; reflexivity. Qed.

(** non-vacuity: a history with an outstanding timer in a live state, and timer starts in its outputs *)
Definition ex_timer_hist : list event :=
  [ EvStart; EvRERespVRV (mkv 1 0 1 (vs_of 0 0 [] []) []);
    EvView (mkv 1 0 2 (vs_of 30 0 [([7], 20); ([], 10)] []) [gph 7]) None ].

Example ex_timer_outstanding :
  let s := final_state (sm0 true) ex_timer_hist in
  run s = Idle /\ hTimer s = Some (2, 1, 0) /\ rS (rl s) = StepPrevoteDelay /\
  List.concat (run_events (sm0 true) ex_timer_hist) =
    [ORoundEntrance 1 0 true true; OEnterRound 1 0 true; OTimerStart 1 1 0 false;
     OTimerCancel 1 1 0 true; OTimerStart 2 1 0 false;
     OConsider [[7]] [[7]] [] true].
Proof. vm_compute. repeat split; reflexivity. Qed.
