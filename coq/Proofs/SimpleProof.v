(** C13 - proofs about the simple signature-proof model (Model/SimpleProof.v). *)
From Coq Require Import List NArith ZArith String Bool Lia ZifyBool ZifyN Permutation.
From GV Require Import Base.Ints Gen.KeyID Model.SimpleProofBase Model.SimpleProof.
Import ListNotations.
Local Open Scope N_scope.

Lemma new_proof_ok msg keys hash : keys <> [] ->
  new_proof msg keys hash = Ok (mk_proof msg keys hash 0 []).
Proof. destruct keys; [congruence|reflexivity]. Qed.
