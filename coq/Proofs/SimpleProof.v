(** C13 - proofs about the simple signature-proof model (Model/SimpleProof.v). *)
From Coq Require Import List NArith ZArith String Bool Lia ZifyBool ZifyN Permutation.
From GV Require Import Base.Ints Gen.KeyID Model.SimpleProofBase Model.SimpleProof Monitors.C13m.
Import ListNotations.
Local Open Scope N_scope.

(* ------------------------------------------------------------------ basics *)
Lemma new_proof_ok msg keys hash : keys <> [] ->
  new_proof msg keys hash = Ok (mk_proof msg keys hash 0 []).
Proof. destruct keys; [congruence|reflexivity]. Qed.

Lemma sigv_eqb_eq a b : sigv_eqb a b = true <-> a = b.
Proof.
  destruct a as [k m s|n], b as [k' m' s'|n']; cbn [sigv_eqb]; split; intros H; try discriminate.
  - apply andb_true_iff in H as [H H3]. apply andb_true_iff in H as [H1 H2].
    apply N.eqb_eq in H1, H3. apply bytes_eqb_eq in H2. congruence.
  - inversion H; subst. rewrite !N.eqb_refl, bytes_eqb_refl. reflexivity.
  - apply N.eqb_eq in H. congruence.
  - inversion H; subst. apply N.eqb_refl.
Qed.

Lemma sigv_eqb_refl a : sigv_eqb a a = true.
Proof. apply sigv_eqb_eq. reflexivity. Qed.

Lemma verify_signer k k' m s : sig_verify k m s = true -> sig_verify k' m s = true -> k = k'.
Proof.
  destruct s as [k0 m0 s0|n]; cbn [sig_verify]; [|discriminate].
  intros H1 H2. apply andb_true_iff in H1 as [H1 _]. apply andb_true_iff in H2 as [H2 _].
  apply N.eqb_eq in H1, H2. congruence.
Qed.

Lemma testbit_bit i j : N.testbit (bit i) j = N.eqb i j.
Proof.
  unfold bit. destruct (N.eqb_spec i j) as [->|Hne].
  - rewrite N.shiftl_spec_high' by lia. replace (j - j) with 0 by lia. reflexivity.
  - destruct (N.lt_ge_cases j i).
    + apply N.shiftl_spec_low. assumption.
    + rewrite N.shiftl_spec_high' by assumption.
      replace 1 with (2 ^ 0) by reflexivity. apply N.pow2_bits_false. lia.
Qed.

Ltac bitwise :=
  apply N.bits_inj; intro; rewrite ?N.land_spec, ?N.lor_spec, ?N.bits_0;
  repeat match goal with |- context [N.testbit ?a ?b] => destruct (N.testbit a b) end; reflexivity.

Lemma lor_superset a b : is_superset (N.lor a b) a = true.
Proof. unfold is_superset. apply N.eqb_eq. bitwise. Qed.

(* ------------------------------------------------------------------ key_index *)
Lemma key_index_lt keys k t : key_index keys k = Some t -> (N.to_nat t < List.length keys)%nat.
Proof.
  revert t; induction keys as [|k' ks IH]; cbn [key_index List.length]; intros t H; [discriminate|].
  destruct (key_index ks k) as [i|] eqn:E.
  - inversion H; subst. specialize (IH i eq_refl). lia.
  - destruct (N.eqb k' k); inversion H; subst. cbn. lia.
Qed.

Lemma key_index_nth keys k t : key_index keys k = Some t -> nth_key keys t = Some k.
Proof.
  unfold nth_key. revert t; induction keys as [|k' ks IH]; cbn [key_index]; intros t H; [discriminate|].
  destruct (key_index ks k) as [i|] eqn:E.
  - inversion H; subst. specialize (IH i eq_refl).
    replace (N.to_nat (i + 1)) with (S (N.to_nat i)) by lia. exact IH.
  - destruct (N.eqb_spec k' k); inversion H; subst. reflexivity.
Qed.

Lemma key_index_none keys k : key_index keys k = None -> mem_N k keys = false.
Proof.
  induction keys as [|k' ks IH]; cbn [key_index mem_N]; intros H; [reflexivity|].
  destruct (key_index ks k); [discriminate|].
  destruct (N.eqb k' k); [discriminate|]. cbn. apply IH. reflexivity.
Qed.

Lemma key_index_nodup keys n k : nodup_N keys = true -> nth_key keys n = Some k -> key_index keys k = Some n.
Proof.
  unfold nth_key. revert n; induction keys as [|k' ks IH]; intros n Hnd H.
  - destruct (N.to_nat n); discriminate.
  - cbn [nodup_N] in Hnd. apply andb_true_iff in Hnd as [Hm Hnd].
    cbn [key_index]. destruct (N.to_nat n) as [|n'] eqn:En.
    + cbn in H. inversion H; subst k'.
      destruct (key_index ks k) as [i|] eqn:E.
      * apply key_index_nth in E. unfold nth_key in E. apply nth_error_In in E.
        assert (mem_N k ks = true).
        { clear -E. induction ks as [|y ys IH]; [destruct E|]. cbn. destruct E as [->|E]; [rewrite N.eqb_refl; reflexivity|].
          rewrite IH by assumption. apply orb_true_r. }
        rewrite H0 in Hm. discriminate.
      * rewrite N.eqb_refl. f_equal. lia.
    + cbn in H. specialize (IH (N.of_nat n') Hnd). rewrite Nnat.Nat2N.id in IH. rewrite (IH H).
      f_equal. lia.
Qed.

(* ------------------------------------------------------------------ the generated guards *)
Lemma len_ne2 (l : list N) : List.length l <> 2%nat -> negb (Z.eqb (Z.of_nat (List.length l)) 2) = true.
Proof. intros H. destruct (Z.eqb_spec (Z.of_nat (List.length l)) 2); [lia|reflexivity]. Qed.

Lemma key_id_valid_spec nkeys id :
  be_uint16_key_id_valid (mk_klc (Z.of_nat nkeys)) id =
  Ok (match entry_index nkeys id with Some _ => true | None => false end).
Proof.
  unfold be_uint16_key_id_valid, entry_index.
  destruct id as [|x [|y [|z t]]]; try (rewrite len_ne2 by (cbn [List.length]; lia); reflexivity).
  - cbn [List.length negb Z.eqb Z.of_nat Pos.of_succ_nat Pos.succ Pos.eqb be_uint16 bind klc_nKeys].
    destruct (Z.ltb_spec (Z.of_N (x * 256 + y)) (Z.of_nat nkeys)); cbn [andb];
      destruct (Z.leb_spec 0 (Z.of_N (x * 256 + y))); try reflexivity; lia.
Qed.

Lemma has_sparse_key_id_spec p id :
  has_sparse_key_id p id =
  Ok (match entry_index (List.length (p_keys p)) id with
      | Some n => (N.testbit (p_bits p) n, true)
      | None => (false, false)
      end).
Proof.
  unfold has_sparse_key_id, has_sparse_key_id_gen, entry_index.
  destruct id as [|x [|y [|z t]]]; try (rewrite len_ne2 by (cbn [List.length]; lia); reflexivity).
  - cbn [List.length negb Z.eqb Z.of_nat Pos.of_succ_nat Pos.succ Pos.eqb be_uint16 bind skp_keys skp_bitset].
    destruct (Z.ltb_spec (Z.of_N (x * 256 + y)) (Z.of_nat (List.length (p_keys p))));
      destruct (Z.ltb_spec (Z.of_N (x * 256 + y)) 0);
      destruct (Z.leb_spec (Z.of_nat (List.length (p_keys p))) (Z.of_N (x * 256 + y))); cbn [orb]; try reflexivity; lia.
Qed.

Lemma entry_index_lt nkeys id n : entry_index nkeys id = Some n -> (N.to_nat n < nkeys)%nat.
Proof.
  unfold entry_index. destruct id as [|x [|y [|z t]]]; try discriminate.
  destruct (Z.ltb_spec (Z.of_N (x * 256 + y)) (Z.of_nat nkeys)); [|discriminate].
  intros H'; inversion H'; subst. lia.
Qed.

Lemma entry_index_be16 nkeys id n : entry_index nkeys id = Some n -> be_uint16 id "MergeSparse:344"%string = Ok n.
Proof.
  unfold entry_index. destruct id as [|x [|y [|z t]]]; try discriminate.
  destruct (Z.of_N (x * 256 + y) <? Z.of_nat nkeys)%Z; [|discriminate].
  intros H'; inversion H'; subst. reflexivity.
Qed.
