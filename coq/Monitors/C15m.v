(** Executable monitors for C15, evaluated on the IMPLEMENTATION's observed outputs
    (real Block() hashes and real sign bytes). They decide "same content" on the structured
    inputs directly (never through the serialisation) and compare with equality of the outputs. *)
From Coq Require Import List NArith Bool.
From GV Require Import Base.Ints Model.TextFmt Model.HashScheme Model.SignBytes.
Import ListNotations.
Local Open Scope N_scope.

Definition opt_bytes_eqb (a b : option (list N)) : bool :=
  match a, b with
  | Some x, Some y => bytes_eqb x y
  | None, None => true
  | _, _ => false
  end.

Definition sig_eqb (a b : sparse_sig) : bool :=
  bytes_eqb (ss_keyid a) (ss_keyid b) && bytes_eqb (ss_sig a) (ss_sig b).

Definition count_sig (x : sparse_sig) (l : list sparse_sig) : nat := length (filter (sig_eqb x) l).

(** Same multiset of signatures. *)
Definition sigs_equivb (s s' : list sparse_sig) : bool :=
  forallb (fun x => Nat.eqb (count_sig x s) (count_sig x s')) (s ++ s').

Definition entry_equivb (a b : option (list sparse_sig)) : bool :=
  match a, b with
  | Some s, Some s' => sigs_equivb s s'
  | None, None => true
  | _, _ => false
  end.

(** Same finite map from block hash to multiset of signatures. *)
Definition proofs_equivb (pa pb : list (list N * list sparse_sig)) : bool :=
  forallb (fun k => entry_equivb (alookup k pa) (alookup k pb)) (map fst pa ++ map fst pb).

Definition annotations_eqb (a b : annotations) : bool :=
  opt_bytes_eqb (an_user a) (an_user b) && opt_bytes_eqb (an_driver a) (an_driver b).

(** Equality of every header field except [h_hash]; validator sets through their two hashes. *)
Definition hdr_equivb (a b : header) : bool :=
  bytes_eqb (h_prev_block_hash a) (h_prev_block_hash b) &&
  (h_height a =? h_height b) &&
  (cp_round (h_prev_commit_proof a) =? cp_round (h_prev_commit_proof b)) &&
  bytes_eqb (cp_pubkeyhash (h_prev_commit_proof a)) (cp_pubkeyhash (h_prev_commit_proof b)) &&
  proofs_equivb (cp_proofs (h_prev_commit_proof a)) (cp_proofs (h_prev_commit_proof b)) &&
  bytes_eqb (vs_pubkeyhash (h_valset a)) (vs_pubkeyhash (h_valset b)) &&
  bytes_eqb (vs_votepowerhash (h_valset a)) (vs_votepowerhash (h_valset b)) &&
  bytes_eqb (vs_pubkeyhash (h_next_valset a)) (vs_pubkeyhash (h_next_valset b)) &&
  bytes_eqb (vs_votepowerhash (h_next_valset a)) (vs_votepowerhash (h_next_valset b)) &&
  bytes_eqb (h_data_id a) (h_data_id b) &&
  bytes_eqb (h_prev_app_state_hash a) (h_prev_app_state_hash b) &&
  annotations_eqb (h_annotations a) (h_annotations b).

(** Block hash monitor on two observations (header, real Block() output):
    the outputs are equal exactly when the headers are equivalent. *)
Definition c15_block_pair_mon (ha : header) (xa : list N) (hb : header) (xb : list N) : bool :=
  Bool.eqb (hdr_equivb ha hb) (bytes_eqb xa xb).

Definition vote_kind_eqb (a b : vote_kind) : bool :=
  match a, b with Prevote, Prevote => true | Precommit, Precommit => true | _, _ => false end.

Definition vote_target_eqb (a b : vote_target) : bool :=
  (vt_height a =? vt_height b) && (vt_round a =? vt_round b) &&
  bytes_eqb (vt_block_hash a) (vt_block_hash b).

(** The signed content of a proposal: five header fields, the round, the proposal annotations. *)
Definition proposal_eqb (h : header) (r : N) (pb : annotations) (h' : header) (r' : N) (pb' : annotations) : bool :=
  (h_height h =? h_height h') && (r =? r') &&
  bytes_eqb (h_prev_block_hash h) (h_prev_block_hash h') &&
  bytes_eqb (h_prev_app_state_hash h) (h_prev_app_state_hash h') &&
  bytes_eqb (h_data_id h) (h_data_id h') &&
  annotations_eqb pb pb'.

Definition sign_target_eqb (a b : sign_target) : bool :=
  match a, b with
  | SignVote k vt, SignVote k' vt' => vote_kind_eqb k k' && vote_target_eqb vt vt'
  | SignProposal h r pb, SignProposal h' r' pb' => proposal_eqb h r pb h' r' pb'
  | _, _ => false
  end.

(** Sign bytes monitor on two observations (target, real sign bytes):
    the byte strings are equal exactly when kind and content are equal. *)
Definition c15_sign_pair_mon (ta : sign_target) (xa : list N) (tb : sign_target) (xb : list N) : bool :=
  Bool.eqb (sign_target_eqb ta tb) (bytes_eqb xa xb).

(** Validator-set hashes: same ordered list exactly when same hash ([None] = the call panicked). *)
Fixpoint list_eqb {A} (eqb : A -> A -> bool) (a b : list A) : bool :=
  match a, b with
  | [], [] => true
  | x :: a', y :: b' => eqb x y && list_eqb eqb a' b'
  | _, _ => false
  end.

Definition opt_out_eqb (a b : option (list N)) : bool := opt_bytes_eqb a b.

Definition c15_pubkeys_pair_mon (ka : list (list N)) (xa : option (list N)) (kb : list (list N)) (xb : option (list N)) : bool :=
  match ka, kb with
  | [], _ | _, [] => true   (* the scheme panics on an empty list; nothing is claimed *)
  | _, _ => match xa, xb with
            | Some a, Some b => Bool.eqb (list_eqb bytes_eqb ka kb) (bytes_eqb a b)
            | _, _ => false
            end
  end.

Definition c15_votepowers_pair_mon (pa : list N) (xa : option (list N)) (pb : list N) (xb : option (list N)) : bool :=
  match pa, pb with
  | [], _ | _, [] => true
  | _, _ => match xa, xb with
            | Some a, Some b => Bool.eqb (list_eqb N.eqb pa pb) (bytes_eqb a b)
            | _, _ => false
            end
  end.
