(** Boolean monitors for C08 / C02 / C12(a), evaluated on the IMPLEMENTATION's observations.
    A trace is a list of (encoded event, observed items); the items of one event are the harness's
    state-machine group followed by its consensus-manager group (encoding: Model/SMWire.v,
    harness/sm/main.go). This file imports neither Gen/ nor Proofs/. *)
From Coq Require Import List NArith Bool.
Import ListNotations.
Local Open Scope N_scope.

Definition item := list N.
Definition obs := (list N * list item)%type.

Definition hd0 (l : list N) : N := match l with x :: _ => x | [] => 0 end.
Definition nthN (l : list N) (i : nat) : N := nth i l 0.
Fixpoint leqb (a b : list N) : bool :=
  match a, b with [], [] => true | x :: a', y :: b' => (x =? y) && leqb a' b' | _, _ => false end.

(** C12(a): a timer is never started while another one is outstanding *)
Definition c12_one_timer (t : list obs) : bool :=
  forallb (fun o => forallb (fun it => negb ((hd0 it =? 16) && negb (nthN it 4 =? 0))) (snd o)) t.

(** C02: every emitted vote/proposal is preceded, in the same event, by a successful save of the same
    action made while nothing was pending on the outgoing channel; at start-up (round entrance response)
    a recorded proposal may be re-sent. *)
Definition save_tag (emit_tag : N) : N := emit_tag - 3.   (* 12->9, 13->10, 14->11 *)
Fixpoint order_ok (ev_tag : N) (seen : list item) (its : list item) : bool :=
  match its with
  | [] => true
  | it :: rest =>
      let tg := hd0 it in
      let ok :=
        if (tg =? 12) || (tg =? 13) then
          existsb (fun s => (hd0 s =? save_tag tg) && (nthN s 3 =? nthN it 3) && (nthN s 4 =? 0) && (nthN s 5 =? 0)) seen
        else if tg =? 14 then
          (ev_tag =? 3) || existsb (fun s => (hd0 s =? 11) && (nthN s 3 =? 0) && (nthN s 4 =? 0)) seen
        else true in
      ok && order_ok ev_tag (seen ++ [it]) rest
  end.
Definition c02_save_before_emit (t : list obs) : bool :=
  forallb (fun o => order_ok (hd0 (fst o)) [] (snd o)) t.

(** C02: at most one signature of each kind per height/round. [across_restarts = false]: the set is
    forgotten at every start of the state machine (one process lifetime). *)
Fixpoint once_ok (across_restarts : bool) (signed : list item) (t : list obs) : bool :=
  match t with
  | [] => true
  | (ev, its) :: rest =>
      let signed0 := if (hd0 ev =? 1) && negb across_restarts then [] else signed in
      let step := fold_left (fun (acc : bool * list item) it =>
                    let tg := hd0 it in
                    if (6 <=? tg) && (tg <=? 8) then
                      let key := [tg; nthN it 1; nthN it 2] in
                      (fst acc && negb (existsb (leqb key) (snd acc)), key :: snd acc)
                    else acc) its (true, signed0) in
      fst step && once_ok across_restarts (snd step) rest
  end.
Definition c02_one_signature_per_lifetime (t : list obs) : bool := once_ok false [] t.
Definition c02_one_signature_ever (t : list obs) : bool := once_ok true [] t.

(** C02: what is RELEASED (emitted towards the mirror / network): across restarts on the same stores at
    most one prevote and one precommit per height/round, and proposals of one height/round all for the
    same block data (a recorded proposal may be re-sent at start-up) *)
Fixpoint emit_once_ok (sent : list item) (t : list obs) : bool :=
  match t with
  | [] => true
  | (ev, its) :: rest =>
      let step := fold_left (fun (acc : bool * list item) it =>
                    let tg := hd0 it in
                    if (tg =? 12) || (tg =? 13) then
                      let key := [tg; nthN it 1; nthN it 2] in
                      (fst acc && negb (existsb (fun k => leqb (firstn 3 k) key) (snd acc)), (key ++ [nthN it 3]) :: snd acc)
                    else if (tg =? 14) && negb (nthN it 3 =? 254) then
                      let key := [tg; nthN it 1; nthN it 2] in
                      (fst acc && negb (existsb (fun k => leqb (firstn 3 k) key && negb (nthN k 3 =? nthN it 3)) (snd acc)),
                       (key ++ [nthN it 3]) :: snd acc)
                    else acc) its (true, sent) in
      fst step && emit_once_ok (snd step) rest
  end.
Definition c02_one_emission_ever (t : list obs) : bool := emit_once_ok [] t.

(** C08: votes are signed / saved / emitted only in the event that delivers the strategy's answer, for
    the answered hash; proposals only for the strategy's proposal *)
Definition c08_targets (t : list obs) : bool :=
  forallb (fun o =>
    let ev := fst o in
    forallb (fun it =>
      let tg := hd0 it in
      if (tg =? 6) || (tg =? 7) || (tg =? 9) || (tg =? 10) || (tg =? 12) || (tg =? 13) then
        (hd0 ev =? 9) && (nthN ev 1 =? 0) && (nthN ev 2 =? nthN it 3)
      else if tg =? 8 then (hd0 ev =? 10) && (nthN ev 1 =? nthN it 3)
      else true) (snd o)) t.

(** C10 (state-machine half): a restart on the same stores resumes where the stores say. The first round
    entrance of a lifetime is (h+1, 0) when the finalization of the recorded height h is stored, and the
    recorded (h, r) otherwise (recorded = the last SetStateMachineHeightRound, item 18; a stored
    finalization = item 19 with result 0). *)
Fixpoint resume_ok (rec : option (N * N)) (fins : list N) (pending : bool) (t : list obs) : bool :=
  match t with
  | [] => true
  | (ev, its) :: rest =>
      let pending0 := if hd0 ev =? 1 then true else pending in
      let step := fold_left (fun (acc : bool * option (N * N) * list N * bool) it =>
                    let '(ok, rc, fs, pend) := acc in
                    let tg := hd0 it in
                    if tg =? 18 then (ok, Some (nthN it 1, nthN it 2), fs, pend)
                    else if (tg =? 19) && (nthN it 6 =? 0) then (ok, rc, nthN it 1 :: fs, pend)
                    else if (tg =? 1) && pend then
                      let good := match rc with
                                  | None => true
                                  | Some (h, r) =>
                                      if existsb (N.eqb h) fs then (nthN it 1 =? h + 1) && (nthN it 2 =? 0)
                                      else (nthN it 1 =? h) && (nthN it 2 =? r)
                                  end in
                      (ok && good, rc, fs, false)
                    else acc) its (true, rec, fins, pending0) in
      let '(ok, rc, fs, pend) := step in
      ok && resume_ok rc fs pend rest
  end.
Definition c10_sm_resume (t : list obs) : bool := resume_ok None [] false t.

(** C08: a view of another height/round than the one the machine announced last (and carrying no
    jump-ahead) changes nothing: the event has no output at all (22 = the harness could not even deliver it) *)
Fixpoint stale_inert (cur : option (N * N)) (t : list obs) : bool :=
  match t with
  | [] => true
  | (ev, its) :: rest =>
      let cur0 := if hd0 ev =? 1 then None else cur in
      let ja := firstn 2 (rev ev) in
      let ok := match cur0 with
                | Some (h, r) =>
                    if (hd0 ev =? 5) && negb ((nthN ev 1 =? h) && (nthN ev 2 =? r)) && leqb ja [0; 0]
                    then forallb (fun it => hd0 it =? 22) its else true
                | None => true
                end in
      let cur1 := fold_left (fun a it => if hd0 it =? 1 then Some (nthN it 1, nthN it 2) else a) its cur0 in
      ok && stale_inert cur1 rest
  end.
Definition c08_stale_view_inert (t : list obs) : bool := stale_inert None t.

(** C08: signatures, saves and timers refer to the round announced by the latest round entrance, and the
    announced rounds strictly increase within one process lifetime *)
Definition lt_hr (a b : N * N) : bool := (fst a <? fst b) || ((fst a =? fst b) && (snd a <? snd b)).
Fixpoint rounds_ok (cur : option (N * N)) (t : list obs) : bool :=
  match t with
  | [] => true
  | (ev, its) :: rest =>
      let cur0 := if hd0 ev =? 1 then None else cur in
      let step := fold_left (fun (acc : bool * option (N * N)) it =>
                    let tg := hd0 it in
                    if tg =? 1 then
                      let nw := (nthN it 1, nthN it 2) in
                      (fst acc && match snd acc with None => true | Some c => lt_hr c nw end, Some nw)
                    else if ((6 <=? tg) && (tg <=? 11)) || (tg =? 16) then
                      let hr := if tg =? 16 then (nthN it 2, nthN it 3) else (nthN it 1, nthN it 2) in
                      (fst acc && match snd acc with Some c => (fst c =? fst hr) && (snd c =? snd hr) | None => false end, snd acc)
                    else acc) its (true, cur0) in
      fst step && rounds_ok (snd step) rest
  end.
Definition c08_rounds (t : list obs) : bool := rounds_ok None t.

(** C08: a finalize request is a replayed committed header, or is for the non-nil most voted precommit
    block of the view carried by this event, which has more than two thirds of the available power *)
Fixpoint skip_pairs (n : nat) (l : list N) : list N :=
  match n with O => l | S n' => match l with _ :: _ :: l' => skip_pairs n' l' | _ => [] end end.
Fixpoint lookup_pair (n : nat) (l : list N) (k : N) : N :=
  match n with O => 0 | S n' => match l with a :: b :: l' => if a =? k then b else lookup_pair n' l' k | _ => 0 end end.
Definition view_pc_quorum (ev : list N) : N * N * N * bool :=   (* h, r, pcm, quorum *)
  (* ev = tag h r ver avail tpv tpc pvm pcm npv (k p)* npc (k p)* ... *)
  let av := nthN ev 4 in let pcmh := nthN ev 8 in
  let npv := N.to_nat (nthN ev 9) in
  let rest := skip_pairs npv (skipn 10 ev) in
  let npc := N.to_nat (hd0 rest) in
  let pw := lookup_pair npc (tl rest) pcmh in
  (nthN ev 1, nthN ev 2, pcmh, (2 * av <? 3 * pw) && negb (pcmh =? 0)).
Definition c08_finalize (t : list obs) : bool :=
  forallb (fun o =>
    let ev := fst o in
    forallb (fun it =>
      if hd0 it =? 15 then
        if hd0 ev =? 4 then (nthN it 1 =? nthN ev 2) && (nthN it 2 =? nthN ev 3) && (nthN it 3 =? nthN ev 1)
        else if (hd0 ev =? 3) || (hd0 ev =? 5) then
          if nthN ev 1 =? 0 then true else
          let '(h, r, b, q) := view_pc_quorum ev in
          (nthN it 1 =? h) && (nthN it 2 =? r) && (nthN it 3 =? b) && q
        else false
      else true) (snd o)) t.

(** C08: within a round (one process lifetime) the strategy is asked for its precommit at most once and
    at most one prevote is signed *)
Fixpoint once_per_round (dec pv : bool) (t : list obs) : bool :=
  match t with
  | [] => true
  | (ev, its) :: rest =>
      let st0 := if hd0 ev =? 1 then (true, false, false) else (true, dec, pv) in
      (* the observation lists the kernel goroutine's outputs before the consensus manager's; the request for the
         precommit decision (made by the consensus manager) of an event that also announces a round entrance was made
         BEFORE that entrance (after announcing it the kernel waits for the entrance response): it belongs to the
         round being left, so the decision requests of an event are looked at first *)
      let its := filter (fun it => hd0 it =? 5) its ++ filter (fun it => negb (hd0 it =? 5)) its in
      let step := fold_left (fun (acc : bool * bool * bool) it =>
                    let '(ok, d, p) := acc in
                    let tg := hd0 it in
                    if tg =? 1 then (ok, false, false)
                    else if tg =? 5 then (ok && negb d, true, p)
                    else if tg =? 6 then (ok && negb p, d, true)
                    else acc) its st0 in
      let '(ok, d, p) := step in ok && once_per_round d p rest
  end.
Definition c08_once_per_round (t : list obs) : bool := once_per_round false false t.

(** the state machine kept reading its inputs (the harness never found it blocked) *)
Definition sm_responsive (t : list obs) : bool :=
  forallb (fun o => forallb (fun it => negb (hd0 it =? 23)) (snd o)) t.

(** C07 (state-machine half): the validator set the state machine uses at height h is the one the driver returned when
    finalizing h-2 (the finalization store keeps it across restarts).  Observed through participation: a round entrance of a
    machine with a signer offers its actions channel iff validator 0 (the local key) is in that set.  [fins]: (height, set)
    of every finalization saved successfully so far, oldest first. *)
Fixpoint valset_ok (fins : list (N * N)) (t : list obs) : bool :=
  match t with
  | [] => true
  | (ev, its) :: rest =>
      let step := fold_left (fun (acc : bool * list (N * N)) it =>
                    if (hd0 it =? 19) && (nthN it 6 =? 0) then (fst acc, snd acc ++ [(nthN it 1, nthN it 4)])
                    else if (hd0 it =? 1) && (nthN it 3 =? 1) && (2 <=? nthN it 1) then
                      match find (fun f : N * N => fst f =? nthN it 1 - 2) (snd acc) with
                      | Some f => (fst acc && Bool.eqb (negb (nthN it 4 =? 0)) (N.testbit (snd f) 0), snd acc)
                      | None => acc
                      end
                    else acc) its (true, fins) in
      fst step && valset_ok (snd step) rest
  end.
Definition c07_sm_valset (t : list obs) : bool := valset_ok [] t.

(** C08: the state machine enters height h (h above the initial height) only after the finalization of h-1 was stored
    (in this or an earlier process lifetime on the same stores). *)
Fixpoint height_after_fin (saved : list N) (t : list obs) : bool :=
  match t with
  | [] => true
  | (ev, its) :: rest =>
      let step := fold_left (fun (acc : bool * list N) it =>
                    if (hd0 it =? 19) && (nthN it 6 =? 0) then (fst acc, nthN it 1 :: snd acc)
                    else if (hd0 it =? 1) && (2 <=? nthN it 1) then
                      (fst acc && existsb (N.eqb (nthN it 1 - 1)) (snd acc), snd acc)
                    else acc) its (true, saved) in
      fst step && height_after_fin (snd step) rest
  end.
Definition c08_height_after_fin (t : list obs) : bool := height_after_fin [] t.

(** C07 (state-machine half): the consensus strategy is only ever offered proposed headers whose validator set and next
    validator set are the ones the chain prescribes for the height: the set the driver returned when finalizing h-2
    (genesis: 15) and the one it returned when finalizing h-1.  A header altered in transit (other keys, or the same keys
    with other powers: mask + 16 in the harness) must never reach ConsiderProposedBlocks / ChooseProposedBlock.
    The proposed headers are parsed out of the encoded views (Model/SMWire.enc_view); 255 = the machine's own proposal. *)
Definition skip_map (l : list N) : list N := match l with n :: t => skipn (2 * N.to_nat n) t | [] => [] end.
Fixpoint take_phs (n : nat) (l : list N) : list (N * (N * N)) :=
  match n, l with
  | S k, hsh :: _ :: vs :: nvs :: _ :: _ :: t => (hsh, (vs, nvs)) :: take_phs k t
  | _, _ => []
  end.
Definition view_phs (enc : list N) : list (N * (N * N)) :=
  match skip_map (skip_map (skipn 8 enc)) with n :: t => take_phs (N.to_nat n) t | [] => [] end.
Definition fin_vs (fins : list (N * N)) (h : N) : N :=
  match find (fun f : N * N => fst f =? h) fins with Some f => snd f | None => 15 end.
Definition req_hashes (it : item) : list N :=
  match it with _ :: n :: t => firstn (N.to_nat n) t | _ => [] end.

Fixpoint considered_ok (fins : list (N * N)) (h : N) (seen : list (N * (N * N))) (t : list obs) : bool :=
  match t with
  | [] => true
  | (ev, its) :: rest =>
      let seen0 := if (hd0 ev =? 3) || (hd0 ev =? 5) then seen ++ view_phs (tl ev) else seen in
      let step := fold_left (fun (acc : bool * (list (N * N) * (N * list (N * (N * N))))) it =>
                    let '(ok, (fs, (hh, sn))) := acc in
                    if (hd0 it =? 19) && (nthN it 6 =? 0) then (ok, (fs ++ [(nthN it 1, nthN it 4)], (hh, sn)))
                    else if hd0 it =? 1 then (ok, (fs, (nthN it 1, if nthN it 1 =? hh then sn else [])))
                    else if (hd0 it =? 3) || (hd0 it =? 4) then
                      let cur := if hh <? 2 then 15 else fin_vs fs (hh - 2) in
                      let nxt := if hh <? 1 then 15 else fin_vs fs (hh - 1) in
                      (ok && forallb (fun x => (x =? 255) ||
                                      existsb (fun p : N * (N * N) => (fst p =? x) && (fst (snd p) =? cur) && (snd (snd p) =? nxt)) sn)
                                     (req_hashes it), (fs, (hh, sn)))
                    else acc) its (true, (fins, (h, seen0))) in
      let '(ok, (fs, (hh, sn))) := step in
      ok && considered_ok fs hh sn rest
  end.
Definition c07_sm_considered_match (t : list obs) : bool := considered_ok [(0, 15)] 0 [] t.
