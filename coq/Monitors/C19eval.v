(** Evaluation helpers for the C19 correspondence run: the model and the monitors instantiated
    with the fixture semantics of Model/TxBufInst.v, applied to one observed case.
    A case = (id, deleter mode, cap, initial base, requests,
              direct observations (result, raw snapshot) per request,
              API observations (result, pending read back) per request). *)
From Coq Require Import List NArith Bool.
From GV Require Import Model.TxBuf Model.TxBufSpec Model.TxBufInst Monitors.C19m.
Import ListNotations.
Local Open Scope N_scope.

Definition isnap : Type := (st * bool * st * list tx)%type.
Definition icase : Type :=
  (N * N * N * st * list (op st tx) * list (out tx * isnap) * list (out tx * list tx))%type.

Definition mk_err (cls code : N) : err :=
  if cls =? 0 then ENone else if cls =? 1 then EInvalid code else
  if cls =? 2 then EFatal code else EFatal 4294967295.

(* short constructors for the generated case files *)
Definition A (t : tx) : op st tx := OpAdd t.
Definition Bf (dst : list tx) : op st tx := OpBuffered dst.
Definition R (nb : st) (ap : list tx) : op st tx := OpRebase nb ap.
Definition oA (cls code : N) : out tx := OutAdd (mk_err cls code).
Definition oB (l : list tx) : out tx := OutBuffered l.
Definition oR (cls code : N) (l : list tx) : out tx := OutRebase (mk_err cls code) l.

(* compact builders: the generated files apply these functions instead of writing nested
   pairs, which keeps the elaborated case terms small *)
Definition X (k a b v : N) : tx := (k, a, b, v).
Definition D (x : out tx) (b : st) (u : bool) (c : st) (l : list tx) : out tx * isnap := (x, (b, u, c, l)).
Definition P (x : out tx) (l : list tx) : out tx * list tx := (x, l).
(* digit-packed forms used when every field is < 10 (always true for generated cases):
   Xd 2103 = X 2 1 0 3;  Ld = map Xd;  Sd 1405 = [4;0;5] (leading 1 is a sentinel) *)
Definition Xd (n : N) : tx := (n / 1000, (n / 100) mod 10, (n / 10) mod 10, n mod 10).
Definition Ld (l : list N) : list tx := map Xd l.
Fixpoint sd_go (fuel : nat) (n : N) (acc : st) : st :=
  match fuel with
  | O => acc
  | Datatypes.S f => if n <=? 1 then acc else sd_go f (n / 10) (n mod 10 :: acc)
  end.
Definition Sd (n : N) : st := sd_go 64 n [].
Definition OX (o : op st tx) (x : out tx) : op st tx * out tx := (o, x).
Definition snap_txs (s : isnap) : list tx := let '(_, _, _, l) := s in l.
(* [None] for the API observations = identical to the direct driver's (result, Txs) per request *)
Definition C (id mode cap : N) (b : st) (ops : list (op st tx)) (dobs : list (out tx * isnap))
           (aobs : option (list (out tx * list tx))) : icase :=
  (id, mode, cap, b, ops, dobs,
   match aobs with
   | Some a => a
   | None => map (fun o : out tx * isnap => (fst o, snap_txs (snd o))) dobs
   end).

Definition i_out_eqb := @out_eqb tx tx_eqb.

Definition wstate_matches (w : wstate st tx) (s : isnap) : bool :=
  let '(b, upd, c, l) := s in
  st_eqb (base w) b && Bool.eqb (is_updated w) upd &&
  st_eqb (cur w) (if upd then c else b) && txs_eqb (txs w) l.

Fixpoint zip_all {X Y} (f : X -> Y -> bool) (xs : list X) (ys : list Y) : bool :=
  match xs, ys with
  | [], [] => true
  | x :: xs', y :: ys' => f x y && zip_all f xs' ys'
  | _, _ => false
  end.

Fixpoint zip3 {X Y Z} (xs : list X) (ys : list (Y * Z)) : list (X * Y * Z) :=
  match xs, ys with
  | x :: xs', (y, z) :: ys' => (x, y, z) :: zip3 xs' ys'
  | _, _ => []
  end.

Definition model_states (mode cap : N) (b : st) (ops : list (op st tx)) :=
  run_states (apply_inst cap) (deleter_inst mode) (init b) ops.

(** correspondence, direct driver: result and full working state after every request *)
Definition corr_direct (c : icase) : bool :=
  let '(_, mode, cap, b, ops, dobs, _) := c in
  zip_all (fun (m : out tx * wstate st tx) (o : out tx * isnap) =>
             i_out_eqb (fst m) (fst o) && wstate_matches (snd m) (snd o))
          (model_states mode cap b ops) dobs.

(** correspondence, public API driver: result and pending list after every request *)
Definition corr_api (c : icase) : bool :=
  let '(_, mode, cap, b, ops, _, aobs) := c in
  zip_all (fun (m : out tx * wstate st tx) (o : out tx * list tx) =>
             i_out_eqb (fst m) (fst o) && txs_eqb (txs (snd m)) (snd o))
          (model_states mode cap b ops) aobs.

(** monitors on the implementation's observations *)
Definition mon_direct (c : icase) : bool :=
  let '(_, mode, cap, b, ops, dobs, _) := c in
  Nat.eqb (length ops) (length dobs) &&
  c19_api_mon (apply_inst cap) (deleter_inst mode) tx_eqb b []
              (zip3 ops (map (fun o : out tx * isnap => (fst o, snap_txs (snd o))) dobs)) &&
  c19_inv_mon (apply_inst cap) st_eqb dobs.

Definition mon_api (c : icase) : bool :=
  let '(_, mode, cap, b, ops, _, aobs) := c in
  Nat.eqb (length ops) (length aobs) &&
  c19_api_mon (apply_inst cap) (deleter_inst mode) tx_eqb b [] (zip3 ops aobs).

(** the same monitors on the MODEL's own trace (true for every case by
    C19_model_satisfies_monitors; evaluated when searching for a failing input) *)
Definition mon_model (c : icase) : bool :=
  let '(_, mode, cap, b, ops, _, _) := c in
  let ms := model_states mode cap b ops in
  c19_api_mon (apply_inst cap) (deleter_inst mode) tx_eqb b []
              (zip3 ops (map (fun m : out tx * wstate st tx => (fst m, txs (snd m))) ms)) &&
  c19_inv_mon (apply_inst cap) st_eqb
              (map (fun m : out tx * wstate st tx =>
                      (fst m, (base (snd m), is_updated (snd m), cur_state (snd m), txs (snd m)))) ms).

Definition case_id (c : icase) : N := let '(i, _, _, _, _, _, _) := c in i.

Definition bad_ids (f : icase -> bool) (cs : list icase) : list N :=
  map case_id (filter (fun c => negb (f c)) cs).

(** concurrent case = (id, mode, cap, base, sequential prefix requests,
                       per-caller (request, result) lists, final pending list) *)
Definition ccase : Type :=
  (N * N * N * st * list (op st tx) * list (list (op st tx * out tx)) * list tx)%type.

Definition conc_ok (c : ccase) : bool :=
  let '(_, mode, cap, b, pre, ths, final) := c in
  let w := fst (run (apply_inst cap) (deleter_inst mode) (init b) pre) in
  let n := fold_right (fun th acc => (length th + acc)%nat) 1%nat ths in
  c19_serializable (apply_inst cap) (deleter_inst mode) tx_eqb n (base w) (txs w) ths final.

Definition CC (id mode cap : N) (b : st) (pre : list (op st tx)) (ths : list (list (op st tx * out tx)))
           (final : list tx) : ccase := (id, mode, cap, b, pre, ths, final).

Definition ccase_id (c : ccase) : N := let '(i, _, _, _, _, _, _) := c in i.
Definition bad_cids (cs : list ccase) : list N := map ccase_id (filter (fun c => negb (conc_ok c)) cs).
