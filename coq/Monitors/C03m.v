(** Executable agreement monitor for C03, evaluated on the IMPLEMENTATION's observations:
    one finalize stream per node, each a list of (height, block id) in order of receipt of the
    tmdriver.FinalizeBlockRequest (the contents of a CommittedHeaderStore, read by height, are
    judged as a stream too).  Block ids are an injective renaming of block hashes. *)
From Coq Require Import List NArith Bool.
Import ListNotations.
Local Open Scope N_scope.

Definition stream := list (N * N).

(** heights are h, h+1, h+2, ... exactly *)
Fixpoint contiguous_from (h : N) (s : stream) : bool :=
  match s with
  | [] => true
  | (h', _) :: s' => (h' =? h) && contiguous_from (h + 1) s'
  end.

Fixpoint lookup (h : N) (s : stream) : option N :=
  match s with
  | [] => None
  | (h', b) :: s' => if h' =? h then Some b else lookup h s'
  end.

(** every entry of s1 is matched by s2's (first) entry for the same height, if s2 has one *)
Definition streams_agree (s1 s2 : stream) : bool :=
  forallb (fun hb => match lookup (fst hb) s2 with
                     | Some b' => snd hb =? b'
                     | None => true
                     end) s1.

(** [h0] = the chain's initial height: every stream starts there and is contiguous; any two
    streams (including a stream with itself) carry the same block at every common height. *)
Definition c03_mon (h0 : N) (ss : list stream) : bool :=
  forallb (contiguous_from h0) ss &&
  forallb (fun s1 => forallb (streams_agree s1) ss) ss.
