(** Executable monitors for the mirror properties (C01, C04, C05, C07), evaluated on the
    IMPLEMENTATION's observations (trees printed by harness/mirror).  Layout of one observation:
      obs  = TL [voting view; committing view; nhr; committed headers; round store]
      view = TL [h; r; pkh; vph; keys; pows; proposal hashes; prevotes; precommits; summary; prev commit proof; lists-match-hashes]
      hdr  = TL [h; hash; prev hash; next pkh; next vph; next keys; next pows; commit proof; next-lists-match-hashes]
      commit proof = TL [round; pkh; TL [TL [hash; TL [TL [key id; sig]]]]]
      sig  = TL [0; key; kind; h; r; target] | TL [1; key; hash; r] | TL [2; n]                  *)
From Coq Require Import List NArith Bool.
From GV Require Import Base.Ints Base.Tr.
Import ListNotations.
Local Open Scope N_scope.

Definition v_height (v : tr) : N := tn (nth_tr v 0).
Definition v_round (v : tr) : N := tn (nth_tr v 1).
Definition v_keys (v : tr) : list N := map tn (tls (nth_tr v 4)).
Definition v_pows (v : tr) : list N := map tn (tls (nth_tr v 5)).

Definition kid_idx (kid : list N) : option nat :=
  match kid with [a; b] => Some (N.to_nat (a * 256 + b)) | _ => None end.

(** one sparse signature filed under (kind, h, r, target): genuine, by the key at its index *)
Definition sig_ok (keys : list N) (kind h r : N) (t : list N) (e : tr) : bool :=
  match tls e with
  | [TB kid; TL [TN 0; TN key; TN kd; TN hh; TN rr; TB tg]] =>
      match kid_idx kid with
      | Some i => match nth_error keys i with
                  | Some k => (k =? key) && (kd =? kind) && (hh =? h) && (rr =? r) && bytes_eqb tg t
                  | None => false
                  end
      | None => false
      end
  | _ => false
  end.

Definition coll_ok (keys : list N) (kind h r : N) (coll : tr) : bool :=
  forallb (fun e => match tls e with
                    | [TB t; TL sigs] => forallb (sig_ok keys kind h r t) sigs
                    | _ => false
                    end) (tls coll).

Definition view_auth_ok (v : tr) : bool :=
  coll_ok (v_keys v) 0 (v_height v) (v_round v) (nth_tr v 7) &&
  coll_ok (v_keys v) 1 (v_height v) (v_round v) (nth_tr v 8).

(** round-store entries of the voting / committing height are judged against that view's keys *)
Definition rounds_ok (o : tr) : bool :=
  let vot := nth_tr o 0 in let com := nth_tr o 1 in
  forallb (fun e =>
    let h := tn (nth_tr e 0) in let r := tn (nth_tr e 1) in
    let keys := if h =? v_height vot then Some (v_keys vot)
                else if (h =? v_height com) && negb (h =? 0) then Some (v_keys com) else None in
    match keys with
    | None => true
    | Some ks =>
        (match tls (nth_tr e 3) with [TB _; c] => coll_ok ks 0 h r c | _ => true end) &&
        (match tls (nth_tr e 4) with [TB _; c] => coll_ok ks 1 h r c | _ => true end)
    end) (tls (nth_tr o 4)).

Definition c05_obs_ok (o : tr) : bool :=
  view_auth_ok (nth_tr o 0) && view_auth_ok (nth_tr o 1) && rounds_ok o.

(** the set of (target, key id, signature) triples of a collection *)
Definition coll_triples (c : tr) : list tr :=
  flat_map (fun e => map (fun s => TL [nth_tr e 0; s]) (tls (nth_tr e 1))) (tls c).

Definition tr_subset (a b : list tr) : bool := forallb (fun x => existsb (tr_eqb x) b) a.

(** commit proof [a] has the round of [b] and at least its signatures (a restart reloads the
    round's precommits, which may have grown by backfilling since the certificate was recorded) *)
Definition cproof_covers (a b : tr) : bool :=
  tr_eqb (nth_tr a 0) (nth_tr b 0) && tr_subset (coll_triples (nth_tr b 2)) (coll_triples (nth_tr a 2)).

(** * C04 *)
Definition hdr_h (e : tr) : N := tn (nth_tr e 0).
Definition hdr_hash (e : tr) : list N := tb (nth_tr e 1).
Definition hdr_prev (e : tr) : list N := tb (nth_tr e 2).

Fixpoint chain_ok (l : list tr) : bool :=
  match l with
  | a :: ((b :: _) as rest) =>
      (hdr_h b =? hdr_h a + 1) && bytes_eqb (hdr_prev b) (hdr_hash a) && chain_ok rest
  | _ => true
  end.

Definition find_hdr (l : list tr) (h : N) : option tr := find (fun e => hdr_h e =? h) l.

(** within one observation: contiguous linked chain, voting = committing + 1, stored position = views *)
Definition c04_obs_ok (init_h : N) (o : tr) : bool :=
  let vot := nth_tr o 0 in let com := nth_tr o 1 in
  let hdrs := tls (nth_tr o 3) in
  chain_ok hdrs &&
  (match hdrs with
   | [] => (v_height com =? 0) && (v_height vot =? init_h)
   | first :: _ => (hdr_h first =? init_h) && (hdr_h (last hdrs first) =? v_height com) &&
                   (v_height vot =? v_height com + 1)
   end) &&
  tr_eqb (nth_tr o 2) (TL [TN (v_height vot); TN (v_round vot); TN (v_height com); TN (v_round com)]) &&
  (* the previous-commit proofs the views expose are the certificates recorded with the chain *)
  (match rev hdrs with
   | top :: below =>
       cproof_covers (nth_tr vot 10) (nth_tr top 7) &&
       (match below with
        | prev :: _ => cproof_covers (nth_tr com 10) (nth_tr prev 7)
        | [] => true
        end)
   | [] => true
   end).

(** between consecutive observations: nothing committed changes, positions do not go back *)
Definition c04_step_ok (a b : tr) : bool :=
  forallb (fun e => match find_hdr (tls (nth_tr b 3)) (hdr_h e) with
                    | Some e' => bytes_eqb (hdr_hash e) (hdr_hash e')
                    | None => false
                    end) (tls (nth_tr a 3)) &&
  let va := nth_tr a 0 in let vb := nth_tr b 0 in
  ((v_height va <? v_height vb) || ((v_height va =? v_height vb) && (v_round va <=? v_round vb))) &&
  (v_height (nth_tr a 1) <=? v_height (nth_tr b 1)).

Fixpoint c04_trace_ok (init_h : N) (prev : option tr) (l : list tr) : bool :=
  match l with
  | [] => true
  | o :: rest =>
      c04_obs_ok init_h o &&
      (match prev with Some p => c04_step_ok p o | None => true end) &&
      c04_trace_ok init_h (Some o) rest
  end.

(** * C07: the voting validator set is genesis or the committed header's next set *)
Definition c07_obs_ok (init_h : N) (genesis : tr) (o : tr) : bool :=
  let vot := nth_tr o 0 in
  (* the set in use and every committed next set have lists matching their hashes (flag computed
     by the harness with the real hash scheme) *)
  (tn (nth_tr vot 11) =? 1) &&
  forallb (fun e => tn (nth_tr e 8) =? 1) (tls (nth_tr o 3)) &&
  let cur := TL [nth_tr vot 2; nth_tr vot 3; nth_tr vot 4; nth_tr vot 5] in
  let next_of e := TL [nth_tr e 3; nth_tr e 4; nth_tr e 5; nth_tr e 6] in
  (match rev (tls (nth_tr o 3)) with
   | [] => tr_eqb cur genesis
   | top :: _ => tr_eqb cur (next_of top)
   end) &&
  (* the set every committed header names as its own is the one the chain prescribes for its height: the
     next set of the header below it (the genesis set for the first header, when that is the initial one) *)
  (fix own (prev : option tr) (l : list tr) : bool :=
     match l with
     | [] => true
     | e :: rest =>
         (match prev with
          | Some p => if tn (nth_tr p 0) + 1 =? tn (nth_tr e 0) then tr_eqb (nth_tr e 9) (next_of p) else true
          | None => if tn (nth_tr e 0) =? init_h then tr_eqb (nth_tr e 9) genesis else true
          end) && own (Some e) rest
     end) None (tls (nth_tr o 3)).

(** * C01: every stored committed header carries a certificate: genuine precommits for exactly
    its height / proof round / hash by distinct members of that height's validator set, with
    power at least [maj].  The validator set of height h is read off the view that voted at h. *)
Fixpoint nodupb (l : list nat) : bool :=
  match l with
  | [] => true
  | x :: t => negb (existsb (Nat.eqb x) t) && nodupb t
  end.

Definition sum_list (l : list N) : N := fold_left N.add l 0.

Definition maj_of (n : N) : N := if n mod 3 <? 2 then 2 * (n / 3) + 1 else 2 * (n / 3) + 2.

Definition cert_ok (keys pows : list N) (e : tr) : bool :=
  let h := hdr_h e in let hash := hdr_hash e in
  let cp := nth_tr e 7 in
  let round := tn (nth_tr cp 0) in
  match find (fun x => bytes_eqb (tb (nth_tr x 0)) hash) (tls (nth_tr cp 2)) with
  | None => false
  | Some x =>
      let sigs := tls (nth_tr x 1) in
      let idxs := map (fun s => match kid_idx (tb (nth_tr s 0)) with Some i => i | None => 0%nat end) sigs in
      forallb (sig_ok keys 1 h round hash) sigs && nodupb idxs &&
      (maj_of (sum_list pows) <=? sum_list (map (fun i => nth i pows 0) idxs))
  end.

(** [vals] : height -> (keys, pows), collected by the driver from the voting views observed *)
Definition c01_obs_ok (vals : list (N * (list N * list N))) (o : tr) : bool :=
  forallb (fun e =>
    match find (fun x => fst x =? hdr_h e) vals with
    | Some (_, (keys, pows)) => cert_ok keys pows e
    | None => false
    end) (tls (nth_tr o 3)).

Fixpoint collect_vals (acc : list (N * (list N * list N))) (l : list tr) : list (N * (list N * list N)) :=
  match l with
  | [] => acc
  | o :: rest =>
      let vot := nth_tr o 0 in
      let h := v_height vot in
      collect_vals (if existsb (fun x => fst x =? h) acc then acc else (h, (v_keys vot, v_pows vot)) :: acc) rest
  end.

(** * C10: observations right after a restart *)
(** every vote persisted for a round the node resumes in is present again in the view *)
Definition persisted_reloaded (o : tr) : bool :=
  forallb (fun v =>
    forallb (fun e =>
      if (tn (nth_tr e 0) =? v_height v) && (tn (nth_tr e 1) =? v_round v) && negb (v_height v =? 0) then
        (match tls (nth_tr e 3) with [TB _; c] => tr_subset (coll_triples c) (coll_triples (nth_tr v 7)) | _ => true end) &&
        (match tls (nth_tr e 4) with [TB _; c] => tr_subset (coll_triples c) (coll_triples (nth_tr v 8)) | _ => true end) &&
        tr_subset (tls (nth_tr e 2)) (tls (nth_tr v 6))
      else true) (tls (nth_tr o 4)))
    [nth_tr o 0; nth_tr o 1].

Definition c10_restart_obs_ok (o : tr) : bool := persisted_reloaded o && c05_obs_ok o.

(** position and committed chain of an observation *)
Definition pos_chain (o : tr) : tr :=
  TL [nth_tr o 2; TL (map (fun e => TL [nth_tr e 0; nth_tr e 1]) (tls (nth_tr o 3)))].

(** * C11: what the state machine and the gossip strategy receive *)
(** obs[5] = io: [] kernel op | [1; vview] entrance answered with a view | [2; ..] with a header |
    [3; oview; oview] state-machine read (view, jump-ahead) | [4; c; v; n; nil] gossip read |
    [5] / [6] nothing offered to the state machine / gossip | [9] restarted.
    vview = TL [version; view]; oview = TL [] | TL [vview] *)
Definition io_of (o : tr) : tr := nth_tr o 5.
Definition io_tag (o : tr) : N := tn (nth_tr (io_of o) 0).
Definition vv_ver (vv : tr) : N := tn (nth_tr vv 0).
Definition vv_view (vv : tr) : tr := nth_tr vv 1.
Definition vv_h (vv : tr) : N := v_height (vv_view vv).
Definition vv_r (vv : tr) : N := v_round (vv_view vv).

(** proposals and votes of [a] are contained in [b] *)
Definition view_grows (a b : tr) : bool :=
  tr_subset (tls (nth_tr a 6)) (tls (nth_tr b 6)) &&
  tr_subset (coll_triples (nth_tr a 7)) (coll_triples (nth_tr b 7)) &&
  tr_subset (coll_triples (nth_tr a 8)) (coll_triples (nth_tr b 8)).

Definition same_hr (a b : tr) : bool := (vv_h a =? vv_h b) && (vv_r a =? vv_r b).

(** a jump-ahead view handed to the state machine: strictly newer than what it holds for that round, and
    otherwise a later round or height than the one it is in *)
Definition jump_ok (last : option tr) (jv : list tr) : bool :=
  match last, jv with
  | Some lv, [j] =>
      if same_hr lv j then vv_ver lv <? vv_ver j
      else (vv_h lv <? vv_h j) || ((vv_h lv =? vv_h j) && (vv_r lv <? vv_r j))
  | _, _ => true
  end.

(** state machine stream: within one entrance, strictly newer and growing views of the entered round *)
Fixpoint c11_sm_bad (i : nat) (last : option tr) (l : list tr) : option nat :=
  match l with
  | [] => None
  | o :: rest =>
      let tag := io_tag o in
      if tag =? 9 then c11_sm_bad (S i) None rest
      else if tag =? 1 then c11_sm_bad (S i) (Some (nth_tr (io_of o) 1)) rest
      else if tag =? 2 then c11_sm_bad (S i) None rest
      else if tag =? 3 then
        if negb (jump_ok last (tls (nth_tr (io_of o) 2))) then Some i else
        match tls (nth_tr (io_of o) 1) with
        | [vv] =>
            let ok := match last with
                      | Some lv => same_hr lv vv && (vv_ver lv <? vv_ver vv) && view_grows (vv_view lv) (vv_view vv)
                      | None => true
                      end in
            if ok then c11_sm_bad (S i) (Some vv) rest else Some i
        | _ => c11_sm_bad (S i) last rest
        end
      else c11_sm_bad (S i) last rest
  end.

Fixpoint last_for (seen : list tr) (vv : tr) : option tr :=
  match seen with
  | [] => None
  | x :: t => if same_hr x vv then Some x else last_for t vv
  end.
Definition remember (seen : list tr) (vv : tr) : list tr :=
  vv :: filter (fun x => negb (same_hr x vv)) seen.

(** one delivered view against what was delivered before for the same (height, round) *)
Definition g_one_ok (strict : bool) (seen : list tr) (ov : tr) : bool :=
  match tls ov with
  | [vv] => match last_for seen vv with
            | Some lv => (if strict then vv_ver lv <? vv_ver vv else vv_ver lv <=? vv_ver vv) &&
                         view_grows (vv_view lv) (vv_view vv)
            | None => true
            end
  | _ => true
  end.
Definition g_remember (seen : list tr) (ov : tr) : list tr :=
  match tls ov with [vv] => remember seen vv | _ => seen end.

(** gossip stream: per (height, round) strictly newer, growing views; the nil-voted round
    snapshot may repeat the version last delivered for that round *)
Fixpoint c11_g_bad (i : nat) (seen : list tr) (l : list tr) : option nat :=
  match l with
  | [] => None
  | o :: rest =>
      let tag := io_tag o in
      if tag =? 9 then c11_g_bad (S i) [] rest
      else if tag =? 4 then
        let io := io_of o in
        let c := nth_tr io 1 in let v := nth_tr io 2 in let n := nth_tr io 3 in let nl := nth_tr io 4 in
        if g_one_ok true seen c && g_one_ok true seen v && g_one_ok true seen n && g_one_ok false seen nl
        then c11_g_bad (S i) (g_remember (g_remember (g_remember (g_remember seen nl) c) v) n) rest
        else Some i
      else c11_g_bad (S i) seen rest
  end.

(** quiescence: when nothing more is offered, the consumer holds the mirror's latest version of
    the voting (and committing) view it is entitled to *)
Definition holds_latest (seen : list tr) (view : tr) : bool :=
  if v_height view =? 0 then true else
  match last_for seen (TL [TN 0; view]) with
  | Some lv => (vv_ver lv =? tn (nth_tr view 12)) && view_grows view (vv_view lv)   (* same version AND nothing the mirror holds is missing *)
  | None => false
  end.

Fixpoint c11_cur_bad (i : nat) (seen : list tr) (sm_last : option tr) (l : list tr) : option nat :=
  match l with
  | [] => None
  | o :: rest =>
      let tag := io_tag o in
      let io := io_of o in
      if tag =? 9 then c11_cur_bad (S i) [] None rest
      else if tag =? 4 then
        c11_cur_bad (S i) (g_remember (g_remember (g_remember (g_remember seen (nth_tr io 4)) (nth_tr io 1)) (nth_tr io 2)) (nth_tr io 3)) sm_last rest
      else if tag =? 6 then
        if holds_latest seen (nth_tr o 0) && holds_latest seen (nth_tr o 1)
        then c11_cur_bad (S i) seen sm_last rest else Some i
      else if tag =? 1 then c11_cur_bad (S i) seen (Some (nth_tr io 1)) rest
      else if tag =? 2 then c11_cur_bad (S i) seen None rest
      else if tag =? 3 then
        c11_cur_bad (S i) seen (match tls (nth_tr io 1) with [vv] => Some vv | _ => sm_last end) rest
      else if tag =? 5 then
        let ok := match sm_last with
                  | Some lv =>
                      let vot := nth_tr o 0 in let com := nth_tr o 1 in
                      if (vv_h lv =? v_height vot) && (vv_r lv =? v_round vot) then vv_ver lv =? tn (nth_tr vot 12)
                      else if (vv_h lv =? v_height com) && (vv_r lv =? v_round com) then vv_ver lv =? tn (nth_tr com 12)
                      else true
                  | None => true
                  end in
        if ok then c11_cur_bad (S i) seen sm_last rest else Some i
      else c11_cur_bad (S i) seen sm_last rest
  end.

(** * C06: the reported vote summary equals what is recomputed from the admitted signatures *)
(** summary = TL [available; total prevote; total precommit; prevote block powers; precommit block powers;
                  most voted prevote; most voted precommit], block powers = TL [TL [hash; power]] sorted by hash *)
Fixpoint nat_mem (x : nat) (l : list nat) : bool :=
  match l with [] => false | y :: t => Nat.eqb x y || nat_mem x t end.
Fixpoint nat_nodup (l : list nat) : list nat :=
  match l with [] => [] | x :: t => if nat_mem x t then nat_nodup t else x :: nat_nodup t end.

(** validator indices that signed in a list of [TL [key id; sig]] *)
Definition signer_idxs (sigs : list tr) : list nat :=
  flat_map (fun e => match kid_idx (tb (nth_tr e 0)) with Some i => [i] | None => [] end) sigs.

(** power of the DISTINCT validators among [idxs] (indices outside the set carry none) *)
Definition distinct_power (pows : list N) (idxs : list nat) : N :=
  fold_left (fun a i => wrap64 (a + nth i pows 0)) (nat_nodup idxs) 0.

Definition recomputed_blocks (pows : list N) (coll : tr) : list (list N * N) :=
  map (fun e => (tb (nth_tr e 0), distinct_power pows (signer_idxs (tls (nth_tr e 1))))) (tls coll).

Definition recomputed_total (pows : list N) (coll : tr) : N :=
  distinct_power pows (flat_map (fun e => signer_idxs (tls (nth_tr e 1))) (tls coll)).

(** the least hash among the targets of maximal power; the empty hash while no power is present *)
Definition recomputed_most_voted (bl : list (list N * N)) : list N :=
  let mx := fold_left (fun a e => N.max a (snd e)) bl 0 in
  if mx =? 0 then []
  else match filter (fun e => snd e =? mx) bl with
       | [] => []
       | e :: t => fold_left (fun a x => if bytes_ltb (fst x) a then fst x else a) t (fst e)
       end.

Definition blocks_tr (bl : list (list N * N)) : tr := TL (map (fun e => TL [TB (fst e); TN (snd e)]) bl).

Definition c06_view_ok (v : tr) : bool :=
  let pows := v_pows v in
  let s := nth_tr v 9 in
  let bpv := recomputed_blocks pows (nth_tr v 7) in
  let bpc := recomputed_blocks pows (nth_tr v 8) in
  if v_height v =? 0 then true else
  (tn (nth_tr s 0) =? fold_left (fun a p => wrap64 (a + p)) pows 0) &&
  (tn (nth_tr s 1) =? recomputed_total pows (nth_tr v 7)) &&
  (tn (nth_tr s 2) =? recomputed_total pows (nth_tr v 8)) &&
  tr_eqb (nth_tr s 3) (blocks_tr bpv) && tr_eqb (nth_tr s 4) (blocks_tr bpc) &&
  bytes_eqb (tb (nth_tr s 5)) (recomputed_most_voted bpv) &&
  bytes_eqb (tb (nth_tr s 6)) (recomputed_most_voted bpc).

(** sub-minority consequence on a trace: the voting round only moves on within a height when the round left
    holds nil precommits or next-round votes of at least a third of its power (checked on the views the state
    machine and gossip would see is left to C11; here: the summary of every view is the recomputation) *)
Definition c06_obs_ok (o : tr) : bool := c06_view_ok (nth_tr o 0) && c06_view_ok (nth_tr o 1).
