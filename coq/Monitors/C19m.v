(** Executable monitors for C19, evaluated on the IMPLEMENTATION's observations.
    They are parameterised by the user-supplied apply/deleter functions (the harness uses the
    instance of Model/TxBufInst.v) and by boolean equalities on states and transactions. *)
From Coq Require Import List NArith Bool.
From GV Require Import Model.TxBuf Model.TxBufSpec.
Import ListNotations.

Section Mon.
  Context {S T : Type}.
  Variable apply : S -> T -> ares S.
  Variable deleter : list T -> T -> bool.
  Variable S_eqb : S -> S -> bool.
  Variable T_eqb : T -> T -> bool.

  Fixpoint l_eqb (x y : list T) : bool :=
    match x, y with
    | [], [] => true
    | a :: x', b :: y' => T_eqb a b && l_eqb x' y'
    | _, _ => false
    end.

  Definition out_eqb (x y : out T) : bool :=
    match x, y with
    | OutAdd e1, OutAdd e2 => err_eqb e1 e2
    | OutBuffered l1, OutBuffered l2 => l_eqb l1 l2
    | OutRebase e1 i1, OutRebase e2 i2 => err_eqb e1 e2 && l_eqb i1 i2
    | _, _ => false
    end.

  (** API monitor.  One trace entry = (request, observed result, pending list reported by the
      implementation right after the request).  Starting from the base [b] and the previously
      reported pending list [p], every result must be the one obtained by replaying the
      request against the user's apply function: an add succeeds iff the transaction applies
      to the state produced by the pending ones (and is then appended, otherwise nothing
      changes and the user's error comes back); Buffered returns dst ++ pending; a rebase
      returns as invalidated exactly the greedy rest and keeps exactly the greedy in-order
      applicable subsequence of the not-applied pending transactions; and the reported pending
      list applies cleanly to the base.  After a fatal rebase error nothing is judged. *)
  Fixpoint c19_api_mon (b : S) (p : list T) (tr : list (op S T * out T * list T)) : bool :=
    match tr with
    | [] => true
    | (o, x, p') :: r =>
        match spec_step apply deleter b p o with
        | (xs, Some (b', ps)) =>
            out_eqb x xs && l_eqb p' ps && applies apply b' p' && c19_api_mon b' p' r
        | (xs, None) => out_eqb x xs
        end
    end.

  (** Invariant monitor on snapshots of the working state taken through the hook after each
      request: (BaseState, isUpdated, curState, Txs), raw.  The effective current state
      (curState if isUpdated, else BaseState) must be the result of applying Txs in order to
      BaseState.  Stops at a fatal rebase. *)
  Definition snap : Type := (S * bool * S * list T)%type.

  Definition snap_cur (s : snap) : S := let '(b, upd, c, _) := s in if upd then c else b.

  Definition snap_ok (s : snap) : bool :=
    let '(b, _, _, l) := s in
    match fold_apply apply b l with
    | Some c' => S_eqb (snap_cur s) c'
    | None => false
    end.

  Fixpoint c19_inv_mon (tr : list (out T * snap)) : bool :=
    match tr with
    | [] => true
    | (x, s) :: r => if is_fatal_rebase x then true else snap_ok s && c19_inv_mon r
    end.

  (** Concurrent callers: each caller's (request, result) list in program order, plus the
      pending list read after all callers finished.  True iff SOME interleaving, executed by
      the specification machine from (b, p), yields every observed result and the final
      pending list. *)
  Fixpoint picks {A} (pre : list (list A)) (ths : list (list A)) : list (A * list (list A)) :=
    match ths with
    | [] => []
    | [] :: r => picks (pre ++ [[]]) r
    | (a :: th) :: r => (a, pre ++ th :: r) :: picks (pre ++ [a :: th]) r
    end.

  Fixpoint c19_serializable (fuel : nat) (b : S) (p : list T)
           (ths : list (list (op S T * out T))) (final : list T) : bool :=
    match fuel with
    | O => false
    | Datatypes.S f =>
        if forallb (fun th => match th with [] => true | _ => false end) ths
        then l_eqb p final
        else existsb (fun c : (op S T * out T) * list (list (op S T * out T)) =>
                        let '((o, x), rest) := c in
                        match spec_step apply deleter b p o with
                        | (xs, Some (b', p')) => out_eqb x xs && c19_serializable f b' p' rest final
                        | (_, None) => false
                        end) (picks [] ths)
    end.
End Mon.
