(** C13 - monitor for the commit-proof hand-over (tsi.CommitProofFinalizer.Finalize followed by the receiver's
    ValidateFinalizedProof): a boolean predicate over the observation printed by harness/c13cpf, evaluated on the
    IMPLEMENTATION's observations.  It restates Properties/C13Cpf.v: whenever the finalizer is handed well-formed
    precommit proofs (every entry an in-range two-byte key id with a signature that verifies, at least one per block,
    the committed block among them) it succeeds and the receiver gets back exactly the per-block signer sets, with the
    uniqueness flag false exactly when a validator signed two blocks; and it never panics on a non-empty key list.
    No Gen/, no Proofs/ import. *)
From Coq Require Import List NArith ZArith Bool.
From GV Require Import Base.Ints Model.SimpleProofBase Monitors.C13m.
Import ListNotations.
Local Open Scope N_scope.

Fixpoint pd (l : list N) : bool :=
  match l with
  | [] => true
  | b :: t => forallb (fun c => N.eqb (N.land b c) 0) t && pd t
  end.

Fixpoint mem_bytes (k : list N) (l : list (list N)) : bool :=
  match l with [] => false | x :: t => bytes_eqb x k || mem_bytes k t end.
Fixpoint nodup_bytes (l : list (list N)) : bool :=
  match l with [] => true | x :: t => negb (mem_bytes x t) && nodup_bytes t end.

Definition m_signers (keys msg : list N) (sigs : list sparse_entry) : N := snd (snd (spec_sparse keys msg sigs)).
Definition m_entry_ok (keys msg : list N) (sigs : list sparse_entry) : bool :=
  fst (spec_sparse keys msg sigs) && negb (N.eqb (m_signers keys msg sigs) 0).

Fixpoint m_get (m : list (list N * list sparse_entry)) (k : list N) : list sparse_entry :=
  match m with [] => [] | (k', v) :: t => if bytes_eqb k' k then v else m_get t k end.

Definition m_bytes (b : list N) : list N := N.of_nat (List.length b) :: b.

Fixpoint ends_with (l suf : list N) : bool :=
  bytes_eqb l suf || match l with [] => false | _ :: t => ends_with t suf end.

Section Mon.
Variable sb : list N -> list N.

Definition cpf_hyp (keys committed : list N) (es : list (list N * list sparse_entry)) : bool :=
  match keys with [] => false | _ => true end &&
  nodup_bytes (map fst es) && mem_bytes committed (map fst es) &&
  forallb (fun e => m_entry_ok keys (sb (fst e)) (snd e)) es.

Definition cpf_expected_v (keys committed : list N) (es : list (list N * list sparse_entry)) : list N :=
  let order := (committed, m_get es committed) :: filter (fun e => negb (bytes_eqb (fst e) committed)) es in
  let bits := map (fun e => (fst e, m_signers keys (sb (fst e)) (snd e))) order in
  b2n (pd (map snd bits)) :: N.of_nat (List.length bits) ::
  flat_map (fun e : list N * N => m_bytes (fst e) ++ [snd e]) (sort_by (fun e : list N * N => fst e) bits).

(** 0 = accepted, otherwise the number of the violated clause. *)
Definition cpf_mon (keys committed : list N) (round : N) (es : list (list N * list sparse_entry)) (obs : list N) : N :=
  if match keys with [] => false | _ => true end && bytes_eqb obs [999] then 1            (* panic *)
  else if negb (cpf_hyp keys committed es) then 0
  else
    match obs with
    | 0 :: r :: n :: _ =>
        if negb (N.eqb r round) then 3
        else if negb (N.eqb n (N.of_nat (List.length es))) then 4
        else if negb (ends_with obs (777 :: cpf_expected_v keys committed es)) then 5
        else 0
    | _ => 2                                                                                 (* well-formed input rejected *)
    end.
End Mon.
