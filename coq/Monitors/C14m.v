(** Executable monitors for C14, evaluated on the IMPLEMENTATION's observations
    (the values / outcome classes the real tmjson.MarshalCodec returned).

    The round-trip relation "equal in every consensus-relevant field" is written out here as a
    boolean ([*_eqv_b]); Proofs/Codec.v states the same relation in Prop ([*_eqv]) and proves the
    two agree.  What the relation identifies:
      - a nil and an empty Validators slice (the decoder always allocates),
      - a nil and an empty PubKeys slice (the decoder derives PubKeys from Validators),
      - a nil and an empty Proofs map, and any two association lists that give the same
        lookup result for every block hash (a Go map has no order).
    Everything else - every []byte including its nil/empty distinction, heights, rounds,
    powers, key types and key bytes, signature lists including nil/empty - must be identical. *)
From Coq Require Import List NArith Bool.
From GV Require Import Base.Ints Base.GoBytes Model.CodecTypes.
Import ListNotations.
Local Open Scope N_scope.

(** Decidable equality of the component types (computable: ends in Defined). *)
Definition bytes_dec : forall a b : list N, {a = b} + {a <> b} := list_eq_dec N.eq_dec.
Definition gbytes_dec : forall a b : gbytes, {a = b} + {a <> b}.
Proof. decide equality; apply bytes_dec. Defined.
Definition ssig_dec : forall a b : ssig, {a = b} + {a <> b}.
Proof. decide equality; apply gbytes_dec. Defined.
Definition gsigs_dec : forall a b : gsigs, {a = b} + {a <> b}.
Proof. decide equality; apply (list_eq_dec ssig_dec). Defined.
Definition ogsigs_dec : forall a b : option gsigs, {a = b} + {a <> b}.
Proof. decide equality; apply gsigs_dec. Defined.
Definition pubkey_dec : forall a b : pubkey, {a = b} + {a <> b}.
Proof. decide equality; [apply bytes_dec | apply N.eq_dec]. Defined.
Definition opubkey_dec : forall a b : option pubkey, {a = b} + {a <> b}.
Proof. decide equality; apply pubkey_dec. Defined.
Definition validator_dec : forall a b : validator, {a = b} + {a <> b}.
Proof. decide equality; [apply N.eq_dec | apply opubkey_dec]. Defined.
Definition pmap_dec : forall a b : pmap, {a = b} + {a <> b}.
Proof.
  decide equality. apply list_eq_dec. decide equality; [apply gsigs_dec | apply bytes_dec].
Defined.

Definition dec2b {P Q : Prop} (d : {P} + {Q}) : bool := if d then true else false.

(** Proofs maps: same lookup result for every key that occurs on either side. *)
Definition pm_find (k : list N) (m : pmap) : option gsigs := alist_find k (pm_list m).
Definition pm_keys (m : pmap) : list (list N) := map fst (pm_list m).
Definition pmap_eqv_b (a b : pmap) : bool :=
  forallb (fun k => dec2b (ogsigs_dec (pm_find k a) (pm_find k b))) (pm_keys a ++ pm_keys b).

Definition commit_proof_eqv_b (a b : commit_proof) : bool :=
  N.eqb (cp_round a) (cp_round b) && dec2b (bytes_dec (cp_pkh a) (cp_pkh b)) &&
  pmap_eqv_b (cp_proofs a) (cp_proofs b).

Definition valset_eqv_b (a b : valset) : bool :=
  dec2b (list_eq_dec validator_dec (opt_list (vs_vals a)) (opt_list (vs_vals b))) &&
  dec2b (list_eq_dec opubkey_dec (opt_list (vs_pubkeys a)) (opt_list (vs_pubkeys b))) &&
  dec2b (gbytes_dec (vs_pkh a) (vs_pkh b)) && dec2b (gbytes_dec (vs_vph a) (vs_vph b)).

Definition header_eqv_b (a b : header) : bool :=
  dec2b (gbytes_dec (h_hash a) (h_hash b)) && dec2b (gbytes_dec (h_prev a) (h_prev b)) &&
  N.eqb (h_height a) (h_height b) && commit_proof_eqv_b (h_pcp a) (h_pcp b) &&
  valset_eqv_b (h_vs a) (h_vs b) && valset_eqv_b (h_nvs a) (h_nvs b) &&
  dec2b (gbytes_dec (h_dataid a) (h_dataid b)) && dec2b (gbytes_dec (h_pash a) (h_pash b)) &&
  dec2b (gbytes_dec (h_user a) (h_user b)) && dec2b (gbytes_dec (h_driver a) (h_driver b)).

Definition proposed_eqv_b (a b : proposed_header) : bool :=
  header_eqv_b (ph_header a) (ph_header b) && N.eqb (ph_round a) (ph_round b) &&
  dec2b (opubkey_dec (ph_pub a) (ph_pub b)) &&
  dec2b (gbytes_dec (ph_user a) (ph_user b)) && dec2b (gbytes_dec (ph_driver a) (ph_driver b)) &&
  dec2b (gbytes_dec (ph_sig a) (ph_sig b)).

Definition committed_eqv_b (a b : committed_header) : bool :=
  header_eqv_b (ch_header a) (ch_header b) && commit_proof_eqv_b (ch_proof a) (ch_proof b).

Definition sparse_eqv_b (a b : sparse_proof) : bool :=
  N.eqb (sp_height a) (sp_height b) && N.eqb (sp_round a) (sp_round b) &&
  dec2b (bytes_dec (sp_pkh a) (sp_pkh b)) && pmap_eqv_b (sp_proofs a) (sp_proofs b).

Definition opt_eqv_b {A} (f : A -> A -> bool) (a b : option A) : bool :=
  match a, b with Some x, Some y => f x y | None, None => true | _, _ => false end.

(** Same variant, and the carried value equivalent. *)
Definition cmsg_eqv_b (a b : cmsg) : bool :=
  opt_eqv_b proposed_eqv_b (cm_ph a) (cm_ph b) && opt_eqv_b sparse_eqv_b (cm_pv a) (cm_pv b) &&
  opt_eqv_b sparse_eqv_b (cm_pc a) (cm_pc b).

(** Round-trip monitors: [v] is the value that was encoded by the real Marshal*, [o] what the
    real Unmarshal* returned for the encoder's output ([Ok None] = an error, [Panic] = a panic
    of either call). *)
Definition c14_rt_mon {A} (eqv : A -> A -> bool) (v : A) (o : res (option A)) : bool :=
  match o with Ok (Some v') => eqv v v' | _ => false end.

Definition c14_rt_header_mon := c14_rt_mon header_eqv_b.
Definition c14_rt_proposed_mon := c14_rt_mon proposed_eqv_b.
Definition c14_rt_committed_mon := c14_rt_mon committed_eqv_b.
Definition c14_rt_sparse_mon := c14_rt_mon sparse_eqv_b.
Definition c14_rt_cmsg_mon := c14_rt_mon cmsg_eqv_b.

(** Variant monitor for a message with exactly one field set. *)
Definition variant_of (m : cmsg) : N :=
  match cm_ph m, cm_pv m, cm_pc m with
  | Some _, None, None => 1 | None, Some _, None => 2 | None, None, Some _ => 3
  | None, None, None => 0 | _, _, _ => 4
  end.
Definition c14_variant_mon (m : cmsg) (o : res (option cmsg)) : bool :=
  match o with Ok (Some m') => N.eqb (variant_of m) (variant_of m') | _ => false end.

(** Decoding never panics: the outcome of an Unmarshal* call on arbitrary bytes is a value or
    an error. *)
Definition c14_nopanic_mon {A} (o : res (option A)) : bool := is_ok o.
