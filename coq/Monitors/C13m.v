(** C13 - executable monitor: "signature proofs merge as verified set union and round-trip",
    evaluated on the IMPLEMENTATION's observations.  It tracks, per register, only the public
    parameters and the signer bit set reported by the implementation, and judges every
    observation against the set-union specification (it does not run the model). *)
From Coq Require Import List NArith ZArith String Bool.
From GV Require Import Base.Ints Model.SimpleProofBase.
Import ListNotations.
Local Open Scope N_scope.

Record mreg := mk_mreg { m_msg : list N; m_keys : list N; m_hash : list N; m_bits : N }.
Definition mregs := list (nat * mreg).

Fixpoint mget (rs : mregs) (r : nat) : option mreg :=
  match rs with
  | [] => None
  | (r', g) :: t => if Nat.eqb r' r then Some g else mget t r
  end.
Definition mset (rs : mregs) (r : nat) (g : mreg) : mregs := (r, g) :: rs.
Definition with_bits (g : mreg) (b : N) : mreg := mk_mreg (m_msg g) (m_keys g) (m_hash g) b.

Fixpoint mget_all (rs : mregs) (l : list nat) : option (list mreg) :=
  match l with
  | [] => Some []
  | r :: t => match mget rs r, mget_all rs t with
              | Some p, Some ps => Some (p :: ps)
              | _, _ => None
              end
  end.

Fixpoint obs_eqb (a b : list N) : bool :=
  match a, b with
  | [], [] => true
  | x :: a', y :: b' => N.eqb x y && obs_eqb a' b'
  | _, _ => false
  end.

Fixpoint keys_eqb_m (a b : list N) : bool :=
  match a, b with
  | [], [] => true
  | x :: a', y :: b' => N.eqb x y && keys_eqb_m a' b'
  | _, _ => false
  end.

(** A sparse entry is good for (keys, msg) when its id is exactly two bytes, in range, and the
    signature verifies under the key at that index. Result: (index named by the id, bit that gets set). *)
Definition good_entry (keys msg : list N) (e : sparse_entry) : option (N * N) :=
  match entry_index (List.length keys) (fst e) with
  | None => None
  | Some n =>
      match nth_key keys n with
      | None => None
      | Some k =>
          if sig_verify k msg (snd e) then
            match key_index keys k with Some t => Some (n, t) | None => None end
          else None
      end
  end.

(** (all entries good, bits named by good ids, bits that get set) *)
Fixpoint spec_sparse (keys msg : list N) (ents : list sparse_entry) : bool * (N * N) :=
  match ents with
  | [] => (true, (0, 0))
  | e :: t =>
      let '(av, (ad, un)) := spec_sparse keys msg t in
      match good_entry keys msg e with
      | Some (n, i) => (av, (N.lor ad (bit n), N.lor un (bit i)))
      | None => (false, (ad, un))
      end
  end.

Definition exp_merge_sparse (g : mreg) (hash : list N) (ents : list sparse_entry) : list N * N :=
  if negb (bytes_eqb (m_hash g) hash) then ([0; 0; 0; m_bits g], m_bits g)
  else
    let '(av, (ad, un)) := spec_sparse (m_keys g) (m_msg g) ents in
    let b' := N.lor (m_bits g) un in
    ([b2n av; b2n (popcount (m_bits g) <? popcount b'); b2n (is_strict_superset ad (m_bits g)); b'], b').

Definition matches_m (p o : mreg) : bool :=
  bytes_eqb (m_msg p) (m_msg o) && bytes_eqb (m_hash p) (m_hash o) && keys_eqb_m (m_keys p) (m_keys o).

Definition regular (g : mreg) : bool :=
  nodup_N (m_keys g) && (N.of_nat (List.length (m_keys g)) <=? 65536).

(** all signature values of the case have salt 0: one valid signature value per (key, message) *)
Definition uniq_tbl (tbl : list sigv) : bool :=
  forallb (fun s => match s with Good _ _ salt => N.eqb salt 0 | Junk _ => true end) tbl.

(** parse the entry rows of an AsSparse observation: [len; id...; token] *)
Fixpoint parse_rows (fuel : nat) (o : list N) : option (list (list N * N)) :=
  match fuel with
  | O => None
  | S f =>
      match o with
      | [] => Some []
      | len :: rest =>
          let n := N.to_nat len in
          let id := firstn n rest in
          match skipn n rest with
          | tok :: rest' =>
              if Nat.eqb (List.length id) n then
                match parse_rows f rest' with Some l => Some ((id, tok) :: l) | None => None end
              else None
          | [] => None
          end
      end
  end.

Definition sparse_obs_ok (tbl : list sigv) (g : mreg) (o : list N) : bool :=
  match o with
  | [] => false
  | hl :: rest =>
      let n := N.to_nat hl in
      bytes_eqb (firstn n rest) (m_hash g) && Nat.eqb (List.length (firstn n rest)) n &&
      match parse_rows (S (List.length o)) (skipn n rest) with
      | None => false
      | Some rows =>
          (* every row: well-formed id, and the signature named by the token verifies under that key *)
          forallb (fun row : list N * N =>
                     match nth_error tbl (N.to_nat (snd row)) with
                     | None => false
                     | Some s => match good_entry (m_keys g) (m_msg g) (fst row, s) with Some _ => true | None => false end
                     end) rows &&
          (* and the ids name exactly the signer set *)
          N.eqb (fold_left (fun acc (row : list N * N) =>
                              match entry_index (List.length (m_keys g)) (fst row) with
                              | Some i => N.lor acc (bit i) | None => acc end) rows 0) (m_bits g)
      end
  end.

Fixpoint pairwise_disjoint (l : list N) : bool :=
  match l with
  | [] => true
  | b :: t => forallb (fun c => N.eqb (N.land b c) 0) t && pairwise_disjoint t
  end.

Fixpoint distinct_bytes (l : list (list N)) : bool :=
  match l with
  | [] => true
  | x :: t => forallb (fun y => negb (bytes_eqb x y)) t && distinct_bytes t
  end.

Definition spec_block (keys msg : list N) (ents : list sparse_entry) : option N :=
  let '(av, (_, un)) := spec_sparse keys msg ents in if av then Some un else None.

Fixpoint spec_blocks (keys : list N) (hashes : list (list N * list N))
         (blocks : list (list N * list sparse_entry)) : option (list (list N * N)) :=
  match blocks with
  | [] => Some []
  | (msg, ents) :: t =>
      match spec_block keys msg ents, spec_blocks keys hashes t with
      | Some b, Some l => Some ((hash_get hashes msg, b) :: l)
      | _, _ => None
      end
  end.

(** Expected ValidateFinalizedProof observation, when the block hashes are pairwise distinct. *)
Definition exp_validate (f : fin) (hashes : list (list N * list N)) : list N :=
  match spec_blocks (f_keys f) hashes ((f_main_msg f, f_main_sigs f) :: f_rest f) with
  | None => [0; 0]
  | Some out => obs_validate (Ok (Some out, pairwise_disjoint (map snd out)))
  end.

Definition validate_judgeable (f : fin) (hashes : list (list N * list N)) : bool :=
  nodup_N (f_keys f) &&
  distinct_bytes (map fst ((f_main_msg f, f_main_sigs f) :: f_rest f)) &&
  distinct_bytes (map (fun b : list N * list sparse_entry => hash_get hashes (fst b)) ((f_main_msg f, f_main_sigs f) :: f_rest f)).

Definition is_panic (o : list N) : bool := obs_eqb o obs_panic.

(** One monitor step: new tracked state and verdict for this observation. *)
Definition mstep (tbl : list sigv) (rs : mregs) (o : op) (ob : list N) : mregs * bool :=
  match o with
  | ONew r msg keys hash =>
      match keys with
      | [] => (rs, is_panic ob)             (* the documented constructor panic *)
      | _ => (mset rs r (mk_mreg msg keys hash 0), obs_eqb ob [0])
      end
  | OAdd r s key =>
      match mget rs r with
      | None => (rs, obs_eqb ob obs_noreg)
      | Some g =>
          match key_index (m_keys g) key with
          | None => (rs, obs_eqb ob [1; m_bits g])
          | Some i =>
              if sig_verify key (m_msg g) s
              then let b' := N.lor (m_bits g) (bit i) in (mset rs r (with_bits g b'), obs_eqb ob [0; b'])
              else (rs, obs_eqb ob [2; m_bits g])
          end
      end
  | OMergeSparse r hash ents =>
      match mget rs r with
      | None => (rs, obs_eqb ob obs_noreg)
      | Some g => let '(e, b') := exp_merge_sparse g hash ents in (mset rs r (with_bits g b'), obs_eqb ob e)
      end
  | OMerge r o' =>
      match mget rs r, mget rs o' with
      | Some g, Some h =>
          if negb (matches_m g h) then (rs, obs_eqb ob [0; 0; 0; m_bits g])
          else
            let b' := N.lor (m_bits g) (m_bits h) in
            let looks := (N.eqb (m_bits h) 0 && N.eqb (m_bits g) 0) || is_strict_superset (m_bits h) (m_bits g) in
            (mset rs r (with_bits g b'),
             match ob with
             | [av; inc; st; bb] =>
                 N.eqb av 1 && N.eqb st (b2n looks) && N.eqb bb b' &&
                 (if negb (N.eqb b' (m_bits g)) then N.eqb inc 1
                  else if uniq_tbl tbl then N.eqb inc 0 else (inc <=? 1))
             | _ => false
             end)
      | _, _ => (rs, obs_eqb ob obs_noreg)
      end
  | OMergeFrom r o' =>
      match mget rs r, mget rs o' with
      | Some g, Some h =>
          if negb (bytes_eqb (m_hash g) (m_hash h)) then (rs, obs_eqb ob [0; 0; 0; m_bits g])
          else if matches_m g h && regular g then
            let b' := N.lor (m_bits g) (m_bits h) in
            (mset rs r (with_bits g b'),
             obs_eqb ob [1; b2n (negb (N.eqb b' (m_bits g))); b2n (is_strict_superset (m_bits h) (m_bits g)); b'])
          else
            (* different message or key list under the same hash: monotone, in range, no panic *)
            match ob with
            | [av; inc; st; bb] =>
                (mset rs r (with_bits g bb),
                 is_superset bb (m_bits g) && (bb <? N.shiftl 1 (N.of_nat (List.length (m_keys g)))) &&
                 N.eqb inc (b2n (negb (N.eqb bb (m_bits g)))))
            | _ => (rs, false)
            end
      | _, _ => (rs, obs_eqb ob obs_noreg)
      end
  | OHas r id =>
      match mget rs r with
      | None => (rs, obs_eqb ob obs_noreg)
      | Some g =>
          (rs, match entry_index (List.length (m_keys g)) id with
               | Some n => obs_eqb ob [b2n (N.testbit (m_bits g) n); 1]
               | None => obs_eqb ob [0; 0]
               end)
      end
  | OSparse r =>
      match mget rs r with
      | None => (rs, obs_eqb ob obs_noreg)
      | Some g => (rs, if regular g then sparse_obs_ok tbl g ob else negb (is_panic ob))
      end
  | OClone r to =>
      match mget rs r with
      | None => (rs, obs_eqb ob obs_noreg)
      | Some g => (mset rs to g, obs_eqb ob [m_bits g])
      end
  | ODerive r to =>
      match mget rs r with
      | None => (rs, obs_eqb ob obs_noreg)
      | Some g => (mset rs to (with_bits g 0), obs_eqb ob [0])
      end
  | OBits r =>
      match mget rs r with
      | None => (rs, obs_eqb ob obs_noreg)
      | Some g => (rs, obs_eqb ob [m_bits g])     (* in particular: untouched by operations on clones *)
      end
  | OFinVal main rest hashes =>
      match mget rs main, mget_all rs rest with
      | Some m, Some ps =>
          let blocks := m :: ps in
          if forallb regular blocks &&
             forallb (fun p => keys_eqb_m (m_keys p) (m_keys m) && bytes_eqb (m_hash p) (m_hash m)) ps &&
             distinct_bytes (map m_msg blocks) &&
             distinct_bytes (map (fun p => hash_get hashes (m_msg p)) blocks)
          then
            (rs, obs_eqb ob (obs_validate (Ok (Some (map (fun p => (hash_get hashes (m_msg p), m_bits p)) blocks),
                                               pairwise_disjoint (map m_bits blocks)))))
          else (rs, negb (is_panic ob))
      | _, _ => (rs, obs_eqb ob obs_noreg)
      end
  | OValidate f hashes =>
      match f_keys f with
      | [] => (rs, is_panic ob)
      | _ => (rs, if validate_judgeable f hashes then obs_eqb ob (exp_validate f hashes) else negb (is_panic ob))
      end
  | OIsValid nkeys id =>
      (rs, obs_eqb ob [b2n (match entry_index nkeys id with Some _ => true | None => false end)])
  end.

(** Index of the first observation the monitor rejects (None = the whole trace is accepted). *)
Fixpoint mon_from (tbl : list sigv) (rs : mregs) (ops : list op) (obs : list (list N)) (i : N) : option N :=
  match ops, obs with
  | [], [] => None
  | o :: t, ob :: tb =>
      let '(rs', ok) := mstep tbl rs o ob in
      if ok then mon_from tbl rs' t tb (i + 1) else Some i
  | _, _ => Some i
  end.

Definition c13_mon (tbl : list sigv) (ops : list op) (obs : list (list N)) : option N :=
  mon_from tbl [] ops obs 0.
