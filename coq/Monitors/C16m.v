(** C16 - executable monitors, evaluated on the IMPLEMENTATION's observations.
    Part 1: a linearizability checker for a recorded concurrent history against a
    sequential model (Wing-Gong search: repeatedly pick an operation that no other pending
    operation precedes in real time and whose recorded result is what the model returns). *)
From Coq Require Import List NArith Bool.
From GV Require Import Base.Ints Model.Stores Model.StoresEq.
Import ListNotations.
Local Open Scope N_scope.

Section Lin.
  Context {St Op Out : Type} (step : St -> Op -> St * Out) (out_eqb : Out -> Out -> bool).

  (** One completed call: operation, observed result, invocation and return stamps. *)
  Definition ev := (Op * Out * N * N)%type.
  Definition ev_op (e : ev) : Op := fst (fst (fst e)).
  Definition ev_out (e : ev) : Out := snd (fst (fst e)).
  Definition ev_inv (e : ev) : N := snd (fst e).
  Definition ev_ret (e : ev) : N := snd e.

  Fixpoint picks {A} (pre l : list A) : list (A * list A) :=
    match l with
    | [] => []
    | x :: l' => (x, rev_append pre l') :: picks (x :: pre) l'
    end.

  (** [e] may be linearized before everything in [rest]: nothing in [rest] returned before [e] was invoked. *)
  Definition may_go_first (e : ev) (rest : list ev) : bool :=
    forallb (fun e' => negb (N.ltb (ev_ret e') (ev_inv e))) rest.

  (** [if] rather than [&&]/[existsb]: vm_compute is call-by-value, the search must stop at the first witness. *)
  Fixpoint lin (fuel : nat) (s : St) (pending : list ev) : bool :=
    match pending with
    | [] => true
    | _ :: _ =>
        match fuel with
        | O => false
        | Datatypes.S f =>
            (fix try (cands : list (ev * list ev)) : bool :=
               match cands with
               | [] => false
               | (e, rest) :: cands' =>
                   if (if may_go_first e rest
                       then let '(s', out) := step s (ev_op e) in
                            if out_eqb out (ev_out e) then lin f s' rest else false
                       else false)
                   then true
                   else try cands'
               end) (picks [] pending)
        end
    end.

  Definition linearizable (s : St) (h : list ev) : bool := lin (length h) s h.
End Lin.

(** Part 2: sequential contracts, written over the HISTORY of completed calls (newest
    first) rather than over a store state: the answer the contract requires for the next
    call is a function of the earlier calls and their results.  [mon_run] returns 0 when
    every observed result is the required one, else [100 * index + class] of the first
    call that is not (class 1 = contract broken; classes 2.. = a recorded finding class,
    action store only). *)
Section Mon.
  Context {Op Out : Type} (expected : list (Op * Out) -> Op -> Out) (out_eqb : Out -> Out -> bool)
          (classify : list (Op * Out) -> Op -> Out -> Out -> N).
  Fixpoint mon_go (i : N) (hist tr : list (Op * Out)) : N :=
    match tr with
    | [] => 0
    | (o, seen) :: tr' =>
        let e := expected hist o in
        if out_eqb e seen then mon_go (i + 1) ((o, seen) :: hist) tr'
        else i * 100 + classify hist o e seen
    end.
  Definition mon_run (tr : list (Op * Out)) : N := mon_go 0 [] tr.
End Mon.

Definition class1 {Op Out : Type} (_ : list (Op * Out)) (_ : Op) (_ _ : Out) : N := 1.

(** ** Finalization store: the first save of a height wins forever. *)
Definition f_saved (h : N) (hist : list (fop * fout)) : option fin :=
  match find (fun e : fop * fout => match e with (FSave h' _ _ _ _, FOk) => N.eqb h' h | _ => false end) hist with
  | Some (FSave _ r bh vs ah, _) => Some (r, bh, vs, ah)
  | _ => None
  end.
Definition f_expected (hist : list (fop * fout)) (o : fop) : fout :=
  match o with
  | FSave h _ _ _ _ => match f_saved h hist with Some _ => FErr (EFinOverwrite h) | None => FOk end
  | FLoad h => match f_saved h hist with Some (r, bh, vs, ah) => FLoaded r bh vs ah | None => FErr (EHeightUnknown h) end
  end.
Definition f_mon := mon_run f_expected fout_eqb class1.

(** ** Committed header store: the latest save of a height is what a load returns. *)
Definition c_saved (h : N) (hist : list (cop * cout)) : option N :=
  match find (fun e : cop * cout => match e with (CSave h' _, COk) => N.eqb h' h | _ => false end) hist with
  | Some (CSave _ tag, _) => Some tag
  | _ => None
  end.
Definition c_expected (hist : list (cop * cout)) (o : cop) : cout :=
  match o with
  | CSave _ _ => COk
  | CLoad h => match c_saved h hist with Some tag => CLoaded tag | None => CErr (EHeightUnknown h) end
  end.
Definition c_mon := mon_run c_expected cout_eqb class1.

(** ** Mirror / state machine stores: the latest set, "uninitialized" iff none or height 0. *)
Definition m_last (hist : list (mop * mout)) : option (N * N * N * N) :=
  match find (fun e : mop * mout => match e with (MSet _ _ _ _, MOk) => true | _ => false end) hist with
  | Some (MSet a b c d, _) => Some (a, b, c, d)
  | _ => None
  end.
Definition m_expected (hist : list (mop * mout)) (o : mop) : mout :=
  match o with
  | MSet _ _ _ _ => MOk
  | MGet => match m_last hist with
            | Some (vh, vr, ch, cr) => if N.eqb vh 0 then MErr EUninitialized else MVal vh vr ch cr
            | None => MErr EUninitialized
            end
  end.
Definition m_mon := mon_run m_expected mout_eqb class1.

Definition s_last (hist : list (sop * sout)) : option (N * N) :=
  match find (fun e : sop * sout => match e with (SSet _ _, SOk) => true | _ => false end) hist with
  | Some (SSet a b, _) => Some (a, b)
  | _ => None
  end.
Definition s_expected (hist : list (sop * sout)) (o : sop) : sout :=
  match o with
  | SSet _ _ => SOk
  | SGet => match s_last hist with
            | Some (h, r) => if N.eqb h 0 then SErr EUninitialized else SVal h r
            | None => SErr EUninitialized
            end
  end.
Definition s_mon := mon_run s_expected sout_eqb class1.

(** ** Validator store: a hash retrieves the OLDEST saved list that hashes to it. *)
Section VMon.
  Variable hk : list bytes -> hres.
  Variable hp : list N -> hres.
  Definition hres_is (r : hres) (h : bytes) : bool := match r with HOk h' => bytes_eqb h' h | _ => false end.

  (** oldest = last in a newest-first history *)
  Fixpoint v_keys_for (h : bytes) (hist : list (vop * vout)) : option (list bytes) :=
    match hist with
    | [] => None
    | (VSaveKeys ks, _) :: hist' =>
        match v_keys_for h hist' with
        | Some x => Some x
        | None => if hres_is (hk ks) h then Some ks else None
        end
    | _ :: hist' => v_keys_for h hist'
    end.
  Fixpoint v_pows_for (h : bytes) (hist : list (vop * vout)) : option (list N) :=
    match hist with
    | [] => None
    | (VSavePows ps, _) :: hist' =>
        match v_pows_for h hist' with
        | Some x => Some x
        | None => if hres_is (hp ps) h then Some ps else None
        end
    | _ :: hist' => v_pows_for h hist'
    end.

  Definition v_expected (hist : list (vop * vout)) (o : vop) : vout :=
    match o with
    | VSaveKeys ks =>
        match hk ks with
        | HPanic => VPanic
        | HErr => VFail EHashScheme
        | HOk h => match v_keys_for h hist with Some _ => VSaveErr h (EKeysExist h) | None => VSaved h end
        end
    | VSavePows ps =>
        match hp ps with
        | HPanic => VPanic
        | HErr => VFail EHashScheme
        | HOk h => match v_pows_for h hist with Some _ => VSaveErr h (EPowsExist h) | None => VSaved h end
        end
    | VLoadKeys h => match v_keys_for h hist with Some ks => VKeys ks | None => VFail (ENoHash (Some h) None) end
    | VLoadPows h => match v_pows_for h hist with Some ps => VPows ps | None => VFail (ENoHash None (Some h)) end
    | VLoadVals kh ph =>
        match v_keys_for kh hist, v_pows_for ph hist with
        | Some ks, Some ps =>
            if Nat.eqb (length ks) (length ps) then VVals (combine ks ps)
            else VFail (ECountMismatch (N.of_nat (length ks)) (N.of_nat (length ps)))
        | None, Some _ => VFail (ENoHash (Some kh) None)
        | Some _, None => VFail (ENoHash None (Some ph))
        | None, None => VFail (ENoHash (Some kh) (Some ph))
        end
    | VMutateSavedKeys _ => VDone
    end.
  Definition v_mon := mon_run v_expected vout_eqb class1.
End VMon.

(** ** Round store: the stored proposals are exactly the accepted ones; proofs are the
    latest overwrite; replayed headers surface through the precommit hashes. *)
Definition r_phs (hist : list (rop * rout)) : list ph :=
  flat_map (fun e : rop * rout => match e with (RSavePH p, ROk) => [p] | _ => [] end) hist.
Definition r_rep (hist : list (rop * rout)) : list (N * bytes * N) :=
  flat_map (fun e : rop * rout => match e with (RSaveReplayed h hash tag, ROk) => [(h, hash, tag)] | _ => [] end) hist.
Definition r_pv (h r : N) (hist : list (rop * rout)) : ssc :=
  match find (fun e : rop * rout => match e with (RSetPV h' r' _, ROk) => hr_eqb (h, r) (h', r') | _ => false end) hist with
  | Some (RSetPV _ _ c, _) => c
  | _ => ssc_zero
  end.
Definition r_pc (h r : N) (hist : list (rop * rout)) : ssc :=
  match find (fun e : rop * rout => match e with (RSetPC h' r' _, ROk) => hr_eqb (h, r) (h', r') | _ => false end) hist with
  | Some (RSetPC _ _ c, _) => c
  | _ => ssc_zero
  end.
Definition r_expected (hist : list (rop * rout)) (o : rop) : rout :=
  match o with
  | RSavePH p =>
      match filter (ph_at_hash (ph_h p) (ph_r p) (ph_hash p)) (r_phs hist) with
      | [] => ROk
      | have => match ph_key p with
                | None => RPanic
                | Some k => if existsb (same_proposer k) have then RErr (EOverwrite 0 k) else ROk
                end
      end
  | RSaveReplayed h hash _ =>
      if existsb (fun p => N.eqb (ph_h p) h && bytes_eqb (ph_hash p) hash) (r_phs hist) then RErr (EOverwrite 1 hash) else ROk
  | RSetPV _ _ _ => ROk
  | RSetPC _ _ _ => ROk
  | RLoad h r =>
      let pv := r_pv h r hist in
      let pc := r_pc h r hist in
      match filter (ph_at h r) (r_phs hist) ++ replayed_for h (r_rep hist) pc with
      | [] => if ssc_nilmap pv && ssc_nilmap pc then RUnknown pv pc h r else RLoaded [] pv pc
      | phs => RLoaded phs pv pc
      end
  end.
Definition r_mon := mon_run r_expected rout_eqb class1.

(** ** Action store - the FULL contract: at most one proposal, one prevote, one precommit per
    height/round, all under one signing key (the key of the oldest accepted action). *)
Definition aop_hr (o : aop) : hr :=
  match o with
  | ASavePH p => (ph_h p, ph_r p)
  | ASavePV _ h r _ _ | ASavePC _ h r _ _ | ALoad h r => (h, r)
  end.
Definition a_ok_at (x : hr) (e : aop * aout) : bool :=
  match e with
  | (ALoad _ _, _) => false
  | (o, AOk) => hr_eqb x (aop_hr o)
  | _ => false
  end.
Definition a_ph (x : hr) (hist : list (aop * aout)) : option ph :=
  match find (fun e => a_ok_at x e && match fst e with ASavePH _ => true | _ => false end) hist with
  | Some (ASavePH p, _) => Some p
  | _ => None
  end.
Definition a_pv (x : hr) (hist : list (aop * aout)) : option (key * bytes * bytes) :=
  match find (fun e => a_ok_at x e && match fst e with ASavePV _ _ _ _ _ => true | _ => false end) hist with
  | Some (ASavePV k _ _ bh sig, _) => Some (k, bh, sig)
  | _ => None
  end.
Definition a_pc (x : hr) (hist : list (aop * aout)) : option (key * bytes * bytes) :=
  match find (fun e => a_ok_at x e && match fst e with ASavePC _ _ _ _ _ => true | _ => false end) hist with
  | Some (ASavePC k _ _ bh sig, _) => Some (k, bh, sig)
  | _ => None
  end.
(** latest accepted vote (either kind) *)
Definition a_vote_key (x : hr) (hist : list (aop * aout)) : option key :=
  match find (fun e => a_ok_at x e && match fst e with ASavePV _ _ _ _ _ | ASavePC _ _ _ _ _ => true | _ => false end) hist with
  | Some (ASavePV k _ _ _ _, _) | Some (ASavePC k _ _ _ _, _) => Some k
  | _ => None
  end.
Definition aop_key (o : aop) : key :=
  match o with
  | ASavePH p => ph_key p
  | ASavePV k _ _ _ _ | ASavePC k _ _ _ _ => k
  | ALoad _ _ => None
  end.
(** keys of all accepted actions of the round, newest first; the contract's key is the oldest *)
Definition a_keys (x : hr) (hist : list (aop * aout)) : list key :=
  map (fun e => aop_key (fst e)) (filter (a_ok_at x) hist).
Definition a_first_key (x : hr) (hist : list (aop * aout)) : option key :=
  match rev (a_keys x hist) with k :: _ => Some k | [] => None end.
Definition kb (k : key) : bytes := match k with Some b => b | None => [] end.

Definition a_key_rule (kd : akind) (x : hr) (hist : list (aop * aout)) (k : key) : aout :=
  match a_first_key x hist with
  | Some k0 => if key_eqb k0 k then AOk else AErr (EPubKeyChanged kd (kb k0) (kb k))
  | None => AOk
  end.

(** What a load must return: the latest accepted proposal / prevote / precommit of the round
    and the key of the latest accepted vote ([None] when nothing was accepted). *)
Definition mk_view (x : hr) (hist : list (aop * aout)) : ra :=
  mkra (fst x) (snd x)
       (match a_ph x hist with Some p => p | None => ph_zero end)
       (match a_vote_key x hist with Some k => k | None => None end)
       (match a_pv x hist with Some (_, t, _) => t | None => [] end)
       (match a_pv x hist with Some (_, _, s) => s | None => [] end)
       (match a_pc x hist with Some (_, t, _) => t | None => [] end)
       (match a_pc x hist with Some (_, _, s) => s | None => [] end).
Definition a_view (x : hr) (hist : list (aop * aout)) : option ra :=
  match a_keys x hist with
  | [] => None
  | _ :: _ => Some (mk_view x hist)
  end.

Definition a_expected (hist : list (aop * aout)) (o : aop) : aout :=
  let x := aop_hr o in
  match o with
  | ASavePH p =>
      match a_ph x hist with
      | Some _ => AErr (EDoubleAction KProposal)
      | None => a_key_rule KProposal x hist (ph_key p)
      end
  | ASavePV k _ _ _ _ =>
      match a_pv x hist with
      | Some _ => AErr (EDoubleAction KPrevote)
      | None => a_key_rule KPrevote x hist k
      end
  | ASavePC k _ _ _ _ =>
      match a_pc x hist with
      | Some _ => AErr (EDoubleAction KPrecommit)
      | None => a_key_rule KPrecommit x hist k
      end
  | ALoad h r =>
      match a_view x hist with
      | Some v => ALoaded v
      | None => AErr (ERoundUnknown h r)
      end
  end.

(** The guard under which the code meets the full contract; each conjunct excludes one
    recorded finding class (numbers = class codes). *)
Definition a_guard_nil (hist : list (aop * aout)) (o : aop) : bool :=      (* 2: nil PubKey *)
  match o with ALoad _ _ => true | _ => match aop_key o with Some _ => true | None => false end end.
Definition a_guard_h0 (o : aop) : bool :=                                  (* 3: proposal for height 0 *)
  match o with ASavePH p => negb (N.eqb (ph_h p) 0) | _ => true end.
Definition a_guard_sig (o : aop) : bool :=                                 (* 4: empty signature *)
  match o with ASavePV _ _ _ _ sig | ASavePC _ _ _ _ sig => negb (is_empty sig) | _ => true end.
Definition a_guard_pkey (hist : list (aop * aout)) (o : aop) : bool :=     (* 5: proposal key vs vote key *)
  let x := aop_hr o in
  match o with
  | ASavePH p => forallb (key_eqb (ph_key p)) (a_keys x hist)
  | ASavePV k _ _ _ _ | ASavePC k _ _ _ _ =>
      match a_ph x hist with Some p => key_eqb (ph_key p) k | None => true end
  | ALoad _ _ => true
  end.
Definition a_guard (hist : list (aop * aout)) (o : aop) : bool :=
  a_guard_nil hist o && a_guard_h0 o && a_guard_sig o && a_guard_pkey hist o.

Fixpoint a_guards_go (hist tr : list (aop * aout)) : bool :=
  match tr with
  | [] => true
  | (o, out) :: tr' => a_guard hist o && a_guards_go ((o, out) :: hist) tr'
  end.
Definition a_guards (tr : list (aop * aout)) : bool := a_guards_go [] tr.

(** Classification of a divergence from the full contract by its cause (the recorded
    finding classes); 1 = none of them explains it. *)
Definition is_double (e : aout) (k : akind) : bool :=
  match e with AErr (EDoubleAction k') => akind_eqb k k' | _ => false end.
Definition is_keychanged (e : aout) : bool :=
  match e with AErr (EPubKeyChanged _ _ _) => true | _ => false end.
Definition a_classify (hist : list (aop * aout)) (o : aop) (e seen : aout) : N :=
  let x := aop_hr o in
  let nil_involved := match o with ALoad _ _ => false | _ => match aop_key o with None => true | Some _ => false end end
                      || existsb (fun k => match k with None => true | Some _ => false end) (a_keys x hist) in
  let empty_sig_recorded :=
      match o with
      | ASavePV _ _ _ _ _ => is_double e KPrevote && match a_pv x hist with Some (_, _, s) => is_empty s | None => false end
      | ASavePC _ _ _ _ _ => is_double e KPrecommit && match a_pc x hist with Some (_, _, s) => is_empty s | None => false end
      | _ => false
      end in
  let h0 := match o with ASavePH p => N.eqb (ph_h p) 0 && is_double e KProposal | _ => false end in
  let pkey := is_keychanged e && match seen with AOk => true | _ => false end &&
              match o with
              | ASavePH _ => true
              | ALoad _ _ => false
              | _ => match a_vote_key x hist with None => true | Some _ => false end
              end in
  if is_keychanged e && nil_involved then 2
  else if h0 then 3
  else if empty_sig_recorded then 4
  else if pkey then 5
  else 1.
Definition a_mon := mon_run a_expected aout_eqb a_classify.

(** The monitor the check evaluates: a divergence is attributed to a finding class only if
    the trace up to and including the diverging call has left the guard; a divergence while
    every call so far satisfied the guard is class 1 (it contradicts the guarded theorem). *)
Fixpoint a_div_in_guard (i : N) (hist tr : list (aop * aout)) (g : bool) : option N :=
  match tr with
  | [] => None
  | (o, seen) :: tr' =>
      let g' := g && a_guard hist o in
      if aout_eqb (a_expected hist o) seen then a_div_in_guard (i + 1) ((o, seen) :: hist) tr' g'
      else if g' then Some i else None
  end.
Definition a_mon_checked (tr : list (aop * aout)) : N :=
  match a_div_in_guard 0 [] tr true with
  | Some i => i * 100 + 1
  | None => a_mon tr
  end.
