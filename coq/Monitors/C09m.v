(** C09 monitors (non-kernel parts): boolean predicates evaluated on the IMPLEMENTATION's observations.
    Name based, so that they do not depend on the numeric encoding of the Go enumerations
    (this file must not import Gen/ or Proofs/). *)
From Coq Require Import List NArith Bool String.
Import ListNotations.
Local Open Scope string_scope.

(** * Feedback mappers *)

(** What a fine-grained handler result says about the message (from the doc comments in
    tm/tmconsensus/handler.go). *)
Inductive cls := ValidNew | ValidKnown | ValidFuture | Invalid | OutOfWindow | Internal | Unclassified.

Fixpoint lookup {A} (k : string) (l : list (string * A)) (d : A) : A :=
  match l with
  | [] => d
  | (k', v) :: t => if String.eqb k k' then v else lookup k t d
  end.

Definition ph_classes : list (string * cls) :=
  [ ("HandleProposedHeaderAccepted", ValidNew);
    ("HandleProposedHeaderAlreadyStored", ValidKnown);
    ("HandleProposedHeaderSignerUnrecognized", Invalid);
    ("HandleProposedHeaderBadBlockHash", Invalid);
    ("HandleProposedHeaderBadSignature", Invalid);
    ("HandleProposedHeaderMissingProposerPubKey", Invalid);
    ("HandleProposedHeaderBadPrevCommitProofPubKeyHash", Invalid);
    ("HandleProposedHeaderBadPrevCommitProofSignature", Invalid);
    ("HandleProposedHeaderBadPrevCommitProofDoubleSigned", Invalid);
    ("HandleProposedHeaderBadPrevCommitVoteCount", Invalid);
    ("HandleProposedHeaderRoundTooOld", OutOfWindow);
    ("HandleProposedHeaderRoundTooFarInFuture", OutOfWindow);
    ("HandleProposedHeaderInternalError", Internal) ].

Definition vote_classes : list (string * cls) :=
  [ ("HandleVoteProofsAccepted", ValidNew);
    ("HandleVoteProofsNoNewSignatures", ValidKnown);
    ("HandleVoteProofsEmpty", Invalid);
    ("HandleVoteProofsBadPubKeyHash", Invalid);
    ("HandleVoteProofsRoundTooOld", OutOfWindow);
    ("HandleVoteProofsBadSignature", Invalid);
    ("HandleVoteProofsFutureVerified", ValidFuture);
    ("HandleVoteProofsFutureUnverified", OutOfWindow);
    ("HandleVoteProofsInternalError", Internal) ].

Definition ph_class (n : string) : cls := lookup n ph_classes Unclassified.
Definition vote_class (n : string) : cls := lookup n vote_classes Unclassified.

Inductive mapper := AAV | DD.

(** The documented behaviour of the two shipped mappers: AcceptAllValid accepts every valid input even if
    already known; DropDuplicate ignores what adds no knowledge.  Invalid input is rejected (sender penalised),
    out-of-window input and internal errors are ignored (no penalty: an honest peer may simply be ahead or behind). *)
Definition expected (m : mapper) (c : cls) : option string :=
  match c with
  | ValidNew | ValidFuture => Some "FeedbackAccepted"
  | ValidKnown => Some (match m with AAV => "FeedbackAccepted" | DD => "FeedbackIgnored" end)
  | Invalid => Some "FeedbackRejected"
  | OutOfWindow | Internal => Some "FeedbackIgnored"
  | Unclassified => None
  end.

Definition legal_feedback (f : string) : bool :=
  String.eqb f "FeedbackAccepted" || String.eqb f "FeedbackRejected" || String.eqb f "FeedbackIgnored".

(** obs: [None] = the mapper panicked, [Some f] = name of the feedback value returned. *)
Definition mapper_mon (m : mapper) (c : cls) (obs : option string) : bool :=
  match obs with
  | None => false
  | Some f => legal_feedback f &&
              match expected m c with Some e => String.eqb f e | None => true end
  end.

Definition ph_mon (m : mapper) (name : string) (obs : option string) : bool := mapper_mon m (ph_class name) obs.
Definition vote_mon (m : mapper) (name : string) (obs : option string) : bool := mapper_mon m (vote_class name) obs.
