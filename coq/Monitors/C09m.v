(** C09 monitors (non-kernel parts): boolean predicates evaluated on the IMPLEMENTATION's observations.
    Name based, so that they do not depend on the numeric encoding of the Go enumerations
    (this file must not import Gen/ or Proofs/). *)
From Coq Require Import List NArith Bool String.
Import ListNotations.
Local Open Scope string_scope.

(** * Feedback mappers *)

(** What a fine-grained handler result says about the message (from the doc comments in
    tm/tmconsensus/handler.go). *)
Inductive cls := ValidNew | ValidKnown | ValidFuture | Invalid | OutOfWindow | Internal | Unclassified.

Fixpoint lookup {A} (k : string) (l : list (string * A)) (d : A) : A :=
  match l with
  | [] => d
  | (k', v) :: t => if String.eqb k k' then v else lookup k t d
  end.

Definition ph_classes : list (string * cls) :=
  [ ("HandleProposedHeaderAccepted", ValidNew);
    ("HandleProposedHeaderAlreadyStored", ValidKnown);
    ("HandleProposedHeaderSignerUnrecognized", Invalid);
    ("HandleProposedHeaderBadBlockHash", Invalid);
    ("HandleProposedHeaderBadSignature", Invalid);
    ("HandleProposedHeaderMissingProposerPubKey", Invalid);
    ("HandleProposedHeaderBadPrevCommitProofPubKeyHash", Invalid);
    ("HandleProposedHeaderBadPrevCommitProofSignature", Invalid);
    ("HandleProposedHeaderBadPrevCommitProofDoubleSigned", Invalid);
    ("HandleProposedHeaderBadPrevCommitVoteCount", Invalid);
    ("HandleProposedHeaderRoundTooOld", OutOfWindow);
    ("HandleProposedHeaderRoundTooFarInFuture", OutOfWindow);
    ("HandleProposedHeaderInternalError", Internal) ].

Definition vote_classes : list (string * cls) :=
  [ ("HandleVoteProofsAccepted", ValidNew);
    ("HandleVoteProofsNoNewSignatures", ValidKnown);
    ("HandleVoteProofsEmpty", Invalid);
    ("HandleVoteProofsBadPubKeyHash", Invalid);
    ("HandleVoteProofsRoundTooOld", OutOfWindow);
    ("HandleVoteProofsBadSignature", Invalid);
    ("HandleVoteProofsFutureVerified", ValidFuture);
    ("HandleVoteProofsFutureUnverified", OutOfWindow);
    ("HandleVoteProofsInternalError", Internal) ].

Definition ph_class (n : string) : cls := lookup n ph_classes Unclassified.
Definition vote_class (n : string) : cls := lookup n vote_classes Unclassified.

Inductive mapper := AAV | DD.

(** The documented behaviour of the two shipped mappers: AcceptAllValid accepts every valid input even if
    already known; DropDuplicate ignores what adds no knowledge.  Invalid input is rejected (sender penalised),
    out-of-window input and internal errors are ignored (no penalty: an honest peer may simply be ahead or behind). *)
Definition expected (m : mapper) (c : cls) : option string :=
  match c with
  | ValidNew | ValidFuture => Some "FeedbackAccepted"
  | ValidKnown => Some (match m with AAV => "FeedbackAccepted" | DD => "FeedbackIgnored" end)
  | Invalid => Some "FeedbackRejected"
  | OutOfWindow | Internal => Some "FeedbackIgnored"
  | Unclassified => None
  end.

Definition legal_feedback (f : string) : bool :=
  String.eqb f "FeedbackAccepted" || String.eqb f "FeedbackRejected" || String.eqb f "FeedbackIgnored".

(** obs: [None] = the mapper panicked, [Some f] = name of the feedback value returned. *)
Definition mapper_mon (m : mapper) (c : cls) (obs : option string) : bool :=
  match obs with
  | None => false
  | Some f => legal_feedback f &&
              match expected m c with Some e => String.eqb f e | None => true end
  end.

Definition ph_mon (m : mapper) (name : string) (obs : option string) : bool := mapper_mon m (ph_class name) obs.
Definition vote_mon (m : mapper) (name : string) (obs : option string) : bool := mapper_mon m (vote_class name) obs.

(** * Constructors (tmengine.New / tmengine.NewMirror) *)
From GV Require Import Model.OptTypes Model.Options.

(** Specification side, independent of the model's fold: what a caller is entitled to, computed from the option
    list alone and the documented facts of the option table (which options can reject their value, which are
    documented as required, which configuration a constructor consumes). *)

Definition rejects (table : list optinfo) (n : string) (a : argval) : bool :=
  match find_opt n table with Some o => o_can_err o && is_bad a | None => false end.

(** options of the list whose own check rejects the given value (in order of appearance) *)
Definition rejected_opts (table : list optinfo) (opts : list (string * argval)) : list string :=
  flat_map (fun p => if rejects table (fst p) (snd p) then [fst p] else []) opts.

(** value an option finally contributes: the last occurrence that was not rejected; absent = nil *)
Definition eff_status (table : list optinfo) (n : string) (opts : list (string * argval)) : status :=
  fold_left (fun st p => if String.eqb (fst p) n then (if rejects table n (snd p) then st else arg_status (snd p)) else st)
            opts SNil.

Definition has_prefix (p s : string) : bool := String.prefix p s.

Definition relevant (k : ctor) (o : optinfo) : bool :=
  existsb (fun w => existsb (fun p => has_prefix p (w_field w)) (c_reads k)) (o_writes o).

Definition is_nil (s : status) : bool := match s with SNil => true | _ => false end.
Definition is_set (s : status) : bool := match s with SSet => true | _ => false end.

(** documented-required options this constructor consumes that end up nil (or, for the standalone mirror, a
    genesis without validators: the mirror takes its validator set from the genesis only) *)
Definition primary_missing (k : ctor) (mirror : bool) (table : list optinfo) (opts : list (string * argval)) : list string :=
  flat_map (fun o =>
    if o_required_doc o && relevant k o &&
       (is_nil (eff_status table (o_name o) opts) ||
        (mirror && String.eqb (o_name o) "WithGenesis" && negb (is_set (eff_status table (o_name o) opts))))
    then [o_name o] else []) table.

(** conditionally required: the action store with a non-nil signer (full engine only) *)
Definition conditional_missing (mirror : bool) (table : list optinfo) (opts : list (string * argval)) : list string :=
  if negb mirror && negb (is_nil (eff_status table "WithSigner" opts)) && is_nil (eff_status table "WithActionStore" opts)
  then ["WithActionStore"] else [].

(** requirements that only show on an uninitialised chain (full engine): an init-chain channel and genesis validators *)
Definition secondary_missing (mirror chain_init : bool) (table : list optinfo) (opts : list (string * argval)) : list string :=
  if mirror || chain_init then []
  else (if is_nil (eff_status table "WithInitChainChannel" opts) then ["WithInitChainChannel"] else []) ++
       (if is_set (eff_status table "WithGenesis" opts) then [] else ["WithGenesis"]).

Definition mem_str (s : string) (l : list string) : bool := existsb (String.eqb s) l.
Definition subset_str (a b : list string) : bool := forallb (fun s => mem_str s b) a.
Definition is_nil_list {A} (l : list A) : bool := match l with [] => true | _ => false end.

(** obs = (0 panic | 1 error naming options | 2 running and serving | 3 running but wedged, reported names) *)
(** [other_nil]: the error names an option that ends up nil although it is not documented as required (the
    constructor validates more than the documentation promises, e.g. the state machine store): a legitimate reason to
    refuse, after which the requirements that only show on an uninitialised chain need not be named as well *)
Definition ctor_mon (rejected primary secondary : list string) (other_nil : bool) (obs : nat * list string) : bool :=
  match obs with
  | (1, rep) =>
      negb (is_nil_list rep) &&
      (if is_nil_list rejected
       then subset_str primary rep &&
            (if is_nil_list primary then is_nil_list secondary || existsb (fun s => mem_str s rep) secondary || other_nil else true)
       else subset_str rejected rep)
  | (2, _) => is_nil_list rejected && is_nil_list primary && is_nil_list secondary
  | _ => false
  end.

Definition ctor_mon_for (k : ctor) (mirror chain_init : bool) (table : list optinfo) (opts : list (string * argval))
           (obs : nat * list string) : bool :=
  ctor_mon (rejected_opts table opts)
           (primary_missing k mirror table opts ++ conditional_missing mirror table opts)
           (secondary_missing mirror chain_init table opts)
           (existsb (fun r => is_nil (eff_status table r opts)) (snd obs)) obs.
