(** Executable monitors for C17, evaluated on the IMPLEMENTATION's observations:
    [us] = the updates handed to the real strategy, [outs] = what the recording broadcaster
    received, per update (outs[i] = sends made while update i was being processed). *)
From Coq Require Import List NArith Bool.
From GV Require Import Model.GossipData.
Import ListNotations.
Local Open Scope N_scope.

Definition mem_header (x : header) (l : list header) : bool := existsb (N.eqb x) l.
Definition mem_vote (x : vote) (l : list vote) : bool := existsb (vote_eqb x) l.

Definition incl_headers (a b : list header) : bool := forallb (fun x => mem_header x b) a.
Definition incl_votes (a b : list vote) : bool := forallb (fun x => mem_vote x b) a.

(** Nothing else: everything sent while processing update i occurs in an update received so
    far (updates 0..i). [seen_h]/[seen_v] accumulate the content of the updates. *)
Fixpoint sound_from (seen_h : list header) (seen_v : list vote)
         (us : list update) (outs : list (list bcast)) : bool :=
  match us, outs with
  | u :: us', o :: outs' =>
      let sh := update_headers u ++ seen_h in
      let sv := update_votes u ++ seen_v in
      incl_headers (peer_headers o) sh && incl_votes (peer_votes o) sv && sound_from sh sv us' outs'
  | [], o :: outs' => (* sends without an update *)
      match o with [] => sound_from seen_h seen_v [] outs' | _ :: _ => false end
  | _, [] => true
  end.

Definition c17_sound_mon (us : list update) (outs : list (list bcast)) : bool :=
  sound_from [] [] us outs.

(** Everything: after update i has been processed, every proposed header and every vote
    signature it contains has been sent at or before step i. [sent] accumulates the sends. *)
Fixpoint complete_from (sent : list bcast) (us : list update) (outs : list (list bcast)) : bool :=
  match us with
  | [] => true
  | u :: us' =>
      let o := match outs with o :: _ => o | [] => [] end in
      let sent' := o ++ sent in
      incl_headers (update_headers u) (peer_headers sent') &&
      incl_votes (update_votes u) (peer_votes sent') &&
      complete_from sent' us' (tl outs)
  end.

(** Completeness is judged on well-formed sequences only (first update carries a voting view,
    each vote map is over one validator set). *)
Definition c17_complete_mon (us : list update) (outs : list (list bcast)) : bool :=
  if wf_seq us then complete_from [] us outs else true.

Definition c17_mon (us : list update) (outs : list (list bcast)) : bool :=
  c17_sound_mon us outs && c17_complete_mon us outs.
