(** Executable monitors for C20, evaluated on the IMPLEMENTATION's observations.
    Constants are spelled out (pubsub: Accept = 0, Reject = 1, Ignore = 2; gexchange: Accepted = 1, enum = 0..4)
    so that this file does not depend on Gen/. *)
From Coq Require Import List NArith ZArith Bool.
Import ListNotations.
Local Open Scope N_scope.

(** Feedback mapping: pubsub result [r] observed for feedback value [f].
    Accept iff f = FeedbackAccepted; a value outside the enumeration is treated as ignore. *)
Definition c20_feedback_mon (f : N) (r : Z) : bool :=
  Bool.eqb (Z.eqb r 0) (f =? 1) && (if 4 <? f then Z.eqb r 2 else true).

(** One direct call of the real validator wrapper. [w_verdict] = the value the real handler returned
    (None if it was not called), [w_result] = returned pubsub result (None = the call panicked). *)
Record wobs := mk_wobs {
  w_self : bool; w_decodable : bool; w_variant : bool; w_handler : bool;
  w_verdict : option N; w_ncalls : N; w_result : option Z }.

Definition verdict_is_accept (v : option N) : bool := match v with Some f => f =? 1 | None => false end.

Definition c20_wrapper_mon (o : wobs) : bool :=
  match w_result o with
  | None => false
  | Some r =>
      if w_self o then true      (* a local publication is not a message received from the network *)
      else
        (* relayed only if decodable, a handler is installed, it was asked exactly once and accepted *)
        (negb (Z.eqb r 0) ||
           (w_decodable o && w_variant o && w_handler o && (w_ncalls o =? 1) && verdict_is_accept (w_verdict o)))
        (* an out-of-range verdict is treated as ignore *)
        && match w_verdict o with Some f => if 4 <? f then Z.eqb r 2 else true | None => true end
        (* the handler is asked at most once, and never for an undecodable message *)
        && (w_ncalls o <=? 1) && (w_decodable o || (w_ncalls o =? 0))
  end.

(** One message sent by A on a live line A-B-C. [l_verdict] = what B's installed handler answers for it. *)
Record lobs := mk_lobs {
  l_handler : bool; l_decodable : bool; l_variant : bool; l_verdict : N;
  l_b_forwarded : bool; l_c_arrived : bool }.

Definition c20_relay_mon (o : lobs) : bool :=
  negb (l_b_forwarded o || l_c_arrived o) ||
  (l_handler o && l_decodable o && l_variant o && (l_verdict o =? 1)).

(** DaisyChain: [st] = per node, None for a nil handler, else the verdict its handler gives this message;
    [seen] = nodes whose handler saw the message sent by [origin].
    strict = true: every node strictly between origin and a node that saw the message accepted it (the property);
    strict = false: ... accepted it or has no handler (what the test network implements by design). *)
Definition between {A} (l : list A) (a b : nat) : list A :=
  let lo := Nat.min a b in let hi := Nat.max a b in firstn (hi - lo - 1) (skipn (S lo) l).

Definition node_ok (strict : bool) (s : option N) : bool :=
  match s with Some f => f =? 1 | None => negb strict end.

Definition c20_daisy_mon (strict : bool) (st : list (option N)) (origin : nat) (seen : list nat) : bool :=
  forallb (fun j => negb (Nat.eqb j origin) && forallb (node_ok strict) (between st origin j)) seen.
