(** Executable monitor for C18, evaluated on the implementation's observed outputs. *)
From Coq Require Import List NArith Bool.
Import ListNotations.
Local Open Scope N_scope.

(** [mj]/[mn] are the observed results ([None] = the call panicked). The property speaks
    about positive n only, so n = 0 is not judged. *)
Definition c18_mon (n : N) (mj mn : option N) : bool :=
  if n =? 0 then true else
  match mj, mn with
  | Some a, Some b =>
      (2 * n <? 3 * a) && (1 <=? a) && (3 * (a - 1) <=? 2 * n) &&
      (n <=? 3 * b) && ((b =? 0) || (3 * (b - 1) <? n)) &&
      (a <? 18446744073709551616) && (b <? 18446744073709551616)
  | _, _ => false
  end.
