(** C13 (BLS scheme, finalized proofs) - monitors that judge the IMPLEMENTATION's observations of
    gblsminsig [SignatureProofScheme.Finalize] / [ValidateFinalizedProof] against the specification

      "a finalized commit proof validates back to exactly the per-block signer sets it was built from,
       with double signers reported, and arbitrary finalized input never panics".

    The monitors know only the public inputs of a case (number of keys, the blocks = sign content and signer
    bit mask, the table sign content -> block hash, the finalized proof handed to ValidateFinalizedProof)
    and the observation lines printed by harness/c13fin.  They use neither the model (Model/BlsFinal.v)
    nor the combination index: the key id bytes are looked at only for their 2-byte count header.

    Observation formats (harness/c13fin/main.go):
      F: [999] Finalize panicked | group(main) ++ len(Rest) :: per INPUT rest block (998 | group)
         group = cnt :: cnt * (len(KeyID) :: KeyID bytes ++ [1 iff Sig is the blst sum of the block's signers])
      V: [999] ValidateFinalizedProof panicked | [0;u] nil map | 1 :: u :: (len(hash) :: hash bytes ++ [mask])*
         sorted by hash bytes; [] when Finalize panicked.

    Result codes ([None] = nothing to object to):
      1 Finalize panicked on a double signer        2 Finalize panicked on disjoint well-formed blocks
      3 ValidateFinalizedProof panicked although every hash was supplied
      4 round trip rejected (nil map or allUnique = false for disjoint blocks)
      5 round trip returns other signer sets         6 finalized signature / entry count / count header wrong
      7 a double signer is not reported              8 ValidateFinalizedProof accepted bits without a valid signature *)
From Coq Require Import List NArith ZArith Bool.
From GV Require Import Base.Ints.
Import ListNotations.
Local Open Scope N_scope.

(** a signature of a finalized proof as the specification sees it: the genuine aggregate of the leaves [l]
    (in the order given) over message [m], or anything else *)
Inductive vsig : Type :=
| VAgg (m : list N) (l : list Z)
| VOther.

Definition fm_block : Type := (list N * N)%type.              (* sign content, signer bit mask *)
Definition fm_hashes : Type := list (list N * list N).        (* sign content -> block hash *)
Definition fm_entry : Type := (list N * N)%type.              (* block hash, signer bit mask *)

(* ------------------------------------------------------------------ small helpers *)
Fixpoint fm_hash_of (hs : fm_hashes) (k : list N) : option (list N) :=
  match hs with
  | [] => None
  | (k', h) :: t => if bytes_eqb k' k then Some h else fm_hash_of t k
  end.

Definition fm_has_hash (hs : fm_hashes) (k : list N) : bool :=
  match fm_hash_of hs k with Some _ => true | None => false end.

Fixpoint fm_mem (x : list N) (l : list (list N)) : bool :=
  match l with [] => false | y :: t => bytes_eqb x y || fm_mem x t end.

Fixpoint fm_distinct (l : list (list N)) : bool :=
  match l with [] => true | x :: t => negb (fm_mem x t) && fm_distinct t end.

Definition fm_is_panic (o : list N) : bool :=
  match o with [x] => N.eqb x 999 | _ => false end.

Fixpoint fm_ppop (p : positive) : N :=
  match p with xH => 1 | xO q => fm_ppop q | xI q => N.succ (fm_ppop q) end.
Definition fm_popcount (b : N) : N := match b with N0 => 0 | Npos p => fm_ppop p end.

Definition fm_pow2 (n : Z) : N := N.shiftl 1 (Z.to_N n).

(** every mask is disjoint from the union of the masks before it *)
Fixpoint fm_disjoint_from (acc : N) (ms : list N) : bool :=
  match ms with
  | [] => true
  | m :: t => N.eqb (N.land acc m) 0 && fm_disjoint_from (N.lor acc m) t
  end.

(** insertion sort of (hash, mask) entries by hash bytes *)
Fixpoint fm_insert (x : fm_entry) (l : list fm_entry) : list fm_entry :=
  match l with
  | [] => [x]
  | y :: t => if bytes_ltb (fst x) (fst y) then x :: l else y :: fm_insert x t
  end.
Definition fm_sort (l : list fm_entry) : list fm_entry := fold_right fm_insert [] l.

Fixpoint fm_entries_eqb (a b : list fm_entry) : bool :=
  match a, b with
  | [], [] => true
  | (h, m) :: a', (h', m') :: b' => bytes_eqb h h' && N.eqb m m' && fm_entries_eqb a' b'
  | _, _ => false
  end.

(** the first [k] numbers of [l] and what follows; [k] is compared before it is turned into a [nat] *)
Definition fm_take (k : N) (l : list N) : option (list N * list N) :=
  if k <=? N.of_nat (List.length l)
  then Some (firstn (N.to_nat k) l, skipn (N.to_nat k) l)
  else None.

(* ------------------------------------------------------------------ parsing the observation lines *)
(** (len hash.. mask)* *)
Fixpoint fm_parse_ventries (fuel : nat) (l : list N) : option (list fm_entry) :=
  match fuel with
  | O => None
  | S f =>
      match l with
      | [] => Some []
      | len :: t =>
          match fm_take len t with
          | Some (h, m :: t') =>
              match fm_parse_ventries f t' with
              | Some r => Some ((h, m) :: r)
              | None => None
              end
          | _ => None
          end
      end
  end.

Definition fm_ventries (l : list N) : option (list fm_entry) := fm_parse_ventries (S (List.length l)) l.

(** cnt * (len keyid.. sigok) *)
Fixpoint fm_parse_fentries (cnt : nat) (l : list N) : option (list (list N * N) * list N) :=
  match cnt with
  | O => Some ([], l)
  | S c =>
      match l with
      | len :: t =>
          match fm_take len t with
          | Some (kid, ok :: t') =>
              match fm_parse_fentries c t' with
              | Some (r, rem) => Some ((kid, ok) :: r, rem)
              | None => None
              end
          | _ => None
          end
      | [] => None
      end
  end.

Definition fm_parse_group (l : list N) : option (list (list N * N) * list N) :=
  match l with
  | cnt :: t => if cnt <=? N.of_nat (List.length t) then fm_parse_fentries (N.to_nat cnt) t else None
  | [] => None
  end.

(** exactly one finalized signature, it is the aggregate of the block's signers, and the key id starts with
    the 2-byte number of signers *)
Definition fm_group_ok (mask : N) (g : list (list N * N)) : bool :=
  match g with
  | [(kid, ok)] =>
      N.eqb ok 1 &&
      match kid with
      | a :: b :: _ => N.eqb (a * 256 + b) (fm_popcount mask mod 65536)
      | _ => false
      end
  | _ => false
  end.

Fixpoint fm_frest_ok (rest : list fm_block) (l : list N) : bool :=
  match rest with
  | [] => match l with [] => true | _ => false end
  | (_, m) :: t =>
      if N.eqb m 0
      then match l with x :: l' => N.eqb x 998 && fm_frest_ok t l' | [] => false end
      else match fm_parse_group l with
           | Some (g, l') => fm_group_ok m g && fm_frest_ok t l'
           | None => false
           end
  end.

Definition fm_nonempty_blocks (rest : list fm_block) : N :=
  N.of_nat (List.length (filter (fun r : fm_block => negb (N.eqb (snd r) 0)) rest)).

Definition fm_fobs_ok (main : fm_block) (rest : list fm_block) (fobs : list N) : bool :=
  match fm_parse_group fobs with
  | Some (g, nrest :: l') =>
      fm_group_ok (snd main) g && N.eqb nrest (fm_nonempty_blocks rest) && fm_frest_ok rest l'
  | _ => false
  end.

(* ------------------------------------------------------------------ Finalize + ValidateFinalizedProof *)
Definition fm_block_hashes (hs : fm_hashes) (bs : list fm_block) : list (list N) :=
  flat_map (fun b : fm_block => match fm_hash_of hs (fst b) with Some h => [h] | None => [] end) bs.

(** { hash(b) -> mask b | b a block with a signer } sorted by hash *)
Definition fm_expected (hs : fm_hashes) (bs : list fm_block) : list fm_entry :=
  fm_sort (flat_map (fun b : fm_block =>
                       if N.eqb (snd b) 0 then []
                       else match fm_hash_of hs (fst b) with Some h => [(h, snd b)] | None => [] end) bs).

(** reported entries; an entry with an empty set for a rest block nobody signed counts as absent *)
Definition fm_reported (hs : fm_hashes) (rest : list fm_block) (es : list fm_entry) : list fm_entry :=
  let empties := fm_block_hashes hs (filter (fun r : fm_block => N.eqb (snd r) 0) rest) in
  fm_sort (filter (fun e : fm_entry => negb (N.eqb (snd e) 0 && fm_mem (fst e) empties)) es).

Definition fin_mon (n : Z) (main : fm_block) (rest : list fm_block) (hashes : fm_hashes)
           (fobs vobs : list N) : option N :=
  let blocks := main :: rest in
  let all_hashed := forallb (fun b : fm_block => fm_has_hash hashes (fst b)) blocks in
  let wf := forallb (fun b : fm_block => snd b <? fm_pow2 n) blocks
            && fm_distinct (map fst blocks)
            && all_hashed
            && fm_distinct (fm_block_hashes hashes blocks)
            && negb (N.eqb (snd main) 0) in
  if negb wf then
    (* outside the documented guard only "no panic of ValidateFinalizedProof when every hash is supplied" *)
    (if all_hashed && fm_is_panic vobs then Some 3 else None)
  else if negb (fm_disjoint_from 0 (map snd blocks)) then
    (* a double signer: no panic, and never "all signatures unique" *)
    if fm_is_panic fobs then Some 1
    else if fm_is_panic vobs then Some 3
    else match vobs with
         | _ :: u :: _ => if N.eqb u 1 then Some 7 else None
         | _ => None
         end
  else
    if fm_is_panic fobs then Some 2
    else if fm_is_panic vobs then Some 3
    else match vobs with
         | a :: u :: ents =>
             if negb (N.eqb a 1 && N.eqb u 1) then Some 4
             else match fm_ventries ents with
                  | None => Some 5
                  | Some es =>
                      if negb (fm_entries_eqb (fm_reported hashes rest es) (fm_expected hashes blocks)) then Some 5
                      else if fm_fobs_ok main rest fobs then None
                      else Some 6
                  end
         | _ => Some 4
         end.

(* ------------------------------------------------------------------ ValidateFinalizedProof, arbitrary input *)
Fixpoint fm_ascending (l : list Z) : bool :=
  match l with
  | x :: ((y :: _) as t) => (x <? y)%Z && fm_ascending t
  | _ => true
  end.

Definition fm_mask_of (l : list Z) : N := fold_left (fun a i => N.setbit a (Z.to_N i)) l 0.

(** the entry (msg, sigs) carries a valid signature of exactly the signer set [m]: one signature, the genuine
    aggregate over [msg] of a strictly ascending list of keys below [n] whose bit mask is [m], not empty *)
Definition fm_backs (n : Z) (msg : list N) (sigs : list (list N * vsig)) (m : N) : bool :=
  match sigs with
  | [(_, VAgg m' l)] =>
      bytes_eqb m' msg && fm_ascending l
      && forallb (fun i => (0 <=? i)%Z && (i <? n)%Z) l
      && N.eqb (fm_mask_of l) m && negb (N.eqb m 0)
  | _ => false
  end.

Definition val_mon (n : Z) (mainmsg : list N) (mainsigs : list (list N * vsig))
           (rest : list (list N * list (list N * vsig))) (hashes : fm_hashes) (vobs : list N) : option N :=
  let cands := (mainmsg, mainsigs) :: rest in
  let reached := (mainmsg, mainsigs) ::
                 filter (fun e : list N * list (list N * vsig) => match snd e with [] => false | _ => true end) rest in
  let all_hashed := forallb (fun e : list N * list (list N * vsig) => fm_has_hash hashes (fst e)) reached in
  if fm_is_panic vobs then (if all_hashed then Some 3 else None)
  else
    match vobs with
    | a :: u :: ents =>
        if N.eqb a 0 then (match ents with [] => None | _ => Some 8 end)
        else if negb (N.eqb a 1) then Some 8
        else
          match fm_ventries ents with
          | None => Some 8
          | Some es =>
              let shape := N.eqb u 1
                           && fm_disjoint_from 0 (map snd es)
                           && forallb (fun e : fm_entry => snd e <? fm_pow2 n) es in
              let unambiguous := fm_distinct (map fst hashes) && fm_distinct (map snd hashes) in
              let sound :=
                  match fm_hash_of hashes mainmsg with
                  | Some hm => fm_mem hm (map fst es)
                  | None => false
                  end
                  && forallb (fun e : fm_entry =>
                                existsb (fun c : list N * list (list N * vsig) =>
                                           match fm_hash_of hashes (fst c) with
                                           | Some h => bytes_eqb h (fst e) && fm_backs n (fst c) (snd c) (snd e)
                                           | None => false
                                           end) cands) es in
              if shape && (negb unambiguous || sound) then None else Some 8
          end
    | _ => Some 8
    end.
