(** Executable monitor for C06, evaluated on the IMPLEMENTATION's observed vote summaries.
    It recomputes, from the validator powers and the admitted signature bitsets only, what the
    property says the summary must be -- using the specification vocabulary of
    Model/VoteSummary.v (mask_power, union_mask, max_power, sum_powers), never the model's
    loop -- and compares.  The guard (sum of powers < 2^64, distinct map keys) is part of the
    property statement; outside the guard nothing is judged. *)
From Coq Require Import List NArith Bool.
From GV Require Import Base.Ints Model.VoteSummary.
Import ListNotations.
Local Open Scope N_scope.

(** Least m with 3m > 2n, least m with 3m >= n (the specification of the two thresholds). *)
Definition spec_majority (n : N) : N := 2 * n / 3 + 1.
Definition spec_minority (n : N) : N := (n + 2) / 3.

Fixpoint mem_key (k : hash) (m : list (hash * N)) : bool :=
  match m with [] => false | (k', _) :: m' => bytes_eqb k' k || mem_key k m' end.

Fixpoint nodup_keys (m : list (hash * N)) : bool :=
  match m with [] => true | (k, _) :: m' => negb (mem_key k m') && nodup_keys m' end.

Definition guard_ok (vals : list N) (entries : list entry) : bool :=
  (sum_powers vals <? two64) && nodup_keys entries.

(** Block map: every admitted target is filed with the power of its distinct signers, and no other
    key is present. *)
Definition block_ok (vals : list N) (entries : list entry) (block : list (hash * N)) : bool :=
  forallb (fun e => mem_key (fst e) block && (map_get block (fst e) =? mask_power vals (snd e))) entries &&
  forallb (fun kv => mem_key (fst kv) entries) block &&
  nodup_keys block.

(** Most voted target: the empty hash when no target has any power, otherwise the smallest hash
    (bytewise) among the targets of maximal power. *)
Definition most_ok (vals : list N) (entries : list entry) (most : hash) : bool :=
  let M := max_power vals entries in
  if M =? 0 then bytes_eqb most []
  else
    existsb (fun e => bytes_eqb (fst e) most && (mask_power vals (snd e) =? M)) entries &&
    forallb (fun e => negb (mask_power vals (snd e) =? M) || negb (bytes_ltb (fst e) most)) entries.

(** One kind (prevotes or precommits). *)
Definition kind_ok (vals : list N) (entries : list entry) (total : N) (block : list (hash * N)) (most : hash) : bool :=
  (total =? mask_power vals (union_mask entries)) &&
  (total <=? sum_powers vals) &&
  block_ok vals entries block &&
  most_ok vals entries most.

(** The step a summary with the recomputed (distinct) powers must map to; None = the call panics
    (available power 0). Numbers are the tsi.Step constants 1,3,4,5,6. *)
Definition spec_step (avail tpv mpv tpc mpc : N) : option N :=
  if avail =? 0 then None else
  let maj := spec_majority avail in
  let mn := spec_minority avail in
  if maj <=? tpc then (if maj <=? mpc then Some 6 else Some 5)
  else if mn <=? tpc then Some 4
  else if maj <=? tpv then (if maj <=? mpv then Some 4 else Some 3)
  else Some 1.

Record obs := mk_obs {
  o_available : N; o_total_prevote : N; o_total_precommit : N;
  o_prevote_block : list (hash * N); o_precommit_block : list (hash * N);
  o_most_prevote : hash; o_most_precommit : hash;
  o_step : option N }.

Definition c06_mon (vals : list N) (pv pc : list entry) (o : obs) : bool :=
  if negb (guard_ok vals pv && guard_ok vals pc) then true else
  (o_available o =? sum_powers vals) &&
  kind_ok vals pv (o_total_prevote o) (o_prevote_block o) (o_most_prevote o) &&
  kind_ok vals pc (o_total_precommit o) (o_precommit_block o) (o_most_precommit o) &&
  match o_step o, spec_step (sum_powers vals)
                            (mask_power vals (union_mask pv)) (max_power vals pv)
                            (mask_power vals (union_mask pc)) (max_power vals pc) with
  | Some a, Some b => a =? b
  | None, None => true
  | _, _ => false
  end.

(** The consequence the property names: signers whose DISTINCT power is below the minority
    threshold cannot make the node skip a round (total >= minority), start a delay timeout
    (step 3 or 5) or regard the round as fully voted (total = available). *)
Definition minority_only (vals : list N) (pv pc : list entry) : bool :=
  (1 <=? sum_powers vals) &&
  (mask_power vals (union_mask pv) <? spec_minority (sum_powers vals)) &&
  (mask_power vals (union_mask pc) <? spec_minority (sum_powers vals)).

Definition c06_minority_mon (vals : list N) (pv pc : list entry) (o : obs) : bool :=
  if negb (guard_ok vals pv && guard_ok vals pc && minority_only vals pv pc) then true else
  (o_total_prevote o <? spec_minority (o_available o)) &&
  (o_total_precommit o <? spec_minority (o_available o)) &&
  negb (o_total_precommit o =? o_available o) &&
  negb (o_total_prevote o =? o_available o) &&
  match o_step o with Some s => s =? 1 | None => false end.

(** Observation of newVoteDistribution. *)
Definition dist_mon (vals : list N) (entries : list entry) (avail present : N) (block : list (hash * N)) : bool :=
  if negb (guard_ok vals entries) then true else
  (avail =? sum_powers vals) &&
  (present =? mask_power vals (union_mask entries)) &&
  forallb (fun e => map_get block (fst e) =? mask_power vals (snd e)) entries &&
  forallb (fun kv => mem_key (fst kv) entries) block &&
  nodup_keys block.

(** Which component failed (diagnostic only; the verdict is [c06_mon] / [c06_minority_mon] / [dist_mon]):
    1 available, 2 prevote total, 4 precommit total, 8 prevote block map, 16 precommit block map,
    32 most voted prevote, 64 most voted precommit, 128 step. *)
Definition c06_mon_code (vals : list N) (pv pc : list entry) (o : obs) : N :=
  let b (x : bool) (w : N) : N := if x then 0 else w in
  if negb (guard_ok vals pv && guard_ok vals pc) then 0 else
  b (o_available o =? sum_powers vals) 1 +
  b ((o_total_prevote o =? mask_power vals (union_mask pv)) && (o_total_prevote o <=? sum_powers vals)) 2 +
  b ((o_total_precommit o =? mask_power vals (union_mask pc)) && (o_total_precommit o <=? sum_powers vals)) 4 +
  b (block_ok vals pv (o_prevote_block o)) 8 +
  b (block_ok vals pc (o_precommit_block o)) 16 +
  b (most_ok vals pv (o_most_prevote o)) 32 +
  b (most_ok vals pc (o_most_precommit o)) 64 +
  b (match o_step o, spec_step (sum_powers vals)
                            (mask_power vals (union_mask pv)) (max_power vals pv)
                            (mask_power vals (union_mask pc)) (max_power vals pc) with
     | Some a, Some b => a =? b
     | None, None => true
     | _, _ => false
     end) 128.

(** The summary part alone (used on the voting view read back from the real mirror, where the
    admitted proofs are themselves part of the observation: "the reported vote summary equals what
    is recomputed from the admitted signatures"). *)
Definition c06_sum_mon (vals : list N) (pv pc : list entry) (o : obs) : bool :=
  if negb (guard_ok vals pv && guard_ok vals pc) then true else
  (o_available o =? sum_powers vals) &&
  kind_ok vals pv (o_total_prevote o) (o_prevote_block o) (o_most_prevote o) &&
  kind_ok vals pc (o_total_precommit o) (o_precommit_block o) (o_most_precommit o).

(** One vote message whose signers hold, counted once each, less than the minority threshold must
    leave the mirror at height 1 round 0 (fresh mirror at the initial height 1). *)
Definition c06_round_mon (vals : list N) (entries : list entry) (h r : N) : bool :=
  if negb (guard_ok vals entries && (1 <=? sum_powers vals) &&
           (mask_power vals (union_mask entries) <? spec_minority (sum_powers vals))) then true
  else (h =? 1) && (r =? 0).
