(** C12(b) - observation vocabulary of the production round timer and the three
    boolean monitors evaluated on the IMPLEMENTATION's observations (and on the model's).

    A trace is the sequence of caller-visible moments of one StandardRoundTimer:
      OStartRet      a *Timer call returned a (non-nil) elapsed channel and cancel func  - a new timer
      OStartNil      a *Timer call returned nil (context cancelled)
      OCancelRet     the cancel func of the current timer returned
      OElapsed       the elapsed channel of the current timer became closed
      OElapsedOther  an elapsed channel that is NOT the caller's current timer became closed
                     (a superseded timer, or a channel closed before it was handed out)
      OSeen          the caller saw the current elapsed channel closed (no judgement)
      OPanic         the process panicked (background goroutine or caller)            *)
From Coq Require Import List Bool.
Import ListNotations.

Inductive obs := OStartRet | OStartNil | OCancelRet | OElapsed | OElapsedOther | OSeen | OPanic.

Record mst := mkMst {
  m_cr : bool;          (* cancel of the current timer has returned *)
  m_el : bool;          (* current timer already reported elapsed *)
  m_ok_panic : bool;
  m_ok_once : bool;
  m_ok_cancel : bool
}.

Definition m0 : mst := mkMst false false true true true.

Definition mstep (m : mst) (o : obs) : mst :=
  match o with
  | OStartRet => mkMst false false (m_ok_panic m) (m_ok_once m) (m_ok_cancel m)
  | OStartNil => m   (* no new timer: the previous one stays the current one *)
  | OCancelRet => mkMst true (m_el m) (m_ok_panic m) (m_ok_once m) (m_ok_cancel m)
  | OElapsed => mkMst (m_cr m) true (m_ok_panic m) (m_ok_once m && negb (m_el m)) (m_ok_cancel m && negb (m_cr m))
  | OElapsedOther => mkMst (m_cr m) (m_el m) (m_ok_panic m) false false
  | OSeen => m
  | OPanic => mkMst (m_cr m) (m_el m) false (m_ok_once m) (m_ok_cancel m)
  end.

Definition mrun (tr : list obs) : mst := fold_left mstep tr m0.

(** re-arming never fails / no panic at all *)
Definition c12_no_panic (tr : list obs) : bool := m_ok_panic (mrun tr).
(** a timer fires at most once, and only the timer the caller holds fires *)
Definition c12_fires_once (tr : list obs) : bool := m_ok_once (mrun tr).
(** a cancelled timer never reports elapsed after its cancel returned *)
Definition c12_cancel_final (tr : list obs) : bool := m_ok_cancel (mrun tr).

Definition c12_mon (tr : list obs) : bool := c12_no_panic tr && c12_fires_once tr && c12_cancel_final tr.
