(** C13 (BLS aggregation tree) - monitor: a specification-level tracker of "verified set union" that
    judges the IMPLEMENTATION's observations.  It knows only public parameters (number of keys, message,
    key hash) and the set of signed leaves per register; it does not use the model's tree functions
    (only the vocabulary [bsig], [bop] and the N bit-set helpers).  The leaves below a node id are
    computed from the child map of the array layout ([left id = 2 * (id - W)]), not from the layer search
    of tree.go. *)
From Coq Require Import List NArith ZArith String Bool.
From GV Require Import Base.Ints Model.SimpleProofBase Model.BlsTree.
Import ListNotations.
Local Open Scope N_scope.

Definition obs_eqb (a b : list N) : bool := listN_eqb a b.

(** smallest power of two >= n *)
Fixpoint pow2_ge_aux (fuel : nat) (w n : N) : N :=
  match fuel with O => w | S f => if n <=? w then w else pow2_ge_aux f (2 * w) n end.
Definition pow2_ge (n : N) : N := pow2_ge_aux 20 1 n.

(** leftmost / one-past-rightmost leaf below node [id] (leaf row width [w]) *)
Fixpoint node_lo (fuel : nat) (w id : N) : N :=
  match fuel with O => id | S f => if id <? w then id else node_lo f w (2 * (id - w)) end.
Fixpoint node_hi (fuel : nat) (w id : N) : N :=
  match fuel with O => id + 1 | S f => if id <? w then id + 1 else node_hi f w (2 * (id - w) + 1) end.

(** the real leaves (< n) below node [id] *)
Definition leaves_under (n id : N) : list N :=
  let w := pow2_ge n in
  let lo := node_lo 20 w id in
  let hi := N.min (node_hi 20 w id) n in
  if lo <? hi then rangeN lo (hi - lo) else [].

Definition mask_of (l : list N) : N := fold_right (fun i a => N.lor a (bit i)) 0 l.
Definition n_nodes (n : N) : N := 2 * pow2_ge n - 1.

Definition genuine (n msg id : N) (s : bsig) : bool :=
  match s, leaves_under n id with
  | SAgg m (x :: l), (y :: k) => N.eqb m msg && listN_eqb (x :: l) (y :: k)
  | _, _ => false
  end.

Record mreg := mk_mreg { m_n : N; m_msg : N; m_hash : N; m_bits : N }.
Definition mregs : Type := list (nat * mreg).
Fixpoint mget (rs : mregs) (r : nat) : option mreg :=
  match rs with [] => None | (k, p) :: t => if Nat.eqb k r then Some p else mget t r end.
Definition mset (rs : mregs) (r : nat) (p : mreg) : mregs := (r, p) :: rs.
Definition with_bits (p : mreg) (b : N) : mreg := mk_mreg (m_n p) (m_msg p) (m_hash p) b.

(** one sparse entry: Some leaves-mask if it is well formed, known and genuine *)
Definition entry_mask (p : mreg) (e : sparse_entry) : option N :=
  match fst e with
  | [x; y] => let id := x * 256 + y in
              if (id <? n_nodes (m_n p)) && genuine (m_n p) (m_msg p) id (snd e)
              then Some (mask_of (leaves_under (m_n p) id)) else None
  | _ => None
  end.

Fixpoint exp_entries (p : mreg) (ents : list sparse_entry) (bits : N) (av : bool) : N * bool :=
  match ents with
  | [] => (bits, av)
  | e :: t => match entry_mask p e with
              | Some m => exp_entries p t (N.lor bits m) av
              | None => exp_entries p t bits false
              end
  end.

Fixpoint all_lt (l : list N) (n : N) : bool :=
  match l with [] => true | x :: t => (x <? n) && all_lt t n end.
Fixpoint strictly_increasing (l : list N) : bool :=
  match l with x :: ((y :: _) as t) => (x <? y) && strictly_increasing t | _ => true end.

(** the observed bit list describes exactly [bits] and stays below n *)
Definition bits_ok (n : N) (obs : list N) (bits : N) : bool :=
  all_lt obs n && strictly_increasing obs && N.eqb (mask_of obs) bits.

Definition flags_ok (n : N) (obs : list N) (av inc sup : bool) (bits : N) : bool :=
  match obs with
  | a :: i :: s :: bl => N.eqb a (b2n av) && N.eqb i (b2n inc) && N.eqb s (b2n sup) && bits_ok n bl bits
  | _ => false
  end.

Definition looks_superset (o p : N) : bool := (N.eqb o 0 && N.eqb p 0) || is_strict_superset o p.

(** the smallest node id whose aggregate key equals the offered key *)
Definition known_key (n : N) (k : option bkey) : bool :=
  match k with
  | None => n <? pow2_ge n                                    (* the zero key equals the padding keys *)
  | Some [] => false
  | Some ks => existsb (fun id => listN_eqb (leaves_under n id) ks) (rangeN 0 (n_nodes n))
  end.

Definition key_sig_genuine (msg : N) (k : option bkey) (s : bsig) : bool :=
  match k, s with
  | Some (x :: ks), SAgg m l => N.eqb m msg && listN_eqb (x :: ks) l
  | _, _ => false
  end.

Fixpoint sparse_pairs_ok (n : N) (obs : list N) (prev : option N) (acc : N) (cnt : N) : option (N * N) :=
  match obs with
  | [] => Some (acc, cnt)
  | id :: ok :: t =>
      let lv := leaves_under n id in
      let m := mask_of lv in
      if N.eqb ok 1 && (id <? n_nodes n) && negb (N.eqb m 0)
         && match prev with None => true | Some q => q <? id end
      then sparse_pairs_ok n t (Some id) (N.lor acc m) (cnt + popcount m)
      else None
  | _ => None
  end.

(** None = violation *)
Definition mon_step (rs : mregs) (o : bop) (ob : list N) : option mregs :=
  match o with
  | BNew r n msg hash =>
      if (n <? 1) || (65535 <? n) then (if obs_eqb ob obs_panic then Some rs else None)
      else if obs_eqb ob [0] then Some (mset rs r (mk_mreg n msg hash 0)) else None
  | BAdd r s key =>
      match mget rs r with
      | None => if obs_eqb ob obs_noreg then Some rs else None
      | Some p =>
          match ob with
          | code :: bl =>
              let good := known_key (m_n p) key && key_sig_genuine (m_msg p) key s in
              let bits' := if good then N.lor (m_bits p) (mask_of (match key with Some ks => ks | None => [] end))
                           else m_bits p in
              let code_ok := if good then N.eqb code 0
                             else if known_key (m_n p) key then N.eqb code 2 || N.eqb code 3
                                  else N.eqb code 1 in
              if code_ok && bits_ok (m_n p) bl bits' then Some (mset rs r (with_bits p bits')) else None
          | [] => None
          end
      end
  | BMergeSparse r hash ents =>
      match mget rs r with
      | None => if obs_eqb ob obs_noreg then Some rs else None
      | Some p =>
          if negb (N.eqb hash (m_hash p)) then
            (if flags_ok (m_n p) ob false false false (m_bits p) then Some rs else None)
          else
            let '(bits', av) := exp_entries p ents (m_bits p) true in
            if flags_ok (m_n p) ob av (popcount (m_bits p) <? popcount bits') false bits'
            then Some (mset rs r (with_bits p bits')) else None
      end
  | BMergeFrom r o =>
      match mget rs r, mget rs o with
      | Some p, Some q =>
          if negb (N.eqb (m_hash q) (m_hash p)) then
            (if flags_ok (m_n p) ob false false false (m_bits p) then Some rs else None)
          else if negb (N.eqb (m_n p) (m_n q)) then
            (* different key sets under one hash: only "no panic, monotone, bits below n" is judged *)
            match ob with
            | _ :: _ :: _ :: bl =>
                if all_lt bl (m_n p) && is_superset (mask_of bl) (m_bits p)
                then Some (mset rs r (with_bits p (mask_of bl))) else None
            | _ => None
            end
          else if N.eqb (m_msg p) (m_msg q) then
            let bits' := N.lor (m_bits p) (m_bits q) in
            if flags_ok (m_n p) ob true (popcount (m_bits p) <? popcount bits') false bits'
            then Some (mset rs r (with_bits p bits')) else None
          else
            if flags_ok (m_n p) ob (N.eqb (m_bits q) 0) false false (m_bits p) then Some rs else None
      | _, _ => if obs_eqb ob obs_noreg then Some rs else None
      end
  | BMerge r o =>
      match mget rs r, mget rs o with
      | Some p, Some q =>
          if negb (N.eqb (m_msg p) (m_msg q) && N.eqb (m_hash p) (m_hash q)) then
            (if flags_ok (m_n p) ob false false false (m_bits p) then Some rs else None)
          else if negb (N.eqb (m_n p) (m_n q)) then
            match ob with
            | _ :: _ :: _ :: bl =>
                if all_lt bl (m_n p) && is_superset (mask_of bl) (m_bits p)
                then Some (mset rs r (with_bits p (mask_of bl))) else None
            | _ => None
            end
          else
            let bits' := N.lor (m_bits p) (m_bits q) in
            if flags_ok (m_n p) ob true (popcount (m_bits p) <? popcount bits')
                        (looks_superset (m_bits q) (m_bits p)) bits'
            then Some (mset rs r (with_bits p bits')) else None
      | _, _ => if obs_eqb ob obs_noreg then Some rs else None
      end
  | BHas r id =>
      match mget rs r with
      | None => if obs_eqb ob obs_noreg then Some rs else None
      | Some p =>
          match ob with
          | [h; v] =>
              let valid := match id with [x; y] => x * 256 + y <? n_nodes (m_n p) | _ => false end in
              let m := match id with [x; y] => mask_of (leaves_under (m_n p) (x * 256 + y)) | _ => 0 end in
              (* has = true only for a node whose real leaves are all signed *)
              if N.eqb v (b2n valid) && ((N.eqb h 0) || (N.eqb h 1 && valid && negb (N.eqb m 0) && is_superset (m_bits p) m))
              then Some rs else None
          | _ => None
          end
      end
  | BSparse r =>
      match mget rs r with
      | None => if obs_eqb ob obs_noreg then Some rs else None
      | Some p =>
          (* every listed signature verifies; the listed nodes are a disjoint cover of the signer set *)
          match sparse_pairs_ok (m_n p) ob None 0 0 with
          | Some (acc, cnt) => if N.eqb acc (m_bits p) && N.eqb cnt (popcount (m_bits p)) then Some rs else None
          | None => None
          end
      end
  | BClone r to =>
      match mget rs r with
      | None => if obs_eqb ob obs_noreg then Some rs else None
      | Some p => if obs_eqb ob [0] then Some (mset rs to p) else None
      end
  | BDerive r to =>
      match mget rs r with
      | None => if obs_eqb ob obs_noreg then Some rs else None
      | Some p => if obs_eqb ob [0] then Some (mset rs to (with_bits p 0)) else None
      end
  | BBits r =>
      match mget rs r with
      | None => if obs_eqb ob obs_noreg then Some rs else None
      | Some p => if bits_ok (m_n p) ob (m_bits p) then Some rs else None
      end
  end.

Fixpoint mon_from (rs : mregs) (ops : list bop) (obs : list (list N)) (i : N) : option N :=
  match ops, obs with
  | [], [] => None
  | o :: t, ob :: t' =>
      match mon_step rs o ob with
      | Some rs' => mon_from rs' t t' (i + 1)
      | None => Some i
      end
  | _, _ => Some i
  end.

(** index of the first operation whose observation violates the specification *)
Definition c13bls_mon (ops : list bop) (obs : list (list N)) : option N := mon_from [] ops obs 0.
