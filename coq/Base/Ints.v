(** Shared executable definitions used by the generated and hand-written models. *)
From Coq Require Import List NArith ZArith String Bool Lia.
Import ListNotations.
Local Open Scope N_scope.

(** Result of a Go computation: a value or a panic at a named site. *)
Inductive res (A : Type) : Type :=
| Ok (a : A)
| Panic (site : string).
Arguments Ok {A} a.
Arguments Panic {A} site.

Definition bind {A B} (r : res A) (f : A -> res B) : res B :=
  match r with Ok a => f a | Panic s => Panic s end.

Definition is_ok {A} (r : res A) : bool := match r with Ok _ => true | Panic _ => false end.

Definition two64 : N := 18446744073709551616.
Definition two32 : N := 4294967296.
Definition two16 : N := 65536.
Definition two8 : N := 256.

Definition wrap64 (x : N) : N := x mod two64.
Definition wrap32 (x : N) : N := x mod two32.
Definition wrap16 (x : N) : N := x mod two16.
Definition wrap8 (x : N) : N := x mod two8.

(** Unsigned subtraction with wrap-around, operands assumed already in range. *)
Definition sub64 (a b : N) : N := (a + two64 - b) mod two64.
Definition sub32 (a b : N) : N := (a + two32 - b) mod two32.
Definition sub16 (a b : N) : N := (a + two16 - b) mod two16.
Definition sub8 (a b : N) : N := (a + two8 - b) mod two8.

Definition checked_div (a b : N) (site : string) : res N :=
  if N.eqb b 0 then Panic site else Ok (N.div a b).
Definition checked_modulo (a b : N) (site : string) : res N :=
  if N.eqb b 0 then Panic site else Ok (N.modulo a b).

(** Byte strings are lists of N (each < 256 by construction in the harness). *)
Fixpoint bytes_eqb (a b : list N) : bool :=
  match a, b with
  | [], [] => true
  | x :: a', y :: b' => N.eqb x y && bytes_eqb a' b'
  | _, _ => false
  end.

Lemma bytes_eqb_eq a b : bytes_eqb a b = true <-> a = b.
Proof.
  revert b; induction a as [|x a IH]; intros [|y b]; simpl; split; intros H;
    try discriminate; try reflexivity.
  - apply andb_true_iff in H as [H1 H2]. apply N.eqb_eq in H1. apply IH in H2. congruence.
  - inversion H; subst. rewrite N.eqb_refl. simpl. apply IH. reflexivity.
Qed.

Lemma bytes_eqb_refl a : bytes_eqb a a = true.
Proof. apply bytes_eqb_eq; reflexivity. Qed.

Lemma bytes_eqb_neq a b : bytes_eqb a b = false <-> a <> b.
Proof.
  split; intros H.
  - intros E. apply bytes_eqb_eq in E. congruence.
  - destruct (bytes_eqb a b) eqn:E; [|reflexivity]. apply bytes_eqb_eq in E. contradiction.
Qed.

(** Lexicographic byte order, as Go's string comparison / bytes.Compare. *)
Fixpoint bytes_ltb (a b : list N) : bool :=
  match a, b with
  | [], [] => false
  | [], _ :: _ => true
  | _ :: _, [] => false
  | x :: a', y :: b' => if N.ltb x y then true else if N.ltb y x then false else bytes_ltb a' b'
  end.

(** Go maps from string to uint64 as association lists; absent key reads 0. *)
Fixpoint map_get (m : list (list N * N)) (k : list N) : N :=
  match m with
  | [] => 0
  | (k', v) :: m' => if bytes_eqb k' k then v else map_get m' k
  end.

Definition index_bytes (b : list N) (i : Z) (site : string) : res N :=
  if (i <? 0)%Z then Panic site
  else match nth_error b (Z.to_nat i) with Some x => Ok x | None => Panic site end.

(** Go slice expression b[lo:hi] on a byte string whose capacity equals its length
    is not assumed: callers in the modelled code slice fresh slices, so hi <= len. *)
Definition slice_bytes (b : list N) (lo hi : Z) (site : string) : res (list N) :=
  if ((lo <? 0) || (hi <? lo) || (Z.of_nat (List.length b) <? hi))%Z then Panic site
  else Ok (firstn (Z.to_nat hi - Z.to_nat lo) (skipn (Z.to_nat lo) b)).

Definition be_uint16 (b : list N) (site : string) : res N :=
  match b with
  | x :: y :: _ => Ok (x * 256 + y)
  | _ => Panic site
  end.
