(** Untyped observation trees: the common format in which the Go harnesses print what they
    observe and the models print their projection, so that the two can be compared and the
    monitors can be evaluated on either. *)
From Coq Require Import List NArith Bool.
From GV Require Import Base.Ints.
Import ListNotations.
Local Open Scope N_scope.

Inductive tr := TN (n : N) | TB (b : list N) | TL (l : list tr).

Fixpoint tr_eqb (a b : tr) : bool :=
  match a, b with
  | TN x, TN y => x =? y
  | TB x, TB y => bytes_eqb x y
  | TL x, TL y =>
      (fix go (l1 l2 : list tr) : bool :=
         match l1, l2 with
         | [], [] => true
         | p :: l1', q :: l2' => tr_eqb p q && go l1' l2'
         | _, _ => false
         end) x y
  | _, _ => false
  end.


Definition tls (t : tr) : list tr := match t with TL l => l | _ => [] end.
Definition tn (t : tr) : N := match t with TN n => n | _ => 0 end.
Definition tb (t : tr) : list N := match t with TB b => b | _ => [] end.
Definition nth_tr (t : tr) (i : nat) : tr := nth i (tls t) (TL []).
