(** Byte-string helpers shared by the C14 codec model and the generated registry code. *)
From Coq Require Import List NArith Bool.
From GV Require Import Base.Ints.
Import ListNotations.
Local Open Scope N_scope.

(** bytes.TrimRight(b, "\x00"): drop the maximal suffix of zero bytes. *)
Fixpoint trim_right_zeros (b : list N) : list N :=
  match b with
  | [] => []
  | x :: b' =>
      match trim_right_zeros b' with
      | [] => if N.eqb x 0 then [] else [x]
      | t => x :: t
      end
  end.

(** The fixed-width name header of Registry.Marshal:
    [var h [n]byte; copy(h[:], name)] = name truncated / zero padded to n bytes. *)
Definition pad_to (n : nat) (name : list N) : list N :=
  firstn n (name ++ repeat 0 n).

(** First match in an association list keyed by byte strings (a Go map lookup). *)
Fixpoint alist_find {V} (k : list N) (m : list (list N * V)) : option V :=
  match m with
  | [] => None
  | (k', v) :: m' => if bytes_eqb k' k then Some v else alist_find k m'
  end.

(** m[k] = v on an association list with unique keys: overwrite in place or append. *)
Fixpoint alist_set {V} (m : list (list N * V)) (k : list N) (v : V) : list (list N * V) :=
  match m with
  | [] => [(k, v)]
  | (k', v') :: m' => if bytes_eqb k' k then (k, v) :: m' else (k', v') :: alist_set m' k v
  end.
