(** Signed 64-bit integers with Go's wrap-around (two's complement) for the generated code:
    time.Duration arithmetic in tm/tmengine/timeoutstrategy.go. *)
From Coq Require Import ZArith.
Local Open Scope Z_scope.

Definition two63 : Z := 9223372036854775808.
Definition two64z : Z := 18446744073709551616.

(** the int64 value of the mathematical integer [z] *)
Definition swrap64 (z : Z) : Z := ((z + two63) mod two64z) - two63.
