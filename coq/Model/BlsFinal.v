(** C13 (BLS scheme, finalized proofs) - executable model of
    gcrypto/gblsminsig/signatureproofscheme.go: [SignatureProofScheme.Finalize],
    [sortRestForFinalizing], [createKeyProjection], [originalProjection.FindReducedIndex],
    [SignatureProofScheme.ValidateFinalizedProof], [combinationIndexInRange],
    [orderedRestSignatures].  The combination index itself ([calculateCombinationIndex],
    [decodeCombinationIndex], [binomialCoefficient]) is Model/CombIndex.v.  No proofs here.

    Vocabulary.  The trusted key list is [n] distinct keys, a key is its index.  A signature proof
    handed to Finalize is (sign content, SigBits) - what [SignatureBitSet] copies out, a bit mask [N];
    the aggregation tree behind it is Model/BlsTree.v.  Ideal aggregate signatures, the convention of
    Model/BlsTree.v with byte-string messages: [FAgg m l] is the aggregate of the genuine signatures of
    the leaves [l] (ascending) over message [m] - [Tree.FinalizedSig] of a proof over [m] with SigBits
    [b] is [FAgg m (bits_all b)], the point at infinity when [b] is empty; [FJunk] is some other
    decodable point, [FBad] bytes that do not decompress.  [PubKey.Verify] of the aggregate of the keys
    [S] accepts [FAgg m l] iff [m] is the message, [l = S] and [S] is not empty (blst refuses the
    infinity key).  Numbers of keys / counts / positions are [Z] (Go [int]), bit sets and big.Int [N]. *)
From Coq Require Import List NArith ZArith String Bool.
From GV Require Import Base.Ints Base.GoBytes Model.SimpleProofBase Model.CombIndex.
Import ListNotations.
Local Open Scope N_scope.

(* ------------------------------------------------------------------ vocabulary *)
Inductive fsig : Type :=
| FAgg (m : list N) (l : list Z)
| FJunk (k : N)
| FBad (k : N).

Fixpoint listZ_eqb (a b : list Z) : bool :=
  match a, b with
  | [], [] => true
  | x :: a', y :: b' => Z.eqb x y && listZ_eqb a' b'
  | _, _ => false
  end.

(** [finalizedKey.Verify(msg, sig)] where finalizedKey is the blst sum of the keys [S] *)
Definition fverify (S : list Z) (msg : list N) (s : fsig) : bool :=
  match S, s with
  | _ :: _, FAgg m l => bytes_eqb m msg && listZ_eqb S l
  | _, _ => false
  end.

(** A [gblsminsig.SignatureProof] as Finalize sees it. *)
Record fproof := mk_fproof { fp_msg : list N; fp_bits : N }.

Definition fsparse : Type := (list N * fsig)%type.      (* KeyID bytes, Sig *)

(** [gcrypto.FinalizedCommonMessageSignatureProof]; [ff_rest] is the Go map sign content -> sparse
    signatures ([nil] map = []).  PubKeyHash is carried through untouched and never read by
    ValidateFinalizedProof; it is not modelled. *)
Record ffin := mk_ffin {
  ff_n : Z;                                   (* len(Keys) *)
  ff_main_msg : list N;
  ff_main_sigs : list fsparse;
  ff_rest : list (list N * list fsparse)
}.

(* ------------------------------------------------------------------ bit sets and big.Int bytes *)
(** All set bits, ascending: a [bs.NextSet] loop without an upper bound. *)
Definition bits_all (b : N) : list Z := positions (Z.of_N (N.size b)) b.

(** [big.Int.FillBytes] into a buffer of [(BitLen+7)/8] bytes: minimal big-endian bytes, none for 0. *)
Fixpoint be_bytes_aux (fuel : nat) (x : N) (acc : list N) : list N :=
  match fuel with
  | O => acc
  | S f => if x =? 0 then acc else be_bytes_aux f (x / 256) ((x mod 256) :: acc)
  end.
Definition be_bytes (x : N) : list N := be_bytes_aux (N.to_nat (N.size x)) x [].

(** [big.Int.SetBytes] *)
Definition of_be_bytes (b : list N) : N := fold_left (fun a x => a * 256 + x) b 0.

(** [binary.BigEndian.PutUint16(id[:2], uint16(count))] followed by the index bytes. *)
Definition key_id (count : Z) (idx : N) : list N := be16 (Z.to_N count mod 65536) ++ be_bytes idx.

Definition lenZ {A} (l : list A) : Z := Z.of_nat (List.length l).
Definition nthZ (l : list Z) (i : Z) : Z := nth (Z.to_nat i) l 0%Z.

(* ------------------------------------------------------------------ key projection *)
(** [createKeyProjection(originalKeys, used)]: the original indices of the keys not yet used, ascending.
    [make(.., 0, len(originalKeys) - used.Count())] panics for a negative capacity. *)
Definition create_projection (n : Z) (used : N) : res (list Z) :=
  if (n - popcountZ used <? 0)%Z then Panic "createKeyProjection:360(makeslice)"
  else Ok (filter (fun i => negb (N.testbit used (Z.to_N i))) (zrange 0 (Z.to_nat n))).

(** [p.FindReducedIndex(originalIdx)]: slices.BinarySearch on the ascending projection. *)
Fixpoint find_reduced (p : list Z) (u : Z) (i : Z) : option Z :=
  match p with
  | [] => None
  | x :: t => if (x =? u)%Z then Some i else find_reduced t u (i + 1)%Z
  end.

(* ------------------------------------------------------------------ Finalize *)
(** Comparator of [sortRestForFinalizing]: signer count descending, then sign content ascending;
    two entries equal in both make the comparator panic. *)
Definition rest_cmp (a b : fproof) : res Z :=
  let na := popcountZ (fp_bits a) in
  let nb := popcountZ (fp_bits b) in
  if (na >? nb)%Z then Ok (-1)%Z
  else if (nb >? na)%Z then Ok 1%Z
  else if bytes_ltb (fp_msg a) (fp_msg b) then Ok (-1)%Z
  else if bytes_ltb (fp_msg b) (fp_msg a) then Ok 1%Z
  else Panic "sortRestForFinalizing:308".

(** [slices.SortFunc] as its insertion sort (the algorithm used below 12 elements; for the strict total
    order that distinct sign contents give, every sorting algorithm returns the same slice).
    [rl] is the sorted prefix REVERSED: [for j := i; j > a && cmp(data[j], data[j-1]) < 0; j--]. *)
Fixpoint rest_insert (x : fproof) (rl : list fproof) : res (list fproof) :=
  match rl with
  | [] => Ok [x]
  | y :: t =>
      bind (rest_cmp x y) (fun c =>
        if (c <? 0)%Z then bind (rest_insert x t) (fun t' => Ok (y :: t'))
        else Ok (x :: rl))
  end.

Fixpoint rest_sort_rev (l : list fproof) (rl : list fproof) : res (list fproof) :=
  match l with
  | [] => Ok rl
  | x :: t => bind (rest_insert x rl) (fun rl' => rest_sort_rev t rl')
  end.

Definition sort_rest (l : list fproof) : res (list fproof) :=
  bind (rest_sort_rev l []) (fun rl => Ok (rev rl)).

(** The loop over the set bits of one rest proof: returns (reducedBits, presentVoteBits). *)
Fixpoint project_bits (proj : list Z) (us : list Z) (reduced used : N) : res (N * N) :=
  match us with
  | [] => Ok (reduced, used)
  | u :: t =>
      match find_reduced proj u 0 with
      | Some idx => project_bits proj t (N.setbit reduced (Z.to_N idx)) (N.setbit used (Z.to_N (nthZ proj idx)))
      | None => Panic "Finalize:253(index not part of the projection)"
      end
  end.

(** [f.Rest[string(p.msg)] = ...] *)
Definition rest_set (m : list (list N * list fsparse)) (k : list N) (v : list fsparse) := alist_set m k v.

(** The [for _, r := range rest] loop. *)
Fixpoint finalize_rest (n : Z) (rest : list fproof) (used : N) (out : list (list N * list fsparse))
  : res (list (list N * list fsparse)) :=
  match rest with
  | [] => Ok out
  | p :: t =>
      (* a proof without signatures adds nothing to the finalized proof (repo fix, see design/C13.md) *)
      if (popcountZ (fp_bits p) =? 0)%Z then finalize_rest n t used out
      else
      bind (create_projection n used) (fun proj =>
      bind (project_bits proj (bits_all (fp_bits p)) 0 used) (fun ru =>
        let '(reduced, used') := ru in
        bind (encode_mask (lenZ proj) reduced) (fun idx =>
          let kid := key_id (popcountZ reduced) idx in
          finalize_rest n t used' (rest_set out (fp_msg p) [(kid, FAgg (fp_msg p) (bits_all (fp_bits p)))]))))
  end.

Definition finalize (n : Z) (main : fproof) (rest : list fproof) : res ffin :=
  bind (encode_mask n (fp_bits main)) (fun idx =>
    let main_sigs := [(key_id (popcountZ (fp_bits main)) idx, FAgg (fp_msg main) (bits_all (fp_bits main)))] in
    match rest with
    | [] => Ok (mk_ffin n (fp_msg main) main_sigs [])
    | _ =>
        bind (sort_rest rest) (fun sorted =>
        bind (finalize_rest n sorted (fp_bits main) []) (fun r =>
          Ok (mk_ffin n (fp_msg main) main_sigs r)))
    end).

(* ------------------------------------------------------------------ ValidateFinalizedProof *)
(** [combinationIndexInRange(nKeys, k, combIndex)] *)
Definition index_in_range (n k : Z) (idx : N) : res bool :=
  if ((k <? 1) || (k >? n))%Z then Ok false
  else bind (binom_chk n k) (fun c => Ok (idx <? c)).

(** [copy(o.k[:], ss[0].KeyID)] into a zeroed [2]byte. *)
Definition key2 (kid : list N) : list N :=
  match kid with
  | [] => [0; 0]
  | [a] => [a; 0]
  | a :: b :: _ => [a; b]
  end.

(** Comparator of [orderedRestSignatures]: k bytes descending, then sign content ascending. *)
Definition order_lt (a b : list N * list N) : bool :=
  if bytes_ltb (fst b) (fst a) then true
  else if bytes_ltb (fst a) (fst b) then false
  else bytes_ltb (snd a) (snd b).

Definition rest_entry : Type := (list N * list fsparse)%type.

Definition order_key (e : rest_entry) : list N * list N :=
  (key2 (match snd e with s :: _ => fst s | [] => [] end), fst e).

Fixpoint order_insert (x : rest_entry) (l : list rest_entry) : list rest_entry :=
  match l with
  | [] => [x]
  | y :: t => if order_lt (order_key x) (order_key y) then x :: y :: t else y :: order_insert x t
  end.

(** Entries with an empty signature list are skipped; the Go map has unique keys, so the comparator
    is a strict total order on the entries and the result does not depend on the map's iteration order. *)
Definition ordered_rest (rest : list rest_entry) : list rest_entry :=
  fold_right order_insert [] (filter (fun e => match snd e with [] => false | _ => true end) rest).

(** "Project back to original key set and check for duplicates": [None] = the duplicate return. *)
Fixpoint unproject_bits (proj : list Z) (ps : list Z) (used obits : N) : res (option (N * N)) :=
  match ps with
  | [] => Ok (Some (used, obits))
  | pidx :: t =>
      if (pidx >=? lenZ proj)%Z then Panic "ValidateFinalizedProof:530(lost original index)"
      else
        let oidx := Z.to_N (nthZ proj pidx) in
        if N.testbit used oidx then Ok None
        else unproject_bits proj t (N.setbit used oidx) (N.setbit obits oidx)
  end.

Definition vout : Type := list (list N * N).      (* signBitsByHash *)

Definition vresult : Type := (option vout * bool)%type.

Fixpoint validate_rest (n : Z) (hashes : list (list N * list N)) (rest : list rest_entry) (used : N) (out : vout)
  : res vresult :=
  match rest with
  | [] => Ok (Some out, true)
  | (msg, sigs) :: t =>
      match sigs with
      | [(kid, sg)] =>
          match kid with
          | a :: b :: idxb =>
              let k := Z.of_N (a * 256 + b) in
              let idx := of_be_bytes idxb in
              bind (create_projection n used) (fun proj =>
                if (k >? lenZ proj)%Z then Ok (None, false)
                else
                  bind (index_in_range (lenZ proj) k idx) (fun inr =>
                    if negb inr then Ok (None, false)
                    else
                      bind (decode (lenZ proj) k idx) (fun rbits =>
                      bind (unproject_bits proj (bits_all rbits) used 0) (fun r =>
                        match r with
                        | None => Ok (Some out, false)
                        | Some (used', obits) =>
                            if negb (fverify (bits_all obits) msg sg) then Ok (None, false)
                            else
                              match alist_find msg hashes with
                              | None => Panic "ValidateFinalizedProof:562(missing hash)"
                              | Some h => validate_rest n hashes t used' (alist_set out h obits)
                              end
                        end))))
          | _ => Ok (None, false)
          end
      | _ => Ok (None, false)
      end
  end.

Definition validate (f : ffin) (hashes : list (list N * list N)) : res vresult :=
  let n := ff_n f in
  match ff_main_sigs f with
  | [(kid, sg)] =>
      match kid with
      | a :: b :: idxb =>
          let k := Z.of_N (a * 256 + b) in
          if (k >? n)%Z then Ok (None, false)
          else
            let idx := of_be_bytes idxb in
            bind (index_in_range n k idx) (fun inr =>
              if negb inr then Ok (None, false)
              else
                bind (decode n k idx) (fun used =>
                  if negb (fverify (positions n used) (ff_main_msg f) sg) then Ok (None, false)
                  else
                    match alist_find (ff_main_msg f) hashes with
                    | None => Panic "ValidateFinalizedProof:468(missing main hash)"
                    | Some h => validate_rest n hashes (ordered_rest (ff_rest f)) used [(h, used)]
                    end))
      | _ => Ok (None, false)
      end
  | _ => Ok (None, false)
  end.

(** Finalize followed by ValidateFinalizedProof, the round trip of the property. *)
Definition finalize_validate (n : Z) (main : fproof) (rest : list fproof) (hashes : list (list N * list N))
  : res vresult :=
  bind (finalize n main rest) (fun f => validate f hashes).

(* ------------------------------------------------------------------ observations *)
(** Finalize: per key id [len; bytes...; sig_is_the_aggregate_of_the_block's_signers]; main first, then one
    group per INPUT rest proof in input order (998 = no entry for its sign content). *)
Definition obs_entry (e : fsparse) (want : fsig) : list N :=
  N.of_nat (List.length (fst e)) :: fst e ++
  [match snd e, want with
   | FAgg m l, FAgg m' l' => b2n (bytes_eqb m m' && listZ_eqb l l')
   | _, _ => 0
   end].

Definition obs_entries (es : list fsparse) (want : fsig) : list N :=
  N.of_nat (List.length es) :: List.concat (map (fun e => obs_entry e want) es).

Definition want_sig (p : fproof) : fsig := FAgg (fp_msg p) (bits_all (fp_bits p)).

Definition obs_finalize (main : fproof) (rest : list fproof) (r : res ffin) : list N :=
  match r with
  | Panic _ => obs_panic
  | Ok f =>
      obs_entries (ff_main_sigs f) (want_sig main) ++
      N.of_nat (List.length (ff_rest f)) ::
      List.concat (map (fun p => match alist_find (fp_msg p) (ff_rest f) with
                                 | Some es => obs_entries es (want_sig p)
                                 | None => [998]
                                 end) rest)
  end.

(** One case of the correspondence run: Finalize of the blocks, then ValidateFinalizedProof of its result. *)
Definition run_fin (n : Z) (main : fproof) (rest : list fproof) (hashes : list (list N * list N))
  : list N * list N :=
  let f := finalize n main rest in
  (obs_finalize main rest f,
   match f with
   | Panic _ => []
   | Ok ff => obs_validate (validate ff hashes)
   end).

(** ValidateFinalizedProof on an arbitrary finalized proof. *)
Definition run_val (f : ffin) (hashes : list (list N * list N)) : list N := obs_validate (validate f hashes).
