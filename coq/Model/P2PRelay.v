(** C20 - executable model of the consensus-message relay path. NO proofs here.

    (i)   [wrapper]: tm/tmp2p/tmlibp2p/connection.go libp2pConsensusMessageValidator, one model branch per Go
          branch; the feedback mapping is the GENERATED [exchange_feedback_to_libp2p] (Gen/Feedback.v).
    (ii)  the topic-validator registry of a Connection as a transition system whose program is the EXTRACTED
          call sequences (Gen/RelaySwap.v), interleavable with message arrivals.
          Assumed pubsub semantics (trusted, exercised by the live libp2p run): a message for a topic is
          delivered and forwarded iff the node is subscribed and (no validator is registered or the validator
          returns ValidationAccept); Register on an occupied slot / Unregister on an empty one fail and change nothing.
    (iii) the DaisyChain test network (tm/tmp2p/tmp2ptest/daisychainnetwork.go): fromLeft / fromRight /
          outgoing cases of DaisyChainConnection.background and handleMessage, for lines of any length. *)
From Coq Require Import List NArith ZArith String Bool.
From GV Require Import Base.Ints Model.P2PRelayVocab Gen.Feedback Gen.RelaySwap.
Import ListNotations.
Local Open Scope N_scope.

(** * Messages and handlers *)
Inductive kind := KPH | KPV | KPC.
Definition call := (kind * N)%type.

(** A consensus handler is its verdict function: the gexchange.Feedback value (a uint8, any value possible)
    it returns for a message of the given kind and identity.  [None : option handler] is the nil handler. *)
Definition handler := kind -> N -> N.

(** tmcodec.ConsensusMessage after decoding: which of the three pointer fields are set (with the identity
    of the value).  Zero or several may be set ("behavior is undefined" says the codec; the wrapper decides). *)
Record dmsg := mk_dmsg { d_ph : option N; d_pv : option N; d_pc : option N }.
Inductive payload := Undecodable | Decoded (d : dmsg).
(** [from_self]: pubsub's ReceivedFrom equals the local peer id (a local publication). *)
Record netmsg := mk_netmsg { from_self : bool; body : payload }.

(** * (i) the validator wrapper *)
Definition wrapper (h : option handler) (m : netmsg) : res Z * list call :=
  if from_self m then (Ok ValidationAccept, [])                      (* id == selfID *)
  else match body m with
  | Undecodable => (Ok ValidationIgnore, [])                         (* unmarshal error *)
  | Decoded d =>
      match d_ph d, h with
      | Some i, Some hf => (exchange_feedback_to_libp2p (hf KPH i), [(KPH, i)])
      | _, _ =>
      match d_pv d, h with
      | Some i, Some hf => (exchange_feedback_to_libp2p (hf KPV i), [(KPV, i)])
      | _, _ =>
      match d_pc d, h with
      | Some i, Some hf => (exchange_feedback_to_libp2p (hf KPC i), [(KPC, i)])
      | _, _ => (exchange_feedback_to_libp2p FeedbackRejected, [])  (* default: no field set or nil handler *)
      end end end
  end.

(** ignoreMessage *)
Definition ignore_message (m : netmsg) : res Z * list call := (Ok ValidationIgnore, []).

(** * (ii) registry / subscription / handler cell *)
Inductive validator := RIgnoreAll | RWrap (h : option handler) | RDispatch.
Record conn := mk_conn { subscribed : bool; reg : option validator; cell : option handler }.
Definition conn0 : conn := mk_conn false None None.

Definition instantiate (v : vkind) (rh : option handler) : validator :=
  match v with VIgnoreAll => RIgnoreAll | VWrapReq => RWrap rh | VDispatch => RDispatch end.

(** One registry call executed on behalf of a request for handler [rh]. *)
Definition exec_op (rh : option handler) (c : conn) (o : reg_op) : conn :=
  match o with
  | OpSubscribe => mk_conn true (reg c) (cell c)
  | OpUnregister => mk_conn (subscribed c) None (cell c)
  | OpRegister v =>
      match reg c with
      | Some _ => c                                                  (* "duplicate validator": error logged, no change *)
      | None => mk_conn (subscribed c) (Some (instantiate v rh)) (cell c)
      end
  | OpStoreHandler => mk_conn (subscribed c) (reg c) rh
  end.

(** The connection's program: extracted call sequences + what the dispatching validator does on a nil cell. *)
Record prog := mk_prog { p_init : list reg_op; p_nil : list reg_op; p_some : list reg_op; p_dnil : vkind }.
Definition extracted_prog : prog := mk_prog conn_init_ops swap_nil_ops swap_nonnil_ops dispatch_nil_validator.

Definition run_validator (dnil : vkind) (c : conn) (v : validator) (m : netmsg) : res Z * list call :=
  match v with
  | RIgnoreAll => ignore_message m
  | RWrap h => wrapper h m
  | RDispatch =>                                                     (* c.consensusValidator *)
      match cell c with
      | Some hf => wrapper (Some hf) m
      | None =>
          match dnil with
          | VIgnoreAll => ignore_message m
          | VWrapReq => wrapper None m
          | VDispatch => (Panic "consensusValidator:unbounded-recursion", [])
          end
      end
  end.

(** What happens to a message arriving from the network. *)
Record aobs := mk_aobs { a_forwarded : bool; a_result : option (res Z); a_calls : list call }.
Definition is_accept (r : res Z) : bool := match r with Ok z => Z.eqb z ValidationAccept | Panic _ => false end.
Definition arrive (P : prog) (c : conn) (m : netmsg) : aobs :=
  if negb (subscribed c) then mk_aobs false None []
  else match reg c with
       | None => mk_aobs true None []                                (* no validator: pubsub forwards unvalidated *)
       | Some v => let '(r, calls) := run_validator (p_dnil P) c v m in mk_aobs (is_accept r) (Some r) calls
       end.

(** The goroutine executing NewConnection/background: the init ops, then one swap sequence per
    SetConsensusHandler request, one op per [EStep]; arrivals may occur between any two ops. *)
Record rstate := mk_rstate {
  r_conn : conn; r_cur : list reg_op; r_cur_h : option handler; r_busy : bool;
  r_last : option handler; r_todo : list (option handler) }.
Definition swap_ops (P : prog) (rh : option handler) : list reg_op :=
  match rh with None => p_nil P | Some _ => p_some P end.
Definition rinit (P : prog) (reqs : list (option handler)) : rstate := mk_rstate conn0 (p_init P) None false None reqs.

Definition rstep (P : prog) (s : rstate) : rstate :=
  match r_cur s with
  | o :: rest =>
      let c' := exec_op (r_cur_h s) (r_conn s) o in
      match rest with
      | [] => mk_rstate c' [] (r_cur_h s) false (r_cur_h s) (r_todo s)       (* request complete: close(req.Ready) *)
      | _ :: _ => mk_rstate c' rest (r_cur_h s) true (r_last s) (r_todo s)
      end
  | [] =>
      match r_todo s with
      | rh :: t => mk_rstate (r_conn s) (swap_ops P rh) rh false (r_last s) t (* receive next request *)
      | [] => s
      end
  end.

Inductive event := EArrive (m : netmsg) | EStep.

(** Handlers that count as "installed at this moment": the one of the last completed request and,
    while a swap is in progress, the one being installed. *)
Definition allowed (s : rstate) : list (option handler) :=
  r_last s :: (if r_busy s then [r_cur_h s] else []).

Fixpoint run (P : prog) (s : rstate) (evs : list event) : list (netmsg * aobs * list (option handler)) :=
  match evs with
  | [] => []
  | EStep :: r => run P (rstep P s) r
  | EArrive m :: r => (m, arrive P (r_conn s) m, allowed s) :: run P s r
  end.

(** Table handlers used by the correspondence runs. *)
Definition tbl_id (t : list N) : handler := fun _ i => nth (N.to_nat i) t 0.
Definition tbl_kind (a b c : N) : handler := fun k _ => match k with KPH => a | KPV => b | KPC => c end.

(** * (iii) DaisyChain *)
(** handleMessage: the handler sees the message; it travels on iff the verdict is FeedbackAccepted.
    A nil handler passes the message through unseen (fromLeft/fromRight cases with h == nil). *)
Fixpoint dc_travel (nodes : list (nat * option handler)) (k : kind) (i : N) : list nat :=
  match nodes with
  | [] => []
  | (ix, None) :: rest => dc_travel rest k i
  | (ix, Some h) :: rest => ix :: (if N.eqb (h k i) FeedbackAccepted then dc_travel rest k i else [])
  end.

Fixpoint number_from (n : nat) (hs : list (option handler)) : list (nat * option handler) :=
  match hs with [] => [] | h :: r => (n, h) :: number_from (S n) r end.

(** Nodes whose handler sees message (k,i) sent by node [origin] of the line [hs] (ascending order). *)
Definition dc_send (hs : list (option handler)) (origin : nat) (k : kind) (i : N) : list nat :=
  let numbered := number_from 0 hs in
  rev (dc_travel (rev (firstn origin numbered)) k i) ++ dc_travel (skipn (S origin) numbered) k i.

Inductive dc_op := DSet (node : nat) (h : option handler) | DMsg (origin : nat) (k : kind).

Fixpoint set_nth {A} (n : nat) (x : A) (l : list A) : list A :=
  match l, n with
  | [], _ => []
  | _ :: r, O => x :: r
  | y :: r, S n' => y :: set_nth n' x r
  end.

(** Runs a script; message identities are 0,1,2,... in order of sending. *)
Fixpoint dc_run (hs : list (option handler)) (next : N) (ops : list dc_op) : list (list nat) :=
  match ops with
  | [] => []
  | DSet n h :: r => dc_run (set_nth n h hs) next r
  | DMsg o k :: r => dc_send hs o k next :: dc_run hs (next + 1) r
  end.

(** * Drivers used by the correspondence runs (checks/c20.py) *)
Definition tbl_mod (md : N) (t : list N) : handler := fun _ i => nth (N.to_nat (i mod md)) t 0.

(** A sequential live script on node B: SetConsensusHandler (synchronous: it returns after the swap sequence
    has completed) and publications arriving from a peer.  Expressed through [run]: each LSet contributes one
    request and exactly the ESteps that complete it. *)
Inductive live_op := LSet (h : option handler) | LPub (m : netmsg).

Definition live_reqs (ops : list live_op) : list (option handler) :=
  flat_map (fun o => match o with LSet h => [h] | LPub _ => [] end) ops.
Definition live_events (P : prog) (ops : list live_op) : list event :=
  repeat EStep (List.length (p_init P)) ++
  flat_map (fun o => match o with
                     | LSet h => repeat EStep (S (List.length (swap_ops P h)))
                     | LPub m => [EArrive m]
                     end) ops.
Definition live_run (P : prog) (ops : list live_op) : list aobs :=
  map (fun x => snd (fst x)) (run P (rinit P (live_reqs ops)) (live_events P ops)).

(** Boolean form of "this arrival violates relay-only-if-accepted" for a handler-independent probe:
    [probe] is a decodable proposed header from a peer; every request installs [rejecting]. *)
Definition rejecting : handler := fun _ _ => FeedbackRejected.
Definition probe : netmsg := mk_netmsg false (Decoded (mk_dmsg (Some 7) None None)).
Fixpoint iter_step (P : prog) (k : nat) (s : rstate) : rstate :=
  match k with O => s | S k' => iter_step P k' (rstep P s) end.
Definition reg_kind (c : conn) : option vkind :=
  match reg c with None => None | Some RIgnoreAll => Some VIgnoreAll | Some (RWrap _) => Some VWrapReq | Some RDispatch => Some VDispatch end.
(** All (scenario, k) at which the probe would be forwarded although no installed handler accepts it;
    scenario n = n requests alternating rejecting / nil. *)
Definition gap_scenario (n : nat) : list (option handler) :=
  map (fun i => if Nat.even i then Some rejecting else None) (seq 0 n).
Definition gap_search (P : prog) (max_reqs max_k : nat) : list (nat * nat * bool * option vkind) :=
  flat_map (fun n =>
    flat_map (fun k =>
      let s := iter_step P k (rinit P (gap_scenario n)) in
      if a_forwarded (arrive P (r_conn s) probe)
      then [(n, k, subscribed (r_conn s), reg_kind (r_conn s))] else [])
    (seq 0 (S max_k)))
  (seq 0 (S max_reqs)).
