(** Numeric wire encoding of events and outputs shared with harness/sm/main.go, and the
    projection of model outputs to what the harness prints per event:
    (state-machine goroutine items, then the finalize requests and the emitted actions - both are recorded
    by the harness goroutine when it receives them -, consensus-manager goroutine items). *)
From Coq Require Import List NArith String Bool.
From GV Require Import Base.Ints Gen.Math Gen.StepSM Model.StateMachine.
Import ListNotations.
Local Open Scope N_scope.

Definition hid (h : hash) : N := match h with [] => 0 | [x] => x | _ => 255 end.
Definition hof (i : N) : hash := if i =? 0 then [] else [i].
Definition nb (b : bool) : N := if b then 1 else 0.
Definition nlen {A} (l : list A) : N := N.of_nat (List.length l).

Definition enc_map (m : list (list N * N)) : list N :=
  nlen m :: flat_map (fun kv => [hid (fst kv); snd kv]) m.
Definition enc_ph (p : ph) : list N :=
  [hid (ph_hash p); hid (ph_ash p); ph_vs p; ph_nvs p; hid (ph_data p); nb (ph_mine p)].
Definition enc_view (v : view) : list N :=
  let s := v_vs v in
  [v_h v; v_r v; v_ver v; vote_summary_AvailablePower s; vote_summary_TotalPrevotePower s;
   vote_summary_TotalPrecommitPower s; hid (vote_summary_MostVotedPrevoteHash s);
   hid (vote_summary_MostVotedPrecommitHash s)]
  ++ enc_map (vote_summary_PrevoteBlockPower s) ++ enc_map (vote_summary_PrecommitBlockPower s)
  ++ nlen (v_phs v) :: flat_map enc_ph (v_phs v) ++ [hid (v_pcp_hash v); v_pcp_vs v].

Definition enc_event (e : event) : list N :=
  match e with
  | EvStart => [1]
  | EvStop => [2]
  | EvRERespVRV v => 3 :: enc_view v
  | EvRERespCH bh h pr => [4; hid bh; h; pr]
  | EvView v ja =>
      if v_h v =? 0 then match ja with Some (h, r) => [6; h; r] | None => [7] end
      else 5 :: enc_view v ++ match ja with Some (h, r) => [h; r] | None => [0; 0] end
  | EvTimer => [8]
  | EvAnswer k t => [9; k; hid t]
  | EvProposal d => [10; hid d]
  | EvFinResp h r bh vs ash => [11; h; r; hid bh; vs; hid ash]
  | EvHeightCommitted => [12]
  | EvBlockData h r d => [13; h; r; hid d]
  | EvArmEnterErr => [14]
  end.

Definition enc_hashes (l : list hash) : list N := nlen l :: map hid l.

Definition enc_out (o : out) : list N :=
  match o with
  | ORoundEntrance h r pk act => [1; h; r; nb pk; nb act]
  | OEnterRound h r has => [2; h; r; nb has]
  | OConsider phs new upd maj => 3 :: enc_hashes phs ++ enc_hashes new ++ enc_hashes upd ++ [nb maj]
  | OChoose phs => 4 :: enc_hashes phs
  | ODecide a tv tc pm pmp cm cmp => [5; a; tv; tc; hid pm; pmp; hid cm; cmp]
  | OSignPrevote h r t => [6; h; r; hid t]
  | OSignPrecommit h r t => [7; h; r; hid t]
  | OSignProposal h r d => [8; h; r; hid d]
  | OSavePrevote h r t res pnd => [9; h; r; hid t; res; pnd]
  | OSavePrecommit h r t res pnd => [10; h; r; hid t; res; pnd]
  | OSavePH h r res pnd => [11; h; r; res; pnd]
  | OEmitPrevote h r t => [12; h; r; hid t; 1]
  | OEmitPrecommit h r t => [13; h; r; hid t; 1]
  | OEmitPH h r d => [14; h; r; hid d; 1]
  | OFinalizeReq h r bh => [15; h; r; hid bh]
  | OTimerStart k h r ov => [16; k; h; r; nb ov]
  | OTimerCancel k h r was => [17; k; h; r; nb was]
  | OSetHR h r => [18; h; r]
  | OSaveFin h r bh vs ash res => [19; h; r; hid bh; vs; hid ash; res]
  | OPanic n => [20; n]
  | OHalt => [21]
  | OUndeliverable => [22]
  | OBlocked => [23]
  end.

Definition is_cm_out (o : out) : bool :=
  match o with OEnterRound _ _ _ | OConsider _ _ _ _ | OChoose _ | ODecide _ _ _ _ _ _ _ => true | _ => false end.
Definition is_emit (o : out) : bool :=
  match o with OEmitPrevote _ _ _ | OEmitPrecommit _ _ _ | OEmitPH _ _ _ => true | _ => false end.
Definition is_finreq (o : out) : bool := match o with OFinalizeReq _ _ _ => true | _ => false end.
Definition is_panic (o : out) : bool := match o with OPanic _ => true | _ => false end.

(** What the harness prints for one event. A panic kills the harness process before it prints:
    only the panic site (from stderr) is compared. *)
Definition project (os : list out) : list (list N) * list (list N) :=
  match filter is_panic os with
  | p :: _ => ([enc_out p], [])
  | [] =>
      let smo := filter (fun o => negb (is_cm_out o)) os in
      (map enc_out (filter (fun o => negb (is_emit o || is_finreq o)) smo ++ filter is_finreq smo ++ filter is_emit smo),
       map enc_out (filter is_cm_out os))
  end.
