(** C17 - executable model of tmgossip.ChattyStrategy (tm/tmgossip/chattystrategy.go),
    with PrevoteProof.AsSparse / PrecommitProof.AsSparse (tm/tmconsensus/prevote.go, precommit.go).
    One Go branch = one model branch. No proofs in this file.

    The kernel goroutine is sequential: it takes one NetworkViewUpdate at a time from the update
    channel and performs blocking sends on the broadcaster's channels, so it is a function
    [step : gstate -> update -> gstate * list bcast] whose output list is the sequence of sends.
    Context cancellation (engine shutdown) is not an input of the model. *)
From Coq Require Import List NArith Bool.
From GV Require Import Model.GossipData.
Import ListNotations.
Local Open Scope N_scope.

(** A broadcast* method: the values sent, and the boolean it returns
    ([false] = stop the kernel: the only modelled cause is an AsSparse error). *)
Definition sends := (list bcast * bool)%type.

Definition nothing : sends := ([], true).

(** Go's [a && b] on two broadcast calls: [b] runs only if [a] returned true. *)
Definition and_then (a b : sends) : sends :=
  if snd a then (fst a ++ fst b, snd b) else a.

(** PrevoteProof.AsSparse / PrecommitProof.AsSparse: the PubKeyHash of "an arbitrary entry"
    (Go map order; the model takes the first, Proofs/Gossip.v shows the choice is irrelevant),
    error if any entry has a different one. *)
Definition as_sparse (pm : proofmap) : option (N * list (N * sparse)) :=
  match pm with
  | [] => Some (0, [])
  | e0 :: _ =>
      if forallb (fun e => N.eqb (p_keyhash (snd e)) (p_keyhash (snd e0))) pm
      then Some (p_keyhash (snd e0), map (fun e => (fst e, p_sigs (snd e))) pm)
      else None
  end.

(** broadcastProposedBlocks *)
Definition broadcast_phs (v : view) : sends := (map BHeader (v_phs v), true).

(** broadcastPrevotes / broadcastPrecommits *)
Definition broadcast_votes (k : kind) (v : view) : sends :=
  match pm_of k v with
  | [] => nothing                                     (* len(view.XProofs) == 0 *)
  | _ :: _ =>
      match as_sparse (pm_of k v) with
      | None => ([], false)                           (* AsSparse error: log and return false *)
      | Some (kh, body) => ([BVotes k (v_height v) (v_round v) kh body], true)
      end
  end.

(** broadcastAll *)
Definition broadcast_all (v : view) : sends :=
  and_then (broadcast_phs v) (and_then (broadcast_votes Prevote v) (broadcast_votes Precommit v)).

Fixpoint headers_eqb (a b : list header) : bool :=
  match a, b with
  | [], [] => true
  | x :: a', y :: b' => N.eqb x y && headers_eqb a' b'
  | _, _ => false
  end.

Fixpoint sparse_eqb (a b : sparse) : bool :=
  match a, b with
  | [], [] => true
  | (i, s) :: a', (j, t) :: b' => N.eqb i j && N.eqb s t && sparse_eqb a' b'
  | _, _ => false
  end.

Definition proof_eqb (p c : proof) : bool :=
  N.eqb (p_keyhash p) (p_keyhash c) && sparse_eqb (p_sigs p) (p_sigs c).

Fixpoint pm_lookup (h : N) (pm : proofmap) : option proof :=
  match pm with
  | [] => None
  | (h', p) :: pm' => if N.eqb h' h then Some p else pm_lookup h pm'
  end.

(** sameProofs: same number of block hashes, and every block hash of [cur] is in [prev]
    with an identical sparse image (public-key hash, key ids and signature bytes). *)
Definition same_proofs (prev cur : proofmap) : bool :=
  Nat.eqb (length prev) (length cur) &&
  forallb (fun e => match pm_lookup (fst e) prev with
                    | Some p => proof_eqb p (snd e)
                    | None => false
                    end) cur.

(** broadcastUpdatesOnly *)
Definition broadcast_updates_only (prev cur : view) : sends :=
  and_then (if headers_eqb (v_phs cur) (v_phs prev) then nothing else broadcast_phs cur)
 (and_then (if same_proofs (v_prevotes prev) (v_prevotes cur) then nothing else broadcast_votes Prevote cur)
           (if same_proofs (v_precommits prev) (v_precommits cur) then nothing else broadcast_votes Precommit cur)).

(** broadcastViewDiff *)
Definition broadcast_view_diff (prev cur : view) : sends :=
  if N.eqb (v_height cur) (v_height prev) && N.eqb (v_round cur) (v_round prev)
  then broadcast_updates_only prev cur
  else broadcast_all cur.

(** The zero value of VersionedRoundView (prevCommittingView etc. before they are assigned). *)
Definition zero_view : view := mkView 0 0 [] [] [].

(** Kernel state: waiting for the first update; running with the three previous views;
    returned because a broadcast failed; panicked (first update without a voting view). *)
Inductive gstate :=
| GInit
| GRun (pc pv pn : view)
| GStopped
| GPanicked.

Definition opt_sends (f : view -> sends) (o : option view) : sends :=
  match o with Some v => f v | None => nothing end.

Definition or_prev (o : option view) (prev : view) : view :=
  match o with Some v => v | None => prev end.

Definition step (s : gstate) (u : update) : gstate * list bcast :=
  match s with
  | GInit =>
      match u_voting u with
      | None => (GPanicked, [])                       (* Panic site: nil voting view on first update *)
      | Some v =>
          let r := and_then (broadcast_all v)
                  (and_then (opt_sends broadcast_all (u_committing u))
                  (and_then (opt_sends broadcast_all (u_next u))
                            (opt_sends (broadcast_votes Precommit) (u_nil u)))) in
          (if snd r then GRun (or_prev (u_committing u) zero_view) v (or_prev (u_next u) zero_view)
           else GStopped, fst r)
      end
  | GRun pc pv pn =>
      let r := and_then (opt_sends (broadcast_view_diff pc) (u_committing u))
              (and_then (opt_sends (broadcast_votes Precommit) (u_nil u))
              (and_then (opt_sends (broadcast_view_diff pv) (u_voting u))
                        (opt_sends (broadcast_view_diff pn) (u_next u)))) in
      (if snd r then GRun (or_prev (u_committing u) pc) (or_prev (u_voting u) pv) (or_prev (u_next u) pn)
       else GStopped, fst r)
  | GStopped => (GStopped, [])
  | GPanicked => (GPanicked, [])
  end.

(** Run a sequence of updates; the outputs are kept per update. *)
Fixpoint run (s : gstate) (us : list update) : gstate * list (list bcast) :=
  match us with
  | [] => (s, [])
  | u :: us' =>
      let '(s1, o) := step s u in
      let '(s2, os) := run s1 us' in
      (s2, o :: os)
  end.

Definition run_all (us : list update) : gstate * list (list bcast) := run GInit us.

(** Status code compared with the harness: 0 running/ok, 1 stopped, 2 panicked. *)
Definition status_code (s : gstate) : N :=
  match s with GInit => 0 | GRun _ _ _ => 0 | GStopped => 1 | GPanicked => 2 end.
