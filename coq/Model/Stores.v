(** C16 - executable model of the in-memory stores of tm/tmstore/tmmemstore.
    One pure state + [step] per store, one Go branch = one model branch.
    No proofs in this file (see Proofs/Stores*.v).

    Conventions
    - byte strings / Go strings: [list N]; the empty string and a nil slice coincide
      (the stores only ever convert them with [string(x)] or compare them with [== ""]).
    - [key] = a [gcrypto.PubKey] interface value: [None] is the nil interface, [Some b] a
      key whose [PubKeyBytes()] is [b].  [Equal] is byte equality (one concrete key type,
      [gcrypto.Ed25519PubKey], is used by the harness; [Equal(nil)] is false).
    - a Go map is an association list, newest binding first, lookup = first match.
    - payloads the stores never look into (header bodies, validator sets, signature lists)
      are represented by a tag [N]; the harness builds a full Go value from the tag and
      checks with reflect.DeepEqual that a load returns exactly that value.
    - every method runs under the store's mutex, so one method call = one [step]
      (checked structurally on every run: Gen/StoreLocks.v). *)
From Coq Require Import List NArith Bool.
From GV Require Import Base.Ints.
Import ListNotations.
Local Open Scope N_scope.

Definition bytes := list N.
Definition key := option bytes.

Definition is_empty (b : bytes) : bool := match b with [] => true | _ => false end.

Definition key_eqb (a b : key) : bool :=
  match a, b with
  | Some x, Some y => bytes_eqb x y
  | None, None => true
  | _, _ => false
  end.

Section AList.
  Context {K V : Type} (eqb : K -> K -> bool).
  Fixpoint al_get (k : K) (m : list (K * V)) : option V :=
    match m with
    | [] => None
    | (k', v) :: m' => if eqb k k' then Some v else al_get k m'
    end.
  Definition al_set (k : K) (v : V) (m : list (K * V)) : list (K * V) := (k, v) :: m.
End AList.

Definition hr := (N * N)%type.
Definition hr_eqb (a b : hr) : bool := N.eqb (fst a) (fst b) && N.eqb (snd a) (snd b).

(** * Errors of tm/tmstore/errors.go (+ the two tmconsensus "unknown" errors) *)
Inductive akind := KProposal | KPrevote | KPrecommit.

Inductive err :=
| EDoubleAction (k : akind)                       (* tmstore.DoubleActionError{Type} *)
| EPubKeyChanged (k : akind) (want got : bytes)    (* tmstore.PubKeyChangedError *)
| ERoundUnknown (h r : N)                         (* tmconsensus.RoundUnknownError *)
| EHeightUnknown (h : N)                          (* tmconsensus.HeightUnknownError *)
| EFinOverwrite (h : N)                           (* tmstore.FinalizationOverwriteError *)
| EOverwrite (field : N) (value : bytes)          (* tmstore.OverwriteError; 0 = "pubkey", 1 = "hash" *)
| EUninitialized                                  (* tmstore.ErrStoreUninitialized *)
| EKeysExist (hash : bytes)                       (* tmstore.PubKeysAlreadyExistError *)
| EPowsExist (hash : bytes)                       (* tmstore.VotePowersAlreadyExistError *)
| ENoHash (nokey nopow : option bytes)            (* NoPubKeyHashError and/or NoVotePowerHashError (errors.Join) *)
| ECountMismatch (nk np : N)                      (* tmstore.PubKeyPowerCountMismatchError *)
| EHashScheme.                                    (* error returned by the HashScheme, passed through *)

(** * Action store (actionstore.go) *)
Record ph := mkph { ph_h : N; ph_r : N; ph_hash : bytes; ph_key : key; ph_tag : N }.
Definition ph_zero : ph := mkph 0 0 [] None 0.

Record ra := mkra {
  ra_h : N; ra_r : N; ra_ph : ph; ra_key : key;
  ra_pvt : bytes; ra_pvs : bytes; ra_pct : bytes; ra_pcs : bytes }.
Definition ra_zero : ra := mkra 0 0 ph_zero None [] [] [] [].

Inductive aop :=
| ASavePH (p : ph)
| ASavePV (k : key) (h r : N) (bh sig : bytes)
| ASavePC (k : key) (h r : N) (bh sig : bytes)
| ALoad (h r : N).

Inductive aout := AOk | AErr (e : err) | ALoaded (x : ra) | APanic.

Definition astate := list (hr * ra).
Definition ainit : astate := [].

Definition aget (s : astate) (h r : N) : option ra := al_get hr_eqb (h, r) s.

(** The key check shared by SavePrevoteAction and SavePrecommitAction:
    [if ra.PubKey != nil && !ra.PubKey.Equal(pubKey)]; building the error calls
    [pubKey.PubKeyBytes()], a nil-interface call when [pubKey] is nil. *)
Definition key_check (kd : akind) (have : key) (k : key) : option aout :=
  match have with
  | None => None
  | Some want =>
      match k with
      | None => Some APanic
      | Some got => if bytes_eqb want got then None else Some (AErr (EPubKeyChanged kd want got))
      end
  end.

Definition astep (s : astate) (o : aop) : astate * aout :=
  match o with
  | ASavePH p =>
      let h := ph_h p in let r := ph_r p in
      match aget s h r with
      | Some x =>
          if negb (N.eqb (ph_h (ra_ph x)) 0) then (s, AErr (EDoubleAction KProposal))
          else (al_set (h, r) (mkra h r p (ra_key x) (ra_pvt x) (ra_pvs x) (ra_pct x) (ra_pcs x)) s, AOk)
      | None =>
          (al_set (h, r) (mkra h r p None [] [] [] []) s, AOk)
      end
  | ASavePV k h r bh sig =>
      match aget s h r with
      | Some x =>
          if negb (is_empty (ra_pvs x)) then (s, AErr (EDoubleAction KPrevote))
          else match key_check KPrevote (ra_key x) k with
               | Some bad => (s, bad)
               | None => (al_set (h, r) (mkra h r (ra_ph x) k bh sig (ra_pct x) (ra_pcs x)) s, AOk)
               end
      | None => (al_set (h, r) (mkra h r ph_zero k bh sig [] []) s, AOk)
      end
  | ASavePC k h r bh sig =>
      match aget s h r with
      | Some x =>
          if negb (is_empty (ra_pcs x)) then (s, AErr (EDoubleAction KPrecommit))
          else match key_check KPrecommit (ra_key x) k with
               | Some bad => (s, bad)
               | None => (al_set (h, r) (mkra h r (ra_ph x) k (ra_pvt x) (ra_pvs x) bh sig) s, AOk)
               end
      | None => (al_set (h, r) (mkra h r ph_zero k [] [] bh sig) s, AOk)
      end
  | ALoad h r =>
      match aget s h r with
      | Some x => (s, ALoaded x)
      | None => (s, AErr (ERoundUnknown h r))
      end
  end.

(** * Finalization store (finalizationstore.go) *)
Definition fin := (N * bytes * N * bytes)%type.       (* round, block hash, validator-set tag, app state hash *)
Inductive fop := FSave (h r : N) (bh : bytes) (vs : N) (ah : bytes) | FLoad (h : N).
Inductive fout := FOk | FErr (e : err) | FLoaded (r : N) (bh : bytes) (vs : N) (ah : bytes).
Definition fstate := list (N * fin).
Definition finit : fstate := [].

Definition fstep (s : fstate) (o : fop) : fstate * fout :=
  match o with
  | FSave h r bh vs ah =>
      match al_get N.eqb h s with
      | Some _ => (s, FErr (EFinOverwrite h))
      | None => (al_set h (r, bh, vs, ah) s, FOk)
      end
  | FLoad h =>
      match al_get N.eqb h s with
      | Some (r, bh, vs, ah) => (s, FLoaded r bh vs ah)
      | None => (s, FErr (EHeightUnknown h))
      end
  end.

(** * Committed header store (committedheaderstore.go): a save silently replaces. *)
Inductive cop := CSave (h tag : N) | CLoad (h : N).
Inductive cout := COk | CErr (e : err) | CLoaded (tag : N).
Definition cstate := list (N * N).
Definition cinit : cstate := [].

Definition cstep (s : cstate) (o : cop) : cstate * cout :=
  match o with
  | CSave h tag => (al_set h tag s, COk)
  | CLoad h =>
      match al_get N.eqb h s with
      | Some tag => (s, CLoaded tag)
      | None => (s, CErr (EHeightUnknown h))
      end
  end.

(** * Mirror store (mirrorstore.go) *)
Inductive mop := MSet (vh vr ch cr : N) | MGet.
Inductive mout := MOk | MErr (e : err) | MVal (vh vr ch cr : N).
Definition mstate := (N * N * N * N)%type.
Definition minit : mstate := (0, 0, 0, 0).

Definition mstep (s : mstate) (o : mop) : mstate * mout :=
  match o with
  | MSet vh vr ch cr => ((vh, vr, ch, cr), MOk)
  | MGet =>
      let '(vh, vr, ch, cr) := s in
      if N.eqb vh 0 then (s, MErr EUninitialized) else (s, MVal vh vr ch cr)
  end.

(** * State machine store (statemachinestore.go) *)
Inductive sop := SSet (h r : N) | SGet.
Inductive sout := SOk | SErr (e : err) | SVal (h r : N).
Definition sstate := (N * N)%type.
Definition sinit : sstate := (0, 0).

Definition sstep (s : sstate) (o : sop) : sstate * sout :=
  match o with
  | SSet h r => ((h, r), SOk)
  | SGet =>
      let '(h, r) := s in
      if N.eqb h 0 then (s, SErr EUninitialized) else (s, SVal h r)
  end.

(** * Validator store (validatorstore.go); the hash scheme is a parameter. *)
Inductive vop :=
| VSaveKeys (ks : list bytes)
| VSavePows (ps : list N)
| VLoadKeys (hash : bytes)
| VLoadPows (hash : bytes)
| VLoadVals (kh ph : bytes)
| VMutateSavedKeys (i : N).   (* the caller overwrites the slice it passed to the i-th SavePubKeys call; not a store call *)

Inductive hres := HOk (h : bytes) | HErr | HPanic.   (* result of a HashScheme call *)

Inductive vout :=
| VPanic
| VSaved (hash : bytes)
| VSaveErr (hash : bytes) (e : err)
| VFail (e : err)
| VKeys (ks : list bytes)
| VPows (ps : list N)
| VVals (l : list (bytes * N))
| VDone.

Record vstate := mkvs { vs_keys : list (bytes * list bytes); vs_pows : list (bytes * list N) }.
Definition vinit : vstate := mkvs [] [].

Section Validator.
  Variable hk : list bytes -> hres.   (* HashScheme.PubKeys *)
  Variable hp : list N -> hres.       (* HashScheme.VotePowers *)

  Definition vstep (s : vstate) (o : vop) : vstate * vout :=
    match o with
    | VSaveKeys ks =>
        match hk ks with
        | HPanic => (s, VPanic)      (* the scheme is called before the lock is taken *)
        | HErr => (s, VFail EHashScheme)
        | HOk h =>
            match al_get bytes_eqb h (vs_keys s) with
            | Some _ => (s, VSaveErr h (EKeysExist h))
            | None => (mkvs (al_set h ks (vs_keys s)) (vs_pows s), VSaved h)
            end
        end
    | VSavePows ps =>
        match hp ps with
        | HPanic => (s, VPanic)
        | HErr => (s, VFail EHashScheme)
        | HOk h =>
            match al_get bytes_eqb h (vs_pows s) with
            | Some _ => (s, VSaveErr h (EPowsExist h))
            | None => (mkvs (vs_keys s) (al_set h ps (vs_pows s)), VSaved h)
            end
        end
    | VLoadKeys h =>
        match al_get bytes_eqb h (vs_keys s) with
        | Some ks => (s, VKeys ks)
        | None => (s, VFail (ENoHash (Some h) None))
        end
    | VLoadPows h =>
        match al_get bytes_eqb h (vs_pows s) with
        | Some ps => (s, VPows ps)
        | None => (s, VFail (ENoHash None (Some h)))
        end
    | VLoadVals kh ph =>
        match al_get bytes_eqb kh (vs_keys s), al_get bytes_eqb ph (vs_pows s) with
        | Some ks, Some ps =>
            if Nat.eqb (length ks) (length ps) then (s, VVals (combine ks ps))
            else (s, VFail (ECountMismatch (N.of_nat (length ks)) (N.of_nat (length ps))))
        | None, Some _ => (s, VFail (ENoHash (Some kh) None))
        | Some _, None => (s, VFail (ENoHash None (Some ph)))
        | None, None => (s, VFail (ENoHash (Some kh) (Some ph)))
        end
    | VMutateSavedKeys _ => (s, VDone)
    end.
End Validator.

(** * Round store (roundstore.go) *)
(** A SparseSignatureCollection: PubKeyHash and BlockSignatures ([None] = nil map), the
    signature list under each block hash represented by a tag. *)
Definition ssc := (bytes * option (list (bytes * N)))%type.
Definition ssc_zero : ssc := ([], None).
Definition ssc_nilmap (c : ssc) : bool := match snd c with None => true | Some _ => false end.

Inductive rop :=
| RSavePH (p : ph)
| RSaveReplayed (h : N) (hash : bytes) (tag : N)
| RSetPV (h r : N) (c : ssc)
| RSetPC (h r : N) (c : ssc)
| RLoad (h r : N).

Inductive rout :=
| ROk
| RErr (e : err)
| RLoaded (phs : list ph) (pv pc : ssc)
| RUnknown (pv pc : ssc) (h r : N)
| RPanic.

Record rstate := mkrs {
  rs_phs : list ph;                  (* every stored proposed header, newest first *)
  rs_pv : list (hr * ssc);
  rs_pc : list (hr * ssc);
  rs_rep : list (N * bytes * N) }.   (* replayed headers: height, hash, tag; newest first *)
Definition rinit : rstate := mkrs [] [] [] [].

Definition ph_at (h r : N) (p : ph) : bool := N.eqb (ph_h p) h && N.eqb (ph_r p) r.
Definition ph_at_hash (h r : N) (hash : bytes) (p : ph) : bool := ph_at h r p && bytes_eqb (ph_hash p) hash.

(** [ph.ProposerPubKey.Equal(have.ProposerPubKey)] for a non-nil receiver. *)
Definition same_proposer (k : bytes) (have : ph) : bool :=
  match ph_key have with Some k' => bytes_eqb k k' | None => false end.

(** The headers LoadRoundState appends for replayed headers: for every non-empty block
    hash of the precommit collection, every replayed header of the height with that hash. *)
Definition replayed_for (h : N) (rep : list (N * bytes * N)) (pc : ssc) : list ph :=
  match snd pc with
  | None => []
  | Some sigs =>
      flat_map (fun e : bytes * N =>
        if is_empty (fst e) then []
        else map (fun x : N * bytes * N => mkph h 0 (snd (fst x)) None (snd x))
                 (filter (fun x : N * bytes * N => N.eqb (fst (fst x)) h && bytes_eqb (snd (fst x)) (fst e)) rep))
      sigs
  end.

Definition rstep (s : rstate) (o : rop) : rstate * rout :=
  match o with
  | RSavePH p =>
      match filter (ph_at_hash (ph_h p) (ph_r p) (ph_hash p)) (rs_phs s) with
      | [] => (mkrs (p :: rs_phs s) (rs_pv s) (rs_pc s) (rs_rep s), ROk)
      | have =>
          match ph_key p with
          | None => (s, RPanic)       (* nil interface: ph.ProposerPubKey.Equal(...) *)
          | Some k =>
              if existsb (same_proposer k) have then (s, RErr (EOverwrite 0 k))
              else (mkrs (p :: rs_phs s) (rs_pv s) (rs_pc s) (rs_rep s), ROk)
          end
      end
  | RSaveReplayed h hash tag =>
      if existsb (fun p => N.eqb (ph_h p) h && bytes_eqb (ph_hash p) hash) (rs_phs s)
      then (s, RErr (EOverwrite 1 hash))
      else (mkrs (rs_phs s) (rs_pv s) (rs_pc s) ((h, hash, tag) :: rs_rep s), ROk)
  | RSetPV h r c => (mkrs (rs_phs s) (al_set (h, r) c (rs_pv s)) (rs_pc s) (rs_rep s), ROk)
  | RSetPC h r c => (mkrs (rs_phs s) (rs_pv s) (al_set (h, r) c (rs_pc s)) (rs_rep s), ROk)
  | RLoad h r =>
      let pv := match al_get hr_eqb (h, r) (rs_pv s) with Some c => c | None => ssc_zero end in
      let pc := match al_get hr_eqb (h, r) (rs_pc s) with Some c => c | None => ssc_zero end in
      let phs := filter (ph_at h r) (rs_phs s) ++ replayed_for h (rs_rep s) pc in
      match phs with
      | [] => if ssc_nilmap pv && ssc_nilmap pc then (s, RUnknown pv pc h r) else (s, RLoaded [] pv pc)
      | _ => (s, RLoaded phs pv pc)
      end
  end.

(** * Running a store over an operation list, recording (op, out) pairs in order. *)
Section Run.
  Context {S Op Out : Type} (step : S -> Op -> S * Out).
  Fixpoint run (s : S) (ops : list Op) : S :=
    match ops with [] => s | o :: ops' => run (fst (step s o)) ops' end.
  Fixpoint trace (s : S) (ops : list Op) : list (Op * Out) :=
    match ops with
    | [] => []
    | o :: ops' => let '(s', out) := step s o in (o, out) :: trace s' ops'
    end.
End Run.
