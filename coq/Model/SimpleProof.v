(** C13 - executable model of gcrypto/simplecommonmessagesignatureproof.go
    (SimpleCommonMessageSignatureProof and its scheme).  One Go branch = one model branch.
    Keys are identities [N] (public key bytes are injective in the identity), signatures are
    ideal ([sigv]).  The key-id guards are the GENERATED functions of Gen/KeyID.v.  No proofs here. *)
From Coq Require Import List NArith ZArith String Bool.
From GV Require Import Base.Ints Gen.KeyID Model.SimpleProofBase.
Import ListNotations.
Local Open Scope string_scope.
Local Open Scope N_scope.

(** [sigs]: Go map string(signature bytes) -> signing key, as an association list. *)
Definition sigmap := list (sigv * N).

Fixpoint sigs_get (m : sigmap) (s : sigv) : option N :=
  match m with
  | [] => None
  | (s', k) :: t => if sigv_eqb s' s then Some k else sigs_get t s
  end.

Fixpoint sigs_set (m : sigmap) (s : sigv) (k : N) : sigmap :=
  match m with
  | [] => [(s, k)]
  | (s', k') :: t => if sigv_eqb s' s then (s, k) :: t else (s', k') :: sigs_set t s k
  end.

Record proof := mk_proof {
  p_msg : list N;
  p_keys : list N;
  p_hash : list N;
  p_bits : N;
  p_sigs : sigmap
}.

Record flags := mk_flags { fl_all_valid : bool; fl_increased : bool; fl_strict : bool }.
Definition flags_zero := mk_flags false false false.


(** NewSimpleCommonMessageSignatureProof: panics on an empty candidate list. *)
Definition new_proof (msg keys hash : list N) : res proof :=
  match keys with
  | [] => Panic "NewSimpleCommonMessageSignatureProof:147"
  | _ => Ok (mk_proof msg keys hash 0 [])
  end.

(** AddSignature: 0 = nil error, 1 = ErrUnknownKey, 2 = ErrInvalidSignature. *)
Definition add_signature (p : proof) (s : sigv) (key : N) : proof * N :=
  match key_index (p_keys p) key with
  | None => (p, 1)
  | Some i =>
      if negb (sig_verify key (p_msg p) s) then (p, 2)
      else (mk_proof (p_msg p) (p_keys p) (p_hash p) (N.lor (p_bits p) (bit i)) (sigs_set (p_sigs p) s key), 0)
  end.

Fixpoint keys_eqb (a b : list N) : bool :=
  match a, b with
  | [], [] => true
  | x :: a', y :: b' => N.eqb x y && keys_eqb a' b'
  | _, _ => false
  end.

Definition matches (p o : proof) : bool :=
  if negb (bytes_eqb (p_msg p) (p_msg o)) then false
  else if negb (bytes_eqb (p_hash p) (p_hash o)) then false
  else if negb (keys_eqb (p_keys p) (p_keys o)) then false
  else true.

(** Merge: the loop body for one (signature, key) entry of other's map. *)
Definition merge_step (st : proof * (bool * bool)) (e : sigv * N) : proof * (bool * bool) :=
  let '(p, (allv, incr)) := st in
  let '(osig, okey) := e in
  match sigs_get (p_sigs p) osig with
  | None =>
      let '(p', err) := add_signature p osig okey in
      if N.eqb err 0 then (p', (allv, true)) else (p', (false, incr))
  | Some curkey =>
      if negb (N.eqb curkey okey) then (p, (false, incr)) else (p, (allv, incr))
  end.

Definition merge (p o : proof) : proof * flags :=
  if negb (matches p o) then (p, flags_zero)
  else
    let looks := (N.eqb (p_bits o) 0 && N.eqb (p_bits p) 0) || is_strict_superset (p_bits o) (p_bits p) in
    let '(p', (allv, incr)) := fold_left merge_step (p_sigs o) (p, (true, false)) in
    (p', mk_flags allv incr (looks && allv)).

(** MergeSparse: the loop body for one sparse signature; state = proof, AllValidSignatures, addedBS. *)
Definition ms_step (st : proof * (bool * N)) (e : sparse_entry) : res (proof * (bool * N)) :=
  let '(p, (allv, added)) := st in
  let '(id, s) := e in
  bind (be_uint16_key_id_valid (mk_klc (Z.of_nat (List.length (p_keys p)))) id) (fun valid =>
  if negb valid then Ok (p, (false, added))
  else
    bind (be_uint16 id "MergeSparse:344") (fun n =>
    if ((Z.of_N n <? 0) || (Z.of_nat (List.length (p_keys p)) <=? Z.of_N n))%Z then Ok (p, (false, added))
    else
      match nth_key (p_keys p) n with
      | None => Panic "MergeSparse:350"
      | Some key =>
          let '(p', err) := add_signature p s key in
          if negb (N.eqb err 0) then Ok (p', (false, added))
          else Ok (p', (allv, N.lor added (bit n)))
      end)).

Fixpoint ms_loop (st : proof * (bool * N)) (es : list sparse_entry) : res (proof * (bool * N)) :=
  match es with
  | [] => Ok st
  | e :: t => bind (ms_step st e) (fun st' => ms_loop st' t)
  end.

Definition merge_sparse (p : proof) (s : sparse) : res (proof * flags) :=
  if negb (bytes_eqb (p_hash p) (fst s)) then Ok (p, flags_zero)
  else
    bind (ms_loop (p, (true, 0)) (snd s)) (fun '(p', (allv, added)) =>
    Ok (p', mk_flags allv (popcount (p_bits p) <? popcount (p_bits p')) (is_strict_superset added (p_bits p)))).

(** HasSparseKeyID is the generated function applied to the proof's keys and bit set. *)
Definition has_sparse_key_id (p : proof) (id : list N) : res (bool * bool) :=
  has_sparse_key_id_gen (mk_skp (p_keys p) (p_bits p)) id.

Definition clone (p : proof) : proof := mk_proof (p_msg p) (p_keys p) (p_hash p) (p_bits p) (p_sigs p).
Definition derive (p : proof) : proof := mk_proof (p_msg p) (p_keys p) (p_hash p) 0 [].

(** AsSparse: uint16(keyIdx) truncates; sorted by key id. *)
Definition sparse_of_sig (keys : list N) (e : sigv * N) : sparse_entry :=
  (be16 (wrap16 (match key_index keys (snd e) with Some i => i | None => 0 end)), fst e).

Definition as_sparse (p : proof) : sparse :=
  (p_hash p, sort_by (fun e : sparse_entry => fst e) (map (sparse_of_sig (p_keys p)) (p_sigs p))).

Fixpoint rest_set (m : list (list N * list sparse_entry)) (k : list N) (v : list sparse_entry) :=
  match m with
  | [] => [(k, v)]
  | (k', v') :: t => if bytes_eqb k' k then (k, v) :: t else (k', v') :: rest_set t k v
  end.

Definition finalize (main : proof) (rest : list proof) : fin :=
  mk_fin (p_keys main) (p_hash main) (p_msg main) (snd (as_sparse main))
         (fold_left (fun m r => rest_set m (p_msg r) (snd (as_sparse r))) rest []).

Fixpoint out_set (m : list (list N * N)) (k : list N) (v : N) : list (list N * N) :=
  match m with
  | [] => [(k, v)]
  | (k', v') :: t => if bytes_eqb k' k then (k, v) :: t else (k', v') :: out_set t k v
  end.

(** One block of ValidateFinalizedProof: build a temporary proof and merge the sparse signatures;
    [None] = some signature was not valid. *)
Definition vf_block (keys hash msg : list N) (sigs : list sparse_entry) : res (option N) :=
  bind (new_proof msg keys hash) (fun tp =>
  bind (merge_sparse tp (hash, sigs)) (fun '(tp', fl) =>
  if negb (fl_all_valid fl) then Ok None else Ok (Some (p_bits tp')))).

Fixpoint vf_rest (keys hash : list N) (hashes : list (list N * list N))
         (rest : list (list N * list sparse_entry)) (out : list (list N * N)) : res (option (list (list N * N))) :=
  match rest with
  | [] => Ok (Some out)
  | (msg, sigs) :: t =>
      bind (vf_block keys hash msg sigs) (fun ob =>
      match ob with
      | None => Ok None
      | Some bs => vf_rest keys hash hashes t (out_set out (hash_get hashes msg) bs)
      end)
  end.

(** The double-signature scan over the output map. *)
Fixpoint vf_unique (out : list (list N * N)) (all : N) : bool :=
  match out with
  | [] => true
  | (_, bs) :: t => if negb (N.eqb (N.land all bs) 0) then false else vf_unique t (N.lor all bs)
  end.

Definition validate_finalized (f : fin) (hashes : list (list N * list N))
  : res (option (list (list N * N)) * bool) :=
  bind (vf_block (f_keys f) (f_hash f) (f_main_msg f) (f_main_sigs f)) (fun ob =>
  match ob with
  | None => Ok (None, false)
  | Some bs =>
      bind (vf_rest (f_keys f) (f_hash f) hashes (f_rest f) [(hash_get hashes (f_main_msg f), bs)]) (fun oo =>
      match oo with
      | None => Ok (None, false)
      | Some out => Ok (Some out, vf_unique out 0)
      end)
  end).

(** KeyIDChecker(keys).IsValid *)
Definition key_id_checker_valid (nkeys : nat) (id : list N) : res bool :=
  be_uint16_key_id_valid (mk_klc (Z.of_nat nkeys)) id.

(* ------------------------------------------------------------------------------------------ *)
Definition regs := list (nat * proof).

Fixpoint reg_get (rs : regs) (r : nat) : option proof :=
  match rs with
  | [] => None
  | (r', p) :: t => if Nat.eqb r' r then Some p else reg_get t r
  end.

Definition reg_set (rs : regs) (r : nat) (p : proof) : regs := (r, p) :: rs.

Fixpoint regs_get_all (rs : regs) (l : list nat) : option (list proof) :=
  match l with
  | [] => Some []
  | r :: t => match reg_get rs r, regs_get_all rs t with
              | Some p, Some ps => Some (p :: ps)
              | _, _ => None
              end
  end.

Fixpoint sig_token (tbl : list sigv) (s : sigv) (i : N) : N :=
  match tbl with
  | [] => 9999
  | s' :: t => if sigv_eqb s' s then i else sig_token t s (i + 1)
  end.

Definition obs_flags (fl : flags) (bits : N) : list N :=
  [b2n (fl_all_valid fl); b2n (fl_increased fl); b2n (fl_strict fl); bits].

(** Sparse output: per entry [len id] ++ id ++ [token]; entries sorted by (id, token). *)
Definition obs_sparse (tbl : list sigv) (s : sparse) : list N :=
  N.of_nat (List.length (fst s)) :: fst s ++
  List.concat (sort_by (fun x : list N => x)
    (map (fun e : sparse_entry => N.of_nat (List.length (fst e)) :: fst e ++ [sig_token tbl (snd e) 0]) (snd s))).

Definition step (tbl : list sigv) (rs : regs) (o : op) : regs * list N :=
  match o with
  | ONew r msg keys hash =>
      match new_proof msg keys hash with
      | Ok p => (reg_set rs r p, [0])
      | Panic _ => (rs, obs_panic)
      end
  | OAdd r s key =>
      match reg_get rs r with
      | None => (rs, obs_noreg)
      | Some p => let '(p', err) := add_signature p s key in (reg_set rs r p', [err; p_bits p'])
      end
  | OMerge r o =>
      match reg_get rs r, reg_get rs o with
      | Some p, Some q => let '(p', fl) := merge p q in (reg_set rs r p', obs_flags fl (p_bits p'))
      | _, _ => (rs, obs_noreg)
      end
  | OMergeSparse r hash ents =>
      match reg_get rs r with
      | None => (rs, obs_noreg)
      | Some p =>
          match merge_sparse p (hash, ents) with
          | Ok (p', fl) => (reg_set rs r p', obs_flags fl (p_bits p'))
          | Panic _ => (rs, obs_panic)
          end
      end
  | OMergeFrom r o =>
      match reg_get rs r, reg_get rs o with
      | Some p, Some q =>
          match merge_sparse p (as_sparse q) with
          | Ok (p', fl) => (reg_set rs r p', obs_flags fl (p_bits p'))
          | Panic _ => (rs, obs_panic)
          end
      | _, _ => (rs, obs_noreg)
      end
  | OHas r id =>
      match reg_get rs r with
      | None => (rs, obs_noreg)
      | Some p =>
          match has_sparse_key_id p id with
          | Ok (h, v) => (rs, [b2n h; b2n v])
          | Panic _ => (rs, obs_panic)
          end
      end
  | OSparse r =>
      match reg_get rs r with
      | None => (rs, obs_noreg)
      | Some p => (rs, obs_sparse tbl (as_sparse p))
      end
  | OClone r to =>
      match reg_get rs r with
      | None => (rs, obs_noreg)
      | Some p => (reg_set rs to (clone p), [p_bits p])
      end
  | ODerive r to =>
      match reg_get rs r with
      | None => (rs, obs_noreg)
      | Some p => (reg_set rs to (derive p), [0])
      end
  | OBits r =>
      match reg_get rs r with
      | None => (rs, obs_noreg)
      | Some p => (rs, [p_bits p])
      end
  | OFinVal main rest hashes =>
      match reg_get rs main, regs_get_all rs rest with
      | Some m, Some ps => (rs, obs_validate (validate_finalized (finalize m ps) hashes))
      | _, _ => (rs, obs_noreg)
      end
  | OValidate f hashes => (rs, obs_validate (validate_finalized f hashes))
  | OIsValid nkeys id =>
      match key_id_checker_valid nkeys id with
      | Ok b => (rs, [b2n b])
      | Panic _ => (rs, obs_panic)
      end
  end.

Fixpoint run_from (tbl : list sigv) (rs : regs) (ops : list op) : list (list N) :=
  match ops with
  | [] => []
  | o :: t => let '(rs', ob) := step tbl rs o in ob :: run_from tbl rs' t
  end.

Definition run (tbl : list sigv) (ops : list op) : list (list N) := run_from tbl [] ops.
