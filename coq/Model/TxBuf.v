(** Executable model of gdriver/gtxbuf (workingstate.go, txbuffer.go, errors.go).  NO proofs here.

    The Go package is generic over the chain state [S] and the transaction type [T] and is
    parameterised by two user functions:
      addTxFunc     : ctx -> S -> T -> (S, error)          -- here [apply]
      txDeleterFunc : ctx -> reject []T -> (T -> bool)     -- here [deleter]
    An error of addTxFunc is "invalid" when errors.As finds a TxInvalidError in it (errors.go)
    and "fatal" otherwise; the model carries an error code so that "the error is returned
    directly" is observable.

    One Go branch = one model branch.  The kernel goroutine of txbuffer.go owns one
    workingState and serves one request at a time from its select loop, so the Buffer is the
    sequential machine [step] whose op list is the order in which the loop took the requests
    (DESIGN section 3, Concurrency). *)
From Coq Require Import List NArith Bool.
Import ListNotations.

(** Result of the user's addTxFunc. *)
Inductive ares (S : Type) : Type :=
| AOk (s : S)            (* err == nil, new state *)
| AInvalid (e : N)       (* error wrapping TxInvalidError, code e *)
| AFatal (e : N).        (* any other error, code e *)
Arguments AOk {S} s.
Arguments AInvalid {S} e.
Arguments AFatal {S} e.

(** Projected error value returned to callers. *)
Inductive err : Type := ENone | EInvalid (e : N) | EFatal (e : N).

Definition err_eqb (a b : err) : bool :=
  match a, b with
  | ENone, ENone => true
  | EInvalid x, EInvalid y => N.eqb x y
  | EFatal x, EFatal y => N.eqb x y
  | _, _ => false
  end.

Section TxBuf.
  Context {S T : Type}.
  Variable apply : S -> T -> ares S.
  Variable deleter : list T -> T -> bool.

  (** workingstate.go: type workingState.  [cur_state] is meaningful only when [is_updated]. *)
  Record wstate : Type := mkW {
    base : S;
    cur_state : S;
    is_updated : bool;
    txs : list T
  }.

  (** The state the next transaction is applied to (first lines of CheckAddTx). *)
  Definition cur (w : wstate) : S := if is_updated w then cur_state w else base w.

  (** txbuffer.go kernel: w := workingState{BaseState: baseState, ...}; curState is the zero
      value there and unobservable while isUpdated is false; the model stores the base. *)
  Definition init (b : S) : wstate := mkW b b false [].

  (** workingstate.go CheckAddTx: apply before append; any error is returned directly and
      nothing changes. *)
  Definition check_add_tx (w : wstate) (t : T) : wstate * err :=
    match apply (cur w) t with
    | AOk s' => (mkW (base w) s' true (txs w ++ [t]), ENone)
    | AInvalid e => (w, EInvalid e)
    | AFatal e => (w, EFatal e)
    end.

  (** workingstate.go Buffered: dst = append(dst, w.Txs...). *)
  Definition buffered (w : wstate) (dst : list T) : list T := dst ++ txs w.

  (** The for-loop of Rebase over the remaining pending transactions.
      Threaded: curState, isUpdated; produced: kept (in order), invalidated (in order). *)
  Inductive loop_res : Type :=
  | LDone (cs : S) (upd : bool) (kept inv : list T)
  | LFatal (e : N) (cs : S) (upd : bool).

  Fixpoint rebase_loop (cs : S) (upd : bool) (l : list T) : loop_res :=
    match l with
    | [] => LDone cs upd [] []
    | t :: r =>
        match apply cs t with
        | AOk s' =>
            match rebase_loop s' true r with
            | LDone c u k i => LDone c u (t :: k) i
            | LFatal e c u => LFatal e c u
            end
        | AInvalid _ =>
            match rebase_loop cs upd r with
            | LDone c u k i => LDone c u k (t :: i)
            | LFatal e c u => LFatal e c u
            end
        | AFatal e => LFatal e cs upd
        end
    end.

  (** First DeleteFunc pass, guarded by len(applied) > 0. *)
  Definition drop_applied (applied : list T) (l : list T) : list T :=
    match applied with
    | [] => l
    | _ :: _ => filter (fun t => negb (deleter applied t)) l
    end.

  (** workingstate.go Rebase (after the fix: invalidated entries are dropped by position,
      i.e. w.Txs = kept).  Returns the response {Invalidated, Err}. *)
  Definition rebase (w : wstate) (nb : S) (applied : list T) : wstate * (err * list T) :=
    match txs w with
    | [] => (mkW nb nb false [], (ENone, []))              (* len(w.Txs) == 0: early return *)
    | _ :: _ =>
        let l := drop_applied applied (txs w) in
        match rebase_loop nb false l with
        | LFatal e cs u => (mkW nb cs u l, (EFatal e, []))   (* return rebaseResponse{Err: err} *)
        | LDone cs u k i =>
            (mkW nb cs u (match i with [] => l | _ :: _ => k end), (ENone, i))
        end
    end.

  (** Requests served by the kernel loop / methods of workingState. *)
  Inductive op : Type :=
  | OpAdd (t : T)
  | OpBuffered (dst : list T)
  | OpRebase (nb : S) (applied : list T).

  Inductive out : Type :=
  | OutAdd (e : err)
  | OutBuffered (l : list T)
  | OutRebase (e : err) (inv : list T).

  Definition step (w : wstate) (o : op) : wstate * out :=
    match o with
    | OpAdd t => let '(w', e) := check_add_tx w t in (w', OutAdd e)
    | OpBuffered dst => (w, OutBuffered (buffered w dst))
    | OpRebase nb ap => let '(w', (e, i)) := rebase w nb ap in (w', OutRebase e i)
    end.

  Fixpoint run (w : wstate) (ops : list op) : wstate * list out :=
    match ops with
    | [] => (w, [])
    | o :: r => let '(w1, x) := step w o in let '(w2, xs) := run w1 r in (w2, x :: xs)
    end.

  (** Trace with the state after every op (what the harness snapshots through the hook). *)
  Fixpoint run_states (w : wstate) (ops : list op) : list (out * wstate) :=
    match ops with
    | [] => []
    | o :: r => let '(w1, x) := step w o in (x, w1) :: run_states w1 r
    end.
End TxBuf.

Arguments wstate : clear implicits.
Arguments op : clear implicits.
Arguments out : clear implicits.
Arguments loop_res : clear implicits.
Arguments OutAdd {T} e.
Arguments OutBuffered {T} l.
Arguments OutRebase {T} e inv.
Arguments OpAdd {S T} t.
Arguments OpBuffered {S T} dst.
Arguments OpRebase {S T} nb applied.
