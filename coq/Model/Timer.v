(** C12(b) - StandardRoundTimer as a nondeterministic transition system, INTERPRETED from
    the program data that translate/c12_timer.go extracts from roundtimer.go (Gen/Timer.v).

    Granularity: every basic statement of a select-case body is one atomic step of the
    background goroutine, so the caller (Start / Cancel / Observe), the environment
    (Fire = the time.Timer expires, Ctx = context cancelled) and the goroutine interleave
    between ANY two statements.  At a [select] the enabled branches are exactly the ready
    channels and the scheduler ([LBg k]) may take any of them.
    The cancel function runs atomically (it is a single close, or a close bracketed by
    Lock/Unlock - an atomic block by the usual mover argument); it needs the mutex free.

    Executable definitions only; proofs are in Proofs/Timer.v. *)
From Coq Require Import List Bool Arith.
From GV Require Import Model.TimerVocab Monitors.C12m.
Import ListNotations.

Inductive href := RNone | RCur | RStale.          (* nil | the newest channel made | an older one *)
Inductive tmst := TNone | TStopped | TArmed | TFired. (* time.Timer: not created | stopped+drained | running | expired, value in C *)
Inductive owner := MFree | MBg | MCaller.
Inductive cstate := CIdle | CSending | CWaitResp.  (* caller: outside getTimer | blocked sending the request | waiting for the reply *)
Inductive pcs :=
| PSel (n : nat)                       (* blocked in select number n (0 = idle, 1 = running) *)
| PExec (rest : list action) (next : nat) (* executing a case body; afterwards select [next] *)
| PPanic                               (* the process died *)
| PExit                                (* background returned *)
| PLimit.                              (* outside the precision of this model (stale channel used) *)

Record st := mkSt {
  s_pc : pcs; s_tm : tmst; s_mu : owner; s_ctx : bool;
  s_bg_el : href; s_bg_ca : href;          (* background's timerElapsed / cancelTimer *)
  s_el_closed : bool; s_ca_closed : bool;  (* newest elapsed / cancel channel closed? *)
  s_cl : cstate;
  s_h_el : href; s_h_ca : href;            (* the caller's current handle *)
  s_h_cancelled : bool;                    (* the handle's cancel function has run and returned *)
  s_h_seen : bool                          (* the caller saw the handle's elapsed channel closed *)
}.

Inductive label := LStart | LAbort | LCancel | LObserve | LFire | LCtx | LBg (k : nat).

Definition set_pc (s : st) (p : pcs) : st :=
  mkSt p (s_tm s) (s_mu s) (s_ctx s) (s_bg_el s) (s_bg_ca s) (s_el_closed s) (s_ca_closed s)
       (s_cl s) (s_h_el s) (s_h_ca s) (s_h_cancelled s) (s_h_seen s).
Definition set_tm (s : st) (t : tmst) : st :=
  mkSt (s_pc s) t (s_mu s) (s_ctx s) (s_bg_el s) (s_bg_ca s) (s_el_closed s) (s_ca_closed s)
       (s_cl s) (s_h_el s) (s_h_ca s) (s_h_cancelled s) (s_h_seen s).
Definition set_mu (s : st) (m : owner) : st :=
  mkSt (s_pc s) (s_tm s) m (s_ctx s) (s_bg_el s) (s_bg_ca s) (s_el_closed s) (s_ca_closed s)
       (s_cl s) (s_h_el s) (s_h_ca s) (s_h_cancelled s) (s_h_seen s).
Definition set_cl (s : st) (c : cstate) : st :=
  mkSt (s_pc s) (s_tm s) (s_mu s) (s_ctx s) (s_bg_el s) (s_bg_ca s) (s_el_closed s) (s_ca_closed s)
       c (s_h_el s) (s_h_ca s) (s_h_cancelled s) (s_h_seen s).

Definition cont (rest : list action) (next : nat) : pcs :=
  match rest with [] => PSel next | _ => PExec rest next end.

Definition stale (r : href) : href := match r with RCur => RStale | x => x end.

Definition is_free (m : owner) : bool := match m with MFree => true | _ => false end.

(** ---- the background goroutine ------------------------------------------------------ *)

(** Is the channel of a select case ready?  [None]: depends on a channel the model no longer tracks. *)
Definition ready (s : st) (c : chan) : option bool :=
  match c with
  | ChCtxDone => Some (s_ctx s)
  | ChStartReq => Some (match s_cl s with CSending => true | _ => false end)
  | ChTimerC => Some (match s_tm s with TFired => true | _ => false end)
  | ChCancel => match s_bg_ca s with
                | RNone => Some false        (* a nil channel is never ready *)
                | RCur => Some (s_ca_closed s)
                | RStale => None
                end
  end.

(** Effect of the receive that selects a case. *)
Definition receive (s : st) (c : chan) : st :=
  match c with
  | ChStartReq => set_cl s CWaitResp
  | ChTimerC => set_tm s TStopped
  | _ => s
  end.

Definition panic (s : st) : st * list obs := (set_pc s PPanic, [OPanic]).

(** One basic statement; [rest]/[next] is what follows it.  [None] = blocked. *)
Definition exec_basic (s : st) (b : basic) (rest : list action) (next : nat) : option (st * list obs) :=
  let k := cont rest next in
  match b with
  | BNewTimer => Some (set_pc (set_tm s TArmed) k, [])
  | BReturn => Some (set_pc s PExit, [])
  | BResetTimer =>
      match s_tm s with
      | TNone => Some (panic s)
      | _ => Some (set_pc (set_tm s TArmed) k, [])
      end
  | BMakeElapsed =>
      Some (mkSt k (s_tm s) (s_mu s) (s_ctx s) RCur (s_bg_ca s) false (s_ca_closed s)
                 (s_cl s) (stale (s_h_el s)) (s_h_ca s) (s_h_cancelled s) (s_h_seen s), [])
  | BMakeCancel =>
      Some (mkSt k (s_tm s) (s_mu s) (s_ctx s) (s_bg_el s) RCur (s_el_closed s) false
                 (s_cl s) (s_h_el s) (stale (s_h_ca s)) (s_h_cancelled s) (s_h_seen s), [])
  | BReply =>
      match s_cl s with
      | CWaitResp =>
          Some (mkSt k (s_tm s) (s_mu s) (s_ctx s) (s_bg_el s) (s_bg_ca s) (s_el_closed s) (s_ca_closed s)
                     CIdle (s_bg_el s) (s_bg_ca s) false false, [OStartRet])
      | _ => None   (* unbuffered send: blocks until the caller receives *)
      end
  | BCloseElapsed =>
      match s_bg_el s with
      | RNone => Some (panic s)               (* close of nil channel *)
      | RStale => Some (set_pc s PLimit, [])
      | RCur =>
          if s_el_closed s then Some (panic s)  (* close of closed channel *)
          else Some (mkSt k (s_tm s) (s_mu s) (s_ctx s) (s_bg_el s) (s_bg_ca s) true (s_ca_closed s)
                          (s_cl s) (s_h_el s) (s_h_ca s) (s_h_cancelled s) (s_h_seen s),
                     [match s_h_el s with RCur => OElapsed | _ => OElapsedOther end])
      end
  | BCloseCancel => Some (set_pc s PLimit, [])  (* not part of the background vocabulary *)
  | BNilElapsed =>
      Some (mkSt k (s_tm s) (s_mu s) (s_ctx s) RNone (s_bg_ca s) (s_el_closed s) (s_ca_closed s)
                 (s_cl s) (s_h_el s) (s_h_ca s) (s_h_cancelled s) (s_h_seen s), [])
  | BNilCancel =>
      Some (mkSt k (s_tm s) (s_mu s) (s_ctx s) (s_bg_el s) RNone (s_el_closed s) (s_ca_closed s)
                 (s_cl s) (s_h_el s) (s_h_ca s) (s_h_cancelled s) (s_h_seen s), [])
  | BStopDrain =>
      match s_tm s with
      | TNone => Some (panic s)
      | TStopped => if s_ctx s then Some (set_pc s PExit, []) else None  (* Stop()=false, nothing to drain: blocks *)
      | TArmed | TFired => Some (set_pc (set_tm s TStopped) k, [])
      end
  | BPanic => Some (panic s)
  | BLock => if is_free (s_mu s) then Some (set_pc (set_mu s MBg) k, []) else None
  | BUnlock => if is_free (s_mu s) then Some (panic s) else Some (set_pc (set_mu s MFree) k, [])
  | BGotoRunning => Some (set_pc s (PSel 1), [])
  end.

Definition exec_action (s : st) (a : action) (rest : list action) (next : nat) : option (st * list obs) :=
  match a with
  | ABasic b => exec_basic s b rest next
  | AIfCancelled t e =>
      match ready s ChCancel with
      | None => Some (set_pc s PLimit, [])
      | Some true => Some (set_pc s (cont (map ABasic t ++ rest) next), [])
      | Some false => Some (set_pc s (cont (map ABasic e ++ rest) next), [])
      end
  end.

Definition branches (p : program) (n : nat) : list branch :=
  match n with 0 => p_idle p | 1 => p_running p | _ => [] end.

Definition after_select (n : nat) : nat := match n with 0 => 1 | _ => 0 end.

Definition any_untracked (s : st) (bs : list branch) : bool :=
  existsb (fun b => match ready s (br_chan b) with None => true | _ => false end) bs.

(** All successors of the background goroutine in [s] (the scheduler picks one by index). *)
Definition bg_succs (p : program) (s : st) : list (st * list obs) :=
  match s_pc s with
  | PSel n =>
      let bs := branches p n in
      if any_untracked s bs then [(set_pc s PLimit, [])]
      else flat_map (fun b => match ready s (br_chan b) with
                              | Some true => [(set_pc (receive s (br_chan b)) (cont (br_body b) (after_select n)), [])]
                              | _ => []
                              end) bs
  | PExec (a :: rest) next =>
      match exec_action s a rest next with Some r => [r] | None => [] end
  | _ => []
  end.

(** ---- the caller and the environment ------------------------------------------------ *)

(** The cancel body, run atomically on the caller's handle. [None] = blocked on the mutex. *)
Fixpoint exec_cancel (s : st) (body : list basic) : option (st * list obs) :=
  match body with
  | [] => Some (s, [])
  | b :: body' =>
      match b with
      | BLock => if is_free (s_mu s) then exec_cancel (set_mu s MCaller) body' else None
      | BUnlock => if is_free (s_mu s) then Some (panic s) else exec_cancel (set_mu s MFree) body'
      | BCloseCancel =>
          match s_h_ca s with
          | RCur =>
              if s_ca_closed s then Some (panic s)
              else exec_cancel (mkSt (s_pc s) (s_tm s) (s_mu s) (s_ctx s) (s_bg_el s) (s_bg_ca s) (s_el_closed s) true
                                     (s_cl s) (s_h_el s) (s_h_ca s) (s_h_cancelled s) (s_h_seen s)) body'
          | _ => exec_cancel s body'   (* an older channel nobody selects on *)
          end
      | _ => Some (set_pc s PLimit, [])
      end
  end.

Definition no_handle (s : st) : bool :=
  match s_h_el s, s_h_ca s with RNone, RNone => true | _, _ => false end.

(** The caller's discipline (the state machine's): a new timer is requested only when there
    is no previous one, or its cancel has returned, or its elapse has been observed. *)
Definition start_ok (s : st) : bool := no_handle s || s_h_cancelled s || s_h_seen s.

Definition dead (s : st) : bool := match s_pc s with PPanic | PLimit => true | _ => false end.

Definition caller_step (p : program) (disc : bool) (s : st) (l : label) : option (st * list obs) :=
  match l with
  | LStart =>
      match s_cl s with
      | CIdle => if disc && negb (start_ok s) then None else Some (set_cl s CSending, [])
      | _ => None
      end
  | LAbort =>
      match s_cl s with
      | CIdle => None
      | _ => if s_ctx s
             then Some (set_cl s CIdle, [OStartNil])   (* nil timer returned; the previous handle stays current *)
             else None
      end
  | LCancel =>
      match s_cl s with
      | CIdle =>
          match s_h_ca s with
          | RNone => Some (s, [])      (* the no-op cancel func of a nil timer *)
          | _ =>
              if s_h_cancelled s then Some (s, [OCancelRet])   (* sync.Once *)
              else match exec_cancel s (p_cancel p) with
                   | None => None
                   | Some (s', o) =>
                       if dead s' then Some (s', o)
                       else Some (mkSt (s_pc s') (s_tm s') (s_mu s') (s_ctx s') (s_bg_el s') (s_bg_ca s') (s_el_closed s') (s_ca_closed s')
                                       (s_cl s') (s_h_el s') (s_h_ca s') true (s_h_seen s'), o ++ [OCancelRet])
                   end
          end
      | _ => None
      end
  | LObserve =>
      match s_cl s, s_h_el s with
      | CIdle, RCur => if s_el_closed s
                       then Some (mkSt (s_pc s) (s_tm s) (s_mu s) (s_ctx s) (s_bg_el s) (s_bg_ca s) (s_el_closed s) (s_ca_closed s)
                                       (s_cl s) (s_h_el s) (s_h_ca s) (s_h_cancelled s) true, [OSeen])
                       else None
      | _, _ => None
      end
  | LFire => match s_tm s with TArmed => Some (set_tm s TFired, []) | _ => None end
  | LCtx => if s_ctx s then None
            else Some (mkSt (s_pc s) (s_tm s) (s_mu s) true (s_bg_el s) (s_bg_ca s) (s_el_closed s) (s_ca_closed s)
                            (s_cl s) (s_h_el s) (s_h_ca s) (s_h_cancelled s) (s_h_seen s), [])
  | LBg _ => None
  end.

(** ---- the transition system ---------------------------------------------------------- *)

Definition step (p : program) (disc : bool) (s : st) (l : label) : option (st * list obs) :=
  if dead s then None
  else match l with
       | LBg k => nth_error (bg_succs p s) k
       | _ => caller_step p disc s l
       end.

Definition caller_labels : list label := [LStart; LAbort; LCancel; LObserve; LFire; LCtx].

Definition all_succs (p : program) (disc : bool) (s : st) : list (st * list obs) :=
  if dead s then []
  else flat_map (fun l => match caller_step p disc s l with Some r => [r] | None => [] end) caller_labels
       ++ bg_succs p s.

Definition init (p : program) : st :=
  mkSt (cont (map ABasic (p_init p)) 0) TNone MFree false RNone RNone false false CIdle RNone RNone false false.

(** Run a schedule; [None] if some label is not enabled. Returns the final state and the trace. *)
Fixpoint run (p : program) (disc : bool) (s : st) (sched : list label) : option (st * list obs) :=
  match sched with
  | [] => Some (s, [])
  | l :: sched' =>
      match step p disc s l with
      | None => None
      | Some (s', o) =>
          match run p disc s' sched' with
          | None => None
          | Some (s'', tr) => Some (s'', o ++ tr)
          end
      end
  end.

(** ---- decidable equality (for the exhaustive exploration) ------------------------------- *)

Definition chan_eq_dec : forall a b : chan, {a = b} + {a <> b}. Proof. decide equality. Defined.
Definition basic_eq_dec : forall a b : basic, {a = b} + {a <> b}. Proof. decide equality. Defined.
Definition action_eq_dec : forall a b : action, {a = b} + {a <> b}.
Proof. decide equality; try apply (list_eq_dec basic_eq_dec); apply basic_eq_dec. Defined.
Definition href_eq_dec : forall a b : href, {a = b} + {a <> b}. Proof. decide equality. Defined.
Definition tmst_eq_dec : forall a b : tmst, {a = b} + {a <> b}. Proof. decide equality. Defined.
Definition owner_eq_dec : forall a b : owner, {a = b} + {a <> b}. Proof. decide equality. Defined.
Definition cstate_eq_dec : forall a b : cstate, {a = b} + {a <> b}. Proof. decide equality. Defined.
Definition pcs_eq_dec : forall a b : pcs, {a = b} + {a <> b}.
Proof. decide equality; try apply Nat.eq_dec; apply (list_eq_dec action_eq_dec). Defined.
Definition st_eq_dec : forall a b : st, {a = b} + {a <> b}.
Proof.
  decide equality; try apply Bool.bool_dec; try apply href_eq_dec; try apply cstate_eq_dec;
    try apply owner_eq_dec; try apply tmst_eq_dec; apply pcs_eq_dec.
Defined.
Definition mst_eq_dec : forall a b : mst, {a = b} + {a <> b}.
Proof. decide equality; apply Bool.bool_dec. Defined.
Definition pst : Type := (st * mst)%type.
Definition pst_eq_dec : forall a b : pst, {a = b} + {a <> b}.
Proof. decide equality; [apply mst_eq_dec | apply st_eq_dec]. Defined.

Definition memb (x : pst) (l : list pst) : bool := if in_dec pst_eq_dec x l then true else false.

(** Product of the system with the monitor automaton. *)
Definition psuccs (p : program) (disc : bool) (x : pst) : list pst :=
  map (fun r : st * list obs => (fst r, fold_left mstep (snd r) (snd x))) (all_succs p disc (fst x)).

(** Depth-first exploration; [None] if the fuel runs out. *)
Fixpoint explore (p : program) (disc : bool) (fuel : nat) (todo visited : list pst) : option (list pst) :=
  match fuel with
  | 0 => None
  | S f =>
      match todo with
      | [] => Some visited
      | x :: rest =>
          if memb x visited then explore p disc f rest visited
          else explore p disc f (psuccs p disc x ++ rest) (x :: visited)
      end
  end.

Definition reach (p : program) (disc : bool) : list pst :=
  match explore p disc (200 * 1000) [(init p, m0)] [] with Some r => r | None => [] end.

(** Closedness certificate: contains the initial state and all successors of its members. *)
Definition closedb (p : program) (disc : bool) (R : list pst) : bool :=
  memb (init p, m0) R && forallb (fun x => forallb (fun y => memb y R) (psuccs p disc x)) R.

Definition safe_panic (x : pst) : bool :=
  m_ok_panic (snd x) && match s_pc (fst x) with PPanic | PLimit => false | _ => true end.
Definition safe_once (x : pst) : bool := m_ok_once (snd x) && match s_pc (fst x) with PLimit => false | _ => true end.
Definition safe_cancel (x : pst) : bool := m_ok_cancel (snd x) && match s_pc (fst x) with PLimit => false | _ => true end.

(** ---- counterexample search (used by the check when a theorem stops holding) ------------ *)

Definition lsuccs (p : program) (disc : bool) (s : st) : list (label * (st * list obs)) :=
  if dead s then []
  else flat_map (fun l => match caller_step p disc s l with Some r => [(l, r)] | None => [] end) caller_labels
       ++ combine (map LBg (seq 0 (length (bg_succs p s)))) (bg_succs p s).

(** Breadth-first search for a shortest schedule reaching a product state that violates [good]. *)
Fixpoint bfs (p : program) (disc : bool) (good : pst -> bool) (fuel : nat)
         (todo : list (pst * list label)) (visited : list pst) : option (list label) :=
  match fuel with
  | 0 => None
  | S f =>
      match todo with
      | [] => None
      | (x, path) :: rest =>
          if negb (good x) then Some (rev path)
          else if memb x visited then bfs p disc good f rest visited
          else bfs p disc good f
                   (rest ++ map (fun lr : label * (st * list obs) =>
                                   ((fst (snd lr), fold_left mstep (snd (snd lr)) (snd x)), fst lr :: path))
                                (lsuccs p disc (fst x)))
                   (x :: visited)
      end
  end.

Definition find_bad (p : program) (disc : bool) (good : pst -> bool) : option (list label) :=
  bfs p disc good (200 * 1000) [((init p, m0), [])] [].

(** ---- caller scripts: the set of ALL outcomes over all schedules (correspondence) -------- *)

Inductive sop := SStartLong | SStartShort | SCancel | SWait | SPoll | SCtx.
Inductive sout := RoOk | RoNil | RoE | RoT | RoOpen | RoClosed | RoNone | RoPanic | RoExit | RoStuck | RoLimit.

(** configuration: state, "the armed time.Timer has a short duration (it will fire)", "the pending request is short" *)
Definition cfg : Type := (st * (bool * bool))%type.
Definition cfg_eq_dec : forall a b : cfg, {a = b} + {a <> b}.
Proof. decide equality; [decide equality; apply Bool.bool_dec | apply st_eq_dec]. Defined.
Definition sout_eq_dec : forall a b : sout, {a = b} + {a <> b}. Proof. decide equality. Defined.
Definition res_eq_dec : forall a b : cfg * list sout, {a = b} + {a <> b}.
Proof. decide equality; [apply (list_eq_dec sout_eq_dec) | apply cfg_eq_dec]. Defined.

Definition resets (s : st) : bool :=
  match s_pc s with PExec (ABasic BResetTimer :: _) _ => true | _ => false end.

Definition internal_succs (p : program) (c : cfg) : list cfg :=
  let '(s, (ash, rsh)) := c in
  if dead s then []
  else (if ash then match caller_step p false s LFire with Some (s', _) => [(s', (ash, rsh))] | None => [] end else [])
       ++ map (fun r : st * list obs => (fst r, (if resets s then rsh else ash, rsh))) (bg_succs p s).

Definition cmem (x : cfg) (l : list cfg) : bool := if in_dec cfg_eq_dec x l then true else false.

Fixpoint closure (p : program) (fuel : nat) (todo visited : list cfg) : list cfg :=
  match fuel with
  | 0 => visited
  | S f =>
      match todo with
      | [] => visited
      | x :: rest => if cmem x visited then closure p f rest visited
                     else closure p f (internal_succs p x ++ rest) (x :: visited)
      end
  end.

Definition clos (p : program) (c : cfg) : list cfg := closure p (20 * 1000) [c] [].

Definition quiescent (p : program) (c : cfg) : bool :=
  match internal_succs p c with [] => true | _ => false end.

Definition with_st (c : cfg) (s : st) : cfg := (s, snd c).

(** One caller operation from one configuration: all (outcome, configuration after) pairs.
    A [RoPanic]/[RoLimit] outcome ends the script. *)
Definition exec_sop (p : program) (o : sop) (c : cfg) : list (sout * cfg) :=
  let cs := clos p c in
  match o with
  | SStartLong | SStartShort =>
      let sh := match o with SStartShort => true | _ => false end in
      flat_map (fun c1 : cfg =>
        match caller_step p false (fst c1) LStart with
        | None => []
        | Some (s1, _) =>
            flat_map (fun c2 : cfg =>
              match s_pc (fst c2) with
              | PPanic => [(RoPanic, c2)]
              | PLimit => [(RoLimit, c2)]
              | _ =>
                match s_cl (fst c2) with
                | CIdle => [(RoOk, c2)]
                | _ => match caller_step p false (fst c2) LAbort with
                       | Some (s3, _) => [(RoNil, with_st c2 s3)]
                       | None => []
                       end
                end
              end) (clos p (s1, (fst (snd c1), sh)))
        end) cs
  | SCancel =>
      flat_map (fun c1 : cfg =>
        match caller_step p false (fst c1) LCancel with
        | Some (s1, _) => [(match s_pc s1 with PPanic => RoPanic | PLimit => RoLimit | _ => RoOk end, with_st c1 s1)]
        | None => []
        end) cs
  | SWait =>
      flat_map (fun c1 : cfg =>
        match s_h_el (fst c1) with
        | RNone => [(RoNone, c1)]
        | _ =>
          match caller_step p false (fst c1) LObserve with
          | Some (s1, _) => [(RoE, with_st c1 s1)]
          | None => if quiescent p c1 then [(RoT, c1)] else []
          end
        end) cs
  | SPoll =>
      flat_map (fun c1 : cfg =>
        match s_h_el (fst c1) with
        | RNone => [(RoNone, c1)]
        | RCur => [(if s_el_closed (fst c1) then RoClosed else RoOpen, c1)]
        | RStale => [(RoLimit, c1)]
        end) cs
  | SCtx =>
      flat_map (fun c1 : cfg =>
        match caller_step p false (fst c1) LCtx with
        | Some (s1, _) => [(RoOk, with_st c1 s1)]
        | None => [(RoOk, c1)]
        end) cs
  end.

Definition rmem (x : cfg * list sout) (l : list (cfg * list sout)) : bool := if in_dec res_eq_dec x l then true else false.
Fixpoint rdedup (l : list (cfg * list sout)) : list (cfg * list sout) :=
  match l with [] => [] | x :: l' => if rmem x l' then rdedup l' else x :: rdedup l' end.
Definition omem (x : list sout) (l : list (list sout)) : bool := if in_dec (list_eq_dec sout_eq_dec) x l then true else false.
Fixpoint odedup (l : list (list sout)) : list (list sout) :=
  match l with [] => [] | x :: l' => if omem x l' then odedup l' else x :: odedup l' end.

Definition terminal (o : sout) : bool := match o with RoPanic | RoLimit => true | _ => false end.

(** [cur]: live (configuration, reversed outcomes so far); returns all complete outcome vectors.
    At the end the context is cancelled and the harness waits for the goroutine: exit or stuck. *)
Fixpoint exec_script (p : program) (ops : list sop) (cur : list (cfg * list sout)) (done : list (list sout)) : list (list sout) :=
  match ops with
  | [] =>
      odedup (done ++ flat_map (fun co : cfg * list sout =>
        let c := match caller_step p false (fst (fst co)) LCtx with Some (s1, _) => with_st (fst co) s1 | None => fst co end in
        flat_map (fun c2 : cfg =>
          match s_pc (fst c2) with
          | PExit => [rev (RoExit :: snd co)]
          | _ => if quiescent p c2 then [rev (RoStuck :: snd co)] else []
          end) (clos p c)) cur)
  | o :: ops' =>
      let nxt := flat_map (fun co : cfg * list sout =>
                   map (fun r : sout * cfg => (snd r, fst r :: snd co)) (exec_sop p o (fst co))) cur in
      let fin := map (fun co : cfg * list sout => rev (snd co)) (filter (fun co : cfg * list sout => match snd co with x :: _ => terminal x | [] => false end) nxt) in
      let live := filter (fun co : cfg * list sout => match snd co with x :: _ => negb (terminal x) | [] => true end) nxt in
      exec_script p ops' (rdedup live) (done ++ fin)
  end.

Definition script_outcomes (p : program) (ops : list sop) : list (list sout) :=
  exec_script p ops [((init p, (false, false)), [])] [].

(** ---- "a pending start request is always answered" ------------------------------------------ *)

(** Whatever the scheduler picks for the background goroutine, within [fuel] of its steps the
    pending request is answered (caller back to [CIdle]); a panic, a block or an exit before that
    makes it false. *)
Fixpoint bg_all_paths_reply (p : program) (fuel : nat) (s : st) : bool :=
  match s_cl s with
  | CIdle => true
  | _ =>
      match fuel with
      | 0 => false
      | S f =>
          if dead s then false
          else match bg_succs p s with
               | [] => false
               | l => forallb (fun r : st * list obs => bg_all_paths_reply p f (fst r)) l
               end
      end
  end.

Definition served (p : program) (x : pst) : bool :=
  s_ctx (fst x) || bg_all_paths_reply p 40 (fst x).
