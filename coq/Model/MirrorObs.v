(** Projection of the mirror model state onto the observables the harness reads from the real
    mirror through its public API (VotingView, CommittingView, the four stores), in a canonical
    form (everything keyed by hash is sorted), plus the case runner used by the correspondence
    check.  No proofs here. *)
From Coq Require Import List NArith Bool String.
From GV Require Import Base.Ints Base.Tr Gen.Math Gen.Kernel Model.Mirror Model.MirrorMgr.
Import ListNotations.
Local Open Scope N_scope.

Definition tr_sig (s : sigd) : tr :=
  match s with
  | SVote k kd h r t => TL [TN 0; TN k; TN kd; TN h; TN r; TB t]
  | SProposal k h r => TL [TN 1; TN k; TB h; TN r]
  | SJunk n => TL [TN 2; TN n]
  end.
Definition tr_ssig (s : ssig) : tr := TL [TB (ss_kid s); tr_sig (ss_sig s)].

(** insertion sort of (key, value) pairs by key *)
Fixpoint insert_kv {A} (x : bytes * A) (l : list (bytes * A)) : list (bytes * A) :=
  match l with
  | [] => [x]
  | y :: t => if bytes_ltb (fst y) (fst x) then y :: insert_kv x t else x :: l
  end.
Definition sort_kv {A} (l : list (bytes * A)) : list (bytes * A) := fold_right insert_kv [] l.

Fixpoint insert_b (x : bytes) (l : list bytes) : list bytes :=
  match l with
  | [] => [x]
  | y :: t => if bytes_ltb y x then y :: insert_b x t else x :: l
  end.
Definition sort_b (l : list bytes) : list bytes := fold_right insert_b [] l.

Definition tr_pmap (m : pmap) : tr :=
  TL (map (fun e => TL [TB (fst e); TL (map tr_ssig (as_sparse (snd e)))]) (sort_kv m)).
Definition tr_pows (m : list (bytes * N)) : tr :=
  TL (map (fun e => TL [TB (fst e); TN (snd e)]) (sort_kv m)).
Definition tr_coll (c : list (bytes * list ssig)) : tr :=
  TL (map (fun e => TL [TB (fst e); TL (map tr_ssig (snd e))]) (sort_kv c)).
Definition tr_cproof (c : cproof) : tr := TL [TN (cp_round c); TB (cp_pkh c); tr_coll (cp_proofs c)].

Definition tr_sum (s : summary) : tr :=
  TL [TN (sm_avail s); TN (sm_tpv s); TN (sm_tpc s); tr_pows (sm_pvp s); tr_pows (sm_pcp s);
      TB (sm_mpv s); TB (sm_mpc s)].

Definition tr_view (v : view) : tr :=
  TL [TN (v_h v); TN (v_r v); TB (vs_pkh (v_vals v)); TB (vs_vph (v_vals v));
      TL (map TN (vs_keys (v_vals v))); TL (map TN (vs_pows (v_vals v)));
      TL (map TB (sort_b (map (fun p => hd_hash (ph_hdr p)) (v_phs v))));
      tr_pmap (v_pv v); tr_pmap (v_pc v); tr_sum (v_sum v); tr_cproof (v_pcp v);
      TN (if vs_ok (v_vals v) then 1 else 0); TN (v_ver v)].

Definition tr_opt_coll (c : option sparse_coll) : tr :=
  match c with None => TL [] | Some (pkh, m) => TL [TB pkh; tr_coll m] end.

Fixpoint insert_re (x : N * N * rentry) (l : list (N * N * rentry)) :=
  match l with
  | [] => [x]
  | y :: t =>
      let '(h, r, _) := x in let '(h', r', _) := y in
      if (h' <? h) || ((h' =? h) && (r' <? r)) then y :: insert_re x t else x :: l
  end.

Definition tr_rounds (rs : list (N * N * rentry)) (replayed : list hdr) : tr :=
  TL (map (fun x => let '(h, r, e) := x in
        TL [TN h; TN r; TL (map TB (sort_b (map (fun p => hd_hash (ph_hdr p)) (round_phs rs replayed h r))));
            tr_opt_coll (re_pv e); tr_opt_coll (re_pc e)]) (fold_right insert_re [] rs)).

Fixpoint insert_hd (x : N * (hdr * cproof)) (l : list (N * (hdr * cproof))) :=
  match l with
  | [] => [x]
  | y :: t => if fst y <? fst x then y :: insert_hd x t else x :: l
  end.
Definition tr_hdrs (l : list (N * (hdr * cproof))) : tr :=
  TL (map (fun x => TL [TN (fst x); TB (hd_hash (fst (snd x))); TB (hd_prev (fst (snd x)));
                        TB (vs_pkh (hd_next (fst (snd x)))); TB (vs_vph (hd_next (fst (snd x))));
                        TL (map TN (vs_keys (hd_next (fst (snd x))))); TL (map TN (vs_pows (hd_next (fst (snd x)))));
                        tr_cproof (snd (snd x)); TN (if vs_ok (hd_next (fst (snd x))) then 1 else 0);
                        TL [TB (vs_pkh (hd_vals (fst (snd x)))); TB (vs_vph (hd_vals (fst (snd x))));
                            TL (map TN (vs_keys (hd_vals (fst (snd x))))); TL (map TN (vs_pows (hd_vals (fst (snd x)))))]])
          (fold_right insert_hd [] l)).

Definition observe (s : kstate) : tr :=
  let '(a, b, c, d) := st_nhr s in
  TL [tr_view (k_vot s); tr_view (k_com s); TL [TN a; TN b; TN c; TN d]; tr_hdrs (st_hdrs s); tr_rounds (st_rounds s) (st_replayed s)].

Definition tr_vview (v : view) : tr := TL [TN (v_ver v); tr_view v].
Definition tr_oview (o : option view) : tr := match o with Some v => TL [tr_vview v] | None => TL [] end.

Definition tr_io (i : mio) : tr :=
  match i with
  | IONone => TL []
  | IOEnterView v => TL [TN 1; tr_vview v]
  | IOEnterHeader x cp => TL [TN 2; TB (hd_hash x); tr_cproof cp]
  | IOSM vv jv => TL [TN 3; tr_oview vv; tr_oview jv]
  | IOGossip c v n nl => TL [TN 4; tr_oview c; tr_oview v; tr_oview n; tr_oview nl]
  | IOEmpty => TL [TN 5]
  | IOGEmpty => TL [TN 6]
  | IORestarted => TL [TN 9]
  end.

(** observation of mirror + managers: the five store/view components, what the consumer got from
    this operation, and the heights signalled to the state machine as committed *)
Definition observe_m (s : mstate) (i : mio) : tr :=
  match observe (ms_k s) with
  | TL l => TL (l ++ [tr_io i; TL (map TN (m_committed (ms_m s)))])
  | t => t
  end.

(** result of replaying one case: [None] = model and implementation agreed on every step *)
Inductive mismatch := MM (step : nat) (model_res : N) (model_obs : tr) | MPanic (step : nat) (site : string).

Fixpoint run_case (i : nat) (s : mstate) (steps : list (mop * N * tr)) : option mismatch :=
  match steps with
  | [] => None
  | (o, r, ob) :: rest =>
      match mstep s o with
      | Panic site => Some (MPanic i site)
      | Ok (s', r', io) =>
          if (r' =? r) && tr_eqb (observe_m s' io) ob then run_case (S i) s' rest
          else Some (MM i r' (observe_m s' io))
      end
  end.

(** states reached, for the monitors *)
(** the kernel operations of a trace (consumer operations do not change the kernel state) *)
Fixpoint ksteps (steps : list (mop * N * tr)) : list (xop * N * tr) :=
  match steps with
  | [] => []
  | (MK x, r, ob) :: rest => (x, r, ob) :: ksteps rest
  | _ :: rest => ksteps rest
  end.

(** C05 no-op clause on an implementation trace: whenever the message is all-invalid with respect
    to the state the model is in, the implementation must not report it accepted/verified and its
    observation must equal the previous one.  Returns the index of the first offending step. *)
Fixpoint noop_trace_bad (i : nat) (s : kstate) (prev : tr) (steps : list (xop * N * tr)) : option nat :=
  match steps with
  | [] => None
  | (o, r, ob) :: rest =>
      let bad :=
        match o with
        | XOp (OpPrevote m) => msg_all_invalid (keys_for s m) KPrevote m &&
                         ((r =? HandleVoteProofsAccepted) || (r =? HandleVoteProofsFutureVerified) || negb (tr_eqb ob prev))
        | XOp (OpPrecommit m) => msg_all_invalid (keys_for s m) KPrecommit m &&
                         ((r =? HandleVoteProofsAccepted) || (r =? HandleVoteProofsFutureVerified) || negb (tr_eqb ob prev))
        | _ => false
        end in
      if bad then Some i else
      match xstep s o with
      | Ok (s', _) => noop_trace_bad (S i) s' ob rest
      | Panic _ => None
      end
  end.

Definition obs_of (steps : list (mop * N * tr)) : list tr := map (fun x => snd x) steps.

Fixpoint first_bad (f : tr -> bool) (i : nat) (l : list tr) : option nat :=
  match l with
  | [] => None
  | o :: rest => if f o then first_bad f (S i) rest else Some i
  end.

(** * C10 monitors over a trace with crashes *)
Definition is_restart (x : xop) : bool := match x with XOp _ => false | _ => true end.

Definition pos_of (o : tr) : N * N := (tn (nth_tr (nth_tr o 2) 0), tn (nth_tr (nth_tr o 2) 1)).

(** First restart step whose observation fails [f], split in two classes with the help of the
    model: cls 1 = the start-up re-evaluation moved the position (the stored position differed from
    the position after start-up), cls 2 = the node resumed exactly at the stored position. *)
Definition crash_stores (s : kstate) (x : xop) : option stores :=
  match x with
  | XOp _ => None
  | XRestart => Some (stores_of s)
  | XCrash k o =>
      match step s o with
      | Ok (s1, _) => Some (fold_left apply_wr (firstn k (skipn (List.length (st_log s)) (st_log s1))) (stores_of s))
      | Panic _ => None
      end
  end.

Fixpoint restart_obs_bad (f : tr -> bool) (cls : N) (i : nat) (s : kstate) (steps : list (xop * N * tr)) : option nat :=
  match steps with
  | [] => None
  | (x, _, ob) :: rest =>
      let bad :=
        match crash_stores s x with
        | Some st =>
            let '(vh, vr, _, _) := sr_nhr st in
            let shifted := negb ((vh =? fst (pos_of ob)) && (vr =? snd (pos_of ob))) && negb (vh =? 0) in
            negb (f ob) && (if shifted then cls =? 1 else cls =? 2)
        | None => false
        end in
      if bad then Some i else
      match xstep s x with
      | Ok (s', _) => restart_obs_bad f cls (S i) s' rest
      | Panic _ => None
      end
  end.

(** redelivery converges: after [XCrash k o] followed by the redelivered [XOp o], compare the
    implementation's position and committed chain with those of the crash-free run of [o] (computed
    with the model, which the correspondence validates on crash-free steps).
    class 0 = equal; 1 = same chain prefix but the restarted node is AHEAD; 2 = behind or different. *)
Definition chain_of (o : tr) : list tr := map (fun e => TL [nth_tr e 0; nth_tr e 1]) (tls (nth_tr o 3)).

Fixpoint tr_prefix (a b : list tr) : bool :=
  match a, b with
  | [], _ => true
  | x :: a', y :: b' => tr_eqb x y && tr_prefix a' b'
  | _, [] => false
  end.

Definition conv_class (ref got : tr) : N :=
  let '(h1, r1) := pos_of ref in let '(h2, r2) := pos_of got in
  if (h1 =? h2) && (r1 =? r2) && tr_eqb (TL (chain_of ref)) (TL (chain_of got)) then 0
  else if tr_prefix (chain_of ref) (chain_of got) && ((h1 <? h2) || ((h1 =? h2) && (r1 <=? r2))) then 1
  else 2.

(** [redos]: indices of the crashed steps whose successor is the REDELIVERY of the same operation (the
    harness tells which; a crashed operation that is not offered again is not judged) *)
Fixpoint conv_trace_bad (redos : list nat) (cls : N) (i : nat) (s : kstate) (steps : list (xop * N * tr)) : option nat :=
  match steps with
  | [] => None
  | (XCrash k o, r, ob) :: (((XOp o', r', ob') :: _) as rest) =>
      let bad := match step s o with
                 | Ok (sref, _) => existsb (Nat.eqb i) redos && (conv_class (observe sref) ob' =? cls)
                 | Panic _ => false
                 end in
      if bad then Some (S i) else
      match xstep s (XCrash k o) with
      | Ok (s', _) => conv_trace_bad redos cls (S i) s' rest
      | Panic _ => None
      end
  | (x, _, _) :: rest =>
      match xstep s x with
      | Ok (s', _) => conv_trace_bad redos cls (S i) s' rest
      | Panic _ => None
      end
  end.

(** * C11, second sentence (gossip): the votes that justified a nil commit reach the gossip
    strategy.  The kernel keeps ONE nil-voted-round snapshot; this monitor follows the model's
    events next to the implementation's reads and reports the step at which a snapshot that was
    never delivered is replaced by the next one. *)
Fixpoint nil_events (evs : list mev) : list view :=
  match evs with
  | [] => []
  | EvNil v :: rest => v :: nil_events rest
  | _ :: rest => nil_events rest
  end.

Fixpoint c11_nil_bad (i : nat) (s : mstate) (pending : bool) (steps : list (mop * N * tr)) : option nat :=
  match steps with
  | [] => None
  | (o, _, ob) :: rest =>
      match mstep s o with
      | Panic _ => None
      | Ok (s', _, io) =>
          match o with
          | MK x =>
              if is_restart_x x then c11_nil_bad (S i) s' false rest else
              let nils := nil_events (skipn (List.length (st_ev (ms_k s))) (st_ev (ms_k s'))) in
              match nils with
              | [] => c11_nil_bad (S i) s' pending rest
              | _ => if pending then Some i else c11_nil_bad (S i) s' true rest
              end
          | MAct _ =>
              (* a local action changes the kernel state like a message does *)
              let nils := nil_events (skipn (List.length (st_ev (ms_k s))) (st_ev (ms_k s'))) in
              match nils with
              | [] => c11_nil_bad (S i) s' pending rest
              | _ => if pending then Some i else c11_nil_bad (S i) s' true rest
              end
          | MGRead =>
              (* the implementation's read: did it carry a nil-voted round? *)
              let got := match tls (nth_tr (nth_tr ob 5) 4) with [_] => true | _ => false end in
              c11_nil_bad (S i) s' (if got then false else pending) rest
          | _ => c11_nil_bad (S i) s' pending rest
          end
      end
  end.
