(** C13 - shared executable vocabulary of the signature-proof models and monitors:
    ideal signatures (DESIGN 3), bit sets as [N], key-id encoding.  No proofs, no Gen import. *)
From Coq Require Import List NArith ZArith String Bool.
From GV Require Import Base.Ints.
Import ListNotations.
Local Open Scope N_scope.

(** Ideal signatures: [Good k m salt] is a signature made with key [k] over message [m]
    ([salt] distinguishes several valid signature values of one signer); everything else is junk. *)
Inductive sigv : Type :=
| Good (signer : N) (m : list N) (salt : N)
| Junk (n : N).

Definition sig_verify (k : N) (m : list N) (s : sigv) : bool :=
  match s with
  | Good k' m' _ => N.eqb k k' && bytes_eqb m m'
  | Junk _ => false
  end.

Definition sigv_eqb (a b : sigv) : bool :=
  match a, b with
  | Good k m s, Good k' m' s' => N.eqb k k' && bytes_eqb m m' && N.eqb s s'
  | Junk n, Junk n' => N.eqb n n'
  | _, _ => false
  end.

(** Bit sets. *)
Definition bit (i : N) : N := N.shiftl 1 i.

Fixpoint pos_popcount (p : positive) : N :=
  match p with
  | xH => 1
  | xO q => pos_popcount q
  | xI q => 1 + pos_popcount q
  end.
Definition popcount (b : N) : N := match b with N0 => 0 | Npos p => pos_popcount p end.

(** bits-and-blooms/bitset v1.20: IsSuperSet, IsStrictSuperSet (Count greater and superset). *)
Definition is_superset (a b : N) : bool := N.eqb (N.land a b) b.
Definition is_strict_superset (a b : N) : bool := (popcount b <? popcount a) && is_superset a b.

(** Big-endian uint16 key ids. *)
Definition be16 (n : N) : list N := [(n / 256) mod 256; n mod 256].

(** The [keyIdxs] map built by the constructors: the loop overwrites, so a key that occurs
    twice maps to its LAST index. *)
Fixpoint key_index (keys : list N) (k : N) : option N :=
  match keys with
  | [] => None
  | k' :: t =>
      match key_index t k with
      | Some i => Some (i + 1)
      | None => if N.eqb k' k then Some 0 else None
      end
  end.

Fixpoint mem_N (x : N) (l : list N) : bool :=
  match l with [] => false | y :: t => N.eqb y x || mem_N x t end.
Fixpoint nodup_N (l : list N) : bool :=
  match l with [] => true | x :: t => negb (mem_N x t) && nodup_N t end.

Definition nth_key (keys : list N) (n : N) : option N := nth_error keys (N.to_nat n).

Definition b2n (b : bool) : N := if b then 1 else 0.

(** Decoding of a well-formed sparse key id against [n] keys: exactly two bytes, value < n. *)
Definition entry_index (nkeys : nat) (id : list N) : option N :=
  match id with
  | [x; y] => let n := x * 256 + y in if (Z.of_N n <? Z.of_nat nkeys)%Z then Some n else None
  | _ => None
  end.

(** Insertion sort on lists keyed by byte strings (used to canonicalise map output). *)
Section Sort.
  Context {A : Type} (key : A -> list N).
  Fixpoint insert_by (x : A) (l : list A) : list A :=
    match l with
    | [] => [x]
    | y :: t => if bytes_ltb (key x) (key y) then x :: y :: t else y :: insert_by x t
    end.
  Definition sort_by (l : list A) : list A := fold_right insert_by [] l.
End Sort.

Definition sparse_entry : Type := (list N * sigv)%type.          (* KeyID bytes, Sig *)
Definition sparse : Type := (list N * list sparse_entry)%type.   (* PubKeyHash, Signatures *)

(** Finalized proofs. [f_rest] is the Go map sign content -> sparse signatures. *)
Record fin := mk_fin {
  f_keys : list N;
  f_hash : list N;
  f_main_msg : list N;
  f_main_sigs : list sparse_entry;
  f_rest : list (list N * list sparse_entry)
}.


(** Operation language run by the correspondence check (registers hold proofs). *)
Inductive op : Type :=
| ONew (r : nat) (msg keys hash : list N)
| OAdd (r : nat) (s : sigv) (key : N)
| OMerge (r o : nat)
| OMergeSparse (r : nat) (hash : list N) (ents : list sparse_entry)
| OMergeFrom (r o : nat)                 (* r.MergeSparse(o.AsSparse()) *)
| OHas (r : nat) (id : list N)
| OSparse (r : nat)
| OClone (r to : nat)
| ODerive (r to : nat)
| OBits (r : nat)
| OFinVal (main : nat) (rest : list nat) (hashes : list (list N * list N))
| OValidate (f : fin) (hashes : list (list N * list N))
| OIsValid (nkeys : nat) (id : list N).


(** hashesBySignContent: Go map, a missing key reads "" . *)
Fixpoint hash_get (m : list (list N * list N)) (k : list N) : list N :=
  match m with
  | [] => []
  | (k', v) :: t => if bytes_eqb k' k then v else hash_get t k
  end.


(** Observations are lists of numbers. 999 = panic, 998 = unknown register. *)
Definition obs_panic : list N := [999].
Definition obs_noreg : list N := [998].


Definition obs_validate (r : res (option (list (list N * N)) * bool)) : list N :=
  match r with
  | Panic _ => obs_panic
  | Ok (None, u) => [0; b2n u]
  | Ok (Some out, u) =>
      1 :: b2n u :: List.concat (map (fun e : list N * N => N.of_nat (List.length (fst e)) :: fst e ++ [snd e])
                              (sort_by (fun e : list N * N => fst e) out))
  end.

