(** C12(b) - closed vocabulary into which translate/c12_timer.go renders the two
    [select] statements of StandardRoundTimer.background
    (tm/tmengine/internal/tmstate/roundtimer.go).  Data only; no proofs. *)
From Coq Require Import List.
Import ListNotations.

(** The channels a [case] of the two selects may receive from. *)
Inductive chan :=
| ChCtxDone     (* <-ctx.Done() *)
| ChStartReq    (* <-t.startTimerRequests *)
| ChTimerC      (* <-timer.C *)
| ChCancel.     (* <-cancelTimer *)

(** Straight-line statements.  One constructor = one Go statement (pattern). *)
Inductive basic :=
| BNewTimer      (* timer := time.NewTimer(d) *)
| BReturn        (* return *)
| BResetTimer    (* timer.Reset(req.Dur) *)
| BMakeElapsed   (* timerElapsed = make(chan struct{}) *)
| BMakeCancel    (* cancelTimer = make(chan struct{}) *)
| BReply         (* req.Resp <- startTimerResponse{Elapsed: timerElapsed, Cancel: once(cancel body over the alias of cancelTimer)} *)
| BCloseElapsed  (* close(timerElapsed) *)
| BCloseCancel   (* close(localCancel)   -- only inside the cancel function *)
| BNilElapsed    (* timerElapsed = nil *)
| BNilCancel     (* cancelTimer = nil *)
| BStopDrain     (* if !timer.Stop() { select { case <-timer.C: case <-ctx.Done(): return } } *)
| BPanic         (* panic(...) *)
| BLock          (* mu.Lock() *)
| BUnlock        (* mu.Unlock() *)
| BGotoRunning.  (* goto <label of the second select> *)

(** [AIfCancelled t e] is  select { case <-cancelTimer: t  default: e }  (not nested). *)
Inductive action :=
| ABasic (b : basic)
| AIfCancelled (then_ else_ : list basic).

Record branch := mkBranch { br_chan : chan; br_body : list action }.

Record program := mkProgram {
  p_init    : list basic;    (* statements of background before the for loop *)
  p_idle    : list branch;   (* first select of the loop: waiting for a start request *)
  p_running : list branch;   (* second select of the loop: the timer is running *)
  p_cancel  : list basic     (* body run (once) by the cancel function handed to the caller *)
}.
