(** C14 - types of the wire codec model: Go values, registry, tmconsensus values and the
    intermediate JSON structs of tm/tmcodec/tmjson.  No proofs, no dependency on Gen/. *)
From Coq Require Import List NArith ZArith String Bool.
From GV Require Import Base.Ints Base.GoBytes.
Import ListNotations.
Local Open Scope N_scope.

(** * Go values *)

(** A Go []byte: [None] is the nil slice, [Some []] the empty non-nil slice. *)
Definition gbytes := option (list N).
(** string(b) / bytes content: nil and empty both read as the empty string. *)
Definition gb2s (b : gbytes) : list N := match b with None => [] | Some l => l end.

(** gcrypto.SparseSignature *)
Record ssig := mk_ssig { ss_keyid : gbytes; ss_sig : gbytes }.
(** []gcrypto.SparseSignature (nil distinguished) *)
Definition gsigs := option (list ssig).
(** map[string][]gcrypto.SparseSignature: [None] = nil map, otherwise an association list
    with unique keys. *)
Definition pmap := option (list (list N * gsigs)).
Definition pm_list (m : pmap) : list (list N * gsigs) := match m with None => [] | Some l => l end.

(** A gcrypto.PubKey value: dynamic type (an id standing for the reflect.Type) and key bytes. *)
Record pubkey := mk_pk { pk_type : N; pk_bytes : list N }.

(** The registered constructors (NewPubKeyFunc).  [CtorAny] is gcrypto.NewEd25519PubKey
    (a plain conversion, every length accepted, never an error);  [CtorLen] is a constructor
    that rejects every length but [n] with an error (the shape of stricter key types). *)
Inductive ctor := CtorAny (tid : N) | CtorLen (tid : N) (n : N).
Definition ctor_tid (c : ctor) : N := match c with CtorAny t => t | CtorLen t _ => t end.
Definition apply_ctor (c : ctor) (b : list N) : res (option pubkey) :=
  match c with
  | CtorAny t => Ok (Some (mk_pk t b))
  | CtorLen t n => if N.eqb (N.of_nat (List.length b)) n then Ok (Some (mk_pk t b)) else Ok None
  end.

(** gcrypto.Registry: byType (reflect.Type -> name), byPrefix (name -> constructor). *)
Record registry := mk_reg { by_type : list (N * list N); by_prefix : list (list N * ctor) }.
Definition empty_registry : registry := mk_reg [] [].

Fixpoint type_find (t : N) (m : list (N * list N)) : option (list N) :=
  match m with
  | [] => None
  | (t', n) :: m' => if N.eqb t' t then Some n else type_find t m'
  end.

(** * tmconsensus values *)
Record validator := mk_validator { v_pub : option pubkey; v_power : N }.
Record valset := mk_valset {
  vs_vals : option (list validator);
  vs_pubkeys : option (list (option pubkey));
  vs_pkh : gbytes; vs_vph : gbytes }.
Record commit_proof := mk_commit_proof { cp_round : N; cp_pkh : list N; cp_proofs : pmap }.
Record header := mk_header {
  h_hash : gbytes; h_prev : gbytes; h_height : N; h_pcp : commit_proof;
  h_vs : valset; h_nvs : valset; h_dataid : gbytes; h_pash : gbytes;
  h_user : gbytes; h_driver : gbytes }.
Record proposed_header := mk_proposed {
  ph_header : header; ph_round : N; ph_pub : option pubkey;
  ph_user : gbytes; ph_driver : gbytes; ph_sig : gbytes }.
Record committed_header := mk_committed { ch_header : header; ch_proof : commit_proof }.
(** PrevoteSparseProof and PrecommitSparseProof have the same shape. *)
Record sparse_proof := mk_sparse { sp_height : N; sp_round : N; sp_pkh : list N; sp_proofs : pmap }.
(** tmcodec.ConsensusMessage: three pointers. *)
Record cmsg := mk_cmsg {
  cm_ph : option proposed_header; cm_pv : option sparse_proof; cm_pc : option sparse_proof }.

(** * Intermediate JSON structs (json.go / codec.go) *)
Record jvalidator := mk_jvalidator { jv_pub : gbytes; jv_power : N }.
Record jentry := mk_jentry { je_hash : gbytes; je_sigs : gsigs }.
Record jcommit_proof := mk_jcommit_proof {
  jcp_round : N; jcp_pkh : gbytes; jcp_commits : option (list jentry) }.
Record jvalset := mk_jvalset { jvs_vals : option (list jvalidator); jvs_pkh : gbytes; jvs_vph : gbytes }.
Record jheader := mk_jheader {
  jh_hash : gbytes; jh_prev : gbytes; jh_height : N; jh_pcp : jcommit_proof;
  jh_vs : jvalset; jh_nvs : jvalset; jh_dataid : gbytes; jh_pash : gbytes;
  jh_user : gbytes; jh_driver : gbytes }.
Record jproposed := mk_jproposed {
  jph_header : jheader; jph_round : N; jph_pub : gbytes; jph_sig : gbytes;
  jph_user : gbytes; jph_driver : gbytes }.
Record jcommitted := mk_jcommitted { jch_header : jheader; jch_proof : jcommit_proof }.
Record jsparse := mk_jsparse {
  jsp_height : N; jsp_round : N; jsp_pkh : gbytes; jsp_proofs : option (list jentry) }.
(** A json.RawMessage field of jsonConsensusMessage, seen through encoding/json:
    absent / nil, present but not decodable into the inner struct, or decoded. *)
Inductive raw (T : Type) := RawNil | RawBad | RawOk (j : T).
Arguments RawNil {T}. Arguments RawBad {T}. Arguments RawOk {T} j.
Record jcmsg := mk_jcmsg { jcm_ph : raw jproposed; jcm_pv : raw jsparse; jcm_pc : raw jsparse }.

Definition opt_list {A} (o : option (list A)) : list A := match o with None => [] | Some l => l end.

