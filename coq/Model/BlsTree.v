(** C13 (BLS half) - executable model of gcrypto/gblsminsig/internal/sigtree/tree.go and of
    gcrypto/gblsminsig/signatureproof.go.  No proofs here.

    Ideal aggregate signatures (trusted base): a public key value is the sorted list of the leaf
    indices it aggregates (a single validator key is [[i]]); the zero [blst.P2Affine] is [None].
    A signature value is [SAgg m l] = the aggregate of the genuine signatures of the leaves [l] over
    message [m] (the list is canonical: the commutative group sum is represented by the sorted list, the
    tree only ever concatenates a left range with the adjacent right range), [SJunk k] = some other
    decodable point, [SBad k] = bytes that do not decompress ([Uncompress] returns nil).
    [Verify (key ks) msg (SAgg m l)] holds iff [m = msg] and [l = ks] (aggregate unforgeability, no
    rogue keys, distinct keys).  The zero [blst.P1Affine] ("no signature") is [None] in [t_sigs].

    All numbers are [N]; arrays are lists read with [nthN] / written with [updN]. *)
From Coq Require Import List NArith ZArith String Bool.
From GV Require Import Base.Ints Model.SimpleProofBase.
Import ListNotations.
Local Open Scope N_scope.

(* ------------------------------------------------------------------ vocabulary *)
Inductive bsig : Type :=
| SAgg (m : N) (l : list N)
| SJunk (k : N)
| SBad (k : N).

Definition bkey : Type := list N.

Fixpoint listN_eqb (a b : list N) : bool :=
  match a, b with
  | [], [] => true
  | x :: a', y :: b' => N.eqb x y && listN_eqb a' b'
  | _, _ => false
  end.

Definition bsig_eqb (a b : bsig) : bool :=
  match a, b with
  | SAgg m l, SAgg m' l' => N.eqb m m' && listN_eqb l l'
  | SJunk k, SJunk k' => N.eqb k k'
  | SBad k, SBad k' => N.eqb k k'
  | _, _ => false
  end.

Definition key_eqb (a b : option bkey) : bool :=
  match a, b with
  | None, None => true
  | Some x, Some y => listN_eqb x y
  | _, _ => false
  end.

(** [new(blst.P1Affine).Uncompress(bytes)]: nil for undecodable bytes. *)
Definition decode (s : bsig) : option bsig :=
  match s with SBad _ => None | _ => Some s end.

(** [PubKey(k).Verify(msg, sig)]. *)
Definition verify (k : option bkey) (msg : N) (s : bsig) : bool :=
  match k, s with
  | Some (k0 :: ks), SAgg m l => N.eqb m msg && listN_eqb (k0 :: ks) l
  | _, _ => false
  end.

(** [new(blst.P1).Add(&a).Add(&b)] in canonical form ([a] is the left operand). *)
Definition agg_sig (a b : bsig) : bsig :=
  match a, b with
  | SAgg m l1, SAgg m' l2 => if N.eqb m m' then SAgg m (l1 ++ l2) else SJunk 0
  | _, _ => SJunk 0
  end.

(* ------------------------------------------------------------------ arrays *)
Definition lenN {A} (l : list A) : N := N.of_nat (List.length l).
Definition nthN {A} (l : list A) (i : N) : option A := nth_error l (N.to_nat i).
Fixpoint upd {A} (l : list A) (i : nat) (v : A) : list A :=
  match l, i with
  | [], _ => []
  | _ :: t, O => v :: t
  | x :: t, S j => x :: upd t j v
  end.
Definition updN {A} (l : list A) (i : N) (v : A) : list A := upd l (N.to_nat i) v.
Definition firstnN {A} (n : N) (l : list A) : list A := firstn (N.to_nat n) l.
Definition skipnN {A} (n : N) (l : list A) : list A := skipn (N.to_nat n) l.
Definition repeatN {A} (x : A) (n : N) : list A := repeat x (N.to_nat n).

(** [lo; lo+1; ...; lo+cnt-1] *)
Fixpoint rangeN_aux (cnt : nat) (lo : N) : list N :=
  match cnt with O => [] | S c => lo :: rangeN_aux c (lo + 1) end.
Definition rangeN (lo cnt : N) : list N := rangeN_aux (N.to_nat cnt) lo.

(* ------------------------------------------------------------------ the tree *)
Record tree := mk_tree {
  t_keys : list (option bkey);
  t_sigs : list (option bsig);
  t_bits : N;          (* SigBits; bitset.New(nKeys): its length stays nKeys because only indices < nKeys are ever Set *)
  t_n : N              (* nKeys *)
}.

Definition set_sigs (t : tree) (s : list (option bsig)) : tree := mk_tree (t_keys t) s (t_bits t) (t_n t).
Definition set_bits (t : tree) (b : N) : tree := mk_tree (t_keys t) (t_sigs t) b (t_n t).

(** leavesWidth: [nKeys&(nKeys-1) == 0 ? nKeys : 1 << bits.Len16(uint16(nKeys))] *)
Definition leaves_width (n : N) : N :=
  if N.eqb (N.land n (n - 1)) 0 then n else N.shiftl 1 (N.size (n mod 65536)).

(** aggregateKeys(a, b): [b] zero -> [a]; otherwise the group sum (a zero [a] adds nothing). *)
Definition aggK (a b : option bkey) : option bkey :=
  match b with
  | None => a
  | Some kb => Some (match a with None => kb | Some ka => ka ++ kb end)
  end.

Fixpoint pair_up (row : list (option bkey)) : list (option bkey) :=
  match row with
  | a :: b :: t => aggK a b :: pair_up t
  | _ => []
  end.

(** The [for readOffset < nNodes] loop of New: the layer starting at readOffset is read pairwise and the
    next layer is written right behind it, i.e. appended.  [fuel] = number of layers + 1. *)
Fixpoint build_rows (fuel : nat) (row : list (option bkey)) : list (option bkey) :=
  match fuel with
  | O => []
  | S f => row ++ match row with
                  | _ :: _ :: _ => build_rows f (pair_up row)
                  | _ => []
                  end
  end.

Definition leaf_row (n w : N) : list (option bkey) :=
  map (fun i => Some [i]) (rangeN 0 n) ++ repeatN None (w - n).

Definition tree_new (n : N) : res tree :=
  if (n <? 1) || (65535 <? n) then Panic "sigtree.New: nKeys out of range"
  else
    let w := leaves_width n in
    let keys := build_rows 18 (leaf_row n w) in
    Ok (mk_tree keys (repeatN None (2 * w - 1)) 0 n).

(** Index: linear search for an equal key over ALL nodes. *)
Fixpoint index_from (keys : list (option bkey)) (k : option bkey) (i : N) : option N :=
  match keys with
  | [] => None
  | tk :: t => if key_eqb tk k then Some i else index_from t k (i + 1)
  end.
Definition tree_index (t : tree) (k : option bkey) : option N := index_from (t_keys t) k 0.

(** Get: (key, sig, ok). *)
Definition tree_get (t : tree) (idx : N) : option bkey * option bsig * bool :=
  if lenN (t_keys t) <=? idx then (None, None, false)
  else match nthN (t_keys t) idx, nthN (t_sigs t) idx with
       | Some k, Some s => (k, s, true)
       | _, _ => (None, None, false)     (* unreachable: keys and sigs have the same length *)
       end.

(** The layer search loop [for idx >= layerStart+layerWidth]. *)
Fixpoint locate (fuel : nat) (idx start width nl : N) : option (N * N * N) :=
  match fuel with
  | O => None
  | S f => if start + width <=? idx
           then locate f idx (start + width) (N.shiftr width 1) (N.shiftl nl 1)
           else Some (start, width, nl)
  end.

(** bits |= [lo, hi) *)
Definition range_mask (lo hi : N) : N := if lo <? hi then N.shiftl (N.ones (hi - lo)) lo else 0.

(** Tree.AddSignature, one turn of the AGAIN loop per unit of fuel. *)
Fixpoint tree_add (fuel : nat) (t : tree) (idx : N) (sig : bsig) (added : bool) : res tree :=
  match fuel with
  | O => Panic "fuel: tree_add"
  | S f =>
      let len := lenN (t_sigs t) in
      if len <=? idx then Panic "t.sigs[idx]: index out of range"
      else
        let t1 := set_sigs t (updN (t_sigs t) idx (Some sig)) in
        if N.eqb idx (len - 1) then Ok (set_bits t1 (N.lor (t_bits t1) (N.ones (t_n t1))))   (* SetAll *)
        else
          match locate 18 idx 0 (leaves_width (t_n t1)) 1 with
          | None => Panic "fuel: locate"
          | Some (start, width, nl) =>
              let off := idx - start in
              let t2 := if added then t1
                        else let s := off * nl in
                             set_bits t1 (N.lor (t_bits t1) (range_mask s (N.min (s + nl) (t_n t1)))) in
              let parent := start + width + off / 2 in
              match nthN (t_sigs t2) parent with
              | None => Panic "t.sigs[parentIdx]: index out of range"
              | Some (Some _) => Ok t2
              | Some None =>
                  let nb := if N.even idx then idx + 1 else idx - 1 in
                  match nthN (t_keys t2) nb with
                  | None => Panic "t.keys[idx]: index out of range"
                  | Some None => tree_add f t2 parent sig true
                  | Some (Some _) =>
                      match nthN (t_sigs t2) nb with
                      | None => Panic "t.sigs[idx]: index out of range"
                      | Some None => Ok t2
                      | Some (Some nbsig) =>
                          tree_add f t2 parent (if N.even idx then agg_sig sig nbsig else agg_sig nbsig sig) true
                      end
                  end
              end
          end
  end.

Definition tree_add_signature (t : tree) (idx : N) (sig : bsig) : res tree :=
  tree_add (S (List.length (t_sigs t))) t idx sig false.

(** walkFromRoot.  [skip] is the used prefix of skipCheck (its length is the current row width; the
    entries behind it are still false and are overwritten by the doubling before they are read). *)
Fixpoint walk_row (row : list (option bsig)) (skip : list bool) (i : N) : list N * list bool :=
  match row, skip with
  | s :: rt, k :: kt =>
      let '(ids, sk) := walk_row rt kt (i + 1) in
      if k then (ids, true :: sk)
      else match s with
           | None => (ids, false :: sk)
           | Some _ => (i :: ids, true :: sk)
           end
  | _, _ => ([], skip)
  end.

Fixpoint double_skip (skip : list bool) : list bool :=
  match skip with [] => [] | b :: t => b :: b :: double_skip t end.

Fixpoint walk_rows (fuel : nat) (sigs : list (option bsig)) (row_start : Z) (row_width : N)
         (skip : list bool) (acc : list N) : option (list N * list bool) :=
  match fuel with
  | O => None
  | S f =>
      if (0 <? row_start)%Z then
        let rs := Z.to_N row_start in
        let '(ids, sk) := walk_row (firstnN row_width (skipnN rs sigs)) skip rs in
        let w2 := row_width * 2 in
        walk_rows f sigs (row_start - Z.of_N w2)%Z w2 (double_skip sk) (acc ++ ids)
      else Some (acc, skip)
  end.

Definition sparse_indices (t : tree) : res (list N) :=
  let len := lenN (t_sigs t) in
  match nthN (t_sigs t) (len - 1) with
  | None => Panic "t.sigs[len-1]: index out of range"
  | Some (Some _) => Ok [len - 1]
  | Some None =>
      match walk_rows 18 (t_sigs t) (Z.of_N len - 3)%Z 2 [false; false] [] with
      | None => Panic "fuel: walk_rows"
      | Some (acc, skip) =>
          (* leaf row: for i := range t.nKeys *)
          Ok (acc ++ fst (walk_row (firstnN (t_n t) (t_sigs t)) skip 0))
      end
  end.

Definition tree_clone (t : tree) : tree := t.          (* slices.Clone(sigs), SigBits.Clone(): value copy *)
Definition tree_derive (t : tree) : tree :=
  mk_tree (t_keys t) (repeatN None (lenN (t_keys t))) 0 (t_n t).

(* ------------------------------------------------------------------ SignatureProof *)
Record proof := mk_proof { p_msg : N; p_tree : tree; p_hash : N }.

Definition set_tree (p : proof) (t : tree) : proof := mk_proof (p_msg p) t (p_hash p).
Definition p_bits (p : proof) : N := t_bits (p_tree p).

Definition new_proof (msg n hash : N) : res proof :=
  match tree_new n with
  | Ok t => Ok (mk_proof msg t hash)
  | Panic s => Panic s
  end.

(** AddSignature: 0 = nil, 1 = unknown key, 2 = differs from the stored signature, 3 = verification failed. *)
Definition add_signature (p : proof) (sig : bsig) (key : option bkey) : res (proof * N) :=
  match tree_index (p_tree p) key with
  | None => Ok (p, 1)
  | Some idx =>
      let got := decode sig in
      match tree_get (p_tree p) idx with
      | (_, Some have, _) =>
          match got with
          | None => Ok (p, 2)                                   (* gotSigP1 == nil (repo 5d01a2e) *)
          | Some g => if bsig_eqb g have then Ok (p, 0) else Ok (p, 2)
          end
      | (_, None, _) =>
          if negb (verify key (p_msg p) sig) then Ok (p, 3)
          else match got with
               | None => Panic "*gotSigP1: nil dereference"     (* unreachable: Verify decodes first *)
               | Some g =>
                   match tree_add_signature (p_tree p) idx g with
                   | Ok t => Ok (set_tree p t, 0)
                   | Panic s => Panic s
                   end
               end
      end
  end.

Definition matches (p o : proof) : bool := N.eqb (p_msg p) (p_msg o) && N.eqb (p_hash p) (p_hash o).

Record flags := mk_flags { f_all_valid : bool; f_increased : bool; f_superset : bool }.
Definition no_flags : flags := mk_flags false false false.

(** the loop of Merge over other's sparse indices; state = (tree, AllValid, Increased) *)
Fixpoint merge_loop (msg : N) (ot : tree) (ids : list N) (t : tree) (av inc : bool) : res (tree * bool * bool) :=
  match ids with
  | [] => Ok (t, av, inc)
  | oid :: rest =>
      let '(_, other_sig, _) := tree_get ot oid in
      let '(have_key, have_sig, _) := tree_get t oid in
      match have_sig with
      | None =>
          (* otherSig.Compress() of the zero point is the infinity encoding, which verifies under no key *)
          match other_sig with
          | None => merge_loop msg ot rest t false inc
          | Some os =>
              if negb (verify have_key msg os) then merge_loop msg ot rest t false inc
              else
                let before := popcount (t_bits t) in
                match tree_add_signature t oid os with
                | Panic s => Panic s
                | Ok t' => merge_loop msg ot rest t' av (inc || (before <? popcount (t_bits t')))
                end
          end
      | Some hs =>
          match other_sig with
          | None => merge_loop msg ot rest t false inc
          | Some os => if bsig_eqb hs os then merge_loop msg ot rest t av inc
                       else merge_loop msg ot rest t false inc
          end
      end
  end.

Definition merge (p o : proof) : res (proof * flags) :=
  if negb (matches p o) then Ok (p, no_flags)
  else
    let looks := (N.eqb (p_bits o) 0 && N.eqb (p_bits p) 0) || is_strict_superset (p_bits o) (p_bits p) in
    match sparse_indices (p_tree o) with
    | Panic s => Panic s
    | Ok ids =>
        match merge_loop (p_msg p) (p_tree o) ids (p_tree p) true false with
        | Panic s => Panic s
        | Ok (t, av, inc) => Ok (set_tree p t, mk_flags av inc (looks && av))
        end
    end.

Definition sparse_entry : Type := (list N * bsig)%type.     (* KeyID bytes, Sig *)

Fixpoint merge_sparse_loop (msg : N) (ents : list sparse_entry) (t : tree) (av : bool) : res (tree * bool) :=
  match ents with
  | [] => Ok (t, av)
  | (kid, sg) :: rest =>
      match kid with
      | [x; y] =>
          let id := x * 256 + y in
          let '(have_key, have_sig, ok) := tree_get t id in
          if negb ok then merge_sparse_loop msg rest t false
          else
            match have_sig with
            | None =>
                if negb (verify have_key msg sg) then merge_sparse_loop msg rest t false
                else match decode sg with
                     | None => Panic "*sig: nil dereference"    (* unreachable: Verify decodes first *)
                     | Some g =>
                         match tree_add_signature t id g with
                         | Panic s => Panic s
                         | Ok t' => merge_sparse_loop msg rest t' av
                         end
                     end
            | Some hs =>
                match decode sg with
                | None => merge_sparse_loop msg rest t false                 (* sig == nil (repo 5d01a2e) *)
                | Some g => if bsig_eqb hs g then merge_sparse_loop msg rest t av
                            else merge_sparse_loop msg rest t false
                end
            end
      | _ => merge_sparse_loop msg rest t false                               (* len(ss.KeyID) != 2 *)
      end
  end.

Definition merge_sparse (p : proof) (hash : N) (ents : list sparse_entry) : res (proof * flags) :=
  if negb (N.eqb hash (p_hash p)) then Ok (p, no_flags)
  else
    let before := popcount (p_bits p) in
    match merge_sparse_loop (p_msg p) ents (p_tree p) true with
    | Panic s => Panic s
    | Ok (t, av) => Ok (set_tree p t, mk_flags av (before <? popcount (t_bits t)) false)
    end.

Definition has_sparse_key_id (p : proof) (kid : list N) : bool * bool :=
  match kid with
  | [x; y] =>
      let '(_, sg, ok) := tree_get (p_tree p) (x * 256 + y) in
      if negb ok then (false, false)
      else (match sg with Some _ => true | None => false end, true)
  | _ => (false, false)
  end.

(** AsSparse: ids from SparseIndices, [uint16(id)] big endian, the stored signature. *)
Definition as_sparse (p : proof) : res (N * list sparse_entry) :=
  match sparse_indices (p_tree p) with
  | Panic s => Panic s
  | Ok ids =>
      Ok (p_hash p,
          map (fun id => (be16 (id mod 65536),
                          match tree_get (p_tree p) id with
                          | (_, Some s, _) => s
                          | _ => SAgg 0 []           (* the zero point compresses to the infinity encoding *)
                          end)) ids)
  end.

Definition clone (p : proof) : proof := mk_proof (p_msg p) (tree_clone (p_tree p)) (p_hash p).
Definition derive (p : proof) : proof := mk_proof (p_msg p) (tree_derive (p_tree p)) (p_hash p).
Definition signature_bitset (p : proof) : N := p_bits p.

(* ------------------------------------------------------------------ observations *)
Definition bits_list (b : N) : list N := filter (N.testbit b) (rangeN 0 (N.size b)).

Fixpoint insert_N (x : N) (l : list N) : list N :=
  match l with [] => [x] | y :: t => if x <=? y then x :: y :: t else y :: insert_N x t end.
Definition sort_N (l : list N) : list N := fold_right insert_N [] l.

Definition id_of_bytes (kid : list N) : N := match kid with [x; y] => x * 256 + y | _ => 0 end.

(** sorted (key id, "the listed signature verifies under the key stored at that id") pairs *)
Definition obs_sparse (p : proof) : list N :=
  match as_sparse p with
  | Panic _ => obs_panic
  | Ok (_, ents) =>
      let ids := sort_N (map (fun e : sparse_entry => id_of_bytes (fst e)) ents) in
      flat_map (fun id =>
                  let ok := existsb (fun e : sparse_entry =>
                                       N.eqb (id_of_bytes (fst e)) id &&
                                       verify (fst (fst (tree_get (p_tree p) id))) (p_msg p) (snd e)) ents in
                  [id; b2n ok]) ids
  end.

Definition obs_flags (f : flags) (bits : N) : list N :=
  b2n (f_all_valid f) :: b2n (f_increased f) :: b2n (f_superset f) :: bits_list bits.

(* ------------------------------------------------------------------ register machine *)
Inductive bop : Type :=
| BNew (r : nat) (n msg hash : N)
| BAdd (r : nat) (s : bsig) (key : option bkey)
| BMerge (r o : nat)
| BMergeSparse (r : nat) (hash : N) (ents : list sparse_entry)
| BMergeFrom (r o : nat)                 (* r.MergeSparse(o.AsSparse()) *)
| BHas (r : nat) (id : list N)
| BSparse (r : nat)
| BClone (r to : nat)
| BDerive (r to : nat)
| BBits (r : nat).

Definition regs : Type := list (nat * proof).
Fixpoint reg_get (rs : regs) (r : nat) : option proof :=
  match rs with [] => None | (k, p) :: t => if Nat.eqb k r then Some p else reg_get t r end.
Definition reg_set (rs : regs) (r : nat) (p : proof) : regs := (r, p) :: rs.

Definition step (rs : regs) (o : bop) : regs * list N :=
  match o with
  | BNew r n msg hash =>
      match new_proof msg n hash with
      | Ok p => (reg_set rs r p, [0])
      | Panic _ => (rs, obs_panic)
      end
  | BAdd r s key =>
      match reg_get rs r with
      | None => (rs, obs_noreg)
      | Some p => match add_signature p s key with
                  | Ok (p', code) => (reg_set rs r p', code :: bits_list (p_bits p'))
                  | Panic _ => (rs, obs_panic)
                  end
      end
  | BMerge r o =>
      match reg_get rs r, reg_get rs o with
      | Some p, Some q => match merge p q with
                          | Ok (p', f) => (reg_set rs r p', obs_flags f (p_bits p'))
                          | Panic _ => (rs, obs_panic)
                          end
      | _, _ => (rs, obs_noreg)
      end
  | BMergeSparse r hash ents =>
      match reg_get rs r with
      | None => (rs, obs_noreg)
      | Some p => match merge_sparse p hash ents with
                  | Ok (p', f) => (reg_set rs r p', obs_flags f (p_bits p'))
                  | Panic _ => (rs, obs_panic)
                  end
      end
  | BMergeFrom r o =>
      match reg_get rs r, reg_get rs o with
      | Some p, Some q =>
          match as_sparse q with
          | Panic _ => (rs, obs_panic)
          | Ok (h, ents) => match merge_sparse p h ents with
                            | Ok (p', f) => (reg_set rs r p', obs_flags f (p_bits p'))
                            | Panic _ => (rs, obs_panic)
                            end
          end
      | _, _ => (rs, obs_noreg)
      end
  | BHas r id =>
      match reg_get rs r with
      | None => (rs, obs_noreg)
      | Some p => let '(h, v) := has_sparse_key_id p id in (rs, [b2n h; b2n v])
      end
  | BSparse r =>
      match reg_get rs r with
      | None => (rs, obs_noreg)
      | Some p => (rs, obs_sparse p)
      end
  | BClone r to =>
      match reg_get rs r with
      | None => (rs, obs_noreg)
      | Some p => (reg_set rs to (clone p), [0])
      end
  | BDerive r to =>
      match reg_get rs r with
      | None => (rs, obs_noreg)
      | Some p => (reg_set rs to (derive p), [0])
      end
  | BBits r =>
      match reg_get rs r with
      | None => (rs, obs_noreg)
      | Some p => (rs, bits_list (signature_bitset p))
      end
  end.

Fixpoint run_from (rs : regs) (ops : list bop) : list (list N) :=
  match ops with
  | [] => []
  | o :: t => let '(rs', ob) := step rs o in ob :: run_from rs' t
  end.

Definition run (ops : list bop) : list (list N) := run_from [] ops.
