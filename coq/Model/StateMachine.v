(** Executable model of the round state machine
    (tm/tmengine/internal/tmstate/statemachine.go, internal/tsi/roundlifecycle.go,
     internal/tsi/consensusmanager.go, tm/tmstore/tmmemstore/{action,finalization,statemachine}store.go).
    One Go branch = one model branch. NO proofs in this file.

    The kernel goroutine is a sequential event loop; an [event] is one value taken from one of
    its channels (or a response to a request it is blocked on). The consensus-manager goroutine
    is a single server: at most one strategy call is outstanding ([cm]); its answer is an event.
    [GetStepFromVoteSummary] and the thresholds are the GENERATED functions (Gen/StepSM.v, Gen/Math.v). *)
From Coq Require Import List NArith String Bool.
From GV Require Import Base.Ints Gen.Math Gen.StepSM.
Import ListNotations.
Local Open Scope N_scope.

Definition hash := list N.

(** A proposed header as far as the state machine looks at it. *)
Record ph := mkPh { ph_hash : hash; ph_ash : hash; ph_vs : N; ph_nvs : N; ph_data : hash; ph_mine : bool }.

(** tmconsensus.VersionedRoundView projected to what the state machine reads.
    [v_pcp_hash]/[v_pcp_vs]: block hash and validator-set (bitmask over the fixture validators) the
    previous commit proof was signed for/by (0 = empty proof). *)
Record view := mkView { v_h : N; v_r : N; v_ver : N; v_vs : vote_summary; v_phs : list ph;
                        v_pcp_hash : hash; v_pcp_vs : N }.

(** tmstore.RoundActions of the local validator (the key never changes in the model). *)
Record ra := mkRa { ra_ph : option hash; ra_pv : option hash; ra_pc : option hash }.
(** memstore finalization entry: round, block hash, validator set, app state hash *)
Record fin := mkFin { f_r : N; f_bh : hash; f_vs : N; f_ash : hash }.

Inductive run_state :=
| NotStarted
| AwaitInit                                   (* sendInitialActionSet blocked on the round entrance response *)
| AwaitAdv (tail : option (view * option (N * N)))  (* advance blocked; [tail] = suspended end of handleViewUpdate *)
| Idle
| Halted
| Panicked (site : N)
| Wedged.                                     (* blocked for ever on a channel nobody serves *)

Record rlc := mkRlc { rH : N; rR : N; rS : N; rTimer : option (N * N * N); rHC : bool; rCurVS : N; rPrevVS : N; rVRV : option view; rPBH : hash; rPFNVS : N; rPFASH : hash; rConsidered : list hash; rOut : option (N * N); rPropCh : bool; rPvCh : bool; rPcCh : bool; rFinCh : bool; rFinVS : N; rFinASH : hash; rFinBH : hash }.
Definition set_rH (v : N) (x : rlc) : rlc := mkRlc v (rR x) (rS x) (rTimer x) (rHC x) (rCurVS x) (rPrevVS x) (rVRV x) (rPBH x) (rPFNVS x) (rPFASH x) (rConsidered x) (rOut x) (rPropCh x) (rPvCh x) (rPcCh x) (rFinCh x) (rFinVS x) (rFinASH x) (rFinBH x).
Definition set_rR (v : N) (x : rlc) : rlc := mkRlc (rH x) v (rS x) (rTimer x) (rHC x) (rCurVS x) (rPrevVS x) (rVRV x) (rPBH x) (rPFNVS x) (rPFASH x) (rConsidered x) (rOut x) (rPropCh x) (rPvCh x) (rPcCh x) (rFinCh x) (rFinVS x) (rFinASH x) (rFinBH x).
Definition set_rS (v : N) (x : rlc) : rlc := mkRlc (rH x) (rR x) v (rTimer x) (rHC x) (rCurVS x) (rPrevVS x) (rVRV x) (rPBH x) (rPFNVS x) (rPFASH x) (rConsidered x) (rOut x) (rPropCh x) (rPvCh x) (rPcCh x) (rFinCh x) (rFinVS x) (rFinASH x) (rFinBH x).
Definition set_rTimer (v : option (N * N * N)) (x : rlc) : rlc := mkRlc (rH x) (rR x) (rS x) v (rHC x) (rCurVS x) (rPrevVS x) (rVRV x) (rPBH x) (rPFNVS x) (rPFASH x) (rConsidered x) (rOut x) (rPropCh x) (rPvCh x) (rPcCh x) (rFinCh x) (rFinVS x) (rFinASH x) (rFinBH x).
Definition set_rHC (v : bool) (x : rlc) : rlc := mkRlc (rH x) (rR x) (rS x) (rTimer x) v (rCurVS x) (rPrevVS x) (rVRV x) (rPBH x) (rPFNVS x) (rPFASH x) (rConsidered x) (rOut x) (rPropCh x) (rPvCh x) (rPcCh x) (rFinCh x) (rFinVS x) (rFinASH x) (rFinBH x).
Definition set_rCurVS (v : N) (x : rlc) : rlc := mkRlc (rH x) (rR x) (rS x) (rTimer x) (rHC x) v (rPrevVS x) (rVRV x) (rPBH x) (rPFNVS x) (rPFASH x) (rConsidered x) (rOut x) (rPropCh x) (rPvCh x) (rPcCh x) (rFinCh x) (rFinVS x) (rFinASH x) (rFinBH x).
Definition set_rPrevVS (v : N) (x : rlc) : rlc := mkRlc (rH x) (rR x) (rS x) (rTimer x) (rHC x) (rCurVS x) v (rVRV x) (rPBH x) (rPFNVS x) (rPFASH x) (rConsidered x) (rOut x) (rPropCh x) (rPvCh x) (rPcCh x) (rFinCh x) (rFinVS x) (rFinASH x) (rFinBH x).
Definition set_rVRV (v : option view) (x : rlc) : rlc := mkRlc (rH x) (rR x) (rS x) (rTimer x) (rHC x) (rCurVS x) (rPrevVS x) v (rPBH x) (rPFNVS x) (rPFASH x) (rConsidered x) (rOut x) (rPropCh x) (rPvCh x) (rPcCh x) (rFinCh x) (rFinVS x) (rFinASH x) (rFinBH x).
Definition set_rPBH (v : hash) (x : rlc) : rlc := mkRlc (rH x) (rR x) (rS x) (rTimer x) (rHC x) (rCurVS x) (rPrevVS x) (rVRV x) v (rPFNVS x) (rPFASH x) (rConsidered x) (rOut x) (rPropCh x) (rPvCh x) (rPcCh x) (rFinCh x) (rFinVS x) (rFinASH x) (rFinBH x).
Definition set_rPFNVS (v : N) (x : rlc) : rlc := mkRlc (rH x) (rR x) (rS x) (rTimer x) (rHC x) (rCurVS x) (rPrevVS x) (rVRV x) (rPBH x) v (rPFASH x) (rConsidered x) (rOut x) (rPropCh x) (rPvCh x) (rPcCh x) (rFinCh x) (rFinVS x) (rFinASH x) (rFinBH x).
Definition set_rPFASH (v : hash) (x : rlc) : rlc := mkRlc (rH x) (rR x) (rS x) (rTimer x) (rHC x) (rCurVS x) (rPrevVS x) (rVRV x) (rPBH x) (rPFNVS x) v (rConsidered x) (rOut x) (rPropCh x) (rPvCh x) (rPcCh x) (rFinCh x) (rFinVS x) (rFinASH x) (rFinBH x).
Definition set_rConsidered (v : list hash) (x : rlc) : rlc := mkRlc (rH x) (rR x) (rS x) (rTimer x) (rHC x) (rCurVS x) (rPrevVS x) (rVRV x) (rPBH x) (rPFNVS x) (rPFASH x) v (rOut x) (rPropCh x) (rPvCh x) (rPcCh x) (rFinCh x) (rFinVS x) (rFinASH x) (rFinBH x).
Definition set_rOut (v : option (N * N)) (x : rlc) : rlc := mkRlc (rH x) (rR x) (rS x) (rTimer x) (rHC x) (rCurVS x) (rPrevVS x) (rVRV x) (rPBH x) (rPFNVS x) (rPFASH x) (rConsidered x) v (rPropCh x) (rPvCh x) (rPcCh x) (rFinCh x) (rFinVS x) (rFinASH x) (rFinBH x).
Definition set_rPropCh (v : bool) (x : rlc) : rlc := mkRlc (rH x) (rR x) (rS x) (rTimer x) (rHC x) (rCurVS x) (rPrevVS x) (rVRV x) (rPBH x) (rPFNVS x) (rPFASH x) (rConsidered x) (rOut x) v (rPvCh x) (rPcCh x) (rFinCh x) (rFinVS x) (rFinASH x) (rFinBH x).
Definition set_rPvCh (v : bool) (x : rlc) : rlc := mkRlc (rH x) (rR x) (rS x) (rTimer x) (rHC x) (rCurVS x) (rPrevVS x) (rVRV x) (rPBH x) (rPFNVS x) (rPFASH x) (rConsidered x) (rOut x) (rPropCh x) v (rPcCh x) (rFinCh x) (rFinVS x) (rFinASH x) (rFinBH x).
Definition set_rPcCh (v : bool) (x : rlc) : rlc := mkRlc (rH x) (rR x) (rS x) (rTimer x) (rHC x) (rCurVS x) (rPrevVS x) (rVRV x) (rPBH x) (rPFNVS x) (rPFASH x) (rConsidered x) (rOut x) (rPropCh x) (rPvCh x) v (rFinCh x) (rFinVS x) (rFinASH x) (rFinBH x).
Definition set_rFinCh (v : bool) (x : rlc) : rlc := mkRlc (rH x) (rR x) (rS x) (rTimer x) (rHC x) (rCurVS x) (rPrevVS x) (rVRV x) (rPBH x) (rPFNVS x) (rPFASH x) (rConsidered x) (rOut x) (rPropCh x) (rPvCh x) (rPcCh x) v (rFinVS x) (rFinASH x) (rFinBH x).
Definition set_rFinVS (v : N) (x : rlc) : rlc := mkRlc (rH x) (rR x) (rS x) (rTimer x) (rHC x) (rCurVS x) (rPrevVS x) (rVRV x) (rPBH x) (rPFNVS x) (rPFASH x) (rConsidered x) (rOut x) (rPropCh x) (rPvCh x) (rPcCh x) (rFinCh x) v (rFinASH x) (rFinBH x).
Definition set_rFinASH (v : hash) (x : rlc) : rlc := mkRlc (rH x) (rR x) (rS x) (rTimer x) (rHC x) (rCurVS x) (rPrevVS x) (rVRV x) (rPBH x) (rPFNVS x) (rPFASH x) (rConsidered x) (rOut x) (rPropCh x) (rPvCh x) (rPcCh x) (rFinCh x) (rFinVS x) v (rFinBH x).
Definition set_rFinBH (v : hash) (x : rlc) : rlc := mkRlc (rH x) (rR x) (rS x) (rTimer x) (rHC x) (rCurVS x) (rPrevVS x) (rVRV x) (rPBH x) (rPFNVS x) (rPFASH x) (rConsidered x) (rOut x) (rPropCh x) (rPvCh x) (rPcCh x) (rFinCh x) (rFinVS x) (rFinASH x) v.

Record sm := mkSm { run : run_state; rl : rlc; gen : N; cm : option (N * N * bool); propOut : N; enterErr : bool; finReq : option (N * N * N * hash); hcOpen : bool; hTimer : option (N * N * N); liveSeen : bool; signer : bool; pendAct : option (N * N); aStore : list (N * N * ra); fStore : list (N * fin); sStore : N * N; pend : N }.
Definition set_run (v : run_state) (x : sm) : sm := mkSm v (rl x) (gen x) (cm x) (propOut x) (enterErr x) (finReq x) (hcOpen x) (hTimer x) (liveSeen x) (signer x) (pendAct x) (aStore x) (fStore x) (sStore x) (pend x).
Definition set_rl (v : rlc) (x : sm) : sm := mkSm (run x) v (gen x) (cm x) (propOut x) (enterErr x) (finReq x) (hcOpen x) (hTimer x) (liveSeen x) (signer x) (pendAct x) (aStore x) (fStore x) (sStore x) (pend x).
Definition set_gen (v : N) (x : sm) : sm := mkSm (run x) (rl x) v (cm x) (propOut x) (enterErr x) (finReq x) (hcOpen x) (hTimer x) (liveSeen x) (signer x) (pendAct x) (aStore x) (fStore x) (sStore x) (pend x).
Definition set_cm (v : option (N * N * bool)) (x : sm) : sm := mkSm (run x) (rl x) (gen x) v (propOut x) (enterErr x) (finReq x) (hcOpen x) (hTimer x) (liveSeen x) (signer x) (pendAct x) (aStore x) (fStore x) (sStore x) (pend x).
Definition set_propOut (v : N) (x : sm) : sm := mkSm (run x) (rl x) (gen x) (cm x) v (enterErr x) (finReq x) (hcOpen x) (hTimer x) (liveSeen x) (signer x) (pendAct x) (aStore x) (fStore x) (sStore x) (pend x).
Definition set_enterErr (v : bool) (x : sm) : sm := mkSm (run x) (rl x) (gen x) (cm x) (propOut x) v (finReq x) (hcOpen x) (hTimer x) (liveSeen x) (signer x) (pendAct x) (aStore x) (fStore x) (sStore x) (pend x).
Definition set_finReq (v : option (N * N * N * hash)) (x : sm) : sm := mkSm (run x) (rl x) (gen x) (cm x) (propOut x) (enterErr x) v (hcOpen x) (hTimer x) (liveSeen x) (signer x) (pendAct x) (aStore x) (fStore x) (sStore x) (pend x).
Definition set_hcOpen (v : bool) (x : sm) : sm := mkSm (run x) (rl x) (gen x) (cm x) (propOut x) (enterErr x) (finReq x) v (hTimer x) (liveSeen x) (signer x) (pendAct x) (aStore x) (fStore x) (sStore x) (pend x).
Definition set_hTimer (v : option (N * N * N)) (x : sm) : sm := mkSm (run x) (rl x) (gen x) (cm x) (propOut x) (enterErr x) (finReq x) (hcOpen x) v (liveSeen x) (signer x) (pendAct x) (aStore x) (fStore x) (sStore x) (pend x).
Definition set_liveSeen (v : bool) (x : sm) : sm := mkSm (run x) (rl x) (gen x) (cm x) (propOut x) (enterErr x) (finReq x) (hcOpen x) (hTimer x) v (signer x) (pendAct x) (aStore x) (fStore x) (sStore x) (pend x).
Definition set_signer (v : bool) (x : sm) : sm := mkSm (run x) (rl x) (gen x) (cm x) (propOut x) (enterErr x) (finReq x) (hcOpen x) (hTimer x) (liveSeen x) v (pendAct x) (aStore x) (fStore x) (sStore x) (pend x).
Definition set_pendAct (v : option (N * N)) (x : sm) : sm := mkSm (run x) (rl x) (gen x) (cm x) (propOut x) (enterErr x) (finReq x) (hcOpen x) (hTimer x) (liveSeen x) (signer x) v (aStore x) (fStore x) (sStore x) (pend x).
Definition set_aStore (v : list (N * N * ra)) (x : sm) : sm := mkSm (run x) (rl x) (gen x) (cm x) (propOut x) (enterErr x) (finReq x) (hcOpen x) (hTimer x) (liveSeen x) (signer x) (pendAct x) v (fStore x) (sStore x) (pend x).
Definition set_fStore (v : list (N * fin)) (x : sm) : sm := mkSm (run x) (rl x) (gen x) (cm x) (propOut x) (enterErr x) (finReq x) (hcOpen x) (hTimer x) (liveSeen x) (signer x) (pendAct x) (aStore x) v (sStore x) (pend x).
Definition set_sStore (v : N * N) (x : sm) : sm := mkSm (run x) (rl x) (gen x) (cm x) (propOut x) (enterErr x) (finReq x) (hcOpen x) (hTimer x) (liveSeen x) (signer x) (pendAct x) (aStore x) (fStore x) v (pend x).
Definition set_pend (v : N) (x : sm) : sm := mkSm (run x) (rl x) (gen x) (cm x) (propOut x) (enterErr x) (finReq x) (hcOpen x) (hTimer x) (liveSeen x) (signer x) (pendAct x) (aStore x) (fStore x) (sStore x) v.

(** Outputs: everything the harness can observe. *)
Inductive out :=
| ORoundEntrance (h r : N) (pk act : bool)
| OEnterRound (h r : N) (has_out : bool)
| OConsider (phs new upd : list hash) (maj : bool)
| OChoose (phs : list hash)
| ODecide (avail tpv tpc : N) (pvm : hash) (pvmp : N) (pcm : hash) (pcmp : N)
| OSignPrevote (h r : N) (t : hash)
| OSignPrecommit (h r : N) (t : hash)
| OSignProposal (h r : N) (d : hash)
| OSavePrevote (h r : N) (t : hash) (res pnd : N)
| OSavePrecommit (h r : N) (t : hash) (res pnd : N)
| OSavePH (h r : N) (res pnd : N)
| OEmitPrevote (h r : N) (t : hash)
| OEmitPrecommit (h r : N) (t : hash)
| OEmitPH (h r : N) (d : hash)
| OFinalizeReq (h r : N) (bh : hash)
| OTimerStart (k h r : N) (overlap : bool)
| OTimerCancel (k h r : N) (was : bool)
| OSetHR (h r : N)
| OSaveFin (h r : N) (bh : hash) (vs : N) (ash : hash) (res : N)
| OPanic (site : N)
| OHalt
| OUndeliverable
| OBlocked.

Inductive event :=
| EvStart
| EvStop
| EvRERespVRV (v : view)
| EvRERespCH (bh : hash) (h pr : N)
| EvView (v : view) (ja : option (N * N))      (* v_h = 0: no view, only the jump-ahead *)
| EvTimer
| EvAnswer (kind : N) (t : hash)                (* 0 hash, 1 not ready, 2 error *)
| EvProposal (d : hash)
| EvFinResp (h r : N) (bh : hash) (vs : N) (ash : hash)
| EvHeightCommitted
| EvBlockData (h r : N) (d : hash)
| EvArmEnterErr.

(** Panic sites. *)
Definition P_beginRound_prevotes : N := 1.
Definition P_beginRound_default : N := 2.
Definition P_heightCommitted_step : N := 3.
Definition P_viewUpdate_empty : N := 4.
Definition P_viewUpdate_step : N := 5.
Definition P_finalization_novals : N := 6.
Definition P_finalization_hr : N := 7.
Definition P_timerElapsed_step : N := 8.
Definition P_jumpAhead_height : N := 9.
Definition P_jumpAhead_round : N := 10.
Definition P_advance_enterRound : N := 11.
Definition P_threshold_zero : N := 12.
Definition P_nil_cancel : N := 13.
Definition P_nil_vrv : N := 14.
Definition P_nil_signer : N := 15.
Definition P_finalize_nokeys : N := 16.

Definition K_consider : N := 3.
Definition K_choose : N := 4.
Definition K_decide : N := 5.

Definition genesis_vs : N := 15.
Definition genesis_ash : hash := [1].
Definition genesis_bh : hash := [255].
Definition initial_height : N := 1.

Definition rlc0 : rlc :=
  mkRlc 0 0 0 None false 0 0 None [] 0 [] [] None false false false false 0 [] [].

Definition fstore0 : list (N * fin) := [(0, mkFin 0 genesis_bh genesis_vs genesis_ash)].

Definition sm0 (sg : bool) : sm :=
  mkSm NotStarted rlc0 0 None 0 false None false None false sg None [] fstore0 (0, 0) 0.

(** ** A small state/output monad *)
Inductive flow := Go | Susp | FHalt | FPanic (site : N) | FBlocked.
Definition M := sm -> sm * list out * flow.
Definition ret : M := fun s => (s, [], Go).
Definition bindM (a b : M) : M := fun s =>
  let '(s1, o1, f) := a s in
  match f with
  | Go => let '(s2, o2, f2) := b s1 in (s2, o1 ++ o2, f2)
  | _ => (s1, o1, f)
  end.
Notation "a ;; b" := (bindM a b) (at level 61, right associativity).
Definition say (o : out) : M := fun s => (s, [o], Go).
Definition upd (f : sm -> sm) : M := fun s => (f s, [], Go).
Definition updr (f : rlc -> rlc) : M := fun s => (set_rl (f (rl s)) s, [], Go).
Definition stop (f : flow) : M := fun s => (s, [], f).
Definition withS (k : sm -> M) : M := fun s => k s s.
Definition when (b : bool) (m : M) : M := if b then m else ret.

Definition eq3 (a b : N * N * N) : bool :=
  let '(a1, a2, a3) := a in let '(b1, b2, b3) := b in (a1 =? b1) && (a2 =? b2) && (a3 =? b3).

(** ** Stores *)
Fixpoint astore_get (m : list (N * N * ra)) (h r : N) : option ra :=
  match m with
  | [] => None
  | (h', r', a) :: m' => if (h' =? h) && (r' =? r) then Some a else astore_get m' h r
  end.
Fixpoint astore_set (m : list (N * N * ra)) (h r : N) (a : ra) : list (N * N * ra) :=
  match m with
  | [] => [(h, r, a)]
  | (h', r', a') :: m' => if (h' =? h) && (r' =? r) then (h, r, a) :: m' else (h', r', a') :: astore_set m' h r a
  end.
Definition ra0 : ra := mkRa None None None.
Fixpoint fstore_get (m : list (N * fin)) (h : N) : option fin :=
  match m with
  | [] => None
  | (h', f) :: m' => if h' =? h then Some f else fstore_get m' h
  end.

(** ** Round lifecycle *)
Definition participating (s : sm) : bool := signer s && N.testbit (rCurVS (rl s)) 0.

(** rlc.CancelTimer() followed by clearing both fields; [must]: the Go code calls the function
    value unconditionally (nil call = panic). *)
Definition cancel_timer (must : bool) : M := withS (fun s =>
  match rTimer (rl s) with
  | Some (k, h, r) =>
      let was := match hTimer s with Some t => eq3 t (k, h, r) | None => false end in
      say (OTimerCancel k h r was) ;;
      upd (fun s => set_hTimer (if was then None else hTimer s) s) ;;
      updr (set_rTimer None)
  | None => if must then stop (FPanic P_nil_cancel) else ret
  end).

Definition start_timer (k : N) : M := withS (fun s =>
  let h := rH (rl s) in let r := rR (rl s) in
  say (OTimerStart k h r (match hTimer s with Some _ => true | None => false end)) ;;
  upd (set_hTimer (Some (k, h, r))) ;;
  updr (set_rTimer (Some (k, h, r)))).

(** tsi.RoundLifecycle.Reset *)
Definition reset (h r : N) : M :=
  cancel_timer false ;;
  updr (fun l => set_rH h (set_rR r (set_rPropCh true (set_rPvCh true (set_rPcCh true
               (set_rFinCh true (set_rHC true (set_rConsidered [] l)))))))) ;;
  upd (fun s => set_gen (gen s + 1) (set_propOut (if propOut s =? 1 then 2 else propOut s) s)).

(** tsi.RoundLifecycle.CycleFinalization *)
Definition cycle_finalization (l : rlc) : rlc :=
  set_rPFNVS (rFinVS l) (set_rPrevVS (rCurVS l) (set_rCurVS (rPFNVS l) (set_rFinVS 0
  (set_rPFASH (rFinASH l) (set_rFinASH [] (set_rPBH (rFinBH l) (set_rFinBH [] l))))))).

(** rejectMismatchedProposedHeaders *)
Definition ph_ok (l : rlc) (p : ph) : bool :=
  bytes_eqb (ph_ash p) (rPFASH l) && (ph_vs p =? rCurVS l) && (ph_nvs p =? rPFNVS l).
Definition reject_mismatched (l : rlc) (phs : list ph) : list ph := filter (ph_ok l) phs.

Fixpoint hash_in (x : hash) (l : list hash) : bool :=
  match l with [] => false | y :: l' => bytes_eqb y x || hash_in x l' end.

(** ConsiderProposedBlocksRequest.MarkReasonNewHashes: (new hashes, updated considered set) *)
Fixpoint mark_new (phs : list ph) (considered : list hash) : list hash * list hash :=
  match phs with
  | [] => ([], considered)
  | p :: phs' =>
      if hash_in (ph_hash p) considered then mark_new phs' considered
      else let '(n, c) := mark_new phs' (considered ++ [ph_hash p]) in (ph_hash p :: n, c)
  end.

(** A request handed to the consensus manager (unbuffered channel, single server). While a
    strategy call is held the send cannot complete: [FBlocked] (gchan.SendC waits; the three sends
    guarded by a 100 ms timer panic instead - timing residue, named in design/C08.md). *)
Definition cm_request (kind : N) (result_open : bool) (o : out) : M := withS (fun s =>
  match cm s with
  | Some _ => stop FBlocked
  | None => upd (set_cm (Some (kind, gen s, result_open))) ;; say o
  end).

Definition req_consider (phs : list ph) (mark : bool) (upd_ids : list hash) (maj : bool) : M := withS (fun s =>
  let '(new, cns) := if mark then mark_new phs (rConsidered (rl s)) else ([], rConsidered (rl s)) in
  updr (set_rConsidered cns) ;;
  cm_request K_consider (rPvCh (rl s)) (OConsider (map ph_hash phs) new upd_ids maj)).

Definition req_choose (phs : list ph) : M := withS (fun s =>
  cm_request K_choose (rPvCh (rl s)) (OChoose (map ph_hash phs))).

Definition req_decide (vs : vote_summary) : M := withS (fun s =>
  cm_request K_decide (rPcCh (rl s))
    (ODecide (vote_summary_AvailablePower vs) (vote_summary_TotalPrevotePower vs) (vote_summary_TotalPrecommitPower vs)
             (vote_summary_MostVotedPrevoteHash vs)
             (map_get (vote_summary_PrevoteBlockPower vs) (vote_summary_MostVotedPrevoteHash vs))
             (vote_summary_MostVotedPrecommitHash vs)
             (map_get (vote_summary_PrecommitBlockPower vs) (vote_summary_MostVotedPrecommitHash vs)))).

(** strategy.EnterRound through the consensus manager (synchronous). [on_err]: what the caller does. *)
Definition enter_round (h r : N) (on_err : flow) : M := withS (fun s =>
  match cm s with
  | Some _ => stop FBlocked
  | None =>
      let has := rPropCh (rl s) in
      say (OEnterRound h r has) ;;
      upd (set_propOut (if has then 1 else 0)) ;;
      if enterErr s then upd (set_enterErr false) ;; stop on_err else ret
  end).

Definition pcm (v : view) : hash := vote_summary_MostVotedPrecommitHash (v_vs v).
Definition pvm (v : view) : hash := vote_summary_MostVotedPrevoteHash (v_vs v).
Definition pc_pow (v : view) : N := map_get (vote_summary_PrecommitBlockPower (v_vs v)) (pcm v).
Definition pv_pow (v : view) : N := map_get (vote_summary_PrevoteBlockPower (v_vs v)) (pvm v).
Definition tpc (v : view) : N := vote_summary_TotalPrecommitPower (v_vs v).
Definition tpv (v : view) : N := vote_summary_TotalPrevotePower (v_vs v).
Definition avail (v : view) : N := vote_summary_AvailablePower (v_vs v).

Fixpoint find_ph (phs : list ph) (h : hash) : option ph :=
  match phs with
  | [] => None
  | p :: phs' => if bytes_eqb (ph_hash p) h then Some p else find_ph phs' h
  end.

Definition finalize_req (h r : N) (bh : hash) : M :=
  say (OFinalizeReq h r bh) ;; upd (fun s => set_finReq (Some (gen s, h, r, bh)) s).

(** beginCommit (after the repair of its result: a missing proposed header is not a failure; the
    finalization request is made later by handleCommitWaitViewUpdate) *)
Definition begin_commit (v : view) : M :=
  updr (set_rS StepCommitWait) ;;
  start_timer 4 ;;
  match find_ph (v_phs v) (pcm v) with
  | None => ret
  | Some p => finalize_req (v_h v) (v_r v) (ph_hash p)
  end.

(** advance, first half: the round entrance is sent and the kernel blocks on the response *)
Definition send_entrance : M := withS (fun s =>
  let h := rH (rl s) in let r := rR (rl s) in
  let act := participating s in
  say (ORoundEntrance h r (signer s) act) ;;
  upd (fun s => set_pendAct (if act then Some (h, r) else None) (set_hcOpen true s)) ;;
  stop Susp).

Definition set_hr (h r : N) : M := say (OSetHR h r) ;; upd (set_sStore (h, r)).

Definition advance_round : M := withS (fun s =>
  let h := rH (rl s) in let r := wrap32 (rR (rl s) + 1) in
  reset h r ;; set_hr h r ;; send_entrance).

Definition advance_height : M := withS (fun s =>
  let h := wrap64 (rH (rl s) + 1) in
  updr cycle_finalization ;; reset h 0 ;; set_hr h 0 ;; send_entrance).

Definition thresholds (v : view) (k : N -> N -> M) : M :=
  match byz_minority (avail v), byz_majority (avail v) with
  | Ok mn, Ok mj => k mn mj
  | _, _ => stop (FPanic P_threshold_zero)
  end.

(** beginRoundLive *)
Definition begin_round_live (v : view) : M :=
  match get_step_from_vote_summary (v_vs v) with
  | Panic _ => stop (FPanic P_threshold_zero)
  | Ok st =>
      if st =? StepAwaitingProposal then
        withS (fun s =>
          let ok := reject_mismatched (rl s) (v_phs v) in
          when (negb (match ok with [] => true | _ => false end)) (req_consider ok true [] false)) ;;
        updr (fun l => set_rS st (set_rVRV (Some v) l)) ;;
        start_timer 1
      else if st =? StepAwaitingPrevotes then stop (FPanic P_beginRound_prevotes)
      else if st =? StepAwaitingPrecommits then
        req_decide (v_vs v) ;;
        updr (fun l => set_rS st (set_rVRV (Some v) l))
      else if st =? StepCommitWait then
        match pcm v with
        | [] => advance_round
        | _ => begin_commit v ;; updr (set_rVRV (Some v))
        end
      else stop (FPanic P_beginRound_default)
  end.

(** handleProposalViewUpdate *)
Definition handle_proposal_view (v : view) : M :=
  thresholds v (fun mn mj =>
    if mj <=? tpc v then
      cancel_timer true ;;
      if mj <=? pc_pow v then
        match pcm v with
        | [] => advance_round
        | _ => begin_commit v
        end
      else
        updr (set_rS StepPrecommitDelay) ;; start_timer 3 ;; req_decide (v_vs v)
    else if mn <=? tpc v then
      cancel_timer true ;; updr (set_rS StepAwaitingPrecommits) ;; req_decide (v_vs v)
    else if mj <=? tpv v then
      cancel_timer true ;;
      withS (fun s =>
        let phs := reject_mismatched (rl s) (v_phs v) in
        if mj <=? pv_pow v then
          updr (set_rS StepAwaitingPrecommits) ;; req_choose phs ;; updr (set_rConsidered [])
        else
          updr (set_rS StepPrevoteDelay) ;; start_timer 2 ;;
          when (negb (match phs with [] => true | _ => false end)) (req_consider phs true [] true))
    else
      withS (fun s =>
        match rVRV (rl s) with
        | None => stop (FPanic P_nil_vrv)
        | Some old =>
            if (N.of_nat (List.length (v_phs old)) <? N.of_nat (List.length (v_phs v))) then
              let incoming := reject_mismatched (rl s) (v_phs v) in
              let have := reject_mismatched (rl s) (v_phs old) in
              if (N.of_nat (List.length incoming) <=? N.of_nat (List.length have)) then ret
              else req_consider incoming true [] false
            else ret
        end)).

(** handlePrevoteViewUpdate *)
Definition handle_prevote_view (v : view) : M :=
  thresholds v (fun _ mj =>
    withS (fun s =>
      let in_delay := rS (rl s) =? StepPrevoteDelay in
      if mj <=? tpc v then
        when in_delay (cancel_timer true) ;;
        if mj <=? pc_pow v then
          match pcm v with
          | [] => advance_round
          | _ => begin_commit v
          end
        else
          updr (set_rS StepPrecommitDelay) ;; start_timer 3 ;; req_decide (v_vs v)
      else if mj <=? tpv v then
        if mj <=? pv_pow v then
          when in_delay (cancel_timer true) ;;
          updr (set_rS StepAwaitingPrecommits) ;; req_decide (v_vs v)
        else
          when (rS (rl s) =? StepAwaitingPrevotes) (updr (set_rS StepPrevoteDelay) ;; start_timer 2)
      else ret)).

(** handlePrecommitViewUpdate *)
Definition handle_precommit_view (v : view) : M :=
  thresholds v (fun _ mj =>
    withS (fun s =>
      if mj <=? tpc v then
        if mj <=? pc_pow v then
          match pcm v with
          | [] => advance_round
          | _ => when (rS (rl s) =? StepPrecommitDelay) (cancel_timer true) ;; begin_commit v
          end
        else if tpc v =? avail v then advance_round
        else when (rS (rl s) =? StepAwaitingPrecommits) (updr (set_rS StepPrecommitDelay) ;; start_timer 3)
      else ret)).

(** handleCommitWaitViewUpdate *)
Definition handle_commit_wait_view (v : view) : M := withS (fun s =>
  if negb (rFinCh (rl s)) then ret else
  match rVRV (rl s) with
  | None => stop (FPanic P_nil_vrv)
  | Some old =>
      match find_ph (v_phs old) (pcm old) with
      | Some _ => ret
      | None =>
          match find_ph (v_phs v) (pcm v) with
          | None => ret
          | Some p => finalize_req (v_h v) (v_r v) (ph_hash p)
          end
      end
  end).

(** handleJumpAhead *)
Definition handle_jump_ahead (j : N * N) : M := withS (fun s =>
  let '(jh, jr) := j in
  if negb (jh =? rH (rl s)) then stop (FPanic P_jumpAhead_height)
  else if jr <=? rR (rl s) then stop (FPanic P_jumpAhead_round)
  else advance_round).

(** The end of handleViewUpdate after the per-step handler returned (also run when the handler
    was suspended in a round entrance and the response has been processed). *)
Definition view_tail (v : view) (ja : option (N * N)) : M :=
  withS (fun s =>
    match rVRV (rl s) with
    | None => stop (FPanic P_nil_vrv)
    | Some cur => when ((v_h v =? v_h cur) && (v_r v =? v_r cur)) (updr (set_rVRV (Some v)))
    end) ;;
  match ja with Some j => handle_jump_ahead j | None => ret end.

(** handleViewUpdate. A handler suspended in a round entrance leaves [view_tail] pending. *)
Definition suspend_with_tail (m : M) (v : view) (ja : option (N * N)) : M := fun s =>
  let '(s1, o1, f) := m s in
  match f with
  | Susp => (set_run (AwaitAdv (Some (v, ja))) s1, o1, Susp)
  | Go => let '(s2, o2, f2) := view_tail v ja s1 in (s2, o1 ++ o2, f2)
  | _ => (s1, o1, f)
  end.

Definition handle_view_update (v : view) (ja : option (N * N)) : M := withS (fun s =>
  if v_h v =? 0 then
    match ja with
    | None => stop (FPanic P_viewUpdate_empty)
    | Some j => handle_jump_ahead j
    end
  else if negb ((v_h v =? rH (rl s)) && (v_r v =? rR (rl s))) then ret
  else
    match rVRV (rl s) with
    | None => stop (FPanic P_nil_vrv)
    | Some cur =>
        if v_ver v <=? v_ver cur then stop FHalt   (* watchdog Terminate: the context is cancelled *)
        else
          let st := rS (rl s) in
          let handler :=
            if st =? StepAwaitingProposal then handle_proposal_view v
            else if (st =? StepAwaitingPrevotes) || (st =? StepPrevoteDelay) then handle_prevote_view v
            else if (st =? StepAwaitingPrecommits) || (st =? StepPrecommitDelay) then handle_precommit_view v
            else if (st =? StepCommitWait) || (st =? StepAwaitingFinalization) then handle_commit_wait_view v
            else stop (FPanic P_viewUpdate_step) in
          suspend_with_tail handler v ja
    end).

(** ** Recording actions (sign, save, emit) *)
Definition cur_ra (s : sm) : ra :=
  match astore_get (aStore s) (rH (rl s)) (rR (rl s)) with Some a => a | None => ra0 end.

Definition emit (o : N -> N -> out) : M := withS (fun s =>
  match rOut (rl s) with
  | None => stop FBlocked      (* send on a nil channel *)
  | Some (h, r) => say (o h r) ;; upd (fun s => set_pend (pend s + 1) s)
  end).

Definition record_prevote (t : hash) : M := withS (fun s =>
  let h := rH (rl s) in let r := rR (rl s) in
  when (participating s) (
    say (OSignPrevote h r t) ;;
    match ra_pv (cur_ra s) with
    | Some _ => say (OSavePrevote h r t 1 (pend s)) ;; stop FHalt
    | None =>
        upd (fun s => set_aStore (astore_set (aStore s) h r (mkRa (ra_ph (cur_ra s)) (Some t) (ra_pc (cur_ra s)))) s) ;;
        say (OSavePrevote h r t 0 (pend s)) ;;
        emit (fun eh er => OEmitPrevote eh er t)
    end) ;;
  when (rS (rl s) =? StepAwaitingProposal) (updr (set_rS StepAwaitingPrevotes) ;; cancel_timer true)).

Definition record_precommit (t : hash) : M := withS (fun s =>
  let h := rH (rl s) in let r := rR (rl s) in
  when (participating s) (
    say (OSignPrecommit h r t) ;;
    match ra_pc (cur_ra s) with
    | Some _ => say (OSavePrecommit h r t 1 (pend s)) ;; stop FHalt
    | None =>
        upd (fun s => set_aStore (astore_set (aStore s) h r (mkRa (ra_ph (cur_ra s)) (ra_pv (cur_ra s)) (Some t))) s) ;;
        say (OSavePrecommit h r t 0 (pend s)) ;;
        emit (fun eh er => OEmitPrecommit eh er t)
    end)).

(** validator indices of a bitmask, ascending *)
Definition mask_list (m : N) : list N := filter (fun i => N.testbit m i) [0; 1; 2; 3].
Fixpoint is_prefix (a b : list N) : bool :=
  match a, b with
  | [], _ => true
  | x :: a', y :: b' => (x =? y) && is_prefix a' b'
  | _, [] => false
  end.
(** CommitProofFinalizer.Finalize succeeds iff the proof was signed for the previous block hash by
    validators whose key list is a non-empty prefix of the previous validator set's key list
    (sparse signatures are indexed by position). *)
Definition pcp_finalizes (l : rlc) (v : view) : bool :=
  bytes_eqb (v_pcp_hash v) (rPBH l) && negb (v_pcp_vs v =? 0) &&
  is_prefix (mask_list (v_pcp_vs v)) (mask_list (rPrevVS l)).

Definition record_proposed_header (d : hash) : M := withS (fun s =>
  let h := rH (rl s) in let r := rR (rl s) in
  (if initial_height <? h then
     match rVRV (rl s) with
     | None => stop (FPanic P_nil_vrv)
     | Some v =>
         (* CommitProofFinalizer.Finalize: the proof scheme's constructor panics on an empty key list *)
         if rPrevVS (rl s) =? 0 then stop (FPanic P_finalize_nokeys)
         else if pcp_finalizes (rl s) v then ret else stop FHalt
     end
   else ret) ;;
  (if signer s then ret else stop (FPanic P_nil_signer)) ;;
  say (OSignProposal h r d) ;;
  match ra_ph (cur_ra s) with
  | Some _ => say (OSavePH h r 1 (pend s)) ;; stop FHalt
  | None =>
      upd (fun s => set_aStore (astore_set (aStore s) h r (mkRa (Some d) (ra_pv (cur_ra s)) (ra_pc (cur_ra s)))) s) ;;
      say (OSavePH h r 0 (pend s)) ;;
      emit (fun eh er => OEmitPH eh er d)
  end).

(** ** Remaining handlers *)
Definition handle_finalization (h r : N) (bh : hash) (vs : N) (ash : hash) : M :=
  if vs =? 0 then stop (FPanic P_finalization_novals) else
  updr (fun l => set_rFinVS vs (set_rFinASH ash (set_rFinBH bh (set_rFinCh false l)))) ;;
  withS (fun s =>
    let H := rH (rl s) in let R := rR (rl s) in
    if negb ((h =? H) && (r =? R)) then stop (FPanic P_finalization_hr) else
    match fstore_get (fStore s) H with
    | Some _ => say (OSaveFin H R bh vs ash 3) ;; stop FHalt
    | None =>
        upd (fun s => set_fStore (fStore s ++ [(H, mkFin R bh vs ash)]) s) ;;
        say (OSaveFin H R bh vs ash 0) ;;
        when (rS (rl s) =? StepAwaitingFinalization) advance_height
    end).

Definition vrv_or_panic (k : view -> M) : M := withS (fun s =>
  match rVRV (rl s) with None => stop (FPanic P_nil_vrv) | Some v => k v end).

Definition handle_timer_elapsed : M := withS (fun s =>
  let st := rS (rl s) in
  if st =? StepAwaitingProposal then
    vrv_or_panic (fun v => req_choose (reject_mismatched (rl s) (v_phs v))) ;;
    updr (fun l => set_rS StepAwaitingPrevotes (set_rConsidered [] l)) ;;
    cancel_timer true
  else if st =? StepPrevoteDelay then
    vrv_or_panic (fun v => req_decide (v_vs v)) ;;
    updr (set_rS StepAwaitingPrecommits) ;;
    cancel_timer true
  else if st =? StepPrecommitDelay then
    cancel_timer true ;; advance_round
  else if st =? StepCommitWait then
    cancel_timer true ;;
    if rFinVS (rl s) =? 0 then updr (set_rS StepAwaitingFinalization) else advance_height
  else stop (FPanic P_timerElapsed_step)).

Definition handle_height_committed : M :=
  updr (set_rHC false) ;;
  cancel_timer false ;;
  withS (fun s =>
    let st := rS (rl s) in
    if st =? StepAwaitingFinalization then ret
    else if negb (st =? StepCommitWait) then stop (FPanic P_heightCommitted_step)
    else if rFinVS (rl s) =? 0 then updr (set_rS StepAwaitingFinalization)
    else advance_height).

Definition handle_block_data (h r : N) (d : hash) : M := withS (fun s =>
  if negb (rPvCh (rl s)) then ret
  else if negb ((h =? rH (rl s)) && (r =? rR (rl s))) then ret
  else vrv_or_panic (fun v =>
    let ok := reject_mismatched (rl s) (v_phs v) in
    match ok with
    | [] => ret
    | _ =>
        let upd_ids := map ph_data (filter (fun p => bytes_eqb (ph_data p) d) ok) in
        match upd_ids with
        | [] => ret
        | _ => req_consider ok false upd_ids false
        end
    end)).

(** ** Start-up: sendInitialActionSet / initializeRLC *)
Definition start_up : M := withS (fun s =>
  let '(h0, r0) := sStore s in
  let '(h1, r1) := if h0 =? 0 then (initial_height, 0) else (h0, r0) in
  let '(h, r) := match fstore_get (fStore s) h1 with Some _ => (wrap64 (h1 + 1), 0) | None => (h1, r1) end in
  let sets : option (N * N) :=
    if h =? initial_height then Some (genesis_vs, genesis_vs)
    else match fstore_get (fStore s) (sub64 h 2) with
         | None => None
         | Some f2 =>
             if h =? wrap64 (initial_height + 1) then Some (f_vs f2, f_vs f2)
             else match fstore_get (fStore s) (sub64 h 3) with
                  | None => None
                  | Some f3 => Some (f_vs f2, f_vs f3)
                  end
         end in
  match sets with
  | None => stop FHalt
  | Some (cur, prev) =>
      updr (fun l => set_rCurVS cur (set_rPrevVS prev (set_rH h (set_rR r l)))) ;;
      (* rlc.H/R are assigned by Reset after the response; they are kept here only to carry h, r *)
      send_entrance
  end).

Definition init_after_vrv (v : view) : M := withS (fun s =>
  let h := rH (rl s) in let r := rR (rl s) in
  reset h r ;;
  upd (fun s => set_rl (set_rOut (pendAct s) (rl s)) s) ;;
  (if (h =? initial_height) && (r =? 0) then
     updr (fun l => set_rPFNVS genesis_vs (set_rPFASH genesis_ash (set_rPBH genesis_bh l)))
   else
     match fstore_get (fStore s) (sub64 h 1) with
     | None => stop FHalt
     | Some f => updr (fun l => set_rPBH (f_bh f) (set_rPFNVS (f_vs f) (set_rPFASH (f_ash f) (set_rVRV (Some v) l))))
     end) ;;
  withS (fun s =>
    let phs := reject_mismatched (rl s) (v_phs v) in
    (* initializeRLC: suppress a second proposal *)
    (if signer s then
       if existsb ph_mine phs then updr (set_rPropCh false) ;; ret
       else ret
     else ret) ;;
    withS (fun s =>
      let stored := if signer s && rPropCh (rl s) then ra_ph (cur_ra s) else None in
      match stored with
      | Some d =>
          updr (set_rPropCh false) ;;
          emit (fun eh er => OEmitPH eh er d) ;;
          ret
      | None => ret
      end ;;
      let phs' := match stored with
                  | Some d => phs ++ [mkPh [255] (rPFASH (rl s)) (rCurVS (rl s)) (rPFNVS (rl s)) d true]
                  | None => phs end in
      let v' := mkView (v_h v) (v_r v) (v_ver v) (v_vs v) phs' (v_pcp_hash v) (v_pcp_vs v) in
      enter_round (v_h v) (v_r v) FHalt ;;
      begin_round_live v'))).

Definition mark_catching_up (l : rlc) : rlc := set_rPropCh false (set_rPvCh false (set_rPcCh false l)).

Definition init_after_ch (bh : hash) (ch_h pr : N) : M := withS (fun s =>
  reset (rH (rl s)) (rR (rl s)) ;;
  finalize_req ch_h pr bh).

(** advance, second half *)
Definition advance_after_vrv (v : view) : M :=
  upd (fun s => set_rl (set_rOut (pendAct s) (rl s)) s) ;;
  enter_round (v_h v) (v_r v) (FPanic P_advance_enterRound) ;;
  begin_round_live v.

Definition advance_after_ch (bh : hash) (ch_h pr : N) : M :=
  updr mark_catching_up ;;
  finalize_req ch_h pr bh.

(** ** One event *)
(** What the harness (the scripted mirror/driver/strategy/timer) can deliver in a state; mirrors
    harness/sm/main.go. *)
Definition idle_live (s : sm) : bool :=
  match run s with Idle => liveSeen s | _ => false end.
Definition started (s : sm) : bool :=
  match run s with NotStarted | Panicked _ | Wedged => false | _ => true end.
Definition awaiting_re (s : sm) : bool :=
  match run s with AwaitInit | AwaitAdv _ => true | _ => false end.

Definition deliverable (s : sm) (e : event) : bool :=
  match e with
  | EvStart => match run s with NotStarted => true | _ => false end
  | EvStop => started s
  | EvRERespVRV _ => awaiting_re s && match cm s with None => true | Some _ => false end
  | EvRERespCH _ _ _ => awaiting_re s
  | EvView _ _ => idle_live s
  | EvTimer => idle_live s && match hTimer s with Some _ => true | None => false end
  | EvAnswer _ _ => started s && match cm s with Some _ => true | None => false end
  | EvProposal _ => idle_live s && ((propOut s =? 1) || (propOut s =? 2))
  | EvFinResp _ _ _ _ _ =>
      match run s with Idle => match finReq s with Some _ => true | None => false end | _ => false end
  | EvHeightCommitted => idle_live s && hcOpen s
  | EvBlockData h _ _ => idle_live s && negb (h =? 0)
  | EvArmEnterErr => started s
  end.

(** Finish a handler run: flow -> run state and terminal outputs. [k] = pending tail to run when a
    resumed advance completes. *)
Definition finish (r : sm * list out * flow) : sm * list out :=
  let '(s, o, f) := r in
  match f with
  | Go => (set_run Idle s, o)
  | Susp => (match run s with AwaitAdv _ | AwaitInit => s | _ => set_run (AwaitAdv None) s end, o)
  | FHalt => (set_run Halted s, o ++ [OHalt])
  | FPanic n => (set_run (Panicked n) s, o ++ [OPanic n])
  | FBlocked => (set_run Wedged s, o ++ [OBlocked])
  end.

(** resume of a suspended advance; afterwards the pending tail of handleViewUpdate runs *)
Definition resume_adv (m : M) (tail : option (view * option (N * N))) : M := fun s =>
  let '(s1, o1, f) := m (set_run Idle s) in
  match f with
  | Go => match tail with
          | None => (s1, o1, Go)
          | Some (v, ja) => let '(s2, o2, f2) := view_tail v ja s1 in (s2, o1 ++ o2, f2)
          end
  | Susp => (set_run (AwaitAdv tail) s1, o1, Susp)
  | _ => (s1, o1, f)
  end.

Definition is_ch_view (v : view) : bool := v_h v =? 0.

Definition volatile_reset (s : sm) : sm :=
  mkSm NotStarted rlc0 0 None 0 false None false None false (signer s) None (aStore s) (fStore s) (sStore s) 0.

Definition dispatch (s : sm) (e : event) : sm * list out :=
  match e with
  | EvStart =>
      let '(s1, o, f) := start_up s in
      match f with
      | Susp => (set_run AwaitInit s1, o)
      | _ => finish (s1, o, f)
      end
  | EvStop => (volatile_reset s, [])
  | EvRERespVRV v =>
      match run s with
      | AwaitInit =>
          if is_ch_view v then finish (init_after_ch [] 0 0 (set_run Idle s))
          else finish (init_after_vrv v (set_run Idle s))
      | AwaitAdv tail =>
          if is_ch_view v then finish (resume_adv (advance_after_ch [] 0 0) tail s)
          else finish (resume_adv (advance_after_vrv v) tail s)
      | _ => (s, [])
      end
  | EvRERespCH bh h pr =>
      match run s with
      | AwaitInit => finish (init_after_ch bh h pr (set_run Idle s))
      | AwaitAdv tail => finish (resume_adv (advance_after_ch bh h pr) tail s)
      | _ => (s, [])
      end
  | EvView v ja => finish (handle_view_update v ja s)
  | EvTimer =>
      let s1 := set_hTimer None s in
      match rTimer (rl s1) with
      | Some _ => finish (handle_timer_elapsed s1)
      | None => (s1, [])
      end
  | EvAnswer kind t =>
      match cm s with
      | None => (s, [])
      | Some (ck, g, open) =>
          let s1 := set_cm None s in
          if (kind =? 1) && (ck =? K_consider) then (s1, [])     (* ErrProposedBlockChoiceNotReady: nothing is sent *)
          else if negb open then finish (s1, [], FBlocked)        (* send on a nil result channel *)
          else
            let live := match run s1 with Idle => true | _ => false end in
            let is_pc := ck =? K_decide in
            let ch_open := if is_pc then rPcCh (rl s1) else rPvCh (rl s1) in
            if live && (g =? gen s1) && ch_open then
              if kind =? 0 then
                if is_pc then finish ((record_precommit t ;; updr (set_rPcCh false)) s1)
                else finish ((record_prevote t ;; updr (set_rPvCh false)) s1)
              else finish (s1, [], FHalt)                          (* he.Err != nil *)
            else (s1, [])
      end
  | EvProposal d =>
      if propOut s =? 1 then
        finish ((record_proposed_header d ;; updr (set_rPropCh false) ;; upd (set_propOut 2)) s)
      else (set_propOut 3 s, [])
  | EvFinResp h r bh vs ash =>
      match finReq s with
      | None => (s, [])
      | Some (g, _, _, _) =>
          let s1 := set_finReq None s in
          if (g =? gen s1) && rFinCh (rl s1) then
            match rVRV (rl s1) with
            | None => finish ((updr (set_rS StepAwaitingFinalization) ;; handle_finalization h r bh vs ash) s1)
            | Some _ => finish (handle_finalization h r bh vs ash s1)
            end
          else (s1, [])
      end
  | EvHeightCommitted =>
      let s1 := set_hcOpen false s in
      if rHC (rl s1) then finish (handle_height_committed s1) else (s1, [])
  | EvBlockData h r d => finish (handle_block_data h r d s)
  | EvArmEnterErr => (set_enterErr true s, [])
  end.

Definition step (s : sm) (e : event) : sm * list out :=
  if deliverable s e then
    let '(s1, o) := dispatch (set_pend 0 s) e in
    (* a quiescent point with the kernel idle in handleLiveEvent has been observed (barrier accepted),
       except right after a committed-header response in a life that was never seen live *)
    let seen := liveSeen s1 ||
      (match run s1, rVRV (rl s1) with
       | Idle, Some _ => match e with EvRERespCH _ _ _ => false | EvRERespVRV v => negb (is_ch_view v) | EvStop => false | _ => true end
       | _, _ => false end) in
    (set_liveSeen seen s1, o)
  else (s, [OUndeliverable]).

Fixpoint run_events (s : sm) (es : list event) : list (list out) :=
  match es with
  | [] => []
  | e :: es' => let '(s1, o) := step s e in o :: run_events s1 es'
  end.

Fixpoint final_state (s : sm) (es : list event) : sm :=
  match es with
  | [] => s
  | e :: es' => final_state (fst (step s e)) es'
  end.
