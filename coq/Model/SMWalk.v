(** Generator of event sequences by walking the model (no proofs). All randomness comes from the
    list of numbers supplied by the check (SplitMix64 of VERIF_SEED); every step consumes 4 numbers.
    Events the harness could not deliver and events that would block on the held strategy call
    (timing residue) are never generated. *)
From Coq Require Import List NArith String Bool.
From GV Require Import Base.Ints Gen.Math Gen.StepSM Model.StateMachine Model.SMWire.
Import ListNotations.
Local Open Scope N_scope.

Fixpoint map_add (m : list (list N * N)) (k : list N) (d : N) : list (list N * N) :=
  match m with
  | [] => [(k, d)]
  | (k', v) :: m' => if bytes_eqb k' k then (k', v + d) :: m' else (k', v) :: map_add m' k d
  end.
Fixpoint most_voted (m : list (list N * N)) (bk : list N) (bp : N) : list N :=
  match m with
  | [] => bk
  | (k, v) :: m' =>
      if (bp <? v) || ((bp =? v) && bytes_ltb k bk) then most_voted m' k v else most_voted m' bk bp
  end.

Definition vs_empty (av : N) : vote_summary := mk_vote_summary av 0 0 [] [] [] [].
Definition view_empty (h r : N) : view := mkView h r 1 (vs_empty 40) [] [] 0.

Definition add_prevote (s : vote_summary) (k : list N) (d : N) : vote_summary :=
  if vote_summary_AvailablePower s <? vote_summary_TotalPrevotePower s + d then s else
  let m := map_add (vote_summary_PrevoteBlockPower s) k d in
  mk_vote_summary (vote_summary_AvailablePower s) (vote_summary_TotalPrevotePower s + d)
    (vote_summary_TotalPrecommitPower s) m (vote_summary_PrecommitBlockPower s)
    (most_voted m [] 0) (vote_summary_MostVotedPrecommitHash s).
Definition add_precommit (s : vote_summary) (k : list N) (d : N) : vote_summary :=
  if vote_summary_AvailablePower s <? vote_summary_TotalPrecommitPower s + d then s else
  let m := map_add (vote_summary_PrecommitBlockPower s) k d in
  mk_vote_summary (vote_summary_AvailablePower s) (vote_summary_TotalPrevotePower s)
    (vote_summary_TotalPrecommitPower s + d) (vote_summary_PrevoteBlockPower s) m
    (vote_summary_MostVotedPrevoteHash s) (most_voted m [] 0).

Definition with_vs (v : view) (s : vote_summary) : view :=
  mkView (v_h v) (v_r v) (v_ver v) s (v_phs v) (v_pcp_hash v) (v_pcp_vs v).
Definition with_ver (v : view) (n : N) : view :=
  mkView (v_h v) (v_r v) n (v_vs v) (v_phs v) (v_pcp_hash v) (v_pcp_vs v).
Definition add_ph (v : view) (p : ph) : view :=
  if hash_in (ph_hash p) (map ph_hash (v_phs v)) then v else
  mkView (v_h v) (v_r v) (v_ver v) (v_vs v) (v_phs v ++ [p]) (v_pcp_hash v) (v_pcp_vs v).

(** one growth step of a view; [l] supplies the values a good proposed header must carry *)
Definition grow (l : rlc) (c : N) (v : view) : view :=
  let good (i : N) (mine : bool) := mkPh [i] (rPFASH l) (rCurVS l) (rPFNVS l) [100 + i] mine in
  match c mod 16 with
  | 0 => with_vs v (add_prevote (v_vs v) [] 10)
  | 1 | 2 => with_vs v (add_prevote (v_vs v) [7] 10)
  | 3 => with_vs v (add_prevote (v_vs v) [8] 10)
  | 4 => with_vs v (add_precommit (v_vs v) [] 10)
  | 5 | 6 => with_vs v (add_precommit (v_vs v) [7] 10)
  | 7 => with_vs v (add_precommit (v_vs v) [8] 10)
  | 8 | 9 => add_ph v (good 7 false)
  | 10 => add_ph v (good 8 false)
  | 11 => add_ph v (mkPh [9] [99] (rCurVS l) (rPFNVS l) [109] false)
  | 12 => with_vs v (add_prevote (v_vs v) [7] 20)
  | 13 => with_vs v (add_precommit (v_vs v) [7] 20)
  | 14 => add_ph v (good 6 true)
  | _ => with_vs v (add_precommit (add_prevote (v_vs v) [7] 10) [7] 10)
  end.

(** the header the state machine re-sent from its action store at start-up carries a real 32-byte hash
    that the numeric wire encoding cannot name (id 255): views generated later do not contain it *)
Definition strip_opaque (v : view) : view :=
  mkView (v_h v) (v_r v) (v_ver v) (v_vs v)
         (filter (fun p => negb (bytes_eqb (ph_hash p) [255])) (v_phs v)) (v_pcp_hash v) (v_pcp_vs v).

Fixpoint grow_n (l : rlc) (n : nat) (c : N) (v : view) : view :=
  match n with
  | O => v
  | S n' => grow_n l n' (c / 16) (grow l c v)
  end.

(** previous commit proof parameters that finalize for the current state *)
Definition with_pcp (l : rlc) (c : N) (v : view) : view :=
  if rH l <=? 1 then v else
  let '(ph, pvs) := match c mod 5 with
                    | 0 => ([], 0)
                    | 1 => ([9], rPrevVS l)
                    | _ => (rPBH l, rPrevVS l)
                    end in
  mkView (v_h v) (v_r v) (v_ver v) (v_vs v) (v_phs v) ph pvs.

Definition rep {A} (n : N) (x : A) : list (N * A) := [(n, x)].
Definition one {A} (l : list A) : list (N * A) := map (fun x => (1, x)) l.

Definition echo_fin (s : sm) (vs : N) (ash : N) : list (N * event) :=
  match finReq s with
  | Some (_, h, r, bh) => [(1, EvFinResp h r bh vs [ash])]
  | None => []
  end.

Definition candidates (s : sm) (c1 c2 c3 : N) : list (N * event) :=
  let l := rl s in
  let held := match cm s with Some _ => true | None => false end in
  let answers :=
    if held then rep 3 (EvAnswer 0 [7]) ++ one [EvAnswer 0 []; EvAnswer 0 [8]] ++ rep 2 (EvAnswer 1 [])
                 ++ (if c3 mod 23 =? 0 then one [EvAnswer 2 []] else [])
    else [] in
  match run s with
  | NotStarted => one [EvStart]
  | AwaitInit | AwaitAdv _ =>
      let fresh := with_pcp l c3 (grow_n l (N.to_nat (c2 mod 7)) c1 (view_empty (rH l) (rR l))) in
      rep 8 (EvRERespVRV fresh)
      ++ one [EvRERespCH [7] (rH l) (if c2 mod 2 =? 0 then rR l else c2 mod 3)]
      ++ (if c3 mod 29 =? 0 then one [EvRERespVRV (view_empty (rH l + 1) 0); EvArmEnterErr] else [])
      ++ answers ++ (if c3 mod 17 =? 0 then one [EvStop] else [])
  | Idle =>
      match rVRV l with
      | None => rep 6 (EvFinResp (rH l) (rR l) [7] 15 [c1 mod 3 + 2]) ++ echo_fin s 15 2 ++ echo_fin s 14 3
                ++ (if c3 mod 7 =? 0 then one [EvStop; EvFinResp (rH l) (rR l) [7] 0 [2]] else [])
      | Some cur =>
          let nv := with_ver (grow_n l (N.to_nat (1 + c2 mod 2)) c1 (strip_opaque cur)) (v_ver cur + 1) in
          let nv := if (v_h nv =? rH l) && (v_r nv =? rR l) then nv else view_empty (rH l) (rR l) in
          rep 10 (EvView nv None)
          ++ (if c3 mod 11 =? 0 then one [EvView nv (Some (rH l, rR l + 1 + c2 mod 2)); EvView (view_empty 0 0) (Some (rH l, rR l + 1))] else [])
          ++ (if c3 mod 31 =? 0 then one [EvView (with_ver nv (v_ver cur)) None; EvView (view_empty (rH l) (rR l + 1)) None;
                                        EvView (view_empty 0 0) None; EvView nv (Some (rH l, rR l)); EvView nv (Some (rH l + 1, 0));
                                        EvView (with_vs nv (vs_empty 0)) None] else [])
          ++ (match hTimer s with Some _ => rep 4 EvTimer | None => [] end)
          ++ answers
          ++ (if propOut s =? 1 then rep 2 (EvProposal [50 + c2 mod 3]) else [])
          ++ (if (propOut s =? 2) && (c3 mod 13 =? 0) then one [EvProposal [60]] else [])
          ++ rep 2 (EvFinResp (rH l) (rR l) (match finReq s with Some (_, _, _, bh) => bh | None => [7] end)
                              (if c2 mod 5 =? 0 then 14 else 15) [c1 mod 3 + 2])
          ++ echo_fin s 15 2
          ++ (if c3 mod 19 =? 0 then one [EvFinResp (rH l) (rR l + 1) [7] 15 [2]; EvFinResp (rH l) (rR l) [7] 0 [2]] else [])
          ++ (if hcOpen s && (((6 <=? rS l) || (c3 mod 9 =? 0))) then one [EvHeightCommitted] else [])
          ++ one [EvBlockData (rH l) (rR l) [107 + c2 mod 2]]
          ++ (if c3 mod 13 =? 0 then one [EvStop] else [])
          ++ (if c3 mod 37 =? 0 then one [EvArmEnterErr; EvBlockData (rH l) (rR l + 1) [107]] else [])
      end
  | Halted => one [EvStop] ++ answers
  | Panicked _ | Wedged => []
  end.

(** one evaluation of [step] decides whether a candidate is kept: it must be deliverable, must not
    block on the held strategy call, and events that make the state machine panic (they end the trace
    and cost a harness restart) are kept in one step out of four only *)
Definition keep (s : sm) (c3 : N) (e : event) : bool :=
  deliverable s e &&
  (let '(s1, o) := step s e in
   negb (existsb (fun x => match x with OBlocked => true | _ => false end) o) &&
   ((c3 mod 4 =? 0) || match run s1 with Panicked _ => false | _ => true end)).

Fixpoint pick_weighted (cs : list (N * event)) (k : N) : option event :=
  match cs with
  | [] => None
  | (w, e) :: cs' => if k <? w then Some e else pick_weighted cs' (k - w)
  end.

Definition pick (s : sm) (c0 c1 c2 c3 : N) : option event :=
  let cs := filter (fun we => keep s c3 (snd we)) (candidates s c1 c2 c3) in
  let total := fold_left (fun a we => a + fst we) cs 0 in
  if total =? 0 then None else pick_weighted cs (c0 mod total).

Fixpoint walk (s : sm) (cs : list N) (fuel : nat) : list event :=
  match fuel, cs with
  | S f, c0 :: c1 :: c2 :: c3 :: cs' =>
      match pick s c0 c1 c2 c3 with
      | None => []
      | Some e => e :: walk (fst (step s e)) cs' f
      end
  | _, _ => []
  end.

Definition gen_trace (sg : bool) (cs : list N) : list event := walk (sm0 sg) cs (List.length cs).

(** What the check prints for a generated trace: encoded events and the projected model outputs. *)
Definition trace_report (sg : bool) (cs : list N) : list (list N * (list (list N) * list (list N))) :=
  let es := gen_trace sg cs in
  combine (map enc_event es) (map project (run_events (sm0 sg) es)).
