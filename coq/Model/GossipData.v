(** C17 - data seen by and sent by the gossip strategy (tm/tmgossip/chattystrategy.go).
    Executable definitions only; no proofs.

    Abstraction (projection used by the harness, see harness/c17/main.go):
    - a proposed header is named by a number (the harness builds a distinct
      tmconsensus.ProposedHeader per number and reads the number back from what is broadcast);
    - a block hash (vote target) is a number, 0 = the nil block "";
    - a signature proof for one target (gcrypto.CommonMessageSignatureProof) is its public-key
      hash (a number, 0 = the real hash of the validator set) and its AsSparse() image:
      the list of (key index, signature value) in key order. Signature values are numbers
      (the harness maps real ed25519 signature bytes to them one-to-one);
    - a Go map from block hash to proof is an association list. *)
From Coq Require Import List NArith Bool.
Import ListNotations.
Local Open Scope N_scope.

Definition header := N.
Definition sparse := list (N * N).              (* (key index, signature value) *)

Record proof := mkProof { p_keyhash : N; p_sigs : sparse }.
Definition proofmap := list (N * proof).        (* block hash -> proof *)

(** tmconsensus.VersionedRoundView, restricted to what the strategy reads. *)
Record view := mkView {
  v_height : N;
  v_round : N;
  v_phs : list header;
  v_prevotes : proofmap;
  v_precommits : proofmap }.

(** tmelink.NetworkViewUpdate ([None] = nil pointer). *)
Record update := mkUpdate {
  u_committing : option view;
  u_voting : option view;
  u_next : option view;
  u_nil : option view }.

Inductive kind := Prevote | Precommit.

(** One value sent on a ConsensusBroadcaster.Outgoing* channel:
    a ProposedHeader, or a Prevote/PrecommitSparseProof
    (height, round, PubKeyHash, block hash -> sparse signatures). *)
Inductive bcast :=
| BHeader (h : header)
| BVotes (k : kind) (height round keyhash : N) (body : list (N * sparse)).

(** An individual vote signature with everything that identifies it. *)
Record vote := mkVote {
  vk : kind; vh : N; vr : N; vkh : N; vt : N; vs : N; vsig : N }.

Definition kind_eqb (a b : kind) : bool :=
  match a, b with Prevote, Prevote => true | Precommit, Precommit => true | _, _ => false end.

Definition vote_eqb (a b : vote) : bool :=
  kind_eqb (vk a) (vk b) && N.eqb (vh a) (vh b) && N.eqb (vr a) (vr b) && N.eqb (vkh a) (vkh b) &&
  N.eqb (vt a) (vt b) && N.eqb (vs a) (vs b) && N.eqb (vsig a) (vsig b).

Definition pm_of (k : kind) (v : view) : proofmap :=
  match k with Prevote => v_prevotes v | Precommit => v_precommits v end.

(** Content of a view. *)
Definition sparse_votes (k : kind) (h r kh t : N) (sp : sparse) : list vote :=
  map (fun e => mkVote k h r kh t (fst e) (snd e)) sp.

Definition view_votes (k : kind) (v : view) : list vote :=
  flat_map (fun e => sparse_votes k (v_height v) (v_round v) (p_keyhash (snd e)) (fst e) (p_sigs (snd e)))
           (pm_of k v).

Definition view_all_votes (v : view) : list vote := view_votes Prevote v ++ view_votes Precommit v.

Definition opt_list {A B} (f : A -> list B) (o : option A) : list B :=
  match o with Some a => f a | None => [] end.

(** What an update contains: the three standard views in full, and the precommits of the
    nil-voted round (the property asks only for those). *)
Definition update_headers (u : update) : list header :=
  opt_list v_phs (u_committing u) ++ opt_list v_phs (u_voting u) ++ opt_list v_phs (u_next u).

Definition update_votes (u : update) : list vote :=
  opt_list view_all_votes (u_committing u) ++ opt_list (view_votes Precommit) (u_nil u) ++
  opt_list view_all_votes (u_voting u) ++ opt_list view_all_votes (u_next u).

(** Content of a broadcast. *)
Definition bcast_headers (b : bcast) : list header :=
  match b with BHeader h => [h] | BVotes _ _ _ _ _ => [] end.

Definition bcast_votes (b : bcast) : list vote :=
  match b with
  | BHeader _ => []
  | BVotes k h r kh body => flat_map (fun e => sparse_votes k h r kh (fst e) (snd e)) body
  end.

(** A peer that receives broadcasts and merges them: what it knows. *)
Definition peer_headers (bs : list bcast) : list header := flat_map bcast_headers bs.
Definition peer_votes (bs : list bcast) : list vote := flat_map bcast_votes bs.

(** Well-formedness the code relies on without checking it up front:
    all proofs of one vote map are over the same validator set (same public-key hash);
    otherwise AsSparse() fails and the strategy goroutine returns. *)
Definition kh_consistent (pm : proofmap) : bool :=
  match pm with
  | [] => true
  | e0 :: _ => forallb (fun e => N.eqb (p_keyhash (snd e)) (p_keyhash (snd e0))) pm
  end.

Definition wf_view (v : view) : bool := kh_consistent (v_prevotes v) && kh_consistent (v_precommits v).

Definition opt_bool {A} (f : A -> bool) (o : option A) : bool :=
  match o with Some a => f a | None => true end.

Definition wf_update (u : update) : bool :=
  opt_bool wf_view (u_committing u) && opt_bool wf_view (u_voting u) &&
  opt_bool wf_view (u_next u) && opt_bool wf_view (u_nil u).

(** The engine's first update carries the voting view (the kernel panics otherwise). *)
Definition wf_seq (us : list update) : bool :=
  match us with
  | [] => true
  | u0 :: _ => match u_voting u0 with Some _ => true | None => false end
  end && forallb wf_update us.

(** Boolean equality of observations (used to compare model and implementation). *)
Fixpoint sparse_obs_eqb (a b : sparse) : bool :=
  match a, b with
  | [], [] => true
  | (i, s) :: a', (j, t) :: b' => N.eqb i j && N.eqb s t && sparse_obs_eqb a' b'
  | _, _ => false
  end.

Fixpoint body_eqb (a b : list (N * sparse)) : bool :=
  match a, b with
  | [], [] => true
  | (t, x) :: a', (u, y) :: b' => N.eqb t u && sparse_obs_eqb x y && body_eqb a' b'
  | _, _ => false
  end.

Definition bcast_eqb (a b : bcast) : bool :=
  match a, b with
  | BHeader x, BHeader y => N.eqb x y
  | BVotes k h r kh body, BVotes k' h' r' kh' body' =>
      kind_eqb k k' && N.eqb h h' && N.eqb r r' && N.eqb kh kh' && body_eqb body body'
  | _, _ => false
  end.

Fixpoint list_eqb {A} (eqb : A -> A -> bool) (a b : list A) : bool :=
  match a, b with
  | [], [] => true
  | x :: a', y :: b' => eqb x y && list_eqb eqb a' b'
  | _, _ => false
  end.

Definition outs_eqb (a b : list (list bcast)) : bool := list_eqb (list_eqb bcast_eqb) a b.
