(** Model of tm/tmconsensus/tmconsensustest/simplesignaturescheme.go (SimpleSignatureScheme):
    the exact bytes written by the three signing-content writers, as returned by
    tmconsensus.PrevoteSignBytes / PrecommitSignBytes / ProposalSignBytes.
    Writing to a bytes.Buffer cannot fail, so the error branches of the Go code are unreachable
    from those three functions and are not modelled. Executable definitions only. *)
From Coq Require Import List NArith String Bool.
From GV Require Import Base.Ints Model.TextFmt Model.HashScheme.
Import ListNotations.
Local Open Scope N_scope.
Local Open Scope string_scope.

(** tmconsensus.VoteTarget; [vt_block_hash = []] is the nil vote. *)
Record vote_target := { vt_height : N; vt_round : N; vt_block_hash : list N }.

(** WritePrevoteSigningContent *)
Definition prevote_sign_bytes (vt : vote_target) : list N :=
  match vt_block_hash vt with
  | [] =>
      s2b "NIL PREVOTE:" ++ nl ++
      s2b "Height=" ++ dec (vt_height vt) ++ nl ++
      s2b "Round=" ++ dec (vt_round vt) ++ nl
  | _ :: _ =>
      s2b "PREVOTE:" ++ nl ++
      s2b "Height=" ++ dec (vt_height vt) ++ nl ++
      s2b "Round=" ++ dec (vt_round vt) ++ nl ++
      s2b "BlockHash=" ++ hex (vt_block_hash vt) ++ nl
  end.

(** WritePrecommitSigningContent *)
Definition precommit_sign_bytes (vt : vote_target) : list N :=
  match vt_block_hash vt with
  | [] =>
      s2b "NIL PRECOMMIT:" ++ nl ++
      s2b "Height=" ++ dec (vt_height vt) ++ nl ++
      s2b "Round=" ++ dec (vt_round vt) ++ nl
  | _ :: _ =>
      s2b "PRECOMMIT:" ++ nl ++
      s2b "Height=" ++ dec (vt_height vt) ++ nl ++
      s2b "Round=" ++ dec (vt_round vt) ++ nl ++
      s2b "BlockHash=" ++ hex (vt_block_hash vt) ++ nl
  end.

(** WriteProposalSigningContent(w, h, round, pbAnnotations): only five header fields are used. *)
Definition proposal_sign_bytes (h : header) (round : N) (pb : annotations) : list N :=
  s2b "PROPOSAL:" ++ nl ++
  s2b "Height=" ++ dec (h_height h) ++ nl ++
  s2b "Round=" ++ dec round ++ nl ++
  s2b "PrevBlockHash=" ++ hex (h_prev_block_hash h) ++ nl ++
  s2b "PrevAppStateHash=" ++ hex (h_prev_app_state_hash h) ++ nl ++
  s2b "DataID=" ++ hex (h_data_id h) ++ nl ++
  ser_annotation "UserAnnotation=" (an_user pb) ++
  ser_annotation "DriverAnnotation=" (an_driver pb).

(** Everything a validator signs. *)
Inductive vote_kind := Prevote | Precommit.

Inductive sign_target :=
| SignVote (k : vote_kind) (vt : vote_target)
| SignProposal (h : header) (round : N) (pb : annotations).

Definition vote_sign_bytes (k : vote_kind) (vt : vote_target) : list N :=
  match k with Prevote => prevote_sign_bytes vt | Precommit => precommit_sign_bytes vt end.

Definition sign_bytes (t : sign_target) : list N :=
  match t with
  | SignVote k vt => vote_sign_bytes k vt
  | SignProposal h r pb => proposal_sign_bytes h r pb
  end.
