(** C13 / C01 - executable model of the previous-commit-proof hand-over between a proposer and its peers:

    - [cpf_finalize]: tm/tmengine/internal/tmstate/internal/tsi/commitprooffinalizer.go,
      CommitProofFinalizer.Finalize (the state machine converts the precommit proofs of the previous
      height into the finalized commit proof of the header it proposes), over the simple proof scheme
      of Model/SimpleProof.v.  One Go branch = one model branch; the two error returns per block are
      numbered (1 = "no signatures", 2 = "invalid signatures" for the main block, 3 / 4 for another block).
    - [cp_receive]: tm/tmengine/internal/tmmirror/mirror.go, HandleProposedHeader, the part that turns the
      PrevCommitProof of a received header back into a FinalizedCommonMessageSignatureProof and calls
      ValidateFinalizedProof.

    [sb] is PrecommitSignBytes for the fixed height and the proof's round as a function of the block hash
    (a Section variable: nothing is assumed about it here).  Go maps are association lists; the loops
    run over them in list order, so a theorem over all lists covers every Go map iteration order.
    No proofs here. *)
From Coq Require Import List NArith ZArith String Bool.
From GV Require Import Base.Ints Model.SimpleProofBase Model.SimpleProof.
Import ListNotations.
Local Open Scope string_scope.
Local Open Scope N_scope.

(** Go map with byte-string keys: write / read with the zero value for a missing key. *)
Fixpoint aset {V} (m : list (list N * V)) (k : list N) (v : V) : list (list N * V) :=
  match m with
  | [] => [(k, v)]
  | (k', v') :: t => if bytes_eqb k' k then (k, v) :: t else (k', v') :: aset t k v
  end.
Fixpoint aget {V} (d : V) (m : list (list N * V)) (k : list N) : V :=
  match m with
  | [] => d
  | (k', v) :: t => if bytes_eqb k' k then v else aget d t k
  end.

(** tmconsensus.CommitProof *)
Record commit_proof := mk_cp {
  cp_round : N;
  cp_pkh : list N;
  cp_proofs : list (list N * list sparse_entry)
}.

Section CPF.
Variable sb : list N -> list N.

(** CMSPScheme.New(content, pubKeys, p.PubKeyHash) + MergeSparse + the two flag checks. *)
Definition cpf_one (keys pkh msg : list N) (sigs : list sparse_entry) : res (proof + N) :=
  bind (new_proof msg keys pkh) (fun p0 =>
  bind (merge_sparse p0 (pkh, sigs)) (fun '(p1, fl) =>
  if negb (fl_increased fl) then Ok (inr 1)
  else if negb (fl_all_valid fl) then Ok (inr 2)
  else Ok (inl p1))).

(** The loop over p.Proofs.  [hbs] is hashesBySignContent: nil (None) unless len(p.Proofs) > 1;
    an assignment into a nil map panics. *)
Fixpoint cpf_loop (keys pkh committed : list N) (es : list (list N * list sparse_entry))
         (rest : list proof) (hbs : option (list (list N * list N)))
  : res ((list proof * option (list (list N * list N))) + N) :=
  match es with
  | [] => Ok (inl (rest, hbs))
  | (bh, sigs) :: t =>
      if bytes_eqb bh committed then cpf_loop keys pkh committed t rest hbs
      else
        match hbs with
        | None => Panic "CommitProofFinalizer.Finalize:86"
        | Some m =>
            bind (cpf_one keys pkh (sb bh) sigs) (fun r =>
            match r with
            | inr e => Ok (inr (e + 2))
            | inl p => cpf_loop keys pkh committed t (rest ++ [p]) (Some (aset m (sb bh) bh))
            end)
        end
  end.

(** outProofs: the main entry, then one entry per element of finalized.Rest under the block hash
    recorded for its sign content. *)
Definition cpf_out (committed : list N) (f : fin) (hbs : option (list (list N * list N)))
  : list (list N * list sparse_entry) :=
  fold_left (fun o e => aset o (match hbs with Some m => aget [] m (fst e) | None => [] end) (snd e))
            (f_rest f) [(committed, f_main_sigs f)].

Definition cpf_finalize (keys committed : list N) (p : commit_proof) : res (commit_proof + N) :=
  bind (cpf_one keys (cp_pkh p) (sb committed) (aget [] (cp_proofs p) committed)) (fun r =>
  match r with
  | inr e => Ok (inr e)
  | inl mp =>
      let hbs0 := if (1 <? List.length (cp_proofs p))%nat then Some [] else None in
      bind (cpf_loop keys (cp_pkh p) committed (cp_proofs p) [] hbs0) (fun r2 =>
      match r2 with
      | inr e => Ok (inr e)
      | inl (rest, hbs) =>
          Ok (inl (mk_cp (cp_round p) (cp_pkh p) (cpf_out committed (finalize mp rest) hbs)))
      end)
  end).

(** HandleProposedHeader: PrevCommitProof -> FinalizedCommonMessageSignatureProof + hashesBySignContent,
    then ValidateFinalizedProof with the previous validator set's keys. *)
Definition cp_receive (keys main_hash : list N) (cp : commit_proof)
  : res (option (list (list N * N)) * bool) :=
  let others := if (1 <? List.length (cp_proofs cp))%nat
                then filter (fun e => negb (bytes_eqb (fst e) main_hash)) (cp_proofs cp) else [] in
  let rest := fold_left (fun m e => aset m (sb (fst e)) (snd e)) others [] in
  let hashes := fold_left (fun m e => aset m (sb (fst e)) (fst e)) others [(sb main_hash, main_hash)] in
  validate_finalized
    (mk_fin keys (cp_pkh cp) (sb main_hash) (aget [] (cp_proofs cp) main_hash) rest) hashes.

End CPF.

Local Close Scope string_scope.
Local Open Scope list_scope.
(** Observations for the correspondence run (lists of numbers, the format harness/c13cpf prints):
    Finalize: [999] panic | [900 + min e 3] error | 0 round n {len bh.. nsigs {len id.. tok}*}* sorted by block hash;
    then 777 and the receiver: [999] | u 65535 (nil map) | u n {len bh.. mask}* sorted by block hash. *)
Definition obs_bytes (b : list N) : list N := N.of_nat (List.length b) :: b.

Definition obs_entry (tbl : list sigv) (e : list N * list sparse_entry) : list N :=
  obs_bytes (fst e) ++ N.of_nat (List.length (snd e)) ::
  flat_map (fun s : sparse_entry => obs_bytes (fst s) ++ [sig_token tbl (snd s) 0]) (snd e).

Definition obs_receive (r : res (option (list (list N * N)) * bool)) : list N :=
  match r with
  | Panic _ => [999]
  | Ok (None, u) => [b2n u; 65535]
  | Ok (Some l, u) =>
      b2n u :: N.of_nat (List.length l) ::
      flat_map (fun e : list N * N => obs_bytes (fst e) ++ [snd e]) (sort_by (fun e : list N * N => fst e) l)
  end.

Definition cpf_case_obs (sb : list N -> list N) (tbl : list sigv) (keys committed : list N) (p : commit_proof) : list N :=
  match cpf_finalize sb keys committed p with
  | Panic _ => [999]
  | Ok (inr e) => [900 + N.min e 3]
  | Ok (inl out) =>
      (0 :: cp_round out :: N.of_nat (List.length (cp_proofs out)) ::
       flat_map (obs_entry tbl) (sort_by (fun e : list N * list sparse_entry => fst e) (cp_proofs out)))
      ++ 777 :: obs_receive (cp_receive sb keys committed out)
  end.
