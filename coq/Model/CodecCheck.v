(** C14 - executable well-formedness predicates (the hypotheses of the round-trip theorems),
    canonical forms and the per-case checkers that the correspondence run evaluates with
    vm_compute inside coqc.  No lemmas here (deciders end in Defined: they are programs). *)
From Coq Require Import List NArith ZArith String Bool.
From GV Require Import Base.Ints Base.GoBytes Gen.Registry Model.CodecTypes Model.Codec Monitors.C14m.
Import ListNotations.
Local Open Scope N_scope.

(** * Well-formedness *)
Definition ctor_accepts_b (c : ctor) (b : list N) : bool :=
  match c with CtorAny _ => true | CtorLen _ n => N.eqb (N.of_nat (List.length b)) n end.

(** A key whose dynamic type is registered, under a name whose constructor builds that type
    and accepts the key's bytes. *)
Definition key_wf_b (r : registry) (k : pubkey) : bool :=
  match type_find (pk_type k) (by_type r) with
  | None => false
  | Some name =>
      match alist_find name (by_prefix r) with
      | None => false
      | Some c => N.eqb (ctor_tid c) (pk_type k) && ctor_accepts_b c (pk_bytes k)
      end
  end.

(** Registry sanity: names fit the prefix, do not end in NUL (Unmarshal trims those), and the
    constructor registered under a type's name builds that type. *)
Definition reg_wf_b (r : registry) : bool :=
  forallb (fun tn =>
    (List.length (snd tn) <=? prefix_size)%nat &&
    dec2b (bytes_dec (trim_right_zeros (pad_to prefix_size (snd tn))) (snd tn)) &&
    match alist_find (snd tn) (by_prefix r) with
    | Some c => N.eqb (ctor_tid c) (fst tn)
    | None => false
    end) (by_type r).

Definition validator_wf_b (r : registry) (v : validator) : bool :=
  match v_pub v with Some k => key_wf_b r k | None => false end.

(** PubKeys is the projection of Validators (nil and empty identified). *)
Definition valset_wf_b (r : registry) (vs : valset) : bool :=
  forallb (validator_wf_b r) (opt_list (vs_vals vs)) &&
  dec2b (list_eq_dec opubkey_dec (opt_list (vs_pubkeys vs)) (map v_pub (opt_list (vs_vals vs)))).

(** A Go map has unique keys. *)
Fixpoint nodup_keys_b (l : list (list N * gsigs)) : bool :=
  match l with
  | [] => true
  | kv :: l' => negb (existsb (bytes_eqb (fst kv)) (map fst l')) && nodup_keys_b l'
  end.
Definition pmap_wf_b (m : pmap) : bool := nodup_keys_b (pm_list m).

Definition header_wf_b (r : registry) (h : header) : bool :=
  valset_wf_b r (h_vs h) && valset_wf_b r (h_nvs h) && pmap_wf_b (cp_proofs (h_pcp h)).
Definition proposed_wf_b (r : registry) (p : proposed_header) : bool :=
  header_wf_b r (ph_header p) && match ph_pub p with None => true | Some k => key_wf_b r k end.
Definition committed_wf_b (r : registry) (c : committed_header) : bool :=
  header_wf_b r (ch_header c) && pmap_wf_b (cp_proofs (ch_proof c)).
Definition sparse_wf_b (p : sparse_proof) : bool := pmap_wf_b (sp_proofs p).
(** "Exactly one of the fields must be set" (tmcodec.ConsensusMessage). *)
Definition cmsg_wf_b (r : registry) (m : cmsg) : bool :=
  match cm_ph m, cm_pv m, cm_pc m with
  | Some p, None, None => proposed_wf_b r p
  | None, Some p, None => sparse_wf_b p
  | None, None, Some p => sparse_wf_b p
  | _, _, _ => false
  end.

(** * Canonical forms (maps sorted by key) for comparing with the harness output *)
Fixpoint insert_kv (e : list N * gsigs) (l : list (list N * gsigs)) : list (list N * gsigs) :=
  match l with
  | [] => [e]
  | x :: l' => if bytes_ltb (fst e) (fst x) then e :: x :: l' else x :: insert_kv e l'
  end.
Definition sort_kv (l : list (list N * gsigs)) := fold_right insert_kv [] l.
Definition canon_pmap (m : pmap) : pmap := option_map sort_kv m.
Definition canon_cp (p : commit_proof) : commit_proof :=
  mk_commit_proof (cp_round p) (cp_pkh p) (canon_pmap (cp_proofs p)).
Definition canon_header (h : header) : header :=
  mk_header (h_hash h) (h_prev h) (h_height h) (canon_cp (h_pcp h)) (h_vs h) (h_nvs h)
            (h_dataid h) (h_pash h) (h_user h) (h_driver h).
Definition canon_proposed (p : proposed_header) : proposed_header :=
  mk_proposed (canon_header (ph_header p)) (ph_round p) (ph_pub p) (ph_user p) (ph_driver p) (ph_sig p).
Definition canon_committed (c : committed_header) : committed_header :=
  mk_committed (canon_header (ch_header c)) (canon_cp (ch_proof c)).
Definition canon_sparse (p : sparse_proof) : sparse_proof :=
  mk_sparse (sp_height p) (sp_round p) (sp_pkh p) (canon_pmap (sp_proofs p)).
Definition canon_cmsg (m : cmsg) : cmsg :=
  mk_cmsg (option_map canon_proposed (cm_ph m)) (option_map canon_sparse (cm_pv m))
          (option_map canon_sparse (cm_pc m)).

Definition canon_jcp (j : jcommit_proof) : jcommit_proof :=
  mk_jcommit_proof (jcp_round j) (jcp_pkh j) (option_map sort_entries (jcp_commits j)).
Definition canon_jheader (j : jheader) : jheader :=
  mk_jheader (jh_hash j) (jh_prev j) (jh_height j) (canon_jcp (jh_pcp j)) (jh_vs j) (jh_nvs j)
             (jh_dataid j) (jh_pash j) (jh_user j) (jh_driver j).
Definition canon_jproposed (j : jproposed) : jproposed :=
  mk_jproposed (canon_jheader (jph_header j)) (jph_round j) (jph_pub j) (jph_sig j) (jph_user j) (jph_driver j).
Definition canon_jcommitted (j : jcommitted) : jcommitted :=
  mk_jcommitted (canon_jheader (jch_header j)) (canon_jcp (jch_proof j)).

(** * Deciders for whole values *)
Definition valset_dec : forall a b : valset, {a = b} + {a <> b}.
Proof.
  decide equality; try apply gbytes_dec.
  - decide equality. apply (list_eq_dec opubkey_dec).
  - decide equality. apply (list_eq_dec validator_dec).
Defined.
Definition commit_proof_dec : forall a b : commit_proof, {a = b} + {a <> b}.
Proof. decide equality; [apply pmap_dec | apply bytes_dec | apply N.eq_dec]. Defined.
Definition header_dec : forall a b : header, {a = b} + {a <> b}.
Proof.
  decide equality; try apply gbytes_dec; try apply valset_dec; try apply commit_proof_dec; apply N.eq_dec.
Defined.
Definition proposed_dec : forall a b : proposed_header, {a = b} + {a <> b}.
Proof.
  decide equality; try apply gbytes_dec; try apply header_dec; try apply opubkey_dec; apply N.eq_dec.
Defined.
Definition committed_dec : forall a b : committed_header, {a = b} + {a <> b}.
Proof. decide equality; [apply commit_proof_dec | apply header_dec]. Defined.
Definition sparse_dec : forall a b : sparse_proof, {a = b} + {a <> b}.
Proof. decide equality; try apply pmap_dec; try apply bytes_dec; apply N.eq_dec. Defined.
Definition cmsg_dec : forall a b : cmsg, {a = b} + {a <> b}.
Proof.
  decide equality; decide equality; try apply sparse_dec; apply proposed_dec.
Defined.

Definition jentry_dec : forall a b : jentry, {a = b} + {a <> b}.
Proof. decide equality; [apply gsigs_dec | apply gbytes_dec]. Defined.
Definition jvalidator_dec : forall a b : jvalidator, {a = b} + {a <> b}.
Proof. decide equality; [apply N.eq_dec | apply gbytes_dec]. Defined.
Definition jcp_dec : forall a b : jcommit_proof, {a = b} + {a <> b}.
Proof.
  decide equality; try apply gbytes_dec; try apply N.eq_dec.
  decide equality. apply (list_eq_dec jentry_dec).
Defined.
Definition jvalset_dec : forall a b : jvalset, {a = b} + {a <> b}.
Proof.
  decide equality; try apply gbytes_dec. decide equality. apply (list_eq_dec jvalidator_dec).
Defined.
Definition jheader_dec : forall a b : jheader, {a = b} + {a <> b}.
Proof.
  decide equality; try apply gbytes_dec; try apply jvalset_dec; try apply jcp_dec; apply N.eq_dec.
Defined.
Definition jproposed_dec : forall a b : jproposed, {a = b} + {a <> b}.
Proof. decide equality; try apply gbytes_dec; try apply jheader_dec; apply N.eq_dec. Defined.
Definition jcommitted_dec : forall a b : jcommitted, {a = b} + {a <> b}.
Proof. decide equality; [apply jcp_dec | apply jheader_dec]. Defined.
Definition jsparse_dec : forall a b : jsparse, {a = b} + {a <> b}.
Proof.
  decide equality; try apply gbytes_dec; try apply N.eq_dec.
  decide equality. apply (list_eq_dec jentry_dec).
Defined.

(** * Comparing outcomes: value (canonical form) / error / panic *)
Definition out_eqb {A} (eqb : A -> A -> bool) (model obs : res (option A)) : bool :=
  match model, obs with
  | Ok (Some a), Ok (Some b) => eqb a b
  | Ok None, Ok None => true
  | Panic _, Panic _ => true
  | _, _ => false
  end.
Definition res_eqb {A} (eqb : A -> A -> bool) (model obs : res A) : bool :=
  match model, obs with
  | Ok a, Ok b => eqb a b
  | Panic _, Panic _ => true
  | _, _ => false
  end.
Definition is_val {A} (o : res (option A)) : bool := match o with Ok (Some _) => true | _ => false end.

Definition b2n (b : bool) (w : N) : N := if b then w else 0.

(** Result code of a round-trip case:
    1 = round-trip outcome of the real codec equals the model's,
    2 = intermediate struct built by the real toJSON* equals the model's,
    4 = round-trip monitor holds on the real outcome (vacuous when the value is not well formed),
    8 = the value is well formed (the theorem's hypothesis),
   16 = the monitor holds on the model's outcome. *)
Definition rt_code {A J} (wf : bool) (mon : res (option A) -> bool)
    (veq : A -> A -> bool) (jeq : J -> J -> bool)
    (model : res (option A)) (mj : res J) (hook : res J) (obs : res (option A)) : N :=
  b2n (out_eqb veq model obs) 1 + b2n (res_eqb jeq mj hook) 2 +
  b2n (if wf then mon obs else true) 4 + b2n wf 8 + b2n (if wf then mon model else true) 16.

Definition eq_can {A} (dec : forall a b : A, {a = b} + {a <> b}) (can : A -> A) (a b : A) : bool :=
  dec2b (dec (can a) (can b)).

Definition chk_rt_header (r : registry) (v : header) (hook : res jheader) (obs : res (option header)) : N :=
  rt_code (header_wf_b r v) (c14_rt_header_mon v) (eq_can header_dec canon_header)
          (eq_can jheader_dec canon_jheader) (rt_header r v) (to_json_header r v) hook obs.
Definition chk_rt_proposed (r : registry) (v : proposed_header) (hook : res jproposed)
    (obs : res (option proposed_header)) : N :=
  rt_code (proposed_wf_b r v) (c14_rt_proposed_mon v) (eq_can proposed_dec canon_proposed)
          (eq_can jproposed_dec canon_jproposed) (rt_proposed r v) (to_json_proposed r v) hook obs.
Definition chk_rt_committed (r : registry) (v : committed_header) (hook : res jcommitted)
    (obs : res (option committed_header)) : N :=
  rt_code (committed_wf_b r v) (c14_rt_committed_mon v) (eq_can committed_dec canon_committed)
          (eq_can jcommitted_dec canon_jcommitted) (rt_committed r v) (to_json_committed r v) hook obs.
(** For sparse proofs the "hook" struct is the one json.Unmarshal produced from the real
    encoder's bytes (there is no conversion function to wrap: the code is inline). *)
Definition chk_rt_sparse (v : sparse_proof) (hook : res jsparse) (obs : res (option sparse_proof)) : N :=
  rt_code (sparse_wf_b v) (c14_rt_sparse_mon v) (eq_can sparse_dec canon_sparse)
          (fun a b => dec2b (jsparse_dec a b)) (Ok (Some (rt_sparse v))) (Ok (to_json_sparse v)) hook obs.
Definition chk_rt_cmsg (r : registry) (v : cmsg) (obs : res (option cmsg)) : N :=
  rt_code (cmsg_wf_b r v) (fun o => c14_rt_cmsg_mon v o && c14_variant_mon v o)
          (eq_can cmsg_dec canon_cmsg) (fun (_ _ : unit) => true) (rt_cmsg r v) (Ok tt) (Ok tt) obs.

(** Result code of a decode case (hostile stream):
    1 = outcome of the real Unmarshal* equals the model's on the struct json.Unmarshal produced,
    4 = no-panic monitor holds on the real outcome, 8 = the model decoded a value,
   16 = no-panic monitor holds on the model's outcome. *)
Definition dec_code {A} (veq : A -> A -> bool) (model obs : res (option A)) : N :=
  b2n (out_eqb veq model obs) 1 + 2 + b2n (c14_nopanic_mon obs) 4 + b2n (is_val model) 8 +
  b2n (c14_nopanic_mon model) 16.

Definition chk_dec_header r j obs := dec_code (eq_can header_dec canon_header) (to_header r j) obs.
Definition chk_dec_proposed r j obs := dec_code (eq_can proposed_dec canon_proposed) (to_proposed r j) obs.
Definition chk_dec_committed r j obs := dec_code (eq_can committed_dec canon_committed) (to_committed r j) obs.
Definition chk_dec_sparse j obs := dec_code (eq_can sparse_dec canon_sparse) (Ok (Some (to_sparse j))) obs.
Definition chk_dec_cmsg r j obs := dec_code (eq_can cmsg_dec canon_cmsg) (to_cmsg r j) obs.
