(** Data types of the option table extracted from tm/tmengine/opts.go, engine.go, mirror.go
    (filled by the structure extractor translate/c09_opts.go into Gen/Options.v). No proofs. *)
From Coq Require Import List String Bool.
Import ListNotations.

(** Which parameter of the [Opt] closure [func(e *Engine, smc *tmstate.StateMachineConfig) error] a write goes through. *)
Inductive target := TEngine | TSmc.

(** One assignment [<param>.<path> = <value>] in an option closure.  [w_field] is the normalised path
    ("e.mCfg.Store", "smc.ActionStore"); [w_guard] is the parameter tested by an enclosing [if <param> != nil]. *)
Record write := mk_write { w_target : target; w_field : string; w_guard : option target }.

Record optinfo := mk_opt {
  o_name : string;          (* WithX *)
  o_writes : list write;
  o_can_err : bool;         (* the closure can return a non-nil error (before any write) *)
  o_required_doc : bool     (* the doc comment says "This option is required." *)
}.

Inductive cond :=
| CNil (f : string)         (* f == nil *)
| CNotNil (f : string)      (* f != nil *)
| CEmpty (f : string)       (* len(f...) == 0 *)
| CAnd (a b : cond).

(** [if cond { err = errors.Join(err, errors.New("... (use tmengine.<v_option>)")) }] *)
Record vcheck := mk_vcheck { v_cond : cond; v_option : string }.

(** [dst = src.<field>] between the option loop and validation; [d_guarded]: inside [if src != nil]. *)
Record derived := mk_derived { d_dst : string; d_src : string; d_guarded : bool; d_uninit_only : bool }.
(** [d_uninit_only]: the copy happens only on an uninitialised chain; otherwise the value is loaded from the
    finalization store (tmengine.New: the initial validator set). *)

Record ctor := mk_ctor {
  c_name : string;
  c_smc_nil : bool;            (* options are applied as opt(e, nil) *)
  c_accumulates : bool;        (* err = errors.Join(err, opt(...)) rather than err = errors.Join(opt(...)) *)
  c_derived : list derived;
  c_checks : list vcheck;      (* the validate*Settings function, in order *)
  c_late_checks : list vcheck; (* nil checks with a descriptive error after validation, reached only on an uninitialised chain *)
  c_final_checks : list vcheck; (* checks with a descriptive error just before the subsystems are started *)
  c_sink_panics : list cond;   (* conditions under which the started subsystem (tmi.NewKernel) panics *)
  c_reads : list string        (* prefixes of the configuration fields this constructor consumes *)
}.
