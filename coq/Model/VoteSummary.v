(** Executable model of tm/tmconsensus/votesummary.go (SetAvailablePower, SetPrevotePowers /
    SetPrecommitPowers -- the two Go methods are the same text up to the field names, the model has
    one function used for both kinds), of tmi/votedistribution.go (newVoteDistribution) and of the
    threshold comparisons the mirror kernel makes on a summary (tmi/kernel.go
    checkPrevoteViewShift, checkNextRoundPrecommitViewShift, checkVotingPrecommitViewShift).

    Conventions (DESIGN 3): powers are uint64 -> N with explicit wrap64 on every addition;
    a validator list is the list of its powers (index = key index of the proofs);
    a proof's SignatureBitSet is an N used as a bit mask; a Go map from block hash to proof is a
    list of (hash, mask) entries in ITERATION order (Go chooses the order; theorems quantify over
    all permutations).  No proofs in this file. *)
From Coq Require Import List NArith Bool String.
From GV Require Import Base.Ints Gen.Math.
Import ListNotations.
Local Open Scope N_scope.

Definition hash := list N.
Notation entry := (hash * N)%type (only parsing).

(** for i, ok := bs.NextSet(0); ok && int(i) < len(vals); i, ok = bs.NextSet(i + 1) { acc += vals[i].Power }
    The Go loop visits the set bits in increasing order and stops at the first index >= len(vals);
    that is: every index below len(vals) whose bit is set, in increasing order. *)
Fixpoint bits_power (i : N) (vals : list N) (mask : N) (acc : N) : N :=
  match vals with
  | [] => acc
  | p :: vs => bits_power (N.succ i) vs mask (if N.testbit mask i then wrap64 (acc + p) else acc)
  end.

(** func (vs *VoteSummary) SetAvailablePower(vals []Validator) *)
Definition set_available (vals : list N) : N :=
  fold_left (fun acc p => wrap64 (acc + p)) vals 0.

(** Go's builtin min on strings: min(x, y) = y if y < x else x. *)
Definition str_min (a b : hash) : hash := if bytes_ltb b a then b else a.

(** m[k] = v on a Go map held as an association list with unique keys. *)
Fixpoint map_set (m : list (hash * N)) (k : hash) (v : N) : list (hash * N) :=
  match m with
  | [] => [(k, v)]
  | (k', v') :: m' => if bytes_eqb k' k then (k, v) :: m' else (k', v') :: map_set m' k v
  end.

(** Loop state of SetPrevotePowers: the union bitset [present], the block power map,
    maxHash, maxPow. *)
Record acc := mk_acc { a_present : N; a_block : list (hash * N); a_maxhash : hash; a_maxpow : N }.

Definition acc0 : acc := mk_acc 0 [] [] 0.

(** One iteration of `for blockHash, proof := range prevotes`. *)
Definition step_entry (vals : list N) (a : acc) (e : entry) : acc :=
  let '(h, mask) := e in
  let block_pow := bits_power 0 vals mask 0 in
  let present := N.lor (a_present a) mask in
  let block := map_set (a_block a) h block_pow in
  if N.eqb block_pow (a_maxpow a) then
    mk_acc present block (str_min (a_maxhash a) h) (a_maxpow a)
  else if N.ltb (a_maxpow a) block_pow then
    mk_acc present block h block_pow
  else
    mk_acc present block (a_maxhash a) (a_maxpow a).

(** What one of SetPrevotePowers / SetPrecommitPowers writes into the summary. *)
Record powers := mk_powers { p_total : N; p_block : list (hash * N); p_most : hash }.

Definition set_powers (vals : list N) (entries : list entry) : powers :=
  let a := fold_left (step_entry vals) entries acc0 in
  mk_powers (bits_power 0 vals (a_present a) 0) (a_block a) (a_maxhash a).

(** The whole VoteSummary after SetAvailablePower + SetVotePowers. *)
Record vote_summary := mk_vs {
  vs_available : N;
  vs_total_prevote : N; vs_total_precommit : N;
  vs_prevote_block : list (hash * N); vs_precommit_block : list (hash * N);
  vs_most_prevote : hash; vs_most_precommit : hash }.

Definition summarize (vals : list N) (prevotes precommits : list entry) : vote_summary :=
  let pv := set_powers vals prevotes in
  let pc := set_powers vals precommits in
  mk_vs (set_available vals) (p_total pv) (p_total pc) (p_block pv) (p_block pc) (p_most pv) (p_most pc).

(** tmi/votedistribution.go newVoteDistribution: BlockVotePower[hash] += pow only creates a key
    when at least one counted bit is set. *)
Fixpoint map_add (m : list (hash * N)) (k : hash) (v : N) : list (hash * N) :=
  match m with
  | [] => [(k, wrap64 (0 + v))]
  | (k', v') :: m' => if bytes_eqb k' k then (k, wrap64 (v' + v)) :: m' else (k', v') :: map_add m' k v
  end.

Fixpoint dist_entry (i : N) (vals : list N) (mask : N) (h : hash) (m : list (hash * N)) : list (hash * N) :=
  match vals with
  | [] => m
  | p :: vs => dist_entry (N.succ i) vs mask h (if N.testbit mask i then map_add m h p else m)
  end.

Record distribution := mk_dist { d_available : N; d_present : N; d_block : list (hash * N) }.

Definition vote_distribution (vals : list N) (entries : list entry) : distribution :=
  let '(present, block) :=
    fold_left (fun (st : N * list (hash * N)) (e : entry) =>
                 (N.lor (fst st) (snd e), dist_entry 0 vals (snd e) (fst e) (snd st)))
              entries (0, []) in
  mk_dist (set_available vals) (bits_power 0 vals present 0) block.

(** * The comparisons the mirror kernel makes on a summary (tmi/kernel.go). *)

(** checkPrevoteViewShift (NextRound view): `if vs.TotalPrevotePower < min { return nil }`, otherwise
    jumpVotingRound.  Result: does the voting round jump?  ByzantineMinority panics on 0. *)
Definition prevote_view_shift (vs : vote_summary) : res bool :=
  bind (byz_minority (vs_available vs)) (fun min =>
  Ok (negb (vs_total_prevote vs <? min))).

(** checkNextRoundPrecommitViewShift. *)
Inductive nr_outcome := NRNothing | NRJump | NRJumpThenTodoPanic.

Definition next_round_precommit_view_shift (vs : vote_summary) : res nr_outcome :=
  bind (byz_minority (vs_available vs)) (fun min =>
  if vs_total_precommit vs <? min then Ok NRNothing
  else
    bind (byz_majority (vs_available vs)) (fun maj =>
    if maj <=? map_get (vs_precommit_block vs) (vs_most_precommit vs)
    then Ok NRJumpThenTodoPanic else Ok NRJump)).

(** checkVotingPrecommitViewShift, up to the point where the decision is taken. *)
Inductive vp_outcome := VPNothing | VPAdvanceFullyVoted | VPAdvanceNil | VPCommitBlock.

Definition voting_precommit_view_shift (vs : vote_summary) : res vp_outcome :=
  bind (byz_majority (vs_available vs)) (fun maj =>
  let highest := map_get (vs_precommit_block vs) (vs_most_precommit vs) in
  if highest <? maj then
    if vs_total_precommit vs =? vs_available vs then Ok VPAdvanceFullyVoted else Ok VPNothing
  else
    if bytes_eqb (vs_most_precommit vs) [] then Ok VPAdvanceNil else Ok VPCommitBlock).

(** * Specification vocabulary (used by the monitor and the theorems). *)

(** Power of the validators with index < len vals whose bit is set in [mask]. *)
Fixpoint mask_power_from (i : N) (vals : list N) (mask : N) : N :=
  match vals with
  | [] => 0
  | p :: vs => (if N.testbit mask i then p else 0) + mask_power_from (N.succ i) vs mask
  end.
Definition mask_power (vals : list N) (mask : N) : N := mask_power_from 0 vals mask.
Definition sum_powers (vals : list N) : N := fold_right N.add 0 vals.
Definition union_mask (entries : list entry) : N := fold_right (fun e u => N.lor (snd e) u) 0 entries.
Definition max_power (vals : list N) (entries : list entry) : N :=
  fold_right (fun e m => N.max (mask_power vals (snd e)) m) 0 entries.
