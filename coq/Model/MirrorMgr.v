(** The two view managers of the mirror kernel (tmi/statemachineviewmanager.go,
    tmi/gossipviewmanager.go) as a fold over the events the kernel model raises, and the
    consumer-facing operations: state-machine round entrance, state-machine reads, gossip reads, and the
    local validator's own actions (handleStateMachineAction).
    No proofs here. *)
From Coq Require Import List NArith Bool String.
From GV Require Import Base.Ints Gen.Math Gen.Kernel Model.Mirror.
Import ListNotations.
Local Open Scope N_scope.

(** * stateMachineViewManager *)
Record smm := mk_smm {
  smm_h : N; smm_r : N;             (* roundEntrance.H / R *)
  smm_last : N;                     (* lastSentVersion *)
  smm_jump : option view;           (* jumpAhead *)
  smm_out : view;                   (* outgoingView *)
  smm_key : option N                (* roundEntrance.PubKey: the local validator's key, if it has one *)
}.
Definition smm0 : smm := mk_smm 0 0 0 None zero_view None.

(** OutgoingView of the gossip manager: the view and what was last sent of it *)
Record gout := mk_gout { go_v : view; go_sent : N * N * N }.
Definition gout0 : gout := mk_gout zero_view (0, 0, 0).
Definition go_has_been_sent (g : gout) : bool :=
  let '(h, r, v) := go_sent g in (h =? v_h (go_v g)) && (r =? v_r (go_v g)) && (v =? v_ver (go_v g)).
Definition go_mark_sent (g : gout) : gout := mk_gout (go_v g) (v_h (go_v g), v_r (go_v g), v_ver (go_v g)).

Record gm := mk_gm { gm_com : gout; gm_vot : gout; gm_nxt : gout; gm_nil : option view }.
Definition gm0 : gm := mk_gm gout0 gout0 gout0 None.

Record mgrs := mk_mgrs { m_sm : smm; m_g : gm; m_committed : list N (* heights signalled on HeightCommitted *) }.
Definition mgrs0 : mgrs := mk_mgrs smm0 gm0 [].

Definition sm_set_view (m : smm) (v : view) : smm := mk_smm (smm_h m) (smm_r m) (smm_last m) (smm_jump m) v (smm_key m).
Definition sm_jump_to (m : smm) (v : view) : smm := mk_smm (smm_h m) (smm_r m) (smm_last m) (Some v) (smm_out m) (smm_key m).

(** one kernel event *)
Definition mgr_step (m : mgrs) (e : mev) : mgrs :=
  let sm := m_sm m in let g := m_g m in
  match e with
  | EvMark vid v =>
      if vid =? ViewIDVoting then
        mk_mgrs (if (smm_h sm =? v_h v) && (smm_r sm =? v_r v) then sm_set_view sm v else sm)
                (mk_gm (gm_com g) (mk_gout v (go_sent (gm_vot g))) (gm_nxt g) (gm_nil g)) (m_committed m)
      else if vid =? ViewIDCommitting then
        mk_mgrs (if (smm_h sm =? v_h v) && (smm_r sm =? v_r v) then sm_set_view sm v
                 else if (smm_h sm <? v_h v) || ((smm_h sm =? v_h v) && (smm_r sm <? v_r v)) then sm_jump_to sm v
                 else sm)
                (mk_gm (mk_gout v (go_sent (gm_com g))) (gm_vot g) (gm_nxt g) (gm_nil g)) (m_committed m)
      else
        mk_mgrs sm (mk_gm (gm_com g) (gm_vot g) (mk_gout v (go_sent (gm_nxt g))) (gm_nil g)) (m_committed m)
  | EvNil v => mk_mgrs sm (mk_gm (gm_com g) (gm_vot g) (gm_nxt g) (Some v)) (m_committed m)
  | EvJump v =>
      mk_mgrs (if (smm_h sm =? v_h v) && (smm_r sm =? sub32 (v_r v) 1) then sm_jump_to sm v else sm) g (m_committed m)
  | EvCommitted h =>
      (* closes the state machine's HeightCommitted channel when it waits at the committing height *)
      mk_mgrs sm g (if (smm_h sm =? h) && negb (smm_h sm =? 0) then m_committed m ++ [h] else m_committed m)
  end.

(** * Outputs *)
(** stateMachineViewManager.Output: (VRV?, JumpAhead?, sentVersion) *)
Definition sm_output (m : smm) : option (option view * option view * N) :=
  let first :=
    if (v_h (smm_out m) =? smm_h m) && (v_r (smm_out m) =? smm_r m) then
      let '(jv, sv) := match smm_jump m with Some j => (Some j, smm_last m) | None => (None, 0) end in
      let '(vv, sv') := if smm_last m <? v_ver (smm_out m) then (Some (smm_out m), v_ver (smm_out m)) else (None, sv) in
      if 0 <? sv' then Some (vv, jv, sv') else None
    else None in
  match first with
  | Some x => Some x
  | None =>
      match smm_jump m with
      | Some j => if (v_h j =? smm_h m) && (smm_r m <? v_r j) then Some (None, Some j, smm_last m) else None
      | None => None
      end
  end.

Definition sm_mark_sent (m : smm) (sv : N) : smm := mk_smm (smm_h m) (smm_r m) sv None (smm_out m) (smm_key m).

(** gossipViewManager.Output (views only; round-session changes are not modelled) *)
Definition g_output (g : gm) : option (option view * option view * option view * option view) :=
  let c := if go_has_been_sent (gm_com g) then None else Some (go_v (gm_com g)) in
  let v := if go_has_been_sent (gm_vot g) then None else Some (go_v (gm_vot g)) in
  let n := if go_has_been_sent (gm_nxt g) then None else Some (go_v (gm_nxt g)) in
  match c, v, n, gm_nil g with
  | None, None, None, None => None
  | _, _, _, nl => Some (c, v, n, nl)
  end.

Definition g_mark_sent (g : gm) : gm :=
  mk_gm (if go_has_been_sent (gm_com g) then gm_com g else go_mark_sent (gm_com g))
        (if go_has_been_sent (gm_vot g) then gm_vot g else go_mark_sent (gm_vot g))
        (if go_has_been_sent (gm_nxt g) then gm_nxt g else go_mark_sent (gm_nxt g))
        None.

(** * Mirror + managers *)
Record mstate := mk_ms { ms_k : kstate; ms_m : mgrs }.

Definition ms_init (ih : N) (vs : valset) : mstate :=
  let k := init_state ih vs in mk_ms k (fold_left mgr_step (st_ev k) mgrs0).

(** * The local validator's actions (kernel.go handleStateMachineAction)

    The state machine hands the mirror its own proposed header, prevote and precommit through the
    action channel of its round entrance.  The height and round of a vote are those of the state-machine
    view manager's current entrance; the signature is filed under the entrance's public key. *)

(** [SimpleCommonMessageSignatureProof.keyIdxs]: the index a key is filed under is the LAST position of
    the candidate list holding it ([keyIdxs[string(k.PubKeyBytes())] = i] overwrites). *)
Fixpoint key_index (keys : list N) (key : N) : option N :=
  match keys with
  | [] => None
  | k :: t =>
      match key_index t key with
      | Some i => Some (i + 1)
      | None => if k =? key then Some 0 else None
      end
  end.

(** a vote action.  [h], [r], [key]: the entrance.  The sign content the state machine passes along for a
    first vote is the sign bytes of (kind, h, r, target) - ideal-signature convention: the signature
    verifies iff it is [SVote key kind h r target]. *)
Definition act_vote (kind : N) (s : kstate) (h r : N) (key : option N) (target : bytes) (sg : sigd) : res kstate :=
  bind (find_view (kpos_of s) h r) (fun fv =>
  let '(vid, _) := fv in
  (* "Dropping state machine vote due to not matching voting or committing view" *)
  if negb ((vid =? ViewIDVoting) || (vid =? ViewIDCommitting)) then Ok s else
  let v := get_view s vid in
  (* the existing proof for the target (cloned), or a fresh one over the FOUND view's keys *)
  bind (match pm_get (view_votes kind v) target with
        | Some p => Ok p
        | None =>
            match vs_keys (v_vals v) with
            | [] => Panic "NewSimpleCommonMessageSignatureProof: BUG: requires len(candidateKeys) > 0"
            | _ => Ok []
            end
        end) (fun base =>
  (* AddSignature(sig, StateMachineViewManager.PubKey()) *)
  match key with
  | None => Panic "handleStateMachineAction: AddSignature with a nil public key"
  | Some k =>
      match key_index (vs_keys (v_vals v)) k with
      | None => Ok s                                      (* ErrUnknownKey: logged, dropped *)
      | Some i =>
          if verify_vote k kind h r target sg
          then
            (* addPrevote / addPrecommit with one update whose version matches: the proof is replaced,
               summary, version bump, mark, round-store write - also when the signature was already held *)
            apply_votes kind s vid h r [(target, add_sig base i sg)]
          else Ok s                                       (* ErrInvalidSignature: logged, dropped *)
      end
  end)).

(** a proposed-header action: addProposedHeader directly, WITHOUT any of the checks of HandleProposedHeader *)
Definition act_ph (s : kstate) (p : ph) : res kstate :=
  match hd_hash (ph_hdr p) with
  | [] => Panic "handleStateMachineAction: BUG: no state machine action present"
  | _ => add_ph s p
  end.

Inductive lact :=
| ActPrevote (target : bytes) (sg : sigd)
| ActPrecommit (target : bytes) (sg : sigd)
| ActPH (p : ph).

Definition act_step (s : kstate) (h r : N) (key : option N) (a : lact) : res kstate :=
  match a with
  | ActPrevote target sg => act_vote KPrevote s h r key target sg
  | ActPrecommit target sg => act_vote KPrecommit s h r key target sg
  | ActPH p => act_ph s p
  end.

(** consumer-facing operations *)
Inductive mop :=
| MK (x : xop)                      (* a kernel operation (message, crash, restart) *)
| MEnter (h r : N)                  (* state machine enters a round (without a validator key) *)
| MSMRead                           (* state machine receives from its view channel, if anything is offered *)
| MGRead                            (* gossip strategy receives, if anything is offered *)
| MEnterK (h r : N) (key : option N) (* state machine enters a round and names its validator key *)
| MAct (a : lact).                  (* the state machine's own proposed header / prevote / precommit *)

Definition MActPrevote (target : bytes) (sg : sigd) : mop := MAct (ActPrevote target sg).
Definition MActPrecommit (target : bytes) (sg : sigd) : mop := MAct (ActPrecommit target sg).
Definition MActPH (p : ph) : mop := MAct (ActPH p).

(** what the consumer got from the operation *)
Inductive mio :=
| IONone
| IOEnterView (v : view)
| IOEnterHeader (x : hdr) (cp : cproof)
| IOSM (vrv : option view) (jump : option view)
| IOGossip (c v n nl : option view)
| IOEmpty                            (* nothing was offered to the state machine *)
| IOGEmpty                           (* nothing was offered to the gossip strategy *)
| IORestarted.                       (* the mirror process was restarted (consumers start over too) *)

Definition is_restart_x (x : xop) : bool := match x with XOp _ => false | _ => true end.

(** handleStateMachineRoundEntrance: Reset, then respond with the view or a committed header *)
Local Notation enter_body s h r key :=
  (let sm := mk_smm h r 0 None (smm_out (m_sm (ms_m s))) key in
   bind (find_view (kpos_of (ms_k s)) h r) (fun fv =>
   let '(vid, st) := fv in
   if st =? ViewFound then
     let v := get_view (ms_k s) vid in
     Ok (mk_ms (ms_k s) (mk_mgrs (mk_smm h r (v_ver v) None (smm_out sm) key) (m_g (ms_m s)) (m_committed (ms_m s))), 0, IOEnterView v)
   else if st =? ViewBeforeCommitting then
     match hdr_get (st_hdrs (ms_k s)) h with
     | Some (x, cp) => Ok (mk_ms (ms_k s) (mk_mgrs sm (m_g (ms_m s)) (m_committed (ms_m s))), 0, IOEnterHeader x cp)
     | None => Panic "handleStateMachineRoundEntrance: failed to load block from the header store"
     end
   else Panic "handleStateMachineRoundEntrance: TODO: handle view not found")).

Definition mstep (s : mstate) (o : mop) : res (mstate * N * mio) :=
  match o with
  | MK x =>
      bind (xstep (ms_k s) x) (fun kr =>
      let '(k', r) := kr in
      if is_restart_x x then
        (* a new process: fresh managers, fed by the start-up events *)
        Ok (mk_ms k' (fold_left mgr_step (st_ev k') mgrs0), r, IORestarted)
      else
        let evs := skipn (List.length (st_ev (ms_k s))) (st_ev k') in
        Ok (mk_ms k' (fold_left mgr_step evs (ms_m s)), r, IONone))
  | MEnter h r => enter_body s h r (@None N)
  | MEnterK h r key => enter_body s h r key
  | MSMRead =>
      match sm_output (m_sm (ms_m s)) with
      | Some (vv, jv, sv) =>
          Ok (mk_ms (ms_k s) (mk_mgrs (sm_mark_sent (m_sm (ms_m s)) sv) (m_g (ms_m s)) (m_committed (ms_m s))), 0, IOSM vv jv)
      | None => Ok (s, 0, IOEmpty)
      end
  | MGRead =>
      match g_output (m_g (ms_m s)) with
      | Some (c, v, n, nl) =>
          Ok (mk_ms (ms_k s) (mk_mgrs (m_sm (ms_m s)) (g_mark_sent (m_g (ms_m s))) (m_committed (ms_m s))), 0, IOGossip c v n nl)
      | None => Ok (s, 0, IOGEmpty)
      end
  | MAct a =>
      (* handleStateMachineAction: a kernel-state change whose events reach the managers like those of a message *)
      let sm := m_sm (ms_m s) in
      bind (act_step (ms_k s) (smm_h sm) (smm_r sm) (smm_key sm) a) (fun k' =>
      let evs := skipn (List.length (st_ev (ms_k s))) (st_ev k') in
      Ok (mk_ms k' (fold_left mgr_step evs (ms_m s)), 0, IONone))
  end.
