(** The two view managers of the mirror kernel (tmi/statemachineviewmanager.go,
    tmi/gossipviewmanager.go) as a fold over the events the kernel model raises, and the
    consumer-facing operations: state-machine round entrance, state-machine reads, gossip reads.
    No proofs here. *)
From Coq Require Import List NArith Bool String.
From GV Require Import Base.Ints Gen.Math Gen.Kernel Model.Mirror.
Import ListNotations.
Local Open Scope N_scope.

(** * stateMachineViewManager *)
Record smm := mk_smm {
  smm_h : N; smm_r : N;             (* roundEntrance.H / R *)
  smm_last : N;                     (* lastSentVersion *)
  smm_jump : option view;           (* jumpAhead *)
  smm_out : view                    (* outgoingView *)
}.
Definition smm0 : smm := mk_smm 0 0 0 None zero_view.

(** OutgoingView of the gossip manager: the view and what was last sent of it *)
Record gout := mk_gout { go_v : view; go_sent : N * N * N }.
Definition gout0 : gout := mk_gout zero_view (0, 0, 0).
Definition go_has_been_sent (g : gout) : bool :=
  let '(h, r, v) := go_sent g in (h =? v_h (go_v g)) && (r =? v_r (go_v g)) && (v =? v_ver (go_v g)).
Definition go_mark_sent (g : gout) : gout := mk_gout (go_v g) (v_h (go_v g), v_r (go_v g), v_ver (go_v g)).

Record gm := mk_gm { gm_com : gout; gm_vot : gout; gm_nxt : gout; gm_nil : option view }.
Definition gm0 : gm := mk_gm gout0 gout0 gout0 None.

Record mgrs := mk_mgrs { m_sm : smm; m_g : gm; m_committed : list N (* heights signalled on HeightCommitted *) }.
Definition mgrs0 : mgrs := mk_mgrs smm0 gm0 [].

Definition sm_set_view (m : smm) (v : view) : smm := mk_smm (smm_h m) (smm_r m) (smm_last m) (smm_jump m) v.
Definition sm_jump_to (m : smm) (v : view) : smm := mk_smm (smm_h m) (smm_r m) (smm_last m) (Some v) (smm_out m).

(** one kernel event *)
Definition mgr_step (m : mgrs) (e : mev) : mgrs :=
  let sm := m_sm m in let g := m_g m in
  match e with
  | EvMark vid v =>
      if vid =? ViewIDVoting then
        mk_mgrs (if (smm_h sm =? v_h v) && (smm_r sm =? v_r v) then sm_set_view sm v else sm)
                (mk_gm (gm_com g) (mk_gout v (go_sent (gm_vot g))) (gm_nxt g) (gm_nil g)) (m_committed m)
      else if vid =? ViewIDCommitting then
        mk_mgrs (if (smm_h sm =? v_h v) && (smm_r sm =? v_r v) then sm_set_view sm v
                 else if (smm_h sm <? v_h v) || ((smm_h sm =? v_h v) && (smm_r sm <? v_r v)) then sm_jump_to sm v
                 else sm)
                (mk_gm (mk_gout v (go_sent (gm_com g))) (gm_vot g) (gm_nxt g) (gm_nil g)) (m_committed m)
      else
        mk_mgrs sm (mk_gm (gm_com g) (gm_vot g) (mk_gout v (go_sent (gm_nxt g))) (gm_nil g)) (m_committed m)
  | EvNil v => mk_mgrs sm (mk_gm (gm_com g) (gm_vot g) (gm_nxt g) (Some v)) (m_committed m)
  | EvJump v =>
      mk_mgrs (if (smm_h sm =? v_h v) && (smm_r sm =? sub32 (v_r v) 1) then sm_jump_to sm v else sm) g (m_committed m)
  | EvCommitted h =>
      (* closes the state machine's HeightCommitted channel when it waits at the committing height *)
      mk_mgrs sm g (if (smm_h sm =? h) && negb (smm_h sm =? 0) then m_committed m ++ [h] else m_committed m)
  end.

(** * Outputs *)
(** stateMachineViewManager.Output: (VRV?, JumpAhead?, sentVersion) *)
Definition sm_output (m : smm) : option (option view * option view * N) :=
  let first :=
    if (v_h (smm_out m) =? smm_h m) && (v_r (smm_out m) =? smm_r m) then
      let '(jv, sv) := match smm_jump m with Some j => (Some j, smm_last m) | None => (None, 0) end in
      let '(vv, sv') := if smm_last m <? v_ver (smm_out m) then (Some (smm_out m), v_ver (smm_out m)) else (None, sv) in
      if 0 <? sv' then Some (vv, jv, sv') else None
    else None in
  match first with
  | Some x => Some x
  | None =>
      match smm_jump m with
      | Some j => if (v_h j =? smm_h m) && (smm_r m <? v_r j) then Some (None, Some j, smm_last m) else None
      | None => None
      end
  end.

Definition sm_mark_sent (m : smm) (sv : N) : smm := mk_smm (smm_h m) (smm_r m) sv None (smm_out m).

(** gossipViewManager.Output (views only; round-session changes are not modelled) *)
Definition g_output (g : gm) : option (option view * option view * option view * option view) :=
  let c := if go_has_been_sent (gm_com g) then None else Some (go_v (gm_com g)) in
  let v := if go_has_been_sent (gm_vot g) then None else Some (go_v (gm_vot g)) in
  let n := if go_has_been_sent (gm_nxt g) then None else Some (go_v (gm_nxt g)) in
  match c, v, n, gm_nil g with
  | None, None, None, None => None
  | _, _, _, nl => Some (c, v, n, nl)
  end.

Definition g_mark_sent (g : gm) : gm :=
  mk_gm (if go_has_been_sent (gm_com g) then gm_com g else go_mark_sent (gm_com g))
        (if go_has_been_sent (gm_vot g) then gm_vot g else go_mark_sent (gm_vot g))
        (if go_has_been_sent (gm_nxt g) then gm_nxt g else go_mark_sent (gm_nxt g))
        None.

(** * Mirror + managers *)
Record mstate := mk_ms { ms_k : kstate; ms_m : mgrs }.

Definition ms_init (ih : N) (vs : valset) : mstate :=
  let k := init_state ih vs in mk_ms k (fold_left mgr_step (st_ev k) mgrs0).

(** consumer-facing operations *)
Inductive mop :=
| MK (x : xop)                      (* a kernel operation (message, crash, restart) *)
| MEnter (h r : N)                  (* state machine enters a round *)
| MSMRead                           (* state machine receives from its view channel, if anything is offered *)
| MGRead.                           (* gossip strategy receives, if anything is offered *)

(** what the consumer got from the operation *)
Inductive mio :=
| IONone
| IOEnterView (v : view)
| IOEnterHeader (x : hdr) (cp : cproof)
| IOSM (vrv : option view) (jump : option view)
| IOGossip (c v n nl : option view)
| IOEmpty                            (* nothing was offered to the state machine *)
| IOGEmpty                           (* nothing was offered to the gossip strategy *)
| IORestarted.                       (* the mirror process was restarted (consumers start over too) *)

Definition is_restart_x (x : xop) : bool := match x with XOp _ => false | _ => true end.

Definition mstep (s : mstate) (o : mop) : res (mstate * N * mio) :=
  match o with
  | MK x =>
      bind (xstep (ms_k s) x) (fun kr =>
      let '(k', r) := kr in
      if is_restart_x x then
        (* a new process: fresh managers, fed by the start-up events *)
        Ok (mk_ms k' (fold_left mgr_step (st_ev k') mgrs0), r, IORestarted)
      else
        let evs := skipn (List.length (st_ev (ms_k s))) (st_ev k') in
        Ok (mk_ms k' (fold_left mgr_step evs (ms_m s)), r, IONone))
  | MEnter h r =>
      (* handleStateMachineRoundEntrance: Reset, then respond with the view or a committed header *)
      let sm := mk_smm h r 0 None (smm_out (m_sm (ms_m s))) in
      bind (find_view (kpos_of (ms_k s)) h r) (fun fv =>
      let '(vid, st) := fv in
      if st =? ViewFound then
        let v := get_view (ms_k s) vid in
        Ok (mk_ms (ms_k s) (mk_mgrs (mk_smm h r (v_ver v) None (smm_out sm)) (m_g (ms_m s)) (m_committed (ms_m s))), 0, IOEnterView v)
      else if st =? ViewBeforeCommitting then
        match hdr_get (st_hdrs (ms_k s)) h with
        | Some (x, cp) => Ok (mk_ms (ms_k s) (mk_mgrs sm (m_g (ms_m s)) (m_committed (ms_m s))), 0, IOEnterHeader x cp)
        | None => Panic "handleStateMachineRoundEntrance: failed to load block from the header store"
        end
      else Panic "handleStateMachineRoundEntrance: TODO: handle view not found")
  | MSMRead =>
      match sm_output (m_sm (ms_m s)) with
      | Some (vv, jv, sv) =>
          Ok (mk_ms (ms_k s) (mk_mgrs (sm_mark_sent (m_sm (ms_m s)) sv) (m_g (ms_m s)) (m_committed (ms_m s))), 0, IOSM vv jv)
      | None => Ok (s, 0, IOEmpty)
      end
  | MGRead =>
      match g_output (m_g (ms_m s)) with
      | Some (c, v, n, nl) =>
          Ok (mk_ms (ms_k s) (mk_mgrs (m_sm (ms_m s)) (g_mark_sent (m_g (ms_m s))) (m_committed (ms_m s))), 0, IOGossip c v n nl)
      | None => Ok (s, 0, IOGEmpty)
      end
  end.
